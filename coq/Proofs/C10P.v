(* C10 - the line-fold parse_config is a homomorphism from text concatenation to _merge_configs
   (on everything but `default`), the three layers behave like one concatenated file, absent layers,
   and the `default` counterexample. *)
From DippyV Require Import Base.Str Model.Layers Proofs.DictP Proofs.LayersP.

(* ------------------------------------------------------------------ text.split("\n") *)
Lemma split_ch_aux_app c a b : forall cur,
  split_ch_aux c (a ++ c :: b) cur = split_ch_aux c a cur ++ split_ch_aux c b [].
Proof.
  induction a as [|x a IH]; intro cur; cbn [app split_ch_aux].
  - rewrite N.eqb_refl. reflexivity.
  - destruct (N.eqb x c); [cbn [app]; f_equal|]; apply IH.
Qed.
Lemma split_ch_app c a b : split_ch c (a ++ c :: b) = split_ch c a ++ split_ch c b.
Proof. apply split_ch_aux_app. Qed.

(* ------------------------------------------------------------------ what a list of line effects builds *)
Definition rules_of (f : family) (l : list item) : list rule :=
  flat_map (fun i => match i with
                     | IRule g r => match f, g with
                                    | FCmd, FCmd | FRedirect, FRedirect | FAfter, FAfter | FMcp, FMcp | FAfterMcp, FAfterMcp => [r]
                                    | _, _ => []
                                    end
                     | _ => [] end) l.
Definition alias_of (l : list item) : list (str * str) :=
  flat_map (fun i => match i with IAlias k v => [(k, v)] | _ => [] end) l.
Fixpoint last_log (l : list item) (acc : option str) : option str :=
  match l with [] => acc | ISetLog p :: r => last_log r (Some p) | _ :: r => last_log r acc end.
Fixpoint last_default (l : list item) (acc : str) : str :=
  match l with [] => acc | ISetDefault v :: r => last_default r v | _ :: r => last_default r acc end.
Definition has_log_full (l : list item) : bool :=
  existsb (fun i => match i with ISetLogFull => true | _ => false end) l.

Lemma fold_fam f l : forall c, fam f (fold_left apply_item l c) = fam f c ++ rules_of f l.
Proof.
  induction l as [|i l IH]; intro c; cbn [fold_left rules_of flat_map]; [rewrite app_nil_r; reflexivity|].
  rewrite IH. fold (rules_of f l).
  destruct i as [g r| | | |]; try (destruct f; reflexivity).
  destruct f, g; cbn [apply_item fam rules redirect_rules after_rules mcp_rules after_mcp_rules app];
    rewrite <- ?app_assoc; reflexivity.
Qed.
Lemma fold_aliases l : forall c, aliases (fold_left apply_item l c) = dict_setall (alias_of l) (aliases c).
Proof.
  induction l as [|i l IH]; intro c; cbn [fold_left alias_of flat_map]; [reflexivity|].
  rewrite IH. fold (alias_of l). destruct i as [[] r| | | |]; reflexivity.
Qed.
Lemma fold_log l : forall c, log (fold_left apply_item l c) = last_log l (log c).
Proof.
  induction l as [|i l IH]; intro c; cbn [fold_left last_log]; [reflexivity|].
  rewrite IH. destruct i as [[] r| | | |]; reflexivity.
Qed.
Lemma fold_default l : forall c, default (fold_left apply_item l c) = last_default l (default c).
Proof.
  induction l as [|i l IH]; intro c; cbn [fold_left last_default]; [reflexivity|].
  rewrite IH. destruct i as [[] r| | | |]; reflexivity.
Qed.
Lemma fold_log_full l : forall c, log_full (fold_left apply_item l c) = has_log_full l || log_full c.
Proof.
  induction l as [|i l IH]; intro c; cbn [fold_left has_log_full existsb]; [reflexivity|].
  rewrite IH. fold (has_log_full l). destruct i as [[] r| | | |]; cbn [apply_item log_full orb]; try reflexivity.
  rewrite !orb_true_r; reflexivity.
Qed.

Lemma last_log_app a b acc : last_log (a ++ b) acc = last_log b (last_log a acc).
Proof. revert acc; induction a as [|i a IH]; intro acc; cbn [app last_log]; [reflexivity|]. destruct i; apply IH. Qed.
Lemma last_default_app a b acc : last_default (a ++ b) acc = last_default b (last_default a acc).
Proof. revert acc; induction a as [|i a IH]; intro acc; cbn [app last_default]; [reflexivity|]. destruct i; apply IH. Qed.
Lemma last_log_acc b acc : last_log b acc = match last_log b None with Some p => Some p | None => acc end.
Proof.
  revert acc; induction b as [|i b IH]; intro acc; cbn [last_log]; [reflexivity|].
  destruct i; try apply IH. rewrite (IH (Some p)). destruct (last_log b None); reflexivity.
Qed.
Lemma rules_of_app f a b : rules_of f (a ++ b) = rules_of f a ++ rules_of f b.
Proof. apply flat_map_app. Qed.
Lemma alias_of_app a b : alias_of (a ++ b) = alias_of a ++ alias_of b.
Proof. apply flat_map_app. Qed.
Lemma has_log_full_app a b : has_log_full (a ++ b) = has_log_full a || has_log_full b.
Proof. apply existsb_app. Qed.

Lemma cfg_fam f l : fam f (cfg_of_items l) = rules_of f l.
Proof. unfold cfg_of_items. rewrite fold_fam. destruct f; reflexivity. Qed.
Lemma cfg_aliases l : aliases (cfg_of_items l) = dict_setall (alias_of l) [].
Proof. unfold cfg_of_items. rewrite fold_aliases. reflexivity. Qed.
Lemma cfg_log l : log (cfg_of_items l) = last_log l None.
Proof. unfold cfg_of_items. rewrite fold_log. reflexivity. Qed.
Lemma cfg_log_full l : log_full (cfg_of_items l) = has_log_full l.
Proof. unfold cfg_of_items. rewrite fold_log_full. cbn [empty_config log_full]. apply orb_false_r. Qed.
Lemma cfg_default l : default (cfg_of_items l) = last_default l s_ask.
Proof. unfold cfg_of_items. rewrite fold_default. reflexivity. Qed.

(* a parsed config's alias dict has no duplicate keys (it is a dict) *)
Lemma cfg_dict l : NoDup (keys (aliases (cfg_of_items l))).
Proof. rewrite cfg_aliases. apply dict_setall_nodup. constructor. Qed.

(* aliases: the later definition wins per key, exactly as in one file; insertion order included *)
Lemma items_aliases_hom a b :
  dict_merge (aliases (cfg_of_items a)) (aliases (cfg_of_items b)) = aliases (cfg_of_items (a ++ b)).
Proof.
  rewrite !cfg_aliases, alias_of_app, dict_setall_app. unfold dict_merge. apply dict_setall_canon.
Qed.

Lemma obs_rules_cfg l :
  observable (cfg_of_items l) =
  mkObs (map untag (rules_of FCmd l)) (map untag (rules_of FRedirect l)) (map untag (rules_of FAfter l))
        (map untag (rules_of FMcp l)) (map untag (rules_of FAfterMcp l))
        (dict_setall (alias_of l) []) (last_log l None) (has_log_full l).
Proof.
  unfold observable. rewrite <- (cfg_fam FCmd), <- (cfg_fam FRedirect), <- (cfg_fam FAfter), <- (cfg_fam FMcp),
    <- (cfg_fam FAfterMcp), <- cfg_aliases, <- cfg_log, <- cfg_log_full. reflexivity.
Qed.

(* the homomorphism, on lists of line effects *)
Theorem items_hom a b :
  observable (cfg_of_items (a ++ b)) = omerge (observable (cfg_of_items a)) (observable (cfg_of_items b)).
Proof.
  rewrite !obs_rules_cfg. unfold omerge; cbn [o_rules o_redirect o_after o_mcp o_after_mcp o_aliases o_log o_log_full].
  rewrite !rules_of_app, !map_app, alias_of_app, dict_setall_app, last_log_app, has_log_full_app.
  f_equal.
  - unfold dict_merge. symmetry. apply dict_setall_canon.
  - apply last_log_acc.
  - apply orb_comm.
Qed.

(* log-full can only be switched on: no later text switches it off, in one file as across layers *)
Lemma log_full_monotone a b : log_full (cfg_of_items a) = true -> log_full (cfg_of_items (a ++ b)) = true.
Proof. rewrite !cfg_log_full, has_log_full_app. intros ->; reflexivity. Qed.
Lemma merge_log_full_monotone x y : log_full x = true -> log_full (merge_configs x y) = true.
Proof. intro H; cbn. rewrite H. destruct (log_full y); reflexivity. Qed.

(* `default`: _merge_configs agrees with concatenation unless the later text says `set default ask` *)
Definition sets_default_ask (b : list item) : Prop := last_default b s_allow = s_ask.
Lemma last_default_acc b : (exists v, forall x, last_default b x = v) \/ (forall x, last_default b x = x).
Proof.
  induction b as [|i b IH]; cbn [last_default]; [right; reflexivity|].
  destruct i; try exact IH. left. destruct IH as [[w Hw]|Hid]; [exists w; intro; apply Hw|exists v; intro; apply Hid].
Qed.
Lemma default_partial a b : ~ sets_default_ask b ->
  default (merge_configs (cfg_of_items a) (cfg_of_items b)) = default (cfg_of_items (a ++ b)).
Proof.
  intro H. cbn [merge_configs default]. rewrite !cfg_default, last_default_app.
  destruct (last_default_acc b) as [[v Hv]|Hid].
  - rewrite !Hv. unfold sets_default_ask in H. rewrite Hv in H.
    destruct (str_eqb_spec v s_ask); [contradiction|reflexivity].
  - rewrite !Hid. rewrite str_eqb_refl. reflexivity.
Qed.

(* ------------------------------------------------------------------ the line-fold parser *)
Section Lines.
  Variable line_item : str -> option item.
  Notation parse := (parse_lines line_item).

  Lemma items_of_text_app a b : items_of_text line_item (a ++ nl :: b) = items_of_text line_item a ++ items_of_text line_item b.
  Proof. unfold items_of_text. rewrite split_ch_app, flat_map_app. reflexivity. Qed.
  Lemma lines_hom a b : observable (parse (a ++ nl :: b)) = omerge (observable (parse a)) (observable (parse b)).
  Proof. unfold parse_lines. rewrite items_of_text_app. apply items_hom. Qed.
  Lemma lines_nil : observable (parse []) = oempty.
  Proof. reflexivity. Qed.
  Lemma lines_dict s : NoDup (keys (aliases (parse s))).
  Proof. apply cfg_dict. Qed.

  Theorem lines_concat lay :
    res_map observable (load_config parse lay) = res_map (fun t => observable (parse (cat3 t))) (effective lay).
  Proof. apply load_concat; [exact lines_hom|exact lines_nil|exact lines_dict]. Qed.
End Lines.

(* ------------------------------------------------------------------ absent layers *)
Definition with_user (lay : layout) (p : place) : layout := mkLayout p (l_chain lay) (l_env lay).
Definition with_chain (lay : layout) (c : list place) : layout := mkLayout (l_user lay) c (l_env lay).
Definition with_env (lay : layout) (e : envl) : layout := mkLayout (l_user lay) (l_chain lay) e.
Definition empty_file (path : str) : place := mkPlace path (EFile (RText [])).
Definition env_skipped (e : envl) : Prop :=
  match e with EnvUnset | EnvEmpty | EnvNoUser => True | EnvAt p => notfile p end.

Lemma eff_at_notfile p d : notfile p -> eff_at p d = Ok None.
Proof. unfold notfile, eff_at. intros ->. reflexivity. Qed.
Lemma eff_project_notfile chain : Forall notfile chain -> eff_project chain = Ok None.
Proof.
  intro H. unfold eff_project. replace (nearest chain) with (@None place); [reflexivity|].
  rewrite <- (app_nil_r chain), nearest_skip by assumption. reflexivity.
Qed.
Lemma eff_project_empty_last chain path : Forall notfile chain ->
  eff_project (chain ++ [empty_file path]) = Ok (Some (path, [])).
Proof. intro H. unfold eff_project. rewrite nearest_skip by assumption. reflexivity. Qed.
Lemma eff_env_skipped e : env_skipped e -> eff_env e = Ok None.
Proof. destruct e as [| | |p]; cbn; try reflexivity. apply eff_at_notfile. Qed.

Section Absent.
  Variable parse : str -> config.
  Variable parse_nil : observable (parse []) = oempty.

  Lemma ofold_absent_user path p e : ofold parse (Some (path, []), p, e) = ofold parse (None, p, e).
  Proof. cbn [ofold]. rewrite (oadd_absent parse parse_nil). reflexivity. Qed.
  Lemma ofold_absent_project path u e : ofold parse (u, Some (path, []), e) = ofold parse (u, None, e).
  Proof. cbn [ofold]. rewrite (oadd_absent parse parse_nil). reflexivity. Qed.
  Lemma ofold_absent_env path u p : ofold parse (u, p, Some (path, [])) = ofold parse (u, p, None).
  Proof. cbn [ofold]. rewrite (oadd_absent parse parse_nil). reflexivity. Qed.

  Theorem absent_user lay path : notfile (l_user lay) ->
    res_map observable (load_config parse (with_user lay (empty_file path))) = res_map observable (load_config parse lay).
  Proof.
    intro H. rewrite !load_observable. unfold effective. cbn [with_user l_user l_chain l_env].
    rewrite (eff_at_notfile _ _ H). cbn [eff_at empty_file pl_entry is_file text_of res_map bind pl_path].
    destruct (eff_project (l_chain lay)) as [p| |]; cbn [bind]; try reflexivity.
    destruct (eff_env (l_env lay)) as [e| |]; cbn [bind]; try reflexivity.
    unfold res_map; cbn [bind]. rewrite ofold_absent_user. reflexivity.
  Qed.
  Theorem absent_project lay path : Forall notfile (l_chain lay) ->
    res_map observable (load_config parse (with_chain lay (l_chain lay ++ [empty_file path]))) =
    res_map observable (load_config parse lay).
  Proof.
    intro H. rewrite !load_observable. unfold effective. cbn [with_chain l_user l_chain l_env].
    rewrite (eff_project_notfile _ H), (eff_project_empty_last _ path H).
    destruct (eff_at (l_user lay) ConfigErr) as [u| |]; cbn [bind]; try reflexivity.
    destruct (eff_env (l_env lay)) as [e| |]; cbn [bind]; try reflexivity.
    unfold res_map; cbn [bind]. rewrite ofold_absent_project. reflexivity.
  Qed.
  Theorem absent_env lay path : env_skipped (l_env lay) ->
    res_map observable (load_config parse (with_env lay (EnvAt (empty_file path)))) =
    res_map observable (load_config parse lay).
  Proof.
    intro H. rewrite !load_observable. unfold effective. cbn [with_env l_user l_chain l_env].
    rewrite (eff_env_skipped _ H).
    destruct (eff_at (l_user lay) ConfigErr) as [u| |]; cbn [bind]; try reflexivity.
    destruct (eff_project (l_chain lay)) as [p| |]; cbn [bind]; try reflexivity.
    cbn [eff_env eff_at empty_file pl_entry is_file text_of res_map bind pl_path].
    unfold res_map; cbn [bind]. rewrite ofold_absent_env. reflexivity.
  Qed.
End Absent.

(* ------------------------------------------------------------------ `default` does not behave like concatenation *)
Definition file (path text : string) : place := mkPlace (s2l path) (EFile (RText (s2l text))).
Definition default_witness : layout :=
  mkLayout (file "/h/.dippy/config" "set default allow")
           [mkPlace $"/w/p/.dippy" EAbsent; file "/w/.dippy" "set default ask"; mkPlace $"/.dippy" EAbsent]
           EnvUnset.
Lemma default_refuted :
  exists lay t c, effective lay = Ok t /\ load_config mini_parse lay = Ok c /\
                  default c = s_allow /\ default (mini_parse (cat3 t)) = s_ask.
Proof.
  exists default_witness. eexists. eexists. split; [vm_compute; reflexivity|]. split; [vm_compute; reflexivity|].
  split; vm_compute; reflexivity.
Qed.
Lemma default_items_refuted :
  exists a b, default (merge_configs (cfg_of_items a) (cfg_of_items b)) <> default (cfg_of_items (a ++ b)).
Proof. exists [ISetDefault s_allow], [ISetDefault s_ask]. vm_compute. discriminate. Qed.
