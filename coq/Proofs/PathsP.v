(* The lexical normal form: idempotence, invariance under respelling, and the agreement of
   _normalize_path / _normalize_token with it under the symlink-free hypothesis. *)
From DippyV Require Import Base.Str Model.Fnmatch Model.Paths.

Notation SL := c_slash.

(* ---- splitting at a character ---- *)
Lemma splitc_nonempty c s : splitc c s <> [].
Proof. destruct s as [|x s]; cbn [splitc]; [discriminate|]. destruct (N.eqb x c); [discriminate|]. destruct (splitc c s); discriminate. Qed.

Lemma splitc_app c a b : splitc c (a ++ c :: b) = splitc c a ++ splitc c b.
Proof.
  induction a as [|x a IH]; cbn [app splitc].
  - rewrite N.eqb_refl. reflexivity.
  - destruct (N.eqb x c); rewrite IH; [reflexivity|].
    destruct (splitc c a) as [|h t] eqn:E; [exfalso; exact (splitc_nonempty _ _ E)|]. reflexivity.
Qed.

Lemma mem_ch_cons' c x l : mem_ch c (x :: l) = N.eqb c x || mem_ch c l.
Proof. reflexivity. Qed.

Lemma splitc_noc c s : mem_ch c s = false -> splitc c s = [s].
Proof.
  induction s as [|x s IH]; [reflexivity|].
  rewrite mem_ch_cons'. intro H. apply orb_false_iff in H. destruct H as [H1 H2].
  cbn [splitc]. rewrite N.eqb_sym, H1, (IH H2). reflexivity.
Qed.

Lemma splitc_pieces c s : Forall (fun seg => mem_ch c seg = false) (splitc c s).
Proof.
  induction s as [|x s IH]; cbn [splitc].
  - constructor; [reflexivity|constructor].
  - destruct (N.eqb x c) eqn:E.
    + constructor; [reflexivity|exact IH].
    + destruct (splitc c s) as [|h t]; [repeat constructor; cbn; rewrite N.eqb_sym, E; reflexivity|].
      inversion IH; subst. constructor; auto. rewrite mem_ch_cons', N.eqb_sym, E. auto.
Qed.

(* ---- clean segments and the segment machine ---- *)
Definition cleanb (seg : str) : bool :=
  negb (str_eqb seg []) && negb (str_eqb seg s_dot) && negb (str_eqb seg s_dotdot) && negb (mem_ch SL seg).

Definition runs (st : list str) (s : str) : list str := fold_left seg_step (splitc SL s) st.

Lemma seg_step_clean st seg : cleanb seg = true -> seg_step st seg = seg :: st.
Proof.
  unfold cleanb, seg_step. intro H. repeat (apply andb_true_iff in H; destruct H as [H ?]).
  apply negb_true_iff in H, H1, H2. rewrite H, H2, H1. reflexivity.
Qed.

Lemma fold_clean l : forall st, forallb cleanb l = true -> fold_left seg_step l st = rev l ++ st.
Proof.
  induction l as [|x l IH]; intros st H; [reflexivity|].
  cbn [forallb] in H. apply andb_true_iff in H. destruct H as [Hx Hl].
  cbn [fold_left rev]. rewrite seg_step_clean by exact Hx. rewrite IH by exact Hl.
  rewrite <- app_assoc. reflexivity.
Qed.

Lemma seg_step_inv st seg : forallb cleanb st = true -> mem_ch SL seg = false ->
  forallb cleanb (seg_step st seg) = true.
Proof.
  intros Hst Hs. unfold seg_step.
  destruct (str_eqb seg []) eqn:E1; [exact Hst|].
  destruct (str_eqb seg s_dot) eqn:E2; [exact Hst|]. cbn [orb].
  destruct (str_eqb seg s_dotdot) eqn:E3.
  - destruct st; [reflexivity|]. cbn [forallb tl] in *. apply andb_true_iff in Hst. tauto.
  - cbn [forallb]. rewrite Hst, andb_true_r. unfold cleanb. rewrite E1, E2, E3, Hs. reflexivity.
Qed.

Lemma fold_inv l : forall st, Forall (fun seg => mem_ch SL seg = false) l -> forallb cleanb st = true ->
  forallb cleanb (fold_left seg_step l st) = true.
Proof.
  induction l as [|x l IH]; intros st Hl Hst; [exact Hst|].
  inversion Hl; subst. cbn [fold_left]. apply IH; auto. apply seg_step_inv; auto.
Qed.

Lemma forallb_rev {A} (f : A -> bool) l : forallb f (rev l) = forallb f l.
Proof.
  induction l as [|x l IH]; [reflexivity|]. cbn [rev forallb]. rewrite forallb_app, IH. cbn. rewrite andb_true_r. apply andb_comm.
Qed.

Lemma segs_clean p : forallb cleanb (segs_of p) = true.
Proof. unfold segs_of. rewrite forallb_rev. apply fold_inv; [apply splitc_pieces|reflexivity]. Qed.

Lemma cleanb_noslash seg : cleanb seg = true -> mem_ch SL seg = false.
Proof. unfold cleanb. intro H. apply andb_true_iff in H. destruct H as [_ H]. apply negb_true_iff in H. exact H. Qed.

Lemma join_splitc l : forallb cleanb l = true -> l <> [] -> splitc SL (join [SL] l) = l.
Proof.
  induction l as [|a l IH]; intros H Hne; [congruence|].
  cbn [forallb] in H. apply andb_true_iff in H. destruct H as [Ha Hl].
  destruct l as [|b r].
  - cbn [join]. apply splitc_noc. apply cleanb_noslash; exact Ha.
  - change (join [SL] (a :: b :: r)) with (a ++ [SL] ++ join [SL] (b :: r)).
    cbn [app]. rewrite splitc_app, IH by (auto; discriminate).
    rewrite splitc_noc by (apply cleanb_noslash; exact Ha). reflexivity.
Qed.

Lemma segs_of_of_segs l : forallb cleanb l = true -> segs_of (of_segs l) = l.
Proof.
  intro H. unfold segs_of, of_segs. cbn [splitc]. rewrite N.eqb_refl.
  destruct l as [|a r].
  - reflexivity.
  - rewrite join_splitc by (auto; discriminate).
    change (fold_left seg_step ([] :: a :: r) []) with (fold_left seg_step (a :: r) []).
    rewrite fold_clean by exact H. rewrite app_nil_r. apply rev_involutive.
Qed.

Lemma norm_idem p : norm (norm p) = norm p.
Proof. unfold norm. rewrite segs_of_of_segs by apply segs_clean. reflexivity. Qed.

(* the normal form has only clean segments *)
Lemma norm_clean p : norm p = of_segs (segs_of p) /\ forallb cleanb (segs_of p) = true.
Proof. split; [reflexivity|apply segs_clean]. Qed.

(* ---- local rewriting of spellings ---- *)
Lemma runs_app st a b : runs st (a ++ SL :: b) = runs (runs st a) b.
Proof. unfold runs. rewrite splitc_app, fold_left_app. reflexivity. Qed.

Lemma norm_runs p q : runs [] p = runs [] q -> norm p = norm q.
Proof. unfold norm, segs_of, runs. intros ->. reflexivity. Qed.

Lemma runs_nil st : runs st [] = st. Proof. reflexivity. Qed.
Lemma runs_dot st : runs st s_dot = st. Proof. reflexivity. Qed.
Lemma runs_clean_seg st d : cleanb d = true -> runs st d = d :: st.
Proof.
  intro H. unfold runs. rewrite splitc_noc by (apply cleanb_noslash; exact H).
  cbn [fold_left]. apply seg_step_clean; exact H.
Qed.
Lemma runs_dotdot st d : runs (d :: st) s_dotdot = st. Proof. reflexivity. Qed.

Lemma norm_ctx F rp rq : (forall st, runs st rp = runs st rq) ->
  norm (F ++ SL :: rp) = norm (F ++ SL :: rq).
Proof. intro H. apply norm_runs. rewrite !runs_app. apply H. Qed.

Lemma ctx_dot st b : runs st (c_dot :: SL :: b) = runs st b.
Proof. change (c_dot :: SL :: b) with (s_dot ++ SL :: b). rewrite runs_app. reflexivity. Qed.
Lemma ctx_dslash st b : runs st (SL :: b) = runs st b.
Proof. change (SL :: b) with ([] ++ SL :: b). rewrite runs_app. reflexivity. Qed.
Lemma ctx_dotdot st d b : cleanb d = true -> runs st (d ++ SL :: c_dot :: c_dot :: SL :: b) = runs st b.
Proof.
  intro H. rewrite runs_app, (runs_clean_seg _ _ H).
  change (c_dot :: c_dot :: SL :: b) with (s_dotdot ++ SL :: b). rewrite runs_app. reflexivity.
Qed.

Definition all_slash (l : str) : bool := forallb (N.eqb SL) l.
Lemma runs_all_slash l : forall st, all_slash l = true -> runs st l = st.
Proof.
  induction l as [|x l IH]; intros st H; [reflexivity|].
  cbn [all_slash forallb] in H. apply andb_true_iff in H. destruct H as [Hx Hl].
  apply N.eqb_eq in Hx. subst x. rewrite ctx_dslash. apply IH. exact Hl.
Qed.

Lemma runs_strip t l st : all_slash l = true -> runs st (t ++ l) = runs st t.
Proof.
  intro H. destruct l as [|x l]; [rewrite app_nil_r; reflexivity|].
  cbn [all_slash forallb] in H. apply andb_true_iff in H. destruct H as [Hx Hl].
  apply N.eqb_eq in Hx. subst x. rewrite runs_app. apply runs_all_slash. exact Hl.
Qed.

Lemma norm_strip t l : all_slash l = true -> norm (t ++ l) = norm t.
Proof. intro H. apply norm_runs. apply runs_strip. exact H. Qed.

(* ---- rstrip("/") ---- *)
Lemma lstrip_split s : exists pre, s = pre ++ lstrip [SL] s /\ all_slash pre = true.
Proof.
  induction s as [|x s IH]; [exists []; auto|].
  cbn [lstrip]. destruct (mem_ch x [SL]) eqn:E.
  - destruct IH as [pre [E1 E2]]. exists (x :: pre). split; [cbn; congruence|].
    cbn [all_slash forallb]. fold (all_slash pre). rewrite E2, andb_true_r.
    cbn in E. rewrite orb_false_r in E. rewrite N.eqb_sym. exact E.
  - exists []. auto.
Qed.

Lemma all_slash_rev l : all_slash (rev l) = all_slash l.
Proof. apply forallb_rev. Qed.

Lemma rstrip_split s : exists l, s = rstrip [SL] s ++ l /\ all_slash l = true.
Proof.
  unfold rstrip. destruct (lstrip_split (rev s)) as [pre [E1 E2]].
  exists (rev pre). split; [|rewrite all_slash_rev; exact E2].
  rewrite <- rev_app_distr, <- E1, rev_involutive. reflexivity.
Qed.

(* ---- full: which absolute path a spelling denotes ---- *)
Section Full.
  Variable home cwd : str.

  Lemma full_abs r : full home cwd (SL :: r) = SL :: r.
  Proof. reflexivity. Qed.

  Lemma full_app_slash a r : a <> [] -> full home cwd (a ++ SL :: r) = full home cwd a ++ SL :: r.
  Proof.
    intro Hne. destruct a as [|x a]; [congruence|]. clear Hne.
    unfold full, is_home, pjoin, s_home_slash. cbn [app str_eqb prefixb tl].
    destruct (N.eqb_spec x c_tilde) as [->|Hx].
    - destruct a as [|y a].
      + cbn. rewrite app_nil_r. reflexivity.
      + cbn [app str_eqb prefixb andb orb]. rewrite N.eqb_refl, !andb_true_r. cbn [andb].
        change (N.eqb SL c_tilde) with false. cbn iota.
        destruct (N.eqb SL y).
        * rewrite <- app_assoc. reflexivity.
        * rewrite <- app_assoc. reflexivity.
    - assert (E : N.eqb c_tilde x = false) by (apply N.eqb_neq; congruence).
      rewrite E. cbn [andb orb]. destruct (N.eqb c_slash x); cbn [andb].
      + reflexivity.
      + rewrite <- app_assoc. reflexivity.
  Qed.

  Lemma is_home_app t l : t <> [] -> all_slash l = true -> is_home (t ++ l) = is_home t.
  Proof.
    intros Hne Hl. destruct t as [|x t]; [congruence|]. unfold is_home, s_home_slash.
    cbn [app str_eqb prefixb]. destruct (N.eqb_spec x c_tilde) as [->|Hx].
    - rewrite N.eqb_refl. cbn [andb]. destruct t as [|y t]; [|reflexivity].
      destruct l as [|z l]; [reflexivity|]. cbn [all_slash forallb] in Hl.
      apply andb_true_iff in Hl. destruct Hl as [Hz _]. cbn [app str_eqb prefixb]. rewrite Hz. reflexivity.
    - assert (E : N.eqb c_tilde x = false) by (apply N.eqb_neq; congruence).
      rewrite E. reflexivity.
  Qed.

  Lemma pjoin_app t l : t <> [] -> pjoin cwd (t ++ l) = pjoin cwd t ++ l.
  Proof.
    intro Hne. destruct t as [|x t]; [congruence|]. unfold pjoin. cbn [app prefixb].
    destruct (N.eqb c_slash x); cbn [andb]; [reflexivity|]. rewrite <- app_assoc. reflexivity.
  Qed.

  Lemma full_app_strip t l : t <> [] -> all_slash l = true -> full home cwd (t ++ l) = full home cwd t ++ l.
  Proof.
    intros Hne Hl. unfold full. rewrite is_home_app by auto. destruct (is_home t).
    - destruct t; [congruence|]. cbn [app tl]. rewrite app_assoc. reflexivity.
    - apply pjoin_app; auto.
  Qed.

  Lemma nf_strip t l : t <> [] -> all_slash l = true -> nf home cwd (t ++ l) = nf home cwd t.
  Proof. intros. unfold nf. rewrite full_app_strip by auto. apply norm_strip; auto. Qed.

  (* ---- the respelling closure of the property ---- *)
  Inductive respell : str -> str -> Prop :=
  | rs_refl p : respell p p
  | rs_sym p q : respell p q -> respell q p
  | rs_trans p q r : respell p q -> respell q r -> respell p r
  | rs_dot a b : respell (a ++ SL :: c_dot :: SL :: b) (a ++ SL :: b)                 (* a/./b  ~ a/b *)
  | rs_dslash a b : respell (a ++ SL :: SL :: b) (a ++ SL :: b)                        (* a//b   ~ a/b *)
  | rs_dotdot a d b : cleanb d = true ->
      respell (a ++ SL :: d ++ SL :: c_dot :: c_dot :: SL :: b) (a ++ SL :: b)          (* a/d/../b ~ a/b *)
  | rs_trail a : a <> [] -> respell (a ++ [SL]) a                                      (* a/     ~ a *)
  | rs_rel p : prefixb [SL] p = false -> is_home p = false -> respell p (cwd ++ SL :: p)  (* rel ~ cwd/rel *)
  | rs_home x : respell (c_tilde :: SL :: x) (home ++ SL :: x)                         (* ~/x    ~ home/x *)
  | rs_home0 : respell [c_tilde] home.                                                 (* ~      ~ home *)

  Lemma nf_ctx a rp rq : (forall st, runs st rp = runs st rq) ->
    nf home cwd (a ++ SL :: rp) = nf home cwd (a ++ SL :: rq).
  Proof.
    intro H. unfold nf. destruct a as [|x a].
    - cbn [app]. rewrite !full_abs. apply (norm_ctx [] rp rq H).
    - rewrite !full_app_slash by discriminate. apply norm_ctx. exact H.
  Qed.

  Variable cwd_abs : prefixb [SL] cwd = true.
  Variable home_abs : prefixb [SL] home = true.

  Lemma abs_full p r : prefixb [SL] p = true -> full home cwd (p ++ r) = p ++ r.
  Proof.
    destruct p as [|x p]; [discriminate|]. cbn [prefixb]. rewrite andb_true_r. intro H.
    apply N.eqb_eq in H. subst x. reflexivity.
  Qed.

  Lemma respell_nf p q : respell p q -> nf home cwd p = nf home cwd q.
  Proof.
    induction 1 as [p|p q _ IH|p q r _ IH1 _ IH2|a b|a b|a d b Hd|a Ha|p Hp Hh|x|].
    - reflexivity.
    - symmetry; exact IH.
    - rewrite IH1; exact IH2.
    - apply nf_ctx. intro st. apply ctx_dot.
    - apply nf_ctx. intro st. apply ctx_dslash.
    - apply nf_ctx. intro st. apply ctx_dotdot. exact Hd.
    - apply nf_strip; auto.
    - unfold nf. f_equal. change (cwd ++ SL :: p) with (cwd ++ (SL :: p)). rewrite abs_full by exact cwd_abs.
      unfold full, pjoin. rewrite Hh, Hp. reflexivity.
    - unfold nf. f_equal. change (home ++ SL :: x) with (home ++ (SL :: x)). rewrite abs_full by exact home_abs.
      reflexivity.
    - unfold nf. f_equal. pose proof (abs_full home [] home_abs) as X. rewrite app_nil_r in X.
      rewrite X. unfold full. change (is_home [c_tilde]) with true. cbn [tl]. apply app_nil_r.
  Qed.
End Full.

(* ---- the code's normalisation agrees with nf under the symlink-free hypothesis ---- *)
Lemma abs_not_home t : prefixb [SL] t = true -> is_home t = false.
Proof.
  destruct t as [|x t]; [discriminate|]. cbn [prefixb]. rewrite andb_true_r. intro H.
  apply N.eqb_eq in H. subst x. reflexivity.
Qed.

Lemma classify_cases b t :
  match classify_gen b t with
  | KAbs => prefixb [SL] t = true /\ is_home t = false
  | KHome => prefixb [SL] t = false /\ is_home t = true
  | KRel | KBare => prefixb [SL] t = false /\ is_home t = false
  | _ => True
  end.
Proof.
  unfold classify_gen. fold (is_home t).
  destruct (b && infixb s_url t); [exact I|].
  destruct (prefixb [c_dollar] t); [exact I|].
  destruct (prefixb [SL] t) eqn:Ea; [split; [reflexivity|apply abs_not_home; exact Ea]|].
  destruct (is_home t); [auto|].
  destruct (prefixb [c_tilde] t); [exact I|].
  match goal with |- context [if ?b then KRel else KBare] => destruct b end; auto.
Qed.

(* a token the code treats as a path: not variable- or ~user-shaped, and - where URLs are
   recognised, i.e. for command words - not containing "://" *)
Definition pathkind (allow_url : bool) (t : str) : bool :=
  match classify_gen allow_url t with KUrl | KVar | KUserHome => false | _ => true end.
(* redirect targets (and redirect patterns): a target is always a file name, "/" is the root *)
Definition pathlike (p : str) : bool := pathkind false (strip_target p).
(* for command words: only tokens the code resolves (absolute, ~/, or containing a slash) *)
Definition wordpath (t : str) : bool :=
  match classify t with KAbs | KHome | KRel => true | _ => false end.

Lemma nf_all_slash home cwd l : all_slash l = true -> nf home cwd (SL :: l) = nf home cwd [SL].
Proof.
  intro H. unfold nf. rewrite !full_abs. apply norm_runs.
  rewrite (ctx_dslash [] l), (ctx_dslash [] []). rewrite runs_all_slash by exact H. reflexivity.
Qed.

Section Agree.
  Variable resolve1 : str -> str.
  Variable resolve2 : str -> str -> str.
  Variable home : str.
  Variable lex : lexical resolve1 resolve2.

  Lemma expand_nf cwd force t : pathkind (negb force) t = true -> (force = true \/ wordpath t = true) ->
    expand_token resolve1 resolve2 home cwd force t = nf home cwd t.
  Proof.
    destruct lex as [L1 L2]. unfold pathkind, wordpath, expand_token, nf, full.
    pose proof (classify_cases (negb force) t) as C.
    destruct (classify_gen (negb force) t) eqn:K; try discriminate; intros _ Hf.
    - destruct C as [Ha Hh]. rewrite Hh. unfold pjoin. rewrite Ha. apply L1.
    - destruct C as [Ha Hh]. rewrite Hh. apply L1.
    - destruct C as [Ha Hh]. rewrite Hh. apply L2.
    - destruct C as [Ha Hh]. rewrite Hh. destruct Hf as [->|Hf]; [apply L2|].
      destruct force; [apply L2|]. unfold classify in Hf. cbn [negb] in K. rewrite K in Hf. discriminate.
  Qed.

  Lemma normalize_path_nf cwd p : pathlike p = true ->
    normalize_path resolve1 resolve2 home cwd p = nf home cwd p.
  Proof.
    unfold pathlike, normalize_path. intro Hk.
    rewrite expand_nf by auto.
    destruct (rstrip_split p) as [l [E Hl]]. unfold strip_target in *.
    destruct (rstrip [SL] p) as [|x t] eqn:R.
    - cbn [app] in E. subst l. destruct p as [|y p]; [reflexivity|].
      cbn [nonempty negb andb]. cbn [all_slash forallb] in Hl. apply andb_true_iff in Hl.
      destruct Hl as [Hy Hl]. apply N.eqb_eq in Hy. subst y. symmetry. apply nf_all_slash; exact Hl.
    - cbn [nonempty negb andb]. rewrite andb_false_r. rewrite E.
      symmetry. apply nf_strip; auto. discriminate.
  Qed.

  Lemma normalize_token_nf cwd t : wordpath t = true ->
    normalize_token resolve1 resolve2 home cwd t = nf home cwd t.
  Proof.
    intro H. unfold normalize_token. apply expand_nf; auto.
    unfold wordpath, pathkind, classify in *. cbn [negb]. destruct (classify_gen true t); auto.
  Qed.
End Agree.
