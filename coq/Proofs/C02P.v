(* C02: redirections. *)
From Coq Require Import Arith PeanoNat.
From DippyV Require Import Base.Str Base.Verdict Base.Sx Base.Tree Gen.Tables Model.RawScan Model.Walker Model.Cover
  Model.BashRedirSpec Proofs.VerdictP Proofs.WalkerP Proofs.CoverP.

(* ---- the operator classification covers bash's table, for every fd prefix ---- *)
Lemma lstrip_digits_app ds s : forallb is_fd_digit ds = true ->
  match s with c :: _ => is_fd_digit c = false | [] => True end -> lstrip ascii_digits (ds ++ s) = s.
Proof.
  intros Hd Hs. induction ds as [|d ds IH]; cbn [app].
  - destruct s as [|c r]; [reflexivity|]. cbn [lstrip]. unfold is_fd_digit in Hs. rewrite Hs. reflexivity.
  - cbn [forallb] in Hd. apply andb_true_iff in Hd as [H1 H2]. cbn [lstrip]. unfold is_fd_digit in H1. rewrite H1. exact (IH H2).
Qed.

Lemma find_ch_app_not n c rest : mem_ch c n = false -> find_ch c (n ++ c :: rest) = Some (length n).
Proof.
  induction n as [|x n IH]; cbn [app find_ch length].
  - rewrite N.eqb_refl. reflexivity.
  - intro H. cbn [mem_ch existsb] in H. apply orb_false_iff in H as [H1 H2]. rewrite N.eqb_sym, H1.
    unfold mem_ch in IH. rewrite (IH H2). reflexivity.
Qed.

(* bare operators never start with a digit or "{" *)
Definition bare_ok (bare : str) : bool :=
  match bare with c :: _ => negb (is_fd_digit c) && negb (N.eqb c 123) | [] => true end.

Lemma strip_fd_prefix_spec p bare : fd_wf p = true -> bare_ok bare = true ->
  (p = FdNone \/ bare <> []) -> strip_fd_prefix (fd_text p ++ bare) = bare.
Proof.
  intros Hw Hb Hne. destruct p as [|ds|n]; cbn [fd_text fd_wf] in *.
  - cbn [app]. unfold strip_fd_prefix. destruct bare as [|c r]; [reflexivity|].
    cbn [bare_ok] in Hb. apply andb_true_iff in Hb as [Hb1 Hb2]. apply negb_true_iff in Hb1, Hb2.
    rewrite Hb2. cbn [lstrip]. unfold is_fd_digit in Hb1. rewrite Hb1. reflexivity.
  - assert (E : lstrip ascii_digits (ds ++ bare) = bare).
    { apply lstrip_digits_app; [exact Hw|]. destruct bare as [|c r]; [exact I|]. cbn [bare_ok] in Hb.
      apply andb_true_iff in Hb as [Hb1 _]. apply negb_true_iff in Hb1. exact Hb1. }
    unfold strip_fd_prefix. destruct (ds ++ bare) as [|c r] eqn:Ed.
    + exact E.
    + destruct (N.eqb_spec c 123) as [->|Hc]; [|exact E].
      exfalso. destruct ds as [|d ds']; cbn [app] in Ed.
      * subst bare. cbn [bare_ok] in Hb. apply andb_true_iff in Hb as [_ Hb2]. discriminate.
      * injection Ed as -> _. cbn [forallb] in Hw. apply andb_true_iff in Hw as [Hw _]. discriminate.
  - apply negb_true_iff in Hw.
    replace (([123] ++ n ++ [125]) ++ bare) with (123 :: n ++ 125 :: bare)
      by (cbn [app]; rewrite <- app_assoc; reflexivity).
    unfold strip_fd_prefix. change (N.eqb 123 123) with true. cbn iota.
    assert (F : find_ch 125 (123 :: n ++ 125 :: bare) = Some (S (length n))).
    { cbn [find_ch]. change (N.eqb 123 125) with false. cbn iota. rewrite (find_ch_app_not n 125 bare Hw). reflexivity. }
    rewrite F. change (skipn (S (S (length n))) (123 :: n ++ 125 :: bare)) with (skipn (S (length n)) (n ++ 125 :: bare)).
    rewrite skipn_app, (skipn_all2 n) by lia. replace (S (length n) - length n)%nat with 1%nat by lia. reflexivity.
Qed.

(* every write operator of the bash table, under any fd prefix, is checked against the rules
   unless the target is one of the non-file sinks - proved from the shipped operator tables *)
Lemma tables_cover_bash :
  forallb (fun o => mem_str o REDIRECT_WRITE_OPS) (bash_dup_op :: bash_write_ops) = true /\
  mem_str bash_dup_op REDIRECT_DUP_OPS = true /\
  forallb bare_ok (bash_dup_op :: bash_write_ops) = true /\
  forallb (fun t => mem_str t nonfile_sinks || str_eqb t [45]) SAFE_REDIRECT_TARGETS = true.
Proof. vm_compute. repeat split; reflexivity. Qed.

Lemma class_covers_bash p bare raw tgt :
  fd_wf p = true -> In bare (bash_dup_op :: bash_write_ops) ->
  fst (redirect_file raw tgt) = false ->
  bash_writes_bare bare (snd (redirect_file raw tgt)) = true ->
  redirect_check (fd_text p ++ bare) raw tgt = Some (lookup_name raw (snd (redirect_file raw tgt))) \/
  In (snd (redirect_file raw tgt)) nonfile_sinks.
Proof.
  intros Hw Hin Hdup Hbw. destruct tables_cover_bash as [T1 [T2 [T3 T4]]].
  rewrite forallb_forall in T1, T3, T4.
  assert (Hs : strip_fd_prefix (fd_text p ++ bare) = bare).
  { apply strip_fd_prefix_spec; [exact Hw|exact (T3 bare Hin)|right].
    intro E. subst bare. destruct Hin as [E|Hin]; [discriminate|]. repeat (destruct Hin as [E|Hin]; [discriminate|]). exact Hin. }
  unfold redirect_check. rewrite Hs. destruct (redirect_file raw tgt) as [dup t]. cbn [fst snd] in *. subst dup.
  unfold bash_writes_bare in Hbw.
  destruct (mem_str bare REDIRECT_DUP_OPS && (is_ascii_digits t || str_eqb t [45])) eqn:Edup.
  - exfalso. apply andb_true_iff in Edup as [Ed1 Ed2].
    destruct (mem_str bare bash_write_ops) eqn:Ew.
    + clear -Ed1 Ew. apply mem_str_In in Ew. apply mem_str_In in Ed1.
      revert Ed1. cbn [bash_write_ops In] in Ew.
      repeat (destruct Ew as [<-|Ew]; [vm_compute; intuition discriminate|]). destruct Ew.
    + destruct (str_eqb bare bash_dup_op); [rewrite Ed2 in Hbw; discriminate|discriminate].
  - destruct (mem_str t SAFE_REDIRECT_TARGETS) eqn:Esafe.
    + right. apply mem_str_In in Esafe. specialize (T4 t Esafe). apply orb_true_iff in T4 as [T4|T4].
      * apply mem_str_In, T4.
      * (* "-" is not in the shipped safe set *) exfalso. apply str_eqb_eq in T4. subst t. revert Esafe. vm_compute. intuition discriminate.
    + left. rewrite (T1 bare Hin). reflexivity.
Qed.

Section C02.
  Variable simple : ctx -> list str -> verdict.
  Variable astr : ctx -> str -> verdict.
  Variable mredir : str -> str -> option verdict.
  Variable cdres : str -> str -> str.
  Variable injrisk : ctx -> list str -> bool.
  Variable rulematch : ctx -> list str -> bool.
  Notation ev := (ev simple astr mredir cdres injrisk rulematch).
  Notation walk := (walk simple astr mredir cdres injrisk rulematch).

  Definition target_of (r : tree) : option tree := child "target" r.
  Definition target_val (r : tree) : str := match target_of r with Some w => word_value w | None => [] end.
  Definition target_raw (r : tree) : str := match target_of r with Some w => attr_d "value" w | None => [] end.

  (* "granted": the last matching redirect rule allows (no rule = ask) *)
  Lemma redirect_rule_allow cwd tgt :
    redirect_rule mredir cwd tgt = Allow <-> mredir cwd tgt = Some Allow /\ has_rewritten tgt = false.
  Proof.
    unfold redirect_rule, written_rule. destruct (mredir cwd tgt) as [[| |]|]; [|split; [discriminate|intros [? _]; discriminate]..].
    destruct (has_rewritten tgt); split; try discriminate; try (intros [_ ?]; discriminate); auto.
  Qed.

  (* an approved redirect element that needs a rule has one *)
  Lemma redir_granted r c : is_kind "heredoc" r = false -> snd c = false ->
    ok (r_redir (ev r) c) ->
    forall file, redirect_check (attr_d "op" r) (target_raw r) (target_val r) = Some file ->
    mredir (fst c) file = Some Allow /\ has_rewritten file = false.
  Proof.
    destruct r as [k ss fs ks]. unfold is_kind. cbn [kind_of]. intros Hk Hrem Hok file Hcls.
    rewrite redir_unfold, Hk, Hrem in Hok. apply ok_app in Hok as [_ Hok].
    unfold target_raw, target_val, target_of in Hcls. rewrite Hcls in Hok.
    apply ok_cons in Hok as [Hok _]. apply redirect_rule_allow, Hok.
  Qed.

  (* C02: every redirection of every reached node of an approved program, at any depth *)
  Theorem approved_redirects c t : walk c t = Allow ->
    forall n r, In (RRedir, r) (reach_fuel n RNode t) -> is_kind "heredoc" r = false ->
    exists c', snd c' = snd c /\
      (snd c' = false ->
       forall file, redirect_check (attr_d "op" r) (target_raw r) (target_val r) = Some file ->
       mredir (fst c') file = Some Allow /\ has_rewritten file = false).
  Proof.
    intros H n r Hin Hk.
    assert (Hok : ok (field RNode (ev t) c)) by (cbn [field]; constructor; [exact H|constructor]).
    destruct (cover simple astr mredir cdres injrisk rulematch n RNode t c Hok RRedir r Hin) as [c' [Hm Hr]].
    exists c'. split; [exact Hm|]. intros Hrem file Hcls. exact (redir_granted r c' Hk Hrem Hr file Hcls).
  Qed.
End C02.

(* _extract_cd_target answers only for a literal word *)
Lemma cd_target_literal t tgt : extract_cd_target t = Some tgt ->
  has_rewritten tgt = false /\
  exists w0 w1, children "words" t = [w0; w1] /\ children "parts" w1 = [] /\ tgt = word_value w1.
Proof.
  unfold extract_cd_target. destruct (negb (is_kind "command" t)); [discriminate|].
  destruct (children "words" t) as [|w0 [|w1 [|w2 ws]]]; try discriminate.
  destruct (negb (str_eqb (word_value w0) $"cd")); [discriminate|].
  destruct (children "parts" w1) as [|p ps] eqn:Ep; cbn [nonempty]; [|discriminate].
  destruct (has_rewritten (word_value w1)) eqn:Er; [discriminate|].
  match goal with |- (if ?b then _ else _) = _ -> _ => destruct b end; [discriminate|].
  intros E. injection E as <-. split; [exact Er|]. exists w0, w1. split; [reflexivity|split; [exact Ep|reflexivity]].
Qed.
