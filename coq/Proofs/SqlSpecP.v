(* Lemmas about the reference tokenizer Model/SqlSpec.v: every scanner returns a split of its input, the
   lexer is lossless and needs no more fuel than the length of the text; statement splitting. *)
From DippyV Require Import Base.Str Model.SqlSpec.

Lemma span_app p s a b : span p s = (a, b) -> a ++ b = s.
Proof.
  revert a b; induction s as [|c r IH]; intros a b; cbn [span]; [intro H; inversion H; reflexivity|].
  destruct (p c); [|intro H; inversion H; reflexivity].
  destruct (span p r) as [a' b']. intro H; inversion H; subst. cbn. f_equal. apply IH. reflexivity.
Qed.
Lemma span_all p s a b : span p s = (a, b) -> forallb p a = true.
Proof.
  revert a b; induction s as [|c r IH]; intros a b; cbn [span]; [intro H; inversion H; reflexivity|].
  destruct (p c) eqn:E; [|intro H; inversion H; reflexivity].
  destruct (span p r) as [a' b']. intro H; inversion H; subst. cbn. rewrite E. eapply IH. reflexivity.
Qed.
Lemma span_stop p s a b : span p s = (a, b) -> match b with [] => True | h :: _ => p h = false end.
Proof.
  revert a b; induction s as [|c r IH]; intros a b; cbn [span]; [intro H; inversion H; exact I|].
  destruct (p c) eqn:E; [|intro H; inversion H; subst; exact E].
  destruct (span p r) as [a' b']. intro H; inversion H; subst. eapply IH. reflexivity.
Qed.

Lemma cons1_some c x a b : cons1 c x = Some (a, b) -> exists a', x = Some (a', b) /\ a = c :: a'.
Proof. destruct x as [[a' b']|]; cbn; [|discriminate]. intro H; inversion H; subst. eauto. Qed.

Lemma quoted_app q : forall n s a b, (length s <= n)%nat -> quoted q s = Some (a, b) -> a ++ b = s /\ a <> [].
Proof.
  induction n as [|n IH]; intros s a b Hn H; destruct s as [|c r]; cbn [quoted length] in *; try discriminate; try lia.
  destruct (N.eqb c q).
  - destruct r as [|c2 r2]; [inversion H; subst; split; [reflexivity|discriminate]|].
    destruct (N.eqb c2 q).
    + apply cons1_some in H as [a1 [H ->]]. apply cons1_some in H as [a2 [H ->]].
      apply IH in H as [H _]; [|cbn [length] in *; lia]. split; [cbn; congruence|discriminate].
    + inversion H; subst; split; [reflexivity|discriminate].
  - apply cons1_some in H as [a1 [H ->]]. apply IH in H as [H _]; [|lia]. split; [cbn; congruence|discriminate].
Qed.

Lemma until_app c s a b : until c s = Some (a, b) -> a ++ b = s.
Proof.
  revert a b; induction s as [|x r IH]; intros a b; cbn [until]; [discriminate|].
  destruct (N.eqb x c); [intro H; inversion H; reflexivity|].
  intro H. apply cons1_some in H as [a1 [H ->]]. cbn. f_equal. apply IH, H.
Qed.
Lemma to_eol_app s a b : to_eol s = (a, b) -> a ++ b = s.
Proof.
  revert a b; induction s as [|x r IH]; intros a b; cbn [to_eol]; [intro H; inversion H; reflexivity|].
  destruct (N.eqb x 10); [intro H; inversion H; reflexivity|].
  destruct (to_eol r) as [a' b']. intro H; inversion H; subst. cbn. f_equal. apply IH. reflexivity.
Qed.
Lemma block_end_app : forall n s a b, (length s <= n)%nat -> block_end s = Some (a, b) -> a ++ b = s.
Proof.
  induction n as [|n IH]; intros s a b Hn H; destruct s as [|x r]; cbn [block_end length] in *; try discriminate; try lia.
  destruct r as [|y r']; [discriminate|].
  destruct (N.eqb x 42 && N.eqb y 47); [inversion H; reflexivity|].
  apply cons1_some in H as [a1 [H ->]]. cbn. f_equal. apply IH in H; [exact H|cbn [length] in *; lia].
Qed.

Lemma var_paren_app s a b st : var_paren s = (a, b, st) -> a ++ b = s.
Proof.
  unfold var_paren. destruct (span _ s) as [a' b'] eqn:E. apply span_app in E.
  destruct b' as [|h b'']; [intro H; injection H as <- <- <-; exact E|].
  destruct (N.eqb_spec h 41) as [->|Hn].
  - intro H; injection H as <- <- <-. rewrite <- app_assoc. exact E.
  - assert ((a', h :: b'', VBad) = (a, b, st) -> a ++ b = a' ++ h :: b'') as K by (intro H; inversion H; reflexivity).
    destruct h as [|p]; [intro H; rewrite (K H); exact E|].
    do 6 (destruct p; try (intro H; rewrite (K H); exact E)); contradiction.
Qed.
Lemma var_body_app : forall n s named a b st, (length s <= n)%nat -> var_body s named = (a, b, st) -> a ++ b = s.
Proof.
  induction n as [|n IH]; intros s named a b st Hn H; destruct s as [|c r]; cbn [var_body length] in *;
    try (inversion H; reflexivity); try lia.
  destruct (idchar c).
  - unfold vcons in H. destruct (var_body r true) as [[a' b'] st'] eqn:E. inversion H; subst.
    cbn. f_equal. eapply IH; [|exact E]. lia.
  - destruct (N.eqb c 40 && named).
    + unfold vcons in H. destruct (var_paren r) as [[a' b'] st'] eqn:E. inversion H; subst.
      cbn. f_equal. eapply var_paren_app, E.
    + destruct (N.eqb_spec c 58) as [->|Hn58]; [|inversion H; reflexivity].
      destruct r as [|d r']; [inversion H; reflexivity|].
      destruct (N.eqb_spec d 58) as [->|Hd].
      * unfold vcons in H. destruct (var_body r' named) as [[a' b'] st'] eqn:E. inversion H; subst.
        cbn. do 2 f_equal. eapply IH; [|exact E]. cbn [length] in *; lia.
      * assert ((@nil N, 58 :: d :: r', VName named) = (a, b, st) -> a ++ b = 58 :: d :: r') as K
          by (intro H'; inversion H'; reflexivity).
        destruct d as [|p]; [exact (K H)|].
        do 6 (destruct p; try exact (K H)). contradiction.
Qed.

(* one token: its text followed by the rest is the input, and the text is not empty *)
Lemma lex1_app s t r : lex1 s = Some (t, r) -> tok_text t ++ r = s /\ tok_text t <> [].
Proof.
  destruct s as [|c r0]; [discriminate|]. unfold lex1.
  destruct (sq_space_start c).
  { destruct (span sq_space r0) as [a b] eqn:E. apply span_app in E. intro H; inversion H; subst. split; [reflexivity|discriminate]. }
  destruct (N.eqb c 45).
  { destruct r0 as [|d r']; [intro H; inversion H; subst; split; [reflexivity|discriminate]|].
    destruct (N.eqb d 45); [|intro H; inversion H; subst; split; [reflexivity|discriminate]].
    destruct (to_eol r') as [a b] eqn:E. apply to_eol_app in E. intro H; inversion H; subst. split; [reflexivity|discriminate]. }
  destruct (N.eqb c 47).
  { destruct r0 as [|d [|e r'']]; try (intro H; inversion H; subst; split; [reflexivity|discriminate]).
    destruct (N.eqb d 42); [|intro H; inversion H; subst; split; [reflexivity|discriminate]].
    destruct (block_end (e :: r'')) as [[a b]|] eqn:E.
    - apply (block_end_app (length (e :: r''))) in E; [|lia]. intro H; inversion H; subst. split; [cbn; rewrite E; reflexivity|discriminate].
    - intro H; inversion H; subst. split; [cbn; rewrite app_nil_r; reflexivity|discriminate]. }
  destruct (is_quote c).
  { destruct (quoted c r0) as [[a b]|] eqn:E.
    - apply (quoted_app c (length r0)) in E as [E _]; [|lia]. intro H; inversion H; subst. split; [reflexivity|discriminate].
    - intro H; inversion H; subst. split; [cbn; rewrite app_nil_r; reflexivity|discriminate]. }
  destruct (N.eqb c 91).
  { destruct (until 93 r0) as [[a b]|] eqn:E.
    - apply until_app in E. intro H; inversion H; subst. split; [reflexivity|discriminate].
    - intro H; inversion H; subst. split; [cbn; rewrite app_nil_r; reflexivity|discriminate]. }
  destruct (N.eqb_spec c 59) as [->|_]; [intro H; inversion H; subst; split; [reflexivity|discriminate]|].
  destruct (var_start c).
  { destruct (var_body r0 false) as [[a b] st] eqn:E. apply (var_body_app (length r0)) in E; [|lia].
    destruct st as [[|]| |]; intro H; inversion H; subst; (split; [cbn; try rewrite app_nil_r; reflexivity|discriminate]). }
  destruct (N.eqb c 65279); [intro H; inversion H; subst; split; [reflexivity|discriminate]|].
  destruct (idchar c).
  { destruct (span idchar r0) as [a b] eqn:E. apply span_app in E. intro H; inversion H; subst. split; [reflexivity|discriminate]. }
  intro H; inversion H; subst; split; [reflexivity|discriminate].
Qed.

Lemma lex1_len s t r : lex1 s = Some (t, r) -> (length r < length s)%nat.
Proof.
  intro H. apply lex1_app in H as [H Hn]. rewrite <- H, app_length.
  destruct (tok_text t); [contradiction|cbn [length]; lia].
Qed.

Lemma lex_fuel_enough : forall f1 f2 s, (length s < f1)%nat -> (length s < f2)%nat -> lex_fuel f1 s = lex_fuel f2 s.
Proof.
  induction f1 as [|f1 IH]; intros f2 s H1 H2; [lia|]. destruct f2 as [|f2]; [lia|]. cbn [lex_fuel].
  destruct (lex1 s) as [[t r]|] eqn:E; [|reflexivity]. apply lex1_len in E. f_equal. apply IH; lia.
Qed.

(* the lexer without fuel *)
Lemma sql_lex_eq s : sql_lex s = match lex1 s with None => [] | Some (t, r) => t :: sql_lex r end.
Proof.
  unfold sql_lex at 1. cbn [lex_fuel]. destruct (lex1 s) as [[t r]|] eqn:E; [|reflexivity].
  apply lex1_len in E. f_equal. unfold sql_lex. apply lex_fuel_enough; lia.
Qed.

Lemma lex1_none s : lex1 s = None -> s = [].
Proof.
  destruct s as [|c r]; [reflexivity|]. unfold lex1.
  repeat match goal with
         | |- context [if ?b then _ else _] => destruct b
         | |- context [let (_, _) := ?x in _] => destruct x
         | |- context [match ?x with _ => _ end] => destruct x
         end; discriminate.
Qed.

(* losslessness: the token texts concatenate to the input *)
Lemma lex_lossless : forall n s, (length s <= n)%nat -> flat_map tok_text (sql_lex s) = s.
Proof.
  induction n as [|n IH]; intros s Hn; rewrite sql_lex_eq.
  - destruct s; [reflexivity|cbn [length] in Hn; lia].
  - destruct (lex1 s) as [[t r]|] eqn:E.
    + pose proof (lex1_len _ _ _ E). apply lex1_app in E as [E _]. cbn [flat_map]. rewrite IH by lia. exact E.
    + apply lex1_none in E. subst. reflexivity.
Qed.
Lemma sql_lex_lossless s : flat_map tok_text (sql_lex s) = s.
Proof. apply (lex_lossless (length s)). lia. Qed.

(* ---------------------------------------------------------------- statements *)
Lemma statements_nonempty ts : statements ts <> [].
Proof.
  induction ts as [|t r IH]; cbn [statements]; [discriminate|].
  destruct t; try discriminate; destruct (statements r); try discriminate; contradiction.
Qed.

Definition is_semi (t : tok) : bool := match t with TSemi => true | _ => false end.

Lemma statements_cons t r : is_semi t = false ->
  statements (t :: r) = match statements r with st :: more => (t :: st) :: more | [] => [[t]] end.
Proof. destruct t; cbn [is_semi statements]; try reflexivity; discriminate. Qed.

(* tokens after the first semicolon *)
Fixpoint after_semi (ts : list tok) : option (list tok) :=
  match ts with
  | [] => None
  | t :: r => if is_semi t then Some r else after_semi r
  end.

Definition quiet (t : tok) : bool := is_semi t || inert t.

Lemma quiet_no_live ts : forallb quiet ts = true -> live_statements ts = O.
Proof.
  unfold live_statements.
  induction ts as [|t r IH]; cbn [forallb]; [reflexivity|].
  intro H. apply andb_true_iff in H as [Ht Hr]. specialize (IH Hr).
  destruct (is_semi t) eqn:S.
  - destruct t; try discriminate. cbn [statements filter existsb]. exact IH.
  - rewrite statements_cons by exact S.
    destruct (statements r) as [|st more] eqn:E; [exfalso; eapply statements_nonempty; eauto|].
    cbn [filter existsb] in *.
    unfold quiet in Ht. rewrite S in Ht. cbn [orb] in Ht. unfold significant at 1. rewrite Ht. cbn [negb orb].
    destruct (existsb significant st); [cbn [length] in IH; discriminate|exact IH].
Qed.

Lemma live_statements_le1 ts :
  match after_semi ts with None => True | Some post => forallb quiet post = true end ->
  (live_statements ts <= 1)%nat.
Proof.
  induction ts as [|t r IH]; [intros _; cbn; lia|].
  cbn [after_semi]. destruct (is_semi t) eqn:S.
  - intro H. destruct t; try discriminate. apply quiet_no_live in H.
    unfold live_statements in *. cbn [statements filter existsb]. lia.
  - intro H. specialize (IH H). unfold live_statements in *. rewrite statements_cons by exact S.
    destruct (statements r) as [|st more] eqn:E; [exfalso; eapply statements_nonempty; eauto|].
    cbn [filter] in *.
    assert (length (filter (existsb significant) more) = O) as Hm.
    { (* no live statement after the first: either there is no semicolon, or everything after it is quiet *)
      clear IH. revert st more E H. induction r as [|t2 r2 IH2]; intros st more E H.
      - cbn in E. inversion E; subst. reflexivity.
      - cbn [after_semi] in H. destruct (is_semi t2) eqn:S2.
        + destruct t2; try discriminate. cbn [statements] in E. inversion E; subst.
          apply quiet_no_live in H. unfold live_statements in H. exact H.
        + rewrite statements_cons in E by exact S2.
          destruct (statements r2) as [|st2 more2] eqn:E2; [exfalso; eapply statements_nonempty; eauto|].
          inversion E; subst. eapply IH2; [reflexivity|exact H]. }
    destruct (existsb significant (t :: st)); cbn [length]; lia.
Qed.
