(* N processes appending to one file with atomic O_APPEND writes, under any schedule. *)
From Coq Require Import Arith.
From DippyV Require Import Base.Str Model.Logging.

(* ---------------------------------------------------------------- splitting into lines *)
Lemma lines_aux_nl r cur :
  lines_aux (10 :: r) cur = (rev (10 :: cur) :: fst (lines_aux r []), snd (lines_aux r [])).
Proof.
  change (lines_aux (10 :: r) cur) with (let (ls, t) := lines_aux r [] in (rev (10 :: cur) :: ls, t)).
  destruct (lines_aux r []); reflexivity.
Qed.
Lemma lines_aux_other c r cur : c <> 10 -> lines_aux (c :: r) cur = lines_aux r (c :: cur).
Proof.
  intro H.
  change (lines_aux (c :: r) cur) with
    (if c =? 10 then let (ls, t) := lines_aux r [] in (rev (c :: cur) :: ls, t) else lines_aux r (c :: cur)).
  destruct (N.eqb_spec c 10); [contradiction | reflexivity].
Qed.
Lemma lines_aux_line b r cur : ~ In 10 b ->
  lines_aux (b ++ 10 :: r) cur = ((rev cur ++ b ++ [10]) :: fst (lines_aux r []), snd (lines_aux r [])).
Proof.
  revert cur. induction b as [|c b IH]; intros cur Hn.
  - change ([] ++ 10 :: r) with (10 :: r). rewrite lines_aux_nl. reflexivity.
  - change ((c :: b) ++ 10 :: r) with (c :: (b ++ 10 :: r)). rewrite lines_aux_other by (intro E; apply Hn; left; exact E).
    rewrite IH by (intro H; apply Hn; right; exact H). simpl. rewrite <- app_assoc. reflexivity.
Qed.
Lemma lines_of_cons w r : complete_line w -> lines_of (w ++ r) = (w :: fst (lines_of r), snd (lines_of r)).
Proof.
  intros [b [-> Hb]]. unfold lines_of. rewrite <- app_assoc. cbn [List.app]. rewrite lines_aux_line by exact Hb. reflexivity.
Qed.
Lemma lines_of_concat ws : Forall complete_line ws -> lines_of (concat ws) = (ws, []).
Proof.
  induction 1 as [|w ws Hw Hws IH]; [reflexivity|]. cbn [concat]. rewrite lines_of_cons by exact Hw. rewrite IH. reflexivity.
Qed.

Section Sched.
  Variable prog : nat -> list str.
  Notation wstep := (wstep prog).
  Notation exec := (exec prog).

  (* per process, the file holds exactly the writes it has issued so far, in program order;
     every record in the file is one of its process's writes *)
  Definition Inv (s : fs) : Prop :=
    (forall p, by_proc p s = firstn (pos s p) (prog p)) /\
    (forall p, pos s p <= length (prog p))%nat /\
    (forall p w, In (p, w) (file s) -> In w (prog p)).

  Lemma firstn_S_nth {A} (l : list A) k x : nth_error l k = Some x -> firstn (S k) l = firstn k l ++ [x].
  Proof.
    revert k. induction l as [|a l IH]; intros [|k] H; simpl in *; try discriminate.
    - injection H as ->. reflexivity.
    - rewrite (IH k H). reflexivity.
  Qed.

  Lemma inv0 : Inv fs0.
  Proof. repeat split; simpl; intros; [lia | contradiction]. Qed.

  Lemma inv_step s q : Inv s -> Inv (wstep s q).
  Proof.
    intros (I1 & I2 & I3). unfold Logging.wstep. destruct (nth_error (prog q) (pos s q)) as [w|] eqn:E; [|repeat split; assumption].
    assert (Hlt : (pos s q < length (prog q))%nat) by (apply nth_error_Some; congruence).
    repeat split; simpl.
    - intro p. unfold by_proc, upd; simpl. rewrite filter_app, map_app. simpl.
      destruct (Nat.eqb_spec p q) as [->|Hpq].
      + rewrite Nat.eqb_refl. simpl. fold (by_proc q s). rewrite I1. symmetry. apply firstn_S_nth. exact E.
      + destruct (Nat.eqb_spec q p) as [->|_]; [contradiction|]. simpl. rewrite app_nil_r. apply I1.
    - intro p. unfold upd. destruct (Nat.eqb_spec p q) as [->|_]; [lia | apply I2].
    - intros p w' Hin. apply in_app_or in Hin. destruct Hin as [Hin | [Heq | []]]; [apply I3; exact Hin|].
      injection Heq as <- <-. eapply nth_error_In; eassumption.
  Qed.

  Lemma inv_fold sch : forall s, Inv s -> Inv (fold_left wstep sch s).
  Proof. induction sch as [|q sch IH]; intros s Hs; [exact Hs|]. simpl. apply IH. apply inv_step. exact Hs. Qed.
  Lemma inv_exec sch : Inv (exec sch).
  Proof. apply inv_fold. exact inv0. Qed.

  (* how far each process got: as many writes as it had turns, at most its whole program *)
  Lemma pos_fold sch : forall s p, (pos s p <= length (prog p))%nat ->
    pos (fold_left wstep sch s) p = Nat.min (pos s p + count_occ Nat.eq_dec sch p) (length (prog p)).
  Proof.
    induction sch as [|q sch IH]; intros s p Hle; simpl.
    - rewrite Nat.add_0_r. lia.
    - assert (Hq : forall p', (pos s p' <= length (prog p'))%nat ->
                   (pos (wstep s q) p' <= length (prog p'))%nat /\
                   pos (wstep s q) p' = if Nat.eq_dec q p' then Nat.min (S (pos s p')) (length (prog p')) else pos s p').
      { intros p' Hp'. unfold Logging.wstep. destruct (nth_error (prog q) (pos s q)) as [w|] eqn:E; cbn [pos].
        - assert ((pos s q < length (prog q))%nat) by (apply nth_error_Some; congruence).
          unfold upd. destruct (Nat.eqb_spec p' q) as [->|Hn].
          + destruct (Nat.eq_dec q q); [|contradiction]. lia.
          + destruct (Nat.eq_dec q p'); [subst; contradiction|]. lia.
        - apply nth_error_None in E. destruct (Nat.eq_dec q p') as [<-|]; lia. }
      destruct (Hq p Hle) as [A B]. rewrite IH by exact A. rewrite B.
      destruct (Nat.eq_dec q p); lia.
  Qed.
  Lemma pos_exec sch p : pos (exec sch) p = Nat.min (count_occ Nat.eq_dec sch p) (length (prog p)).
  Proof. unfold Logging.exec. rewrite pos_fold by (simpl; lia). reflexivity. Qed.

  (* C15_interleave *)
  Lemma interleave sch :
    (forall p w, In w (prog p) -> complete_line w) ->
    let s := exec sch in
    (* the file is a concatenation of complete lines, nothing torn, no partial tail *)
    lines_of (bytes s) = (map snd (file s), []) /\
    (* every line is a line of the process that wrote it, and each process's lines are in its own order *)
    (forall p w, In (p, w) (file s) -> In w (prog p)) /\
    (forall p, by_proc p s = firstn (Nat.min (count_occ Nat.eq_dec sch p) (length (prog p))) (prog p)) /\
    (* a process that had enough turns has all its lines in the file *)
    (forall p, (length (prog p) <= count_occ Nat.eq_dec sch p)%nat -> by_proc p s = prog p).
  Proof.
    intros Hc s. destruct (inv_exec sch) as (I1 & I2 & I3). fold s in I1, I2, I3.
    repeat split.
    - unfold bytes. apply lines_of_concat. apply Forall_forall. intros w Hw.
      apply in_map_iff in Hw. destruct Hw as [[p w'] [<- Hin]]. apply (Hc p). apply I3. exact Hin.
    - exact I3.
    - intro p. rewrite I1. unfold s. rewrite pos_exec. reflexivity.
    - intros p Hp. rewrite I1. unfold s. rewrite pos_exec. rewrite Nat.min_r by exact Hp. apply firstn_all.
  Qed.

  (* the number of lines in the file is the number of writes performed *)
  Lemma file_length_step s q :
    length (file (wstep s q)) = (length (file s) + if Nat.ltb (pos s q) (length (prog q)) then 1 else 0)%nat.
  Proof.
    unfold Logging.wstep. destruct (nth_error (prog q) (pos s q)) as [w|] eqn:E; simpl.
    - assert ((pos s q < length (prog q))%nat) by (apply nth_error_Some; congruence).
      destruct (Nat.ltb_spec (pos s q) (length (prog q))); [|lia]. rewrite app_length. reflexivity.
    - apply nth_error_None in E. destruct (Nat.ltb_spec (pos s q) (length (prog q))); lia.
  Qed.
End Sched.

(* a line written in two chunks can be torn: the observed line belongs to nobody *)
Definition chunked (p : nat) : list str :=
  match p with
  | O => [[97]; [98; 10]]          (* "a" "b\n"  - intends the line "ab\n" *)
  | S O => [[99]; [100; 10]]       (* "c" "d\n"  - intends the line "cd\n" *)
  | _ => []
  end.
Lemma interleave_chunked_refuted :
  exists prog sch l,
    (forall p, snd (lines_of (concat (prog p))) = []) /\
    In l (fst (lines_of (bytes (exec prog sch)))) /\ forall p, ~ In l (fst (lines_of (concat (prog p)))).
Proof.
  exists chunked, [0; 1; 0; 1]%nat, [97; 99; 98; 10]. split; [|split].
  - intros [|[|p]]; reflexivity.
  - vm_compute. left; reflexivity.
  - intros [|[|p]]; vm_compute; intuition discriminate.
Qed.
