(* C17, visitor half: SafetyAnalyzer skips no node.  [visit ap t = []] holds exactly when every
   descendant of t passes the per-node check - for every tree shape - provided Global nodes are
   leaves (they are in Python's ast: Global(identifier* names)). *)
From DippyV Require Import Base.Str Base.Sx Base.Tree Gen.Tables Model.PyArgs.

(* ---------------------------------------------------------------- ties to the source tables *)

(* the node classes the model treats specially are exactly the visit_ methods of the class *)
Lemma visit_methods_tie : PY_VISIT_METHODS = visit_kinds.
Proof. vm_compute. reflexivity. Qed.

Lemma klass_lits :
  klass $"Import" = CImport /\ klass $"ImportFrom" = CImportFrom /\ klass $"Call" = CCall /\
  klass $"Attribute" = CAttribute /\ klass $"Name" = CName /\ klass $"AsyncFunctionDef" = CAsyncDef /\
  klass $"Await" = CAwait /\ klass $"With" = CWith /\ klass $"Global" = CGlobal /\
  klass $"Starred" = COther /\ klass $"FunctionDef" = COther /\ klass $"Try" = COther.
Proof. vm_compute. repeat split. Qed.

(* every visit_ method is accounted for: special class or plain generic_visit *)
Lemma visit_kinds_covered :
  forallb (fun k => match klass k with COther => mem_str k [$"Starred"; $"FunctionDef"; $"Try"] | _ => true end)
          visit_kinds = true.
Proof. vm_compute. reflexivity. Qed.

Lemma klass_inv k :
  match klass k with
  | CImport => k = $"Import" | CImportFrom => k = $"ImportFrom" | CCall => k = $"Call"
  | CAttribute => k = $"Attribute" | CName => k = $"Name" | CAsyncDef => k = $"AsyncFunctionDef"
  | CAwait => k = $"Await" | CWith => k = $"With" | CGlobal => k = $"Global"
  | COther => ~ In k [$"Import"; $"ImportFrom"; $"Call"; $"Attribute"; $"Name"; $"AsyncFunctionDef";
                      $"Await"; $"With"; $"Global"]
  end.
Proof.
  unfold klass.
  repeat match goal with
         | |- context [str_eqb k ?l] => destruct (str_eqb_spec k l) as [->|?]; [reflexivity|]
         end.
  cbn [In]. intuition congruence.
Qed.

Lemma klass_eq k c : c <> COther -> klass k = c ->
  k = match c with
      | CImport => $"Import" | CImportFrom => $"ImportFrom" | CCall => $"Call" | CAttribute => $"Attribute"
      | CName => $"Name" | CAsyncDef => $"AsyncFunctionDef" | CAwait => $"Await" | CWith => $"With"
      | CGlobal => $"Global" | COther => k
      end.
Proof. intros Hc <-. pose proof (klass_inv k) as H. destruct (klass k); try exact H; congruence. Qed.

(* closed facts about the literal tables *)
Lemma safe_modules_pass : forallb (fun m => negb (nonempty (mod_viols m))) PY_SAFE_MODULES = true.
Proof. vm_compute. reflexivity. Qed.
Lemma dangerous_modules_flagged : forallb (fun m => nonempty (mod_viols m)) PY_DANGEROUS_MODULES = true.
Proof. vm_compute. reflexivity. Qed.
Lemma builtins_disjoint : forallb (fun b => negb (mem_str b PY_SAFE_BUILTINS)) PY_DANGEROUS_BUILTINS = true.
Proof. vm_compute. reflexivity. Qed.
Lemma reflection_sub_attrs : forallb (fun a => mem_str a PY_DANGEROUS_ATTRS) PY_REFLECTION_ATTRS = true.
Proof. vm_compute. reflexivity. Qed.
Lemma empty_not_safe_builtin : mem_str [] PY_SAFE_BUILTINS = false.
Proof. vm_compute. reflexivity. Qed.

Lemma tables_facts :
  (forall m, In m PY_SAFE_MODULES -> mod_viols m = []) /\
  (forall m, In m PY_DANGEROUS_MODULES -> mod_viols m <> []) /\
  (forall b, In b PY_DANGEROUS_BUILTINS -> ~ In b PY_SAFE_BUILTINS) /\
  (forall a, In a PY_REFLECTION_ATTRS -> In a PY_DANGEROUS_ATTRS).
Proof.
  pose proof safe_modules_pass as H1. pose proof dangerous_modules_flagged as H2.
  pose proof builtins_disjoint as H3. pose proof reflection_sub_attrs as H4.
  rewrite forallb_forall in H1, H2, H3, H4. repeat split.
  - intros m Hm. specialize (H1 m Hm). destruct (mod_viols m); [reflexivity|discriminate].
  - intros m Hm E. specialize (H2 m Hm). rewrite E in H2. discriminate.
  - intros b Hb Hs. specialize (H3 b Hb). apply mem_str_In in Hs. rewrite Hs in H3. discriminate.
  - intros a Ha. apply mem_str_In. exact (H4 a Ha).
Qed.

(* ---------------------------------------------------------------- the per-node check, readable *)

Definition mod_ok (m : str) : Prop :=
  ~ In m PY_DANGEROUS_MODULES /\ ~ In (root_of m) PY_DANGEROUS_MODULES /\
  (In m PY_SAFE_MODULES \/ In (root_of m) PY_SAFE_MODULES).

(* a call target that is a bare name / an attribute *)
Definition callee_ok (ap : bool) (f : tree) : Prop :=
  (kind_of f = $"Name" ->
     (In (attr_d "id" f) PY_DANGEROUS_BUILTINS -> attr_d "id" f = $"print" /\ ap = true) /\ attr_d "id" f <> []) /\
  (kind_of f = $"Attribute" -> ~ In (attr_d "attr" f) PY_DANGEROUS_ATTRS).

(* `with open(...)` *)
Definition opens (item : tree) : Prop :=
  exists c f, child "context_expr" item = Some c /\ kind_of c = $"Call" /\ child "func" c = Some f /\
              kind_of f = $"Name" /\ attr_d "id" f = $"open".

(* a name that is (or hands out) a module, a loader or a by-name attribute lookup *)
Definition name_ok (n : str) : Prop :=
  ~ In n PY_ESCAPE_ATTRS /\ ~ In (lstrip [95] n) PY_DANGEROUS_MODULES.

Definition node_ok (ap : bool) (callee : bool) (d : tree) : Prop :=
  (kind_of d = $"Import" -> forall a, In a (children "names" d) -> mod_ok (attr_d "name" a)) /\
  (kind_of d = $"ImportFrom" ->
     exists m, attr "module" d = Some m /\ mod_ok m /\
               forall a, In a (children "names" d) -> name_ok (attr_d "name" a)) /\
  (kind_of d = $"Call" -> forall f, child "func" d = Some f -> callee_ok ap f) /\
  (kind_of d = $"Attribute" -> ~ In (attr_d "attr" d) PY_REFLECTION_ATTRS /\ name_ok (attr_d "attr" d)) /\
  (kind_of d = $"Name" ->
     ~ In (attr_d "id" d) PY_DANGEROUS_NAMES /\
     (* a dangerous builtin may only be mentioned as the callee of a call (judged there) or be stored to *)
     (is_load d = true -> callee = false -> In (attr_d "id" d) PY_DANGEROUS_BUILTINS ->
        attr_d "id" d = $"print" /\ ap = true)) /\
  kind_of d <> $"AsyncFunctionDef" /\ kind_of d <> $"Await" /\
  (kind_of d = $"With" -> forall it, In it (children "items" d) -> ~ opens it).

Lemma not_mem s l : mem_str s l = false <-> ~ In s l.
Proof. rewrite <- mem_str_In. destruct (mem_str s l); split; congruence. Qed.

Lemma mod_viols_nil m : mod_viols m = [] <-> mod_ok m.
Proof.
  unfold mod_viols, mod_ok, mod_dangerous, mod_known.
  destruct (mem_str m PY_DANGEROUS_MODULES) eqn:E1; cbn [orb].
  { apply mem_str_In in E1. split; [discriminate|tauto]. }
  destruct (mem_str (root_of m) PY_DANGEROUS_MODULES) eqn:E2.
  { apply mem_str_In in E2. split; [discriminate|tauto]. }
  apply not_mem in E1. apply not_mem in E2.
  destruct (mem_str m PY_SAFE_MODULES) eqn:E3; cbn [orb negb].
  { apply mem_str_In in E3. tauto. }
  destruct (mem_str (root_of m) PY_SAFE_MODULES) eqn:E4; cbn [negb].
  { apply mem_str_In in E4. tauto. }
  apply not_mem in E3. apply not_mem in E4. split; [discriminate|tauto].
Qed.

Lemma module_like_false n : module_like n = false <-> name_ok n.
Proof.
  unfold module_like, name_ok. rewrite orb_false_iff, !not_mem. tauto.
Qed.

Lemma flat_map_nil {A B} (f : A -> list B) l : flat_map f l = [] <-> forall x, In x l -> f x = [].
Proof.
  induction l as [|a l IH]; cbn [flat_map].
  - split; [intros _ x []|reflexivity].
  - split.
    + intros H. apply app_eq_nil in H as [Ha Hl]. intros x [<-|Hx]; [exact Ha|]. apply IH; assumption.
    + intros H. rewrite (H a (or_introl eq_refl)). cbn [app]. apply IH. intros x Hx. apply H. right. exact Hx.
Qed.

Lemma is_kind_eq (s : string) t : is_kind s t = true <-> kind_of t = s2l s.
Proof. unfold is_kind. apply str_eqb_eq. Qed.

Lemma name_call_lits : str_eqb $"Name" $"Attribute" = false.
Proof. vm_compute. reflexivity. Qed.

Lemma call_viols_nil ap t : call_viols ap t = [] <-> (forall f, child "func" t = Some f -> callee_ok ap f).
Proof.
  unfold call_viols. destruct (child "func" t) as [f|].
  2:{ split; [intros _ f Hf; discriminate Hf|reflexivity]. }
  assert (R : forall P : tree -> Prop, (forall f0, Some f = Some f0 -> P f0) <-> P f).
  { intros P. split; [intros H; apply H; reflexivity|intros H f0 E; injection E as <-; exact H]. }
  rewrite R. clear R. unfold callee_ok.
  destruct (is_kind "Name" f) eqn:EN.
  - apply is_kind_eq in EN.
    assert (NA : kind_of f <> $"Attribute") by (rewrite EN; intro E; discriminate E).
    destruct (mem_str (attr_d "id" f) PY_DANGEROUS_BUILTINS) eqn:ED.
    + apply mem_str_In in ED.
      destruct (str_eqb_spec (attr_d "id" f) $"print") as [Ep|Ep]; cbn [andb].
      * destruct ap.
        -- split; [intros _|reflexivity]. split; [intros _; split|intro E; contradiction].
           ++ intros _. split; [exact Ep|reflexivity].
           ++ rewrite Ep. discriminate.
        -- split; [discriminate|]. intros [H _]. destruct (H EN) as [H1 _]. destruct (H1 ED) as [_ H2]. discriminate.
      * split; [discriminate|]. intros [H _]. destruct (H EN) as [H1 _]. destruct (H1 ED) as [H2 _]. contradiction.
    + apply not_mem in ED.
      destruct (attr_d "id" f) as [|c r] eqn:Eid.
      * rewrite empty_not_safe_builtin. cbn [negb andb is_empty].
        split; [discriminate|]. intros [H _]. destruct (H EN) as [_ H2]. contradiction.
      * cbn [is_empty]. rewrite andb_false_r.
        split; [intros _|reflexivity]. split; [intros _; split|intro E; contradiction].
        -- intro Hin. contradiction.
        -- discriminate.
  - assert (NN : kind_of f <> $"Name").
    { intro E. apply is_kind_eq in E. congruence. }
    destruct (is_kind "Attribute" f) eqn:EA.
    + apply is_kind_eq in EA.
      destruct (mem_str (attr_d "attr" f) PY_DANGEROUS_ATTRS) eqn:ED.
      * apply mem_str_In in ED. split; [discriminate|]. intros [_ H]. exfalso. exact (H EA ED).
      * apply not_mem in ED. split; [intros _|reflexivity]. split; [intro E; contradiction|intros _; exact ED].
    + assert (NA : kind_of f <> $"Attribute").
      { intro E. apply is_kind_eq in E. congruence. }
      split; [intros _|reflexivity]. split; intro E; contradiction.
Qed.

Lemma with_item_nil it : with_item_viols it = [] <-> ~ opens it.
Proof.
  unfold with_item_viols, opens.
  destruct (child "context_expr" it) as [c|].
  2:{ split; [intros _ [c [f [H _]]]; discriminate H|reflexivity]. }
  destruct (is_kind "Call" c) eqn:EC.
  2:{ split; [|reflexivity]. intros _ [c0 [f [H [Hk _]]]]. injection H as <-. apply is_kind_eq in Hk. congruence. }
  apply is_kind_eq in EC.
  destruct (child "func" c) as [f|] eqn:EF.
  2:{ split; [|reflexivity]. intros _ [c0 [f [H [_ [Hf _]]]]]. injection H as <-. congruence. }
  destruct (is_kind "Name" f) eqn:EN; cbn [andb].
  2:{ split; [|reflexivity]. intros _ [c0 [f0 [H [_ [Hf [Hk _]]]]]]. injection H as <-. rewrite EF in Hf. injection Hf as <-.
      apply is_kind_eq in Hk. congruence. }
  apply is_kind_eq in EN.
  destruct (str_eqb_spec (attr_d "id" f) $"open") as [Eo|Eo].
  - split; [discriminate|]. intros H. exfalso. apply H. exists c, f. repeat split; assumption.
  - split; [|reflexivity]. intros _ [c0 [f0 [H [_ [Hf [_ Hid]]]]]]. injection H as <-. rewrite EF in Hf. injection Hf as <-. contradiction.
Qed.

Ltac conj8 := refine (conj _ (conj _ (conj _ (conj _ (conj _ (conj _ (conj _ _))))))).

(* the visitor's own per-node test is the readable predicate *)
Lemma local_nil_iff ap callee d : local ap callee d = [] <-> node_ok ap callee d.
Proof.
  unfold local, node_ok. pose proof (klass_inv (kind_of d)) as HK.
  destruct (klass (kind_of d)) eqn:EK; try rewrite HK.
  - (* Import *)
    rewrite flat_map_nil. split.
    + intros H. conj8; try (intro E; discriminate E).
      intros _ a Ha. apply mod_viols_nil. apply (H a Ha).
    + intros [H _] a Ha. apply mod_viols_nil. apply H; [reflexivity|exact Ha].
  - (* ImportFrom *)
    split.
    + intros H. conj8; try (intro E; discriminate E).
      intros _. destruct (attr "module" d) as [m|]; [|discriminate]. exists m. split; [reflexivity|].
      apply app_eq_nil in H as [H1 H2]. split; [apply mod_viols_nil; exact H1|].
      intros a Ha. rewrite flat_map_nil in H2. specialize (H2 a Ha). apply module_like_false.
      destruct (module_like (attr_d "name" a)); [discriminate|reflexivity].
    + intros [_ [H _]]. destruct (H eq_refl) as [m [Em [Hm Hn]]]. rewrite Em.
      apply mod_viols_nil in Hm. rewrite Hm. cbn [app]. apply flat_map_nil. intros a Ha.
      specialize (Hn a Ha). apply module_like_false in Hn. rewrite Hn. reflexivity.
  - (* Call *)
    rewrite call_viols_nil. split.
    + intros H. conj8; try (intro E; discriminate E). intros _. exact H.
    + intros [_ [_ [H _]]]. apply H. reflexivity.
  - (* Attribute *)
    destruct (mem_str (attr_d "attr" d) PY_REFLECTION_ATTRS) eqn:E.
    + apply mem_str_In in E. split; [discriminate|]. intros [_ [_ [_ [H _]]]]. exfalso. destruct (H eq_refl) as [H1 _]. exact (H1 E).
    + apply not_mem in E. destruct (module_like (attr_d "attr" d)) eqn:EM.
      * split; [discriminate|]. intros [_ [_ [_ [H _]]]]. destruct (H eq_refl) as [_ H2].
        apply module_like_false in H2. congruence.
      * apply module_like_false in EM. split; [intros _|reflexivity].
        conj8; try (intro E0; discriminate E0). intros _. split; assumption.
  - (* Name *)
    destruct (mem_str (attr_d "id" d) PY_DANGEROUS_NAMES) eqn:E.
    + apply mem_str_In in E. split; [discriminate|]. intros [_ [_ [_ [_ [H _]]]]]. exfalso. destruct (H eq_refl) as [H1 _]. exact (H1 E).
    + apply not_mem in E.
      destruct (is_load d) eqn:EL; cbn [andb].
      2:{ split; [intros _|reflexivity]. conj8; try (intro E0; discriminate E0). intros _. split; [exact E|]. intro X; discriminate X. }
      destruct callee; cbn [negb andb].
      { split; [intros _|reflexivity]. conj8; try (intro E0; discriminate E0). intros _. split; [exact E|]. intros _ X; discriminate X. }
      destruct (mem_str (attr_d "id" d) PY_DANGEROUS_BUILTINS) eqn:ED; cbn [andb].
      2:{ apply not_mem in ED. split; [intros _|reflexivity]. conj8; try (intro E0; discriminate E0). intros _. split; [exact E|].
          intros _ _ X. contradiction. }
      apply mem_str_In in ED.
      destruct (str_eqb_spec (attr_d "id" d) $"print") as [Ep|Ep]; cbn [andb negb].
      * destruct ap; cbn [negb].
        -- split; [intros _|reflexivity]. conj8; try (intro E0; discriminate E0). intros _. split; [exact E|].
           intros _ _ _. split; [exact Ep|reflexivity].
        -- split; [discriminate|]. intros [_ [_ [_ [_ [H _]]]]]. destruct (H eq_refl) as [_ H2].
           destruct (H2 eq_refl eq_refl ED) as [_ X]. discriminate X.
      * split; [discriminate|]. intros [_ [_ [_ [_ [H _]]]]]. destruct (H eq_refl) as [_ H2].
        destruct (H2 eq_refl eq_refl ED) as [X _]. contradiction.
  - (* AsyncFunctionDef *)
    split; [discriminate|]. intros [_ [_ [_ [_ [_ [H _]]]]]]. exfalso. apply H. reflexivity.
  - (* Await *)
    split; [discriminate|]. intros [_ [_ [_ [_ [_ [_ [H _]]]]]]]. exfalso. apply H. reflexivity.
  - (* With *)
    rewrite flat_map_nil. split.
    + intros H. conj8; try (intro E; discriminate E).
      intros _ it Hit. apply with_item_nil. apply (H it Hit).
    + intros [_ [_ [_ [_ [_ [_ [_ H]]]]]]] it Hit. apply with_item_nil. apply H; [reflexivity|exact Hit].
  - (* Global *)
    split; [intros _|reflexivity]. conj8; intro E; discriminate E.
  - (* any other class *)
    cbn [In] in HK. split; [intros _|reflexivity].
    conj8; try (intro E; exfalso; apply HK; rewrite E; tauto).
Qed.

(* ---------------------------------------------------------------- no node is skipped *)

(* Python's ast: Global(identifier* names) has no node-valued field *)
Definition global_leaf (t : tree) : Prop :=
  forall d, In d (desc t) -> kind_of d = $"Global" -> kids_of d = [].

Lemma global_leaf_kid t l c : global_leaf t -> In (l, c) (kids_of t) -> global_leaf c.
Proof. intros H Hin d Hd. apply H. eapply desc_kid; eassumption. Qed.

Lemma visit_unfold ap callee t :
  visit ap callee t = local ap callee t ++
    (if descends t then flat_map (fun p => visit ap (marks (kind_of t) (fst p) (snd p)) (snd p)) (kids_of t) else []).
Proof. destruct t; reflexivity. Qed.

Lemma desc_unfold t : desc t = t :: flat_map (fun p => desc (snd p)) (kids_of t).
Proof. destruct t; reflexivity. Qed.

(* all descendants together with the only context the visitor carries: is the node the callee
   (a Name in the func field) of the Call directly above it *)
Fixpoint descc (callee : bool) (t : tree) : list (bool * tree) :=
  (callee, t) :: match t with T k _ _ ks => flat_map (fun p => descc (marks k (fst p) (snd p)) (snd p)) ks end.

Lemma descc_unfold callee t :
  descc callee t = (callee, t) :: flat_map (fun p => descc (marks (kind_of t) (fst p) (snd p)) (snd p)) (kids_of t).
Proof. destruct t; reflexivity. Qed.

(* descc forgets nothing: it is desc with one bit attached to every node *)
Lemma descc_desc callee t : map snd (descc callee t) = desc t.
Proof.
  revert callee. induction t as [k ss fs ks IH] using tree_ind'. intros callee.
  cbn [descc desc map snd]. f_equal.
  induction ks as [|[l c] ks IHks]; [reflexivity|].
  cbn [flat_map]. rewrite map_app. inversion IH as [|x y Hc Hks]; subst. cbn [snd fst] in *.
  rewrite Hc. f_equal. apply IHks. exact Hks.
Qed.

(* the only way not to descend, without having already reported something, is a Global node *)
Lemma no_descent ap callee t : descends t = false -> local ap callee t = [] -> kind_of t = $"Global".
Proof.
  unfold descends, local. pose proof (klass_inv (kind_of t)) as HK.
  destruct (klass (kind_of t)); try discriminate.
  - destruct (attr "module" t); discriminate.
  - intros _ _. exact HK.
Qed.

Lemma visit_complete ap t : forall callee,
  global_leaf t -> visit ap callee t = [] -> forall b d, In (b, d) (descc callee t) -> local ap b d = [].
Proof.
  induction t as [k ss fs ks IH] using tree_ind'. intros callee HG HV b d Hd.
  rewrite visit_unfold in HV. apply app_eq_nil in HV as [HL HK].
  rewrite descc_unfold in Hd. destruct Hd as [E|Hd]; [injection E as <- <-; exact HL|].
  cbn [kids_of kind_of] in *. apply in_flat_map in Hd as [[l c] [Hin Hdc]]. cbn [snd fst] in Hdc.
  destruct (descends (T k ss fs ks)) eqn:ED.
  - rewrite flat_map_nil in HK. specialize (HK (l, c) Hin). cbn [snd fst] in HK.
    rewrite Forall_forall in IH. apply (IH (l, c) Hin (marks k l c)); try assumption.
    eapply global_leaf_kid; [exact HG|exact Hin].
  - exfalso. pose proof (no_descent ap _ _ ED HL) as HGl.
    assert (E : kids_of (T k ss fs ks) = []) by (apply HG; [apply desc_self|exact HGl]).
    cbn [kids_of] in E. subst ks. destruct Hin.
Qed.

Lemma visit_sound ap t : forall callee,
  (forall b d, In (b, d) (descc callee t) -> local ap b d = []) -> visit ap callee t = [].
Proof.
  induction t as [k ss fs ks IH] using tree_ind'. intros callee H.
  rewrite visit_unfold. rewrite (H callee (T k ss fs ks)) by (rewrite descc_unfold; left; reflexivity).
  cbn [app kids_of kind_of].
  destruct (descends (T k ss fs ks)); [|reflexivity].
  apply flat_map_nil. intros [l c] Hin. cbn [snd fst]. rewrite Forall_forall in IH.
  apply (IH (l, c) Hin). intros b d Hd. apply H. rewrite descc_unfold. right. cbn [kids_of kind_of].
  apply in_flat_map. exists (l, c). split; [exact Hin|exact Hd].
Qed.

Lemma visitor ap t : global_leaf t -> visit ap false t = [] ->
  forall b d, In (b, d) (descc false t) -> node_ok ap b d.
Proof. intros HG HV b d Hd. apply local_nil_iff. eapply visit_complete; eassumption. Qed.

Lemma visitor_iff ap t : global_leaf t ->
  (visit ap false t = [] <-> forall b d, In (b, d) (descc false t) -> node_ok ap b d).
Proof.
  intros HG. split; [apply visitor; exact HG|].
  intros H. apply visit_sound. intros b d Hd. apply local_nil_iff. apply H. exact Hd.
Qed.

(* every node of the tree is judged: each descendant appears in descc, with its context *)
Lemma visitor_all_nodes ap t : global_leaf t -> visit ap false t = [] ->
  forall d, In d (desc t) -> exists b, In (b, d) (descc false t) /\ node_ok ap b d.
Proof.
  intros HG HV d Hd. rewrite <- (descc_desc false t) in Hd. apply in_map_iff in Hd as [[b d'] [E Hin]].
  cbn [snd] in E. subst d'. exists b. split; [exact Hin|]. eapply visitor; eassumption.
Qed.

(* the hypothesis is needed: over arbitrary rose trees visit_Global (`pass`) hides its subtree *)
Lemma global_leaf_needed :
  exists t, visit true false t = [] /\ exists b d, In (b, d) (descc false t) /\ ~ node_ok true b d.
Proof.
  exists (T $"Global" [] [] [($"names", T $"Await" [] [] [])]). split; [vm_compute; reflexivity|].
  exists false, (T $"Await" [] [] []). split; [cbn; tauto|].
  intros [_ [_ [_ [_ [_ [_ [H _]]]]]]]. apply H. reflexivity.
Qed.

(* every violation is reported by some node, in document order: the list is the concatenation of the
   per-node reports over the nodes the visitor reaches *)
Fixpoint reach (callee : bool) (t : tree) : list (bool * tree) :=
  match t with
  | T k ss fs ks =>
      (callee, T k ss fs ks) ::
      (if descends (T k ss fs ks) then flat_map (fun p => reach (marks k (fst p) (snd p)) (snd p)) ks else [])
  end.

Lemma visit_reach ap t : forall callee,
  visit ap callee t = flat_map (fun p => local ap (fst p) (snd p)) (reach callee t).
Proof.
  induction t as [k ss fs ks IH] using tree_ind'. intros callee. cbn [visit reach flat_map fst snd]. f_equal.
  destruct (descends (T k ss fs ks)); [|reflexivity].
  induction ks as [|[l c] ks IHks]; [reflexivity|].
  cbn [flat_map snd fst]. rewrite flat_map_app. inversion IH as [|x y Hc Hks]; subst. cbn [snd] in Hc.
  rewrite Hc. f_equal. apply IHks. exact Hks.
Qed.

(* imported_roots is collected over the same nodes *)
Lemma roots_reach t : forall callee, roots t = flat_map (fun p => node_roots (snd p)) (reach callee t).
Proof.
  induction t as [k ss fs ks IH] using tree_ind'. intros callee. cbn [roots reach flat_map snd]. f_equal.
  destruct (descends (T k ss fs ks)); [|reflexivity].
  induction ks as [|[l c] ks IHks]; [reflexivity|].
  cbn [flat_map snd fst]. rewrite flat_map_app. inversion IH as [|x y Hc Hks]; subst. cbn [snd] in Hc.
  rewrite (Hc (marks k l c)). f_equal. apply IHks. exact Hks.
Qed.

Lemma insert_sorted_In x y l : In y (insert_sorted x l) <-> y = x \/ In y l.
Proof.
  induction l as [|z l IH]; cbn [insert_sorted In]; [intuition|].
  destruct (str_eqb_spec x z) as [->|Hn]; [cbn [In]; intuition|].
  destruct (str_ltb x z); cbn [In]; [intuition|]. rewrite IH. intuition.
Qed.

Lemma sorted_set_In y l : In y (sorted_set l) <-> In y l.
Proof.
  induction l as [|x l IH]; cbn [sorted_set fold_right In]; [tauto|].
  fold (sorted_set l). rewrite insert_sorted_In, IH. intuition.
Qed.

(* analyze_python_source reports nothing iff the visitor reports nothing and no imported root has a
   sibling file or directory of that name *)
Lemma source_viols_nil sibling local ap t :
  source_viols sibling local ap t = [] <->
  visit ap false t = [] /\ (forall r, In r (roots t) -> sibling r = false) /\ local = false.
Proof.
  unfold source_viols. split.
  - intros H. apply app_eq_nil in H as [H1 H2]. apply app_eq_nil in H2 as [H2 H3]. split; [exact H1|]. split.
    + intros r Hr. rewrite flat_map_nil in H2. specialize (H2 r (proj2 (sorted_set_In r _) Hr)).
      destruct (sibling r); [discriminate|reflexivity].
    + destruct local; [discriminate|reflexivity].
  - intros [H1 [H2 H3]]. rewrite H1, H3. cbn [app]. rewrite app_nil_r. apply flat_map_nil. intros r Hr.
    apply (proj1 (sorted_set_In r _)) in Hr. rewrite (H2 r Hr). reflexivity.
Qed.

(* when the visitor reports nothing every import statement of the tree has contributed its root *)
Lemma roots_complete ap t : forall callee, global_leaf t -> visit ap callee t = [] ->
  forall d, In d (desc t) ->
    (kind_of d = $"Import" -> forall a, In a (children "names" d) -> In (root_of (attr_d "name" a)) (roots t)) /\
    (kind_of d = $"ImportFrom" -> forall m, attr "module" d = Some m -> In (root_of m) (roots t)).
Proof.
  induction t as [k ss fs ks IH] using tree_ind'. intros callee HG HV d Hd.
  rewrite visit_unfold in HV. apply app_eq_nil in HV as [HL HK].
  rewrite desc_unfold in Hd. cbn [roots]. destruct Hd as [<-|Hd].
  - split.
    + intros Hk a Ha. apply in_or_app. left. unfold node_roots. rewrite Hk.
      replace (klass $"Import") with CImport by (vm_compute; reflexivity).
      apply in_map_iff. exists a. split; [reflexivity|exact Ha].
    + intros Hk m Hm. apply in_or_app. left. unfold node_roots. rewrite Hk.
      replace (klass $"ImportFrom") with CImportFrom by (vm_compute; reflexivity). rewrite Hm. left. reflexivity.
  - cbn [kids_of kind_of] in *. apply in_flat_map in Hd as [[l c] [Hin Hdc]]. cbn [snd] in Hdc.
    destruct (descends (T k ss fs ks)) eqn:ED.
    + rewrite flat_map_nil in HK. specialize (HK (l, c) Hin). cbn [snd fst] in HK.
      rewrite Forall_forall in IH.
      destruct (IH (l, c) Hin (marks k l c) (global_leaf_kid _ _ _ HG Hin) HK d Hdc) as [A1 A2].
      assert (Sub : forall r, In r (roots c) -> In r (node_roots (T k ss fs ks) ++ flat_map (fun p => roots (snd p)) ks)).
      { intros r Hr. apply in_or_app. right. apply in_flat_map. exists (l, c). split; [exact Hin|exact Hr]. }
      split; [intros Hk a Ha; apply Sub, A1; assumption|intros Hk m Hm; apply Sub, (A2 Hk m Hm)].
    + exfalso. pose proof (no_descent ap _ _ ED HL) as HGl.
      assert (E : kids_of (T k ss fs ks) = []) by (apply HG; [apply desc_self|exact HGl]).
      cbn [kids_of] in E. subst ks. destruct Hin.
Qed.
