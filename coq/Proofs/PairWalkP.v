(* The walk of Model/PairWalk.v: every ordered pair of pool indices is consecutive somewhere in it,
   every element is a pool index, and its length is n*n + 2*n. *)
From Coq Require Import List Arith Lia.
From DippyV Require Import Model.PairWalk.
Import ListNotations.

Lemma adjacent_app_l a b l r : adjacent a b l -> adjacent a b (l ++ r).
Proof. intros (l1 & l2 & ->). exists l1, (l2 ++ r). rewrite <- app_assoc. reflexivity. Qed.
Lemma adjacent_app_r a b l r : adjacent a b r -> adjacent a b (l ++ r).
Proof. intros (l1 & l2 & ->). exists (l ++ l1), l2. rewrite <- app_assoc. reflexivity. Qed.
Lemma adjacent_cons a b x l : adjacent a b l -> adjacent a b (x :: l).
Proof. apply (adjacent_app_r a b [x] l). Qed.

(* inside a zig: i directly before each j ... *)
Lemma zig_ij i j js tl : In j js -> adjacent i j (zig i js ++ tl).
Proof.
  induction js as [|k js IH]; [intros []|]. intros [->|H]; cbn [zig app].
  - exists [], (zig i js ++ tl). reflexivity.
  - apply adjacent_cons, adjacent_cons. apply IH. exact H.
Qed.
(* ... and each j directly before the next i (the next round's, or the closing one) *)
Lemma zig_head i js tl : exists r, zig i js ++ i :: tl = i :: r.
Proof. destruct js as [|k js]; cbn [zig app]; eexists; reflexivity. Qed.
Lemma zig_ji i j js tl : In j js -> adjacent j i (zig i js ++ i :: tl).
Proof.
  induction js as [|k js IH]; [intros []|]. intros [->|H]; cbn [zig app].
  - destruct (zig_head i js tl) as [r ->]. exists [i], r. reflexivity.
  - apply adjacent_cons, adjacent_cons. apply IH. exact H.
Qed.

Lemma block_pairs n i j : i <= j -> j < n -> adjacent i j (block n i) /\ adjacent j i (block n i).
Proof.
  intros Hij Hjn. assert (In j (seq i (n - i))) as Hin by (apply in_seq; lia).
  unfold block. split; [apply zig_ij; exact Hin | apply zig_ji; exact Hin].
Qed.

Lemma adjacent_flat_map (f : nat -> list nat) a b x xs : In x xs -> adjacent a b (f x) -> adjacent a b (flat_map f xs).
Proof.
  induction xs as [|y xs IH]; [intros []|]. intros [->|H] A; cbn [flat_map].
  - apply adjacent_app_l. exact A.
  - apply adjacent_app_r. apply IH; assumption.
Qed.

(* completeness: every ordered pair, the diagonal included *)
Lemma pair_walk_complete n a b : a < n -> b < n -> adjacent a b (pair_walk n).
Proof.
  intros Ha Hb. unfold pair_walk. destruct (le_lt_dec a b) as [L|L].
  - apply (adjacent_flat_map (block n) a b a); [apply in_seq; lia|]. apply (block_pairs n a b); lia.
  - apply (adjacent_flat_map (block n) a b b); [apply in_seq; lia|]. apply (block_pairs n b a); lia.
Qed.

(* range: only pool indices *)
Lemma zig_in i js x : In x (zig i js) -> x = i \/ In x js.
Proof.
  induction js as [|k js IH]; [intros []|]. cbn [zig]. intros [<-|[<-|H]]; [left; reflexivity | right; left; reflexivity|].
  destruct (IH H) as [E|E]; [left; exact E | right; right; exact E].
Qed.
Lemma pair_walk_range n x : In x (pair_walk n) -> x < n.
Proof.
  unfold pair_walk. rewrite in_flat_map. intros (i & Hi & Hx). apply in_seq in Hi. unfold block in Hx.
  apply in_app_or in Hx. destruct Hx as [Hx|[<-|[]]]; [|lia].
  apply zig_in in Hx. destruct Hx as [->|Hx]; [lia|]. apply in_seq in Hx. lia.
Qed.

(* length: n*n + 2*n analyses *)
Lemma zig_length i js : length (zig i js) = 2 * length js.
Proof. induction js as [|k js IH]; [reflexivity|]. cbn [zig length]. rewrite IH. lia. Qed.
Lemma block_length n i : length (block n i) = 2 * (n - i) + 1.
Proof. unfold block. rewrite app_length, zig_length, seq_length. reflexivity. Qed.
Lemma blocks_length n : forall k s, s + k = n -> length (flat_map (block n) (seq s k)) = k * k + 2 * k.
Proof.
  induction k as [|k IH]; intros s H; [reflexivity|]. cbn [seq flat_map]. rewrite app_length, block_length.
  rewrite (IH (S s)) by lia. replace (n - s) with (S k) by lia. lia.
Qed.
Lemma pair_walk_length n : length (pair_walk n) = n * n + 2 * n.
Proof. unfold pair_walk. apply blocks_length. reflexivity. Qed.

(* read as a history: for every leaker a and victim b there is a moment of the walk at which a has just
   been analysed and b is analysed next *)
Lemma pair_walk_moment n a b : a < n -> b < n ->
  exists before after, pair_walk n = before ++ [a] ++ [b] ++ after.
Proof. intros Ha Hb. destruct (pair_walk_complete n a b Ha Hb) as (l1 & l2 & E). exists l1, l2. exact E. Qed.
