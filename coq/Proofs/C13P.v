(* C13: what the remote flag changes in the walker. *)
From DippyV Require Import Base.Str Base.Verdict Base.Sx Base.Tree Gen.Tables Model.RawScan Model.Walker Model.Cover
  Proofs.VerdictP Proofs.WalkerP Proofs.CoverP.

Lemma remote_redirect simple astr mredir cdres injrisk rulematch c k ss fs ks :
  let t := T k ss fs ks in
  str_eqb k $"heredoc" = false -> snd c = true ->
  r_redir (ev simple astr mredir cdres injrisk rulematch t) c =
  match child "target" t with Some w => r_wp (ev simple astr mredir cdres injrisk rulematch w) (str_eqb (attr_d "op" t) HERESTRING_OP) c | None => [] end.
Proof.
  intros t Hk Hr. subst t. rewrite redir_unfold, Hk, Hr. apply app_nil_r.
Qed.
