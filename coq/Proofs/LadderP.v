(* Properties of the decision ladder (used by C02, C04, C05, C07, C13). *)
From Coq Require Import Arith PeanoNat.
From DippyV Require Import Base.Str Base.Verdict Base.Sx Base.Tree Gen.Tables Model.Walker Model.Ladder Proofs.VerdictP.

Lemma skip_assignments_length ws : (length (skip_assignments ws) <= length ws)%nat.
Proof. induction ws as [|w ws IH]; cbn [skip_assignments]; [lia|]. destruct (is_assignment w); cbn [length]; lia. Qed.

Lemma skip_wrapper_opts_length wa : forall n ts, (length ts <= n)%nat -> (length (skip_wrapper_opts wa ts) <= length ts)%nat.
Proof.
  induction n as [|n IH]; intros ts Hn; destruct ts as [|t r]; cbn [skip_wrapper_opts length] in *; try lia.
  destruct (str_eqb t [45; 45]); [lia|].
  assert (Hr : forall r', (length r' <= n)%nat -> (length (skip_wrapper_opts wa r') <= length r')%nat) by (intros; apply IH; lia).
  assert (H2 : (length (match r with [] => [] | _ :: r' => skip_wrapper_opts wa r' end) <= S (length r))%nat).
  { destruct r as [|x r']; cbn [length]; [lia|]. pose proof (Hr r' ltac:(cbn [length] in Hn; lia)). lia. }
  destruct (mem_str t wa); [exact H2|].
  destruct (prefixb [45; 45] t && negb (mem_ch 61 t)).
  { destruct (existsb (fun f => prefixb [45; 45] f && prefixb t f) wa); [exact H2|]. pose proof (Hr r ltac:(lia)). lia. }
  destruct (prefixb [45] t && Nat.ltb 1 (length t)); [|cbn [length]; lia].
  destruct (negb (prefixb [45; 45] t) && Nat.eqb (first_arg_letter wa (tl t) 1) (length t - 1)); [exact H2|].
  pose proof (Hr r ltac:(lia)). lia.
Qed.

Lemma skip_wrapper_args_length base ts : (length (skip_wrapper_args base ts) <= length ts)%nat.
Proof.
  unfold skip_wrapper_args. rewrite skipn_length.
  pose proof (skip_wrapper_opts_length (assoc_flags base WRAPPER_FLAGS_WITH_ARG) (length ts) ts (le_n _)). lia.
Qed.

Lemma skip_assignments_app pre ws : forallb is_assignment pre = true -> skip_assignments (pre ++ ws) = skip_assignments ws.
Proof.
  induction pre as [|p pre IH]; [reflexivity|]. cbn [forallb app skip_assignments].
  intro H. apply andb_true_iff in H as [Hp Hr]. rewrite Hp. exact (IH Hr).
Qed.

Lemma skip_assignments_idem ws : skip_assignments (skip_assignments ws) = skip_assignments ws.
Proof.
  induction ws as [|w ws IH]; [reflexivity|]. cbn [skip_assignments].
  destruct (is_assignment w) eqn:E; [exact IH|]. cbn [skip_assignments]. rewrite E. reflexivity.
Qed.

Lemma skip_assignments_head ws t r : skip_assignments ws = t :: r -> is_assignment t = false.
Proof.
  induction ws as [|w ws IH]; [discriminate|]. cbn [skip_assignments].
  destruct (is_assignment w) eqn:E; [exact IH|]. intro H. injection H as <- _. exact E.
Qed.

Section LadderP.
  Variable mcmd : ctx -> list str -> option verdict.
  Variable handler : ctx -> list str -> option hres.
  Variable mredir : str -> str -> option verdict.
  Variable astr : ctx -> str -> verdict.
  Notation ladder_fuel := (ladder_fuel mcmd handler mredir astr).
  Notation ladder := (ladder mcmd handler mredir astr).
  Notation after_rules := (after_rules handler mredir astr).

  (* after_rules only calls its continuation on a strictly shorter list *)
  Lemma after_rules_ext c tokens (f g : list str -> verdict) :
    (forall ws, (length ws < length tokens)%nat -> f ws = g ws) -> after_rules c tokens f = after_rules c tokens g.
  Proof.
    intro H. unfold Ladder.after_rules.
    destruct (mem_str _ WRAPPER_COMMANDS && Nat.ltb 1 (length tokens)) eqn:E; [|reflexivity].
    destruct (str_eqb _ _ && mem_str _ COMMAND_V_FLAGS); [reflexivity|].
    destruct (skip_wrapper_args _ (tl tokens)) eqn:Es; [reflexivity|].
    destruct (negb _ && is_assignment _); [reflexivity|].
    apply H. rewrite <- Es. pose proof (skip_wrapper_args_length (match tokens with b :: _ => b | [] => [] end) (tl tokens)) as Hl.
    destruct tokens as [|t0 tk]; [apply andb_true_iff in E as [_ E]; discriminate|]. cbn [tl length] in *. lia.
  Qed.

  Lemma ladder_fuel_enough c : forall n words, (length words < n)%nat -> ladder_fuel n c words = ladder c words.
  Proof.
    assert (G : forall n m words, (length words < n)%nat -> (length words < m)%nat ->
                                  ladder_fuel n c words = ladder_fuel m c words).
    { induction n as [|n IH]; intros m words Hn Hm; [lia|]. destruct m as [|m]; [lia|].
      cbn [Ladder.ladder_fuel]. destruct (skip_assignments words) as [|t r] eqn:Es; [reflexivity|]. cbn iota.
      destruct (mcmd c (t :: r)); [reflexivity|].
      apply after_rules_ext. intros ws Hws. pose proof (skip_assignments_length words) as Hl. rewrite Es in Hl.
      apply IH; lia. }
    intros n words Hn. unfold Ladder.ladder. apply G; lia.
  Qed.

  Lemma ladder_unfold c words :
    ladder c words =
    match skip_assignments words with
    | [] => Allow
    | tokens => match mcmd c tokens with
                | Some v => v
                | None => after_rules c tokens (ladder c)
                end
    end.
  Proof.
    unfold Ladder.ladder at 1. cbn [Ladder.ladder_fuel].
    destruct (skip_assignments words) as [|t r] eqn:Es; [reflexivity|]. cbn iota.
    destruct (mcmd c (t :: r)); [reflexivity|].
    apply after_rules_ext. intros ws Hws. apply ladder_fuel_enough.
    pose proof (skip_assignments_length words) as Hl. rewrite Es in Hl. lia.
  Qed.

  (* C07: a matching rule decides, whatever the built-in knowledge says *)
  Lemma rule_supreme c words t r v :
    skip_assignments words = t :: r -> mcmd c (t :: r) = Some v -> ladder c words = v.
  Proof. intros Hs Hm. rewrite ladder_unfold, Hs. cbn beta iota zeta. rewrite Hm. reflexivity. Qed.

  (* C04/C07: an environment-assignment prefix neither changes the verdict nor hides the command *)
  Lemma env_prefix c pre ws : forallb is_assignment pre = true -> ladder c (pre ++ ws) = ladder c ws.
  Proof. intro H. rewrite (ladder_unfold c (pre ++ ws)), (ladder_unfold c ws), skip_assignments_app by exact H. reflexivity. Qed.

  Lemma only_assignments c ws : forallb is_assignment ws = true -> ladder c ws = Allow.
  Proof.
    intro H. rewrite ladder_unfold. replace ws with (ws ++ []) by apply app_nil_r.
    rewrite skip_assignments_app by exact H. reflexivity.
  Qed.

  (* C05: outside every table, no rule, not a help query => ask, for all arguments *)
  Lemma unknown_asks c words base args :
    skip_assignments words = base :: args ->
    mcmd c (base :: args) = None ->
    mem_str base WRAPPER_COMMANDS = false -> mem_str base SIMPLE_SAFE = false ->
    handler c (base :: args) = None -> is_help (base :: args) = false ->
    ladder c words = Ask.
  Proof.
    intros Hs Hm Hw Hsafe Hh Hhelp. rewrite ladder_unfold, Hs. cbn beta iota zeta. rewrite Hm. unfold Ladder.after_rules.
    cbn [andb]. rewrite Hw. cbn [andb]. rewrite Hsafe, Hh, Hhelp. reflexivity.
  Qed.

  (* the only way an unknown program name is approved without a rule: the documented help shapes *)
  Lemma unknown_allow_is_help c words base args :
    skip_assignments words = base :: args ->
    mcmd c (base :: args) = None ->
    mem_str base WRAPPER_COMMANDS = false -> mem_str base SIMPLE_SAFE = false ->
    handler c (base :: args) = None ->
    ladder c words = Allow -> is_help (base :: args) = true.
  Proof.
    intros Hs Hm Hw Hsafe Hh H. destruct (is_help (base :: args)) eqn:E; [reflexivity|].
    rewrite (unknown_asks c words base args) in H by assumption. discriminate.
  Qed.

  Lemma is_help_shape tokens : is_help tokens = true <->
    (exists b t, tokens = [b; t] /\ (In t HELP_WORDS \/ In t HELP_FLAGS2 \/ In t HELP_TRAILING)) \/
    (exists b mid l, tokens = b :: mid ++ [l] /\ (1 <= length mid <= 2)%nat /\ In l HELP_TRAILING /\
                     forallb subcommand_word mid = true).
  Proof.
    split.
    - destruct tokens as [|b [|t [|x rest]]]; cbn [is_help]; try discriminate.
      + intro H. left. exists b, t. split; [reflexivity|].
        apply orb_true_iff in H as [H|H]; [apply orb_true_iff in H as [H|H]|]; apply mem_str_In in H; auto.
      + intro H. apply andb_true_iff in H as [H Hsub]. apply andb_true_iff in H as [Hl Hm]. right.
        destruct (rev (t :: x :: rest)) as [|l rr] eqn:Er.
        { apply (f_equal (@length str)) in Er. rewrite rev_length in Er. discriminate. }
        assert (Et : t :: x :: rest = rev rr ++ [l]).
        { rewrite <- (rev_involutive (t :: x :: rest)), Er. reflexivity. }
        exists b, (rev rr), l. rewrite Et. split; [reflexivity|].
        assert (Hrev : rev (b :: rev rr ++ [l]) = l :: rr ++ [b]).
        { cbn [rev]. rewrite rev_app_distr, rev_involutive. reflexivity. }
        rewrite Et in Hm, Hsub, Hl. rewrite Hrev in Hm. cbn [tl] in Hsub. rewrite removelast_last in Hsub.
        split; [|split; [apply mem_str_In, Hm|exact Hsub]].
        apply Nat.leb_le in Hl. cbn [length] in Hl. rewrite app_length in Hl. cbn [length] in Hl.
        assert (0 < length (rev rr))%nat.
        { destruct (rev rr) eqn:E; [|cbn [length]; lia]. cbn [app] in Et. discriminate. }
        lia.
    - intros [[b [t [-> H]]]|[b [mid [l [-> [Hlen [Hin Hsub]]]]]]].
      + cbn [is_help]. destruct H as [H|[H|H]]; apply mem_str_In in H; rewrite H; rewrite ?orb_true_r; reflexivity.
      + destruct mid as [|t mid']; [cbn [length] in Hlen; lia|].
        assert (E : exists x y, mid' ++ [l] = x :: y) by (destruct mid'; cbn [app]; eauto).
        destruct E as [x [y E]]. cbn [app]. rewrite E. cbn [is_help]. rewrite <- E.
        change (b :: t :: mid' ++ [l]) with ((b :: t :: mid') ++ [l]). rewrite rev_unit.
        apply mem_str_In in Hin. rewrite Hin. cbn [tl app].
        change (t :: mid' ++ [l]) with ((t :: mid') ++ [l]). rewrite removelast_last, Hsub.
        rewrite !andb_true_r. apply Nat.leb_le. cbn [length] in *. rewrite app_length. cbn [length]. lia.
  Qed.

  (* C04: the plain forms of the pure wrappers are transparent *)
  (* an option word of a wrapper that takes no argument: starts with "-", longer than "-", not "--", not in the
     wrapper's with-argument table, not an abbreviation of one of its long options, and not a short cluster whose
     LAST letter is its first option with an argument *)
  Definition takes_next (wa : list str) (t : str) : bool :=
    if prefixb [45; 45] t && negb (mem_ch 61 t) then existsb (fun f => prefixb [45; 45] f && prefixb t f) wa
    else negb (prefixb [45; 45] t) && Nat.eqb (first_arg_letter wa (tl t) 1) (length t - 1).
  Definition plain_opt (wa : list str) (t : str) : bool :=
    prefixb [45] t && Nat.ltb 1 (length t) && negb (str_eqb t [45; 45]) && negb (mem_str t wa) && negb (takes_next wa t).
  (* the first word of the wrapped command is not option-shaped *)
  Definition operand_word (t : str) : bool := negb (prefixb [45] t && Nat.ltb 1 (length t)) && negb (str_eqb t [45; 45]).

  Lemma prefix2_prefix1 t : prefixb [45; 45] t = true -> prefixb [45] t = true.
  Proof.
    destruct t as [|a [|b r]]; cbn [prefixb]; try discriminate.
    - rewrite andb_false_r. discriminate.
    - intro H. apply andb_true_iff in H as [H _]. rewrite H. reflexivity.
  Qed.

  Lemma skip_plain_step wa o r : plain_opt wa o = true -> skip_wrapper_opts wa (o :: r) = skip_wrapper_opts wa r.
  Proof.
    intro H. unfold plain_opt in H. repeat (apply andb_true_iff in H as [H ?]).
    repeat match goal with X : negb _ = true |- _ => apply negb_true_iff in X end.
    cbn [skip_wrapper_opts].
    match goal with X : str_eqb o [45;45] = false |- _ => rewrite X end.
    match goal with X : mem_str o wa = false |- _ => rewrite X end.
    match goal with X : takes_next wa o = false |- _ => unfold takes_next in X; rename X into Ht end.
    destruct (prefixb [45; 45] o && negb (mem_ch 61 o)); [rewrite Ht; reflexivity|].
    replace (prefixb [45] o && Nat.ltb 1 (length o)) with true by (symmetry; apply andb_true_iff; split; assumption).
    rewrite Ht. reflexivity.
  Qed.

  Lemma skip_opts_plain wa opts inner : forallb (plain_opt wa) opts = true ->
    match inner with t :: _ => operand_word t = true /\ mem_str t wa = false | [] => True end ->
    skip_wrapper_opts wa (opts ++ inner) = inner.
  Proof.
    intros Ho Hi. induction opts as [|o opts IH]; cbn [app].
    - destruct inner as [|t r]; [reflexivity|]. destruct Hi as [Hop Hwa]. cbn [skip_wrapper_opts].
      unfold operand_word in Hop. apply andb_true_iff in Hop as [H1 H2]. apply negb_true_iff in H1, H2.
      rewrite H2, Hwa.
      destruct (prefixb [45; 45] t) eqn:E2.
      + exfalso. pose proof (prefix2_prefix1 t E2) as E1. rewrite E1 in H1. cbn [andb] in H1.
        destruct t as [|a [|b r']]; cbn [prefixb] in E2; try discriminate;
          try (rewrite andb_false_r in E2; discriminate); cbn [length] in H1; discriminate.
      + cbn [andb]. rewrite H1. reflexivity.
    - cbn [forallb] in Ho. apply andb_true_iff in Ho as [Ho1 Ho2]. rewrite (skip_plain_step wa o _ Ho1). exact (IH Ho2).
  Qed.

  Lemma skip_opts_dashdash wa opts inner : forallb (plain_opt wa) opts = true ->
    skip_wrapper_opts wa (opts ++ [45;45] :: inner) = inner.
  Proof.
    intro Ho. induction opts as [|o opts IH]; cbn [app].
    - reflexivity.
    - cbn [forallb] in Ho. apply andb_true_iff in Ho as [Ho1 Ho2]. rewrite (skip_plain_step wa o _ Ho1). exact (IH Ho2).
  Qed.

  Lemma wrapper_transparent c w rest inner :
    is_assignment w = false ->
    mem_str w WRAPPER_COMMANDS = true ->
    mcmd c (w :: rest) = None ->
    (str_eqb w $"command" && mem_str (nth 0 rest []) COMMAND_V_FLAGS) = false ->
    skip_wrapper_args w rest = inner -> inner <> [] ->
    (negb (str_eqb w $"time") && is_assignment (hd [] inner)) = false ->
    ladder c (w :: rest) = ladder c inner.
  Proof.
    intros Ha Hw Hm Hv Hs Hne Hna. rewrite (ladder_unfold c (w :: rest)). cbn [skip_assignments]. rewrite Ha.
    cbn beta iota zeta. rewrite Hm.
    unfold Ladder.after_rules. rewrite Hw. cbn [andb].
    destruct rest as [|r0 rest'].
    { exfalso. apply Hne. rewrite <- Hs. unfold skip_wrapper_args. cbn [skip_wrapper_opts]. apply skipn_nil. }
    cbn [length Nat.ltb Nat.leb nth tl] in *. rewrite Hv, Hs. destruct inner; [congruence|]. rewrite Hna. reflexivity.
  Qed.

  (* a wrapper PROGRAM (every wrapper but the keyword time) runs a NAME=value word as a command: asked about *)
  Lemma wrapper_assignment_word_asks c w rest a inner :
    is_assignment w = false ->
    mem_str w WRAPPER_COMMANDS = true ->
    mcmd c (w :: rest) = None ->
    (str_eqb w $"command" && mem_str (nth 0 rest []) COMMAND_V_FLAGS) = false ->
    skip_wrapper_args w rest = a :: inner -> str_eqb w $"time" = false -> is_assignment a = true ->
    ladder c (w :: rest) = Ask.
  Proof.
    intros Ha Hw Hm Hv Hs Ht Has. rewrite (ladder_unfold c (w :: rest)). cbn [skip_assignments]. rewrite Ha.
    cbn beta iota zeta. rewrite Hm.
    unfold Ladder.after_rules. rewrite Hw. cbn [andb].
    destruct rest as [|r0 rest'].
    { exfalso. unfold skip_wrapper_args in Hs. cbn [skip_wrapper_opts] in Hs. rewrite skipn_nil in Hs. discriminate. }
    cbn [length Nat.ltb Nat.leb nth tl] in *. rewrite Hv, Hs. cbn [hd]. rewrite Ht, Has. reflexivity.
  Qed.

  (* a handler's answer decides when nothing earlier on the ladder applies *)
  Definition reaches_handler (c : ctx) (tokens : list str) (r : hres) : Prop :=
    mcmd c tokens = None /\
    (mem_str (match tokens with b :: _ => b | [] => [] end) WRAPPER_COMMANDS && Nat.ltb 1 (length tokens)) = false /\
    mem_str (match tokens with b :: _ => b | [] => [] end) SIMPLE_SAFE = false /\
    handler c tokens = Some r.

  Lemma handler_decides c words t tk r :
    skip_assignments words = t :: tk -> reaches_handler c (t :: tk) r ->
    ladder c words =
    if is_help (t :: tk) && negb (match h_action r with HDelegate => true | _ => nonempty (h_targets r) end) && negb (h_handles_help r) then Allow
    else match (if snd c then None else targets_verdict mredir (fst c) (h_targets r)) with
         | Some v => v
         | None => match h_action r with
                   | HAllow => Allow
                   | HDelegate => if nonempty (h_inner r) then astr (fst c, h_remote r) (h_inner r) else Ask
                   | HAsk => Ask
                   end
         end.
  Proof.
    intros Hs [Hm [Hw [Hsafe Hh]]]. rewrite ladder_unfold, Hs. cbn beta iota zeta. rewrite Hm. unfold Ladder.after_rules.
    rewrite Hw, Hsafe, Hh. reflexivity.
  Qed.

  (* C13 / C04: a delegating handler is judged by its inner command (never by the help shortcut) *)
  Lemma delegate_decides c words t tk r :
    skip_assignments words = t :: tk -> reaches_handler c (t :: tk) r ->
    h_action r = HDelegate -> h_targets r = [] -> nonempty (h_inner r) = true ->
    ladder c words = astr (fst c, h_remote r) (h_inner r).
  Proof.
    intros Hs Hr Ha Ht Hi. rewrite (handler_decides c words t tk r Hs Hr), Ha, Ht, Hi.
    cbn [negb andb]. rewrite andb_false_r. cbn [andb]. destruct (snd c); reflexivity.
  Qed.

  (* C02: approved through a handler => every reported write target is a safe sink or granted - and a granted
     target is a literal name: no character bash or the tool still rewrites *)
  Lemma written_rule_allow m t : written_rule m t = Some Allow <-> m = Some Allow /\ has_rewritten t = false.
  Proof.
    unfold written_rule. destruct m as [[| |]|]; [|split; [discriminate|intros [? _]; discriminate]..].
    destruct (has_rewritten t); split; try discriminate; try (intros [_ ?]; discriminate); auto.
  Qed.

  Lemma targets_none cwd ts : targets_verdict mredir cwd ts = None ->
    forall t, In t ts -> In t SAFE_REDIRECT_TARGETS \/ (mredir cwd t = Some Allow /\ has_rewritten t = false).
  Proof.
    induction ts as [|x ts IH]; [intros _ t []|]. cbn [targets_verdict].
    destruct (mem_str x SAFE_REDIRECT_TARGETS) eqn:E.
    - intros H t [<-|Ht]; [left; apply mem_str_In, E|exact (IH H t Ht)].
    - destruct (written_rule (mredir cwd x) x) as [[| |]|] eqn:Em; try discriminate.
      intros H t [<-|Ht]; [right; apply written_rule_allow, Em|exact (IH H t Ht)].
  Qed.

  Lemma handler_targets_granted c words t tk r :
    skip_assignments words = t :: tk -> reaches_handler c (t :: tk) r ->
    snd c = false -> is_help (t :: tk) = false ->
    ladder c words = Allow ->
    forall x, In x (h_targets r) -> In x SAFE_REDIRECT_TARGETS \/ (mredir (fst c) x = Some Allow /\ has_rewritten x = false).
  Proof.
    intros Hs Hr Hrem Hhelp H. rewrite (handler_decides c words t tk r Hs Hr), Hhelp, Hrem in H. cbn [andb] in H.
    destruct (targets_verdict mredir (fst c) (h_targets r)) as [v|] eqn:Et.
    - subst v. clear -Et. exfalso. revert Et. induction (h_targets r) as [|x ts IH]; [discriminate|].
      cbn [targets_verdict]. destruct (mem_str x SAFE_REDIRECT_TARGETS); [exact IH|].
      destruct (written_rule (mredir (fst c) x) x) as [[| |]|]; try discriminate. exact IH.
    - intros x Hx. exact (targets_none (fst c) _ Et x Hx).
  Qed.
End LadderP.

(* C07: when no rule matches anything, the ladder is the built-in ladder *)
Lemma no_rule_builtin mcmd handler mredir astr c :
  (forall ts, mcmd c ts = None) ->
  forall words, ladder mcmd handler mredir astr c words = ladder (fun _ _ => None) handler mredir astr c words.
Proof.
  intros Hn. assert (G : forall n words, ladder_fuel mcmd handler mredir astr n c words =
                                        ladder_fuel (fun _ _ => None) handler mredir astr n c words).
  { induction n as [|n IH]; intro words; [reflexivity|]. cbn [ladder_fuel].
    destruct (skip_assignments words) as [|t r]; [reflexivity|]. rewrite Hn.
    apply after_rules_ext. intros ws _. apply IH. }
  intro words. apply G.
Qed.
