(* Lemmas about Model/Sql.v *)
From DippyV Require Import Base.Str Base.Verdict Gen.Tables Model.Sql.

Lemma combine_results_true l : combine_results l = Some true <-> Forall (fun r => r = Some true) l.
Proof.
  unfold combine_results. destruct (forallb is_true l) eqn:E.
  - split; auto. intros _. rewrite forallb_forall in E. apply Forall_forall. intros x Hx.
    specialize (E x Hx). destruct x as [[|]|]; simpl in E; congruence.
  - split.
    + destruct (existsb is_false l); discriminate.
    + intro H. exfalso. assert (forallb is_true l = true); [|congruence].
      apply forallb_forall. intros x Hx. rewrite Forall_forall in H. rewrite (H x Hx). reflexivity.
Qed.
