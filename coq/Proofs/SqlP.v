(* Lemmas about Model/Sql.v: fuel-free unfolding of the stripper, what "not multiple statements" means for
   the stripped text, the result combination of the sqlite3 handler. *)
From DippyV Require Import Base.Str Base.Verdict Gen.Tables Model.Sql.

(* ---------------------------------------------------------------- every alternative consumes something *)
Lemma quote_groups_len q : forall n s t, (length s <= n)%nat -> quote_groups q s = Some t -> (length t < length s)%nat.
Proof.
  induction n as [|n IH]; intros s t Hn H; destruct s as [|c r]; cbn [quote_groups length] in *; try discriminate; try lia.
  destruct (N.eqb c q).
  - destruct r as [|c2 r2]; [inversion H; subst; cbn; lia|].
    destruct (N.eqb c2 q).
    + destruct (quote_groups q r2) eqn:E.
      * inversion H; subst. apply IH in E; cbn [length] in *; lia.
      * inversion H; subst; cbn; lia.
    + inversion H; subst; cbn; lia.
  - apply IH in H; lia.
Qed.

Lemma until_ch_len c s t : until_ch c s = Some t -> (length t < length s)%nat.
Proof.
  revert t; induction s as [|x r IH]; intros t H; cbn [until_ch length] in *; [discriminate|].
  destruct (N.eqb x c); [inversion H; subst; lia|]. apply IH in H; lia.
Qed.

Lemma line_rest_len s : (length (line_rest s) <= length s)%nat.
Proof. induction s as [|x r IH]; cbn [line_rest length]; [lia|]. destruct (N.eqb x 10); cbn [length]; lia. Qed.

Lemma until_star_slash_len : forall n s t, (length s <= n)%nat -> until_star_slash s = Some t -> (length t < length s)%nat.
Proof.
  induction n as [|n IH]; intros s t Hn H; destruct s as [|x r]; cbn [until_star_slash length] in *; try discriminate; try lia.
  destruct r as [|y r']; [discriminate|].
  destruct (N.eqb x 42 && N.eqb y 47).
  - inversion H; subst; cbn; lia.
  - apply IH in H; cbn [length] in *; lia.
Qed.

Lemma alt_quote_len q s t : alt_quote q s = Some t -> (length t < length s)%nat.
Proof.
  destruct s as [|c r]; cbn [alt_quote]; [discriminate|]. destruct (N.eqb c q); [|discriminate].
  intro H. apply (quote_groups_len q (length r)) in H; cbn [length]; lia.
Qed.
Lemma alt_delim_len o c s t : alt_delim o c s = Some t -> (length t < length s)%nat.
Proof.
  destruct s as [|x r]; cbn [alt_delim]; [discriminate|]. destruct (N.eqb x o); [|discriminate].
  intro H. apply until_ch_len in H; cbn [length]; lia.
Qed.
Lemma alt_line_len s t : alt_line s = Some t -> (length t < length s)%nat.
Proof.
  destruct s as [|a [|b r]]; cbn [alt_line]; try discriminate.
  destruct (N.eqb a 45 && N.eqb b 45); [|discriminate]. intro H; inversion H; subst.
  pose proof (line_rest_len r). cbn [length]; lia.
Qed.
Lemma alt_block_len s t : alt_block s = Some t -> (length t < length s)%nat.
Proof.
  destruct s as [|a [|b r]]; cbn [alt_block]; try discriminate.
  destruct (N.eqb a 47 && N.eqb b 42); [|discriminate]. intro H.
  apply (until_star_slash_len (length r)) in H; cbn [length]; lia.
Qed.

Lemma match_quoted_len s t : match_quoted s = Some t -> (length t < length s)%nat.
Proof.
  unfold match_quoted, quoted_alts; cbn [first_alt].
  destruct (alt_quote 39 s) eqn:E1; [intro H; inversion H; subst; eapply alt_quote_len; eauto|].
  destruct (alt_quote 34 s) eqn:E2; [intro H; inversion H; subst; eapply alt_quote_len; eauto|].
  destruct (alt_delim 96 96 s) eqn:E3; [intro H; inversion H; subst; eapply alt_delim_len; eauto|].
  destruct (alt_delim 91 93 s) eqn:E4; [intro H; inversion H; subst; eapply alt_delim_len; eauto|].
  destruct (alt_line s) eqn:E5; [intro H; inversion H; subst; eapply alt_line_len; eauto|].
  destruct (alt_block s) eqn:E6; [intro H; inversion H; subst; eapply alt_block_len; eauto|].
  discriminate.
Qed.

(* ---------------------------------------------------------------- fuel: length + 1 suffices *)
Lemma strip_fuel_enough : forall f1 f2 s, (length s < f1)%nat -> (length s < f2)%nat -> strip_fuel f1 s = strip_fuel f2 s.
Proof.
  induction f1 as [|f1 IH]; intros f2 s H1 H2; [lia|].
  destruct f2 as [|f2]; [lia|]. cbn [strip_fuel].
  destruct s as [|c r]; [reflexivity|].
  destruct (match_quoted (c :: r)) as [rest|] eqn:E.
  - apply match_quoted_len in E. f_equal. apply IH; cbn [length] in *; lia.
  - f_equal. apply IH; cbn [length] in *; lia.
Qed.

(* the substitution loop without fuel *)
Lemma strip_quoted_eq s :
  strip_quoted s =
  match s with
  | [] => []
  | c :: r => match match_quoted s with Some rest => 32 :: strip_quoted rest | None => c :: strip_quoted r end
  end.
Proof.
  unfold strip_quoted at 1. cbn [strip_fuel]. destruct s as [|c r]; [reflexivity|].
  destruct (match_quoted (c :: r)) as [rest|] eqn:E.
  - apply match_quoted_len in E. f_equal. unfold strip_quoted. apply strip_fuel_enough; cbn [length] in *; lia.
  - f_equal.
Qed.
Lemma strip_quoted_nil : strip_quoted [] = [].
Proof. reflexivity. Qed.

(* the first character decides which alternative can match *)
Definition opener (c : N) : bool := mem_ch c [39; 34; 96; 91; 45; 47].
Lemma match_quoted_inert c r : opener c = false -> match_quoted (c :: r) = None.
Proof.
  unfold opener, mem_ch; cbn [existsb]. intro H. repeat (apply orb_false_elim in H; destruct H as [? H]).
  unfold match_quoted, quoted_alts; cbn [first_alt alt_quote alt_delim alt_line alt_block].
  repeat match goal with Hx : N.eqb c ?k = false |- _ => rewrite Hx; clear Hx end.
  destruct r; reflexivity.
Qed.

Lemma strip_inert_prefix w r : forallb (fun c => negb (opener c)) w = true -> strip_quoted (w ++ r) = w ++ strip_quoted r.
Proof.
  induction w as [|c w IH]; cbn [forallb app]; [reflexivity|].
  intro H. apply andb_true_iff in H as [Hc Hw]. apply negb_true_iff in Hc.
  rewrite strip_quoted_eq. rewrite (match_quoted_inert c _ Hc). f_equal. apply IH, Hw.
Qed.

(* the first character of the result is the first character of the input, or a blank *)
Lemma strip_head c r h t : strip_quoted (c :: r) = h :: t -> h = c \/ h = 32.
Proof. rewrite strip_quoted_eq. destruct (match_quoted (c :: r)); intro H; inversion H; auto. Qed.

(* ---------------------------------------------------------------- _has_multiple_statements *)
Definition tail_ok (s : str) : Prop := forall c, In c s -> c = 59 \/ py_space c = true.
Definition shape (s : str) : Prop := match after_first 59 s with None => True | Some post => tail_ok post end.

Lemma lstrip_p_all p s : lstrip_p p s = [] -> forall c, In c s -> p c = true.
Proof.
  induction s as [|x r IH]; cbn [lstrip_p]; [intros _ c []|].
  destruct (p x) eqn:E; [|discriminate]. intros H c [<-|Hc]; auto.
Qed.
Lemma lstrip_p_suffix p s : exists pre, s = pre ++ lstrip_p p s /\ forall c, In c pre -> p c = true.
Proof.
  induction s as [|x r IH]; cbn [lstrip_p]; [exists []; split; [reflexivity|intros c []]|].
  destruct (p x) eqn:E.
  - destruct IH as [pre [H1 H2]]. exists (x :: pre). split; [cbn; congruence|]. intros c [<-|Hc]; auto.
  - exists []. split; [reflexivity|intros c []].
Qed.

(* every character of s is a p-character or occurs in strip_p p s *)
Lemma strip_p_cover p s c : In c s -> p c = true \/ In c (strip_p p s).
Proof.
  intro Hc. unfold strip_p.
  destruct (lstrip_p_suffix p s) as [pre [H1 H2]].
  rewrite H1 in Hc. apply in_app_or in Hc as [Hc|Hc]; [left; auto|].
  set (m := lstrip_p p s) in *.
  destruct (lstrip_p_suffix p (rev m)) as [pre2 [H3 H4]].
  apply in_rev in Hc. rewrite H3 in Hc. apply in_app_or in Hc as [Hc|Hc]; [left; auto|].
  right. apply in_rev. rewrite rev_involutive. exact Hc.
Qed.

Lemma scan_after_false s : scan_after s = false -> tail_ok s.
Proof.
  induction s as [|c r IH]; cbn [scan_after]; [intros _ x []|].
  destruct (py_space c) eqn:Es.
  - destruct (mem_ch 59 r) eqn:Em; [discriminate|]. intros H x [<-|Hx]; [right; exact Es|]. apply IH; auto.
  - destruct (N.eqb_spec c 59) as [->|Hn]; cbn [negb]; [|discriminate].
    intros H x [<-|Hx]; [left; reflexivity|]. apply IH; auto.
Qed.

Lemma multi_false_shape s : multi_of_stripped s = false -> shape s.
Proof.
  unfold multi_of_stripped, shape. destruct (after_first 59 s) as [after|]; [|trivial].
  destruct (strip_p py_space after) eqn:E.
  - intros _ c Hc. destruct (strip_p_cover py_space after c Hc) as [H|H]; [right; exact H|]. rewrite E in H. destruct H.
  - rewrite <- E. destruct (forallb (N.eqb 59) (strip_p py_space after)) eqn:F; [|discriminate].
    intro H. apply scan_after_false, H.
Qed.

(* ---------------------------------------------------------------- classification *)
Section Dialect.
  Variable ero ewr : list str.

  Definition ro_word (k : str) : Prop := k = $"WITH" \/ k = $"SELECT" \/ In k (readonly_keywords ero).

  Lemma classify_true_kw s : classify_stripped ero ewr s = Some true ->
    exists kw rest, match_kw (skip_ws s) = Some (kw, rest) /\ ro_word (py_upper kw).
  Proof.
    unfold classify_stripped. cbn [classify_fuel].
    destruct (skip_ws s) as [|c r] eqn:E; [discriminate|].
    destruct (match_kw (c :: r)) as [[kw rest]|]; [|discriminate].
    intro H. exists kw, rest. split; [reflexivity|]. unfold ro_word.
    destruct (str_eqb_spec (py_upper kw) $"WITH"); [auto|].
    destruct (str_eqb_spec (py_upper kw) $"SELECT"); [auto|].
    destruct (mem_str (py_upper kw) (readonly_keywords ero)) eqn:M; [right; right; apply mem_str_In, M|].
    destruct (mem_str (py_upper kw) (write_keywords ewr)); discriminate.
  Qed.

  (* the verdict is a function of the stripped text alone *)
  Lemma is_readonly_true sql : is_readonly_sql ero ewr sql = Some true ->
    multi_of_stripped (strip_quoted sql) = false /\ classify_stripped ero ewr (strip_quoted sql) = Some true.
  Proof.
    unfold is_readonly_sql, has_multiple_statements. destruct (multi_of_stripped (strip_quoted sql)); [discriminate|auto].
  Qed.

  Lemma multi_none sql : has_multiple_statements sql = true -> is_readonly_sql ero ewr sql = None.
  Proof. unfold is_readonly_sql. intros ->. reflexivity. Qed.

  (* an unknown first keyword, or no keyword at the start, is never read-only *)
  Lemma unknown_keyword_none sql kw rest :
    match_kw (skip_ws (strip_quoted sql)) = Some (kw, rest) ->
    py_upper kw <> $"WITH" -> py_upper kw <> $"SELECT" ->
    ~ In (py_upper kw) (readonly_keywords ero) -> ~ In (py_upper kw) (write_keywords ewr) ->
    is_readonly_sql ero ewr sql = None.
  Proof.
    intros Hm H1 H2 H3 H4. unfold is_readonly_sql. destruct (has_multiple_statements sql); [reflexivity|].
    unfold classify_stripped. cbn [classify_fuel].
    destruct (skip_ws (strip_quoted sql)) as [|c r]; [reflexivity|]. rewrite Hm.
    destruct (str_eqb_spec (py_upper kw) $"WITH"); [contradiction|].
    destruct (str_eqb_spec (py_upper kw) $"SELECT"); [contradiction|].
    destruct (mem_str (py_upper kw) (readonly_keywords ero)) eqn:M; [apply mem_str_In in M; contradiction|].
    destruct (mem_str (py_upper kw) (write_keywords ewr)) eqn:M2; [apply mem_str_In in M2; contradiction|reflexivity].
  Qed.
  Lemma no_keyword_none sql : match_kw (skip_ws (strip_quoted sql)) = None -> is_readonly_sql ero ewr sql = None.
  Proof.
    intro Hm. unfold is_readonly_sql. destruct (has_multiple_statements sql); [reflexivity|].
    unfold classify_stripped. cbn [classify_fuel].
    destruct (skip_ws (strip_quoted sql)) as [|c r]; [reflexivity|]. rewrite Hm. reflexivity.
  Qed.
  (* a write keyword first gives "write" *)
  Lemma write_keyword_false sql kw rest :
    has_multiple_statements sql = false ->
    match_kw (skip_ws (strip_quoted sql)) = Some (kw, rest) ->
    py_upper kw <> $"WITH" -> py_upper kw <> $"SELECT" ->
    ~ In (py_upper kw) (readonly_keywords ero) -> In (py_upper kw) (write_keywords ewr) ->
    is_readonly_sql ero ewr sql = Some false.
  Proof.
    intros Hs Hm H1 H2 H3 H4. unfold is_readonly_sql. rewrite Hs.
    unfold classify_stripped. cbn [classify_fuel].
    destruct (skip_ws (strip_quoted sql)) as [|c r] eqn:E; [cbn in Hm; discriminate|]. rewrite Hm.
    destruct (str_eqb_spec (py_upper kw) $"WITH"); [contradiction|].
    destruct (str_eqb_spec (py_upper kw) $"SELECT"); [contradiction|].
    destruct (mem_str (py_upper kw) (readonly_keywords ero)) eqn:M; [apply mem_str_In in M; contradiction|].
    apply mem_str_In in H4. rewrite H4. reflexivity.
  Qed.

  (* how a read-only verdict is reached: WITH prefixes are skipped by _skip_cte, then a read-only keyword,
     or SELECT without INTO before FROM (both on the stripped text) *)
  Inductive ro_chain : str -> Prop :=
  | rc_ro s kw rest : match_kw (skip_ws s) = Some (kw, rest) -> In (py_upper kw) (readonly_keywords ero) -> ro_chain s
  | rc_select s kw rest : match_kw (skip_ws s) = Some (kw, rest) -> py_upper kw = $"SELECT" ->
      check_select_into rest = false -> ro_chain s
  | rc_with s kw rest : match_kw (skip_ws s) = Some (kw, rest) -> py_upper kw = $"WITH" ->
      ro_chain (skip_cte rest) -> ro_chain s.

  Lemma classify_chain : forall n s, classify_fuel ero ewr n s = Some true -> ro_chain s.
  Proof.
    induction n as [|n IH]; intros s; cbn [classify_fuel]; [discriminate|].
    destruct (skip_ws s) as [|c r] eqn:E; [discriminate|].
    destruct (match_kw (c :: r)) as [[kw rest]|] eqn:M; [|discriminate].
    rewrite <- E in M.
    destruct (str_eqb_spec (py_upper kw) $"WITH") as [W|_].
    - intro H. eapply rc_with; [exact M|exact W|apply IH, H].
    - destruct (str_eqb_spec (py_upper kw) $"SELECT") as [S|_].
      + intro H. eapply rc_select; [exact M|exact S|]. destruct (check_select_into rest); [discriminate|reflexivity].
      + destruct (mem_str (py_upper kw) (readonly_keywords ero)) eqn:R.
        * intros _. eapply rc_ro; [exact M|apply mem_str_In, R].
        * destruct (mem_str (py_upper kw) (write_keywords ewr)); discriminate.
  Qed.
  Lemma is_readonly_chain sql : is_readonly_sql ero ewr sql = Some true -> ro_chain (strip_quoted sql).
  Proof. intro H. apply is_readonly_true in H as [_ H]. eapply classify_chain, H. Qed.
End Dialect.

(* ---------------------------------------------------------------- the handler's combination of the arguments *)
Lemma combine_results_true l : combine_results l = Some true <-> Forall (fun r => r = Some true) l.
Proof.
  unfold combine_results. destruct (forallb is_true l) eqn:E.
  - split; auto. intros _. rewrite forallb_forall in E. apply Forall_forall. intros x Hx.
    specialize (E x Hx). destruct x as [[|]|]; simpl in E; congruence.
  - split.
    + destruct (existsb is_false l); discriminate.
    + intro H. exfalso. assert (forallb is_true l = true); [|congruence].
      apply forallb_forall. intros x Hx. rewrite Forall_forall in H. rewrite (H x Hx). reflexivity.
Qed.
Lemma combine_results_false l : combine_results l = Some false <-> (exists r, In r l /\ r <> Some true) /\ In (Some false) l.
Proof.
  unfold combine_results. destruct (forallb is_true l) eqn:E.
  - split; [discriminate|]. intros [[r [Hr Hn]] _]. rewrite forallb_forall in E. specialize (E r Hr).
    destruct r as [[|]|]; simpl in E; congruence.
  - assert (exists r, In r l /\ r <> Some true) as Hex.
    { clear -E. induction l as [|x l IH]; [discriminate|]. cbn [forallb] in E. apply andb_false_iff in E as [E|E].
      - exists x. split; [left; reflexivity|]. intros ->. discriminate.
      - destruct (IH E) as [r [Hr Hn]]. exists r. split; [right; exact Hr|exact Hn]. }
    destruct (existsb is_false l) eqn:X.
    + split; [|reflexivity]. intros _. split; [exact Hex|]. apply existsb_exists in X as [x [Hx Hf]].
      destruct x as [[|]|]; simpl in Hf; try discriminate. exact Hx.
    + split; [discriminate|]. intros [_ Hin]. exfalso.
      assert (existsb is_false l = true); [|congruence]. apply existsb_exists. exists (Some false). auto.
Qed.

(* _classify_sql answers True only when neither guard fires *)
Lemma classify_sql_true part : classify_sql part = Some true ->
  tcl_search part = false /\ shell_fn_search part = false /\ sqlite3_sql part = Some true.
Proof.
  unfold classify_sql, sqlite3_sql. destruct (tcl_search part); [discriminate|]. destruct (shell_fn_search part); [discriminate|].
  auto.
Qed.

(* the three ways the repaired handler allows *)
Lemma sqlite3_allow_cases tokens :
  sqlite3_classify tokens = Allow ->
  let '(parts, help_flag, readonly_flag, cmd_seen) := sqlite3_scan (tl tokens) false in
  mem_str $"-init" tokens = false /\
  ((help_flag = true /\ cmd_seen = false) \/
   (readonly_flag = true /\ forall part, In part parts -> acts_anyway part = false) \/
   (parts <> [] /\ forall part, In part parts -> classify_sql part = Some true)).
Proof.
  unfold sqlite3_classify, sqlite3_shortcut, sqlite3_parts.
  destruct (mem_str $"-init" tokens); [discriminate|].
  destruct (sqlite3_scan (tl tokens) false) as [[[parts h] r] c].
  destruct (h && negb c) eqn:E1.
  { intros _. split; [reflexivity|]. left. apply andb_true_iff in E1 as [-> E]. apply negb_true_iff in E. auto. }
  destruct (r && negb (existsb acts_anyway parts)) eqn:E2.
  { intros _. split; [reflexivity|]. right; left. apply andb_true_iff in E2 as [-> E]. apply negb_true_iff in E.
    split; [reflexivity|]. intros part Hin. destruct (acts_anyway part) eqn:A; [|reflexivity].
    assert (existsb acts_anyway parts = true) by (apply existsb_exists; eauto). congruence. }
  intro H. split; [reflexivity|]. right; right.
  destruct parts as [|p ps]; [discriminate|]. split; [discriminate|].
  destruct (combine_results (map classify_sql (p :: ps))) as [[|]|] eqn:C; cbn [is_true] in H; try discriminate.
  apply combine_results_true in C. rewrite Forall_forall in C. intros x Hx. apply C, in_map, Hx.
Qed.

Lemma sqlite3_init_ask tokens : mem_str $"-init" tokens = true -> sqlite3_classify tokens = Ask.
Proof. unfold sqlite3_classify, sqlite3_shortcut. intros ->. reflexivity. Qed.

(* on the SQL path one argument that is not read-only is enough for "ask" *)
Lemma sqlite3_one_unknown tokens part :
  sqlite3_shortcut tokens = None -> In part (sqlite3_parts (tl tokens) false) -> classify_sql part <> Some true ->
  sqlite3_classify tokens = Ask.
Proof.
  unfold sqlite3_classify. intros -> Hin Hn.
  destruct (sqlite3_parts (tl tokens) false) as [|p ps] eqn:E; [reflexivity|].
  destruct (combine_results (map classify_sql (p :: ps))) as [[|]|] eqn:C; cbn [is_true]; try reflexivity.
  apply combine_results_true in C. rewrite Forall_forall in C. exfalso. apply Hn, C, in_map, Hin.
Qed.

(* without options every token after the database name is an SQL argument and no flag is set *)
Lemma sqlite3_scan_plain ts : forallb (fun t => negb (is_dash t)) ts = true -> sqlite3_scan ts true = (ts, false, false, false).
Proof.
  induction ts as [|t r IH]; cbn [forallb sqlite3_scan]; [reflexivity|].
  intro H. apply andb_true_iff in H as [Ht Hr]. apply negb_true_iff in Ht.
  assert (forall l, forallb (prefixb $"-") l = true -> mem_str t l = false) as Hno.
  { intros l Hl. destruct (mem_str t l) eqn:M; [|reflexivity]. apply mem_str_In in M.
    rewrite forallb_forall in Hl. specialize (Hl t M). unfold is_dash in Ht. congruence. }
  rewrite (Hno SQLITE3_NOARG_FLAGS) by (vm_compute; reflexivity).
  rewrite (Hno SQLITE3_ONEARG_FLAGS) by (vm_compute; reflexivity).
  destruct (str_eqb_spec t $"-lookaside") as [->|_]; [vm_compute in Ht; discriminate|].
  rewrite Ht. cbn [negb]. rewrite (IH Hr). reflexivity.
Qed.
Lemma sqlite3_parts_plain ts : forallb (fun t => negb (is_dash t)) ts = true -> sqlite3_parts ts true = ts.
Proof. intro H. unfold sqlite3_parts. rewrite (sqlite3_scan_plain ts H). reflexivity. Qed.
