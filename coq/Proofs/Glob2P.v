(* Facts about the "**" matcher: literal prefixes, confinement under D/**, and single '*' / '?'
   never crossing a path separator. *)
From Coq Require Import PeanoNat.
From DippyV Require Import Base.Str Model.Fnmatch Model.Glob2 Proofs.FnmatchP.

Notation SL := c_slash.

Lemma compile_lit L : forall fuel p, no_glob L = true -> (length L <= fuel)%nat ->
  compile fuel (L ++ p) = map ELit L ++ compile (fuel - length L) p.
Proof.
  induction L as [|c L IH]; intros fuel p Hn Hf.
  - cbn [app map length]. rewrite Nat.sub_0_r. reflexivity.
  - destruct fuel as [|f]; [simpl in Hf; lia|].
    rewrite no_glob_cons in Hn. apply andb_true_iff in Hn. destruct Hn as [Hc Hn].
    apply negb_true_iff in Hc. apply globc_false in Hc. destruct Hc as [H1 [H2 H3]].
    cbn [app compile map length]. rewrite H1, H2, H3. cbn [Nat.sub]. f_equal.
    apply IH; auto. simpl in Hf. lia.
Qed.

Lemma g2_elems_lit L p : no_glob L = true -> g2_elems (L ++ p) = map ELit L ++ g2_elems p.
Proof.
  intro Hn. unfold g2_elems. rewrite compile_lit by (auto; rewrite app_length; lia).
  rewrite app_length. replace (length L + length p - length L)%nat with (length p) by lia. reflexivity.
Qed.

Lemma ematch_lit L es : forall t, ematch (map ELit L ++ es) t = true <-> exists r, t = L ++ r /\ ematch es r = true.
Proof.
  induction L as [|c L IH]; intro t.
  - cbn [map app]. split; [intro H; exists t; auto|intros [r [-> H]]; exact H].
  - cbn [map app ematch]. destruct t as [|d t].
    + split; [discriminate|intros [r [H _]]; discriminate].
    + cbn [elem1]. rewrite andb_true_iff, N.eqb_eq, IH. split.
      * intros [-> [r [-> H]]]. exists r. auto.
      * intros [r [E H]]. inversion E; subst. split; auto. exists r; auto.
Qed.

Lemma flags_lit L es f : (forall c, f (ELit c) = false) -> existsb f (map ELit L ++ es) = existsb f es.
Proof.
  intro Hf. rewrite existsb_app. induction L as [|c L IH]; [reflexivity|].
  cbn [map existsb]. rewrite Hf. exact IH.
Qed.

(* ---- D/** ---- *)
Definition slash_star2 : str := SL :: star2.

Lemma glob2_dir D t : no_glob D = true ->
  glob2 t (D ++ slash_star2) = G2 true -> exists r, t = D ++ SL :: r.
Proof.
  intros Hn. unfold glob2.
  replace (D ++ slash_star2) with ((D ++ [SL]) ++ star2) by (rewrite <- app_assoc; reflexivity).
  assert (Hn' : no_glob (D ++ [SL]) = true) by (rewrite no_glob_app, Hn; reflexivity).
  rewrite g2_elems_lit by exact Hn'.
  change (g2_elems star2) with [EDotStar].
  rewrite !flags_lit by reflexivity. cbn [existsb is_eunsup is_eerr orb].
  intro H. inversion H as [H1]. apply ematch_lit in H1. destruct H1 as [r [-> _]].
  exists r. rewrite <- app_assoc. reflexivity.
Qed.

Lemma infixb_app_r p a : infixb p (a ++ p) = true.
Proof.
  induction a as [|x a IH].
  - destruct p; cbn [app infixb]; (apply orb_true_iff; left; apply prefixb_spec; exists []; rewrite app_nil_r; reflexivity).
  - cbn [app infixb]. rewrite IH. apply orb_true_r.
Qed.

Lemma glob_match_dir D t : no_glob D = true ->
  glob_match t (D ++ slash_star2) = G2 true -> exists r, t = D ++ SL :: r.
Proof.
  intros Hn. unfold glob_match.
  replace (D ++ slash_star2) with ((D ++ [SL]) ++ star2) at 1 by (rewrite <- app_assoc; reflexivity).
  rewrite infixb_app_r. cbn [negb].
  destruct (str_eqb_spec (D ++ slash_star2) star2) as [E|_].
  - apply (f_equal (@length N)) in E. rewrite app_length in E. cbn in E. lia.
  - apply glob2_dir. exact Hn.
Qed.

(* ---- single star and question mark stay inside one segment ---- *)
Lemma ematch_nsstar r s :
  ematch (ENsStar :: r) s = true <-> exists u v, s = u ++ v /\ mem_ch SL u = false /\ ematch r v = true.
Proof.
  split.
  - induction s as [|x s IH]; cbn [ematch]; intro H.
    + rewrite orb_false_r in H. exists [], []. auto.
    + apply orb_true_iff in H. destruct H as [H|H].
      * exists [], (x :: s). auto.
      * apply andb_true_iff in H. destruct H as [Hx H]. destruct (IH H) as [u [v [-> [Hu Hv]]]].
        exists (x :: u), v. repeat split; auto.
        change (mem_ch SL (x :: u)) with (N.eqb SL x || mem_ch SL u). rewrite Hu, orb_false_r.
        apply negb_true_iff in Hx. rewrite N.eqb_sym. exact Hx.
  - intros [u [v [-> [Hu Hv]]]]. induction u as [|x u IH].
    + cbn [app]. destruct v; cbn [ematch]; rewrite Hv; reflexivity.
    + change (mem_ch SL (x :: u)) with (N.eqb SL x || mem_ch SL u) in Hu.
      apply orb_false_iff in Hu. destruct Hu as [Hx Hu].
      cbn [app ematch]. rewrite (N.eqb_sym x SL), Hx. cbn [negb andb].
      cbn [ematch] in IH. rewrite (IH Hu). apply orb_true_r.
Qed.

Lemma ematch_ns r s :
  ematch (ENs :: r) s = true <-> exists c v, s = c :: v /\ c <> SL /\ ematch r v = true.
Proof.
  cbn [ematch]. destruct s as [|c s].
  - split; [discriminate|intros [c [v [H _]]]; discriminate].
  - cbn [elem1]. rewrite andb_true_iff, negb_true_iff, N.eqb_neq. split.
    + intros [H1 H2]. exists c, s. auto.
    + intros [c' [v [E [H1 H2]]]]. inversion E; subst. auto.
Qed.

Lemma g2_elems_star p : (forall r, p <> c_star :: r) -> g2_elems (c_star :: p) = ENsStar :: g2_elems p.
Proof.
  intro H. unfold g2_elems. cbn [length compile]. rewrite N.eqb_refl.
  destruct p as [|d p]; [reflexivity|].
  destruct (N.eqb_spec d c_star) as [->|_]; [exfalso; exact (H p eq_refl)|reflexivity].
Qed.

Lemma g2_elems_q p : g2_elems (c_q :: p) = ENs :: g2_elems p.
Proof. reflexivity. Qed.

Lemma star_one_segment L p s : no_glob L = true -> (forall r, p <> c_star :: r) ->
  (ematch (g2_elems (L ++ c_star :: p)) s = true <->
   exists u v, s = L ++ u ++ v /\ mem_ch SL u = false /\ ematch (g2_elems p) v = true).
Proof.
  intros Hn Hp. rewrite g2_elems_lit by exact Hn. rewrite g2_elems_star by exact Hp.
  rewrite ematch_lit. split.
  - intros [r [-> H]]. apply ematch_nsstar in H. destruct H as [u [v [-> [Hu Hv]]]]. exists u, v. auto.
  - intros [u [v [-> [Hu Hv]]]]. exists (u ++ v). split; auto. apply ematch_nsstar. exists u, v. auto.
Qed.

Lemma qmark_one_char L p s : no_glob L = true ->
  (ematch (g2_elems (L ++ c_q :: p)) s = true <->
   exists c v, s = L ++ c :: v /\ c <> SL /\ ematch (g2_elems p) v = true).
Proof.
  intros Hn. rewrite g2_elems_lit by exact Hn. rewrite g2_elems_q. rewrite ematch_lit. split.
  - intros [r [-> H]]. apply ematch_ns in H. destruct H as [c [v [-> [Hc Hv]]]]. exists c, v. auto.
  - intros [c [v [-> [Hc Hv]]]]. exists (c :: v). split; auto. apply ematch_ns. exists c, v. auto.
Qed.

(* "**/" ++ lit ++ "/*": the final star grants exactly one level below .../lit/ *)
Lemma one_level L s : no_glob L = true ->
  ematch (g2_elems (star2 ++ SL :: L ++ SL :: [c_star])) s = true ->
  exists x v, (s = x ++ L ++ SL :: v \/ s = x ++ L ++ SL :: v ++ [c_nl]) /\ mem_ch SL v = false.
Proof.
  intro Hn.
  assert (E : g2_elems (star2 ++ SL :: L ++ SL :: [c_star]) = EDotStar :: EOptSlash :: map ELit (L ++ [SL]) ++ [ENsStar]).
  { unfold g2_elems.
    assert (F : forall f p, compile (S f) (star2 ++ SL :: p) = EDotStar :: EOptSlash :: compile f p) by reflexivity.
    replace (length (star2 ++ SL :: L ++ SL :: [c_star])) with (S (length L + 4))
      by (cbn [star2 app length]; rewrite app_length; cbn [length]; lia).
    rewrite F. f_equal. f_equal.
    replace (L ++ SL :: [c_star]) with ((L ++ [SL]) ++ [c_star]) by (rewrite <- app_assoc; reflexivity).
    rewrite compile_lit.
    - f_equal. rewrite app_length. cbn [length].
      replace (length L + 4 - (length L + 1))%nat with 3%nat by lia. reflexivity.
    - rewrite no_glob_app, Hn. reflexivity.
    - rewrite app_length. cbn [length]. lia. }
  rewrite E. clear E.
  assert (tail_ok : forall t, ematch (map ELit (L ++ [SL]) ++ [ENsStar]) t = true ->
            exists v, (t = L ++ SL :: v \/ t = L ++ SL :: v ++ [c_nl]) /\ mem_ch SL v = false).
  { intros t H. apply ematch_lit in H. destruct H as [r [-> H]].
    apply ematch_nsstar in H. destruct H as [u [v [-> [Hu Hv]]]].
    exists u. split; auto. cbn [ematch] in Hv. destruct v as [|c [|? ?]]; try discriminate.
    - left. rewrite app_nil_r, <- app_assoc. reflexivity.
    - apply N.eqb_eq in Hv. subst c. right. rewrite <- app_assoc. reflexivity. }
  assert (opt_ok : forall t, ematch (EOptSlash :: map ELit (L ++ [SL]) ++ [ENsStar]) t = true ->
            exists x v, (t = x ++ L ++ SL :: v \/ t = x ++ L ++ SL :: v ++ [c_nl]) /\ mem_ch SL v = false).
  { intros t H. cbn [ematch] in H. apply orb_true_iff in H. destruct H as [H|H].
    - destruct (tail_ok _ H) as [v [Hv Hs]]. exists [], v. auto.
    - destruct t as [|c t]; [discriminate|]. apply andb_true_iff in H. destruct H as [Hc H].
      destruct (tail_ok _ H) as [v [[->| ->] Hs]]; exists [c], v; auto. }
  induction s as [|c s IH]; cbn [ematch]; intro H.
  - rewrite orb_false_r in H. apply opt_ok. exact H.
  - apply orb_true_iff in H. destruct H as [H|H]; [apply opt_ok; exact H|].
    apply andb_true_iff in H. destruct H as [_ H]. destruct (IH H) as [x [v [[->| ->] Hs]]]; exists (c :: x), v; auto.
Qed.
