(* bash_quote / bash_join are read back by bash as exactly the words that were quoted. *)
From DippyV Require Import Base.Str Gen.Tables Model.BashQuote.

(* ---------- characters bash_quote leaves unquoted are ordinary word characters for bash ---------- *)
Definition ascii_codes : list N := map N.of_nat (seq 0 128).

Lemma ascii_codes_complete c : c < 128 -> In c ascii_codes.
Proof.
  intro H. unfold ascii_codes. apply in_map_iff. exists (N.to_nat c). split.
  - apply N2Nat.id.
  - apply in_seq. lia.
Qed.

Definition safe_ok (c : N) : bool :=
  implb (quote_safe c) (unq_literal c && negb (is_blank c) && negb (N.eqb c SQ) && negb (N.eqb c DQ)).

Lemma safe_ok_ascii : forallb safe_ok ascii_codes = true.
Proof. vm_compute. reflexivity. Qed.

Lemma blank_lt c : is_blank c = true -> c < 128.
Proof. unfold is_blank. rewrite orb_true_iff, !N.eqb_eq. lia. Qed.

Lemma safe_char c : quote_safe c = true ->
  unq_literal c = true /\ is_blank c = false /\ N.eqb c SQ = false /\ N.eqb c DQ = false.
Proof.
  intro Hs. destruct (N.ltb_spec c 128) as [Hlt|Hge].
  - pose proof (proj1 (forallb_forall _ _) safe_ok_ascii c (ascii_codes_complete c Hlt)) as H.
    unfold safe_ok in H. rewrite Hs in H. cbn [implb] in H.
    rewrite !andb_true_iff, !negb_true_iff in H. tauto.
  - repeat split.
    + unfold unq_literal. destruct (N.ltb_spec c 128); [lia|reflexivity].
    + destruct (is_blank c) eqn:E; [apply blank_lt in E; lia|reflexivity].
    + apply N.eqb_neq. unfold SQ. lia.
    + apply N.eqb_neq. unfold DQ. lia.
Qed.

(* ---------- the lexer on an unquoted run of safe characters ---------- *)
Definition add (cur : option str) (s : str) : option str :=
  match s with [] => cur | _ => match cur with None => Some s | Some w => Some (w ++ s) end end.

Lemma add_grow cur c s : add (grow cur c) s = add cur (c :: s).
Proof.
  destruct s as [|d s]; destruct cur as [w|]; cbn [add grow]; try reflexivity.
  - rewrite <- app_assoc. reflexivity.
Qed.

Lemma bw_safe_run s : forall r cur, forallb quote_safe s = true ->
  bw (s ++ r) QU cur = bw r QU (add cur s).
Proof.
  induction s as [|c s IH]; intros r cur H.
  - reflexivity.
  - cbn [forallb] in H. apply andb_true_iff in H as [Hc Hs].
    destruct (safe_char c Hc) as (Hl & Hb & Hq & Hd).
    cbn [app bw]. rewrite Hb, Hq, Hd, Hl. rewrite IH by exact Hs. rewrite add_grow. reflexivity.
Qed.

(* ---------- the lexer inside '...' over the escaped text ---------- *)
Lemma dq_literal_sq : dq_literal SQ = true.
Proof. reflexivity. Qed.

Definition addq (cur : option str) (s : str) : option str :=
  match cur with None => Some s | Some w => Some (w ++ s) end.

Lemma addq_grow cur c s : addq (grow cur c) s = addq cur (c :: s).
Proof. destruct cur as [w|]; cbn [addq grow]; [rewrite <- app_assoc|]; reflexivity. Qed.

Lemma bw_in_sq s : forall r cur,
  bw (esc_sq s ++ SQ :: r) QS (Some cur) = bw r QU (Some (cur ++ s)).
Proof.
  induction s as [|c s IH]; intros r cur.
  - cbn [esc_sq flat_map app bw]. rewrite N.eqb_refl. rewrite app_nil_r. reflexivity.
  - unfold esc_sq in *. cbn [flat_map]. destruct (N.eqb_spec c SQ) as [->|Hn].
    + (* ' "'" ' : close, "'" , reopen *)
      cbn [app bw grow open_q]. rewrite N.eqb_refl.
      change (N.eqb DQ SQ) with false. change (is_blank DQ) with false. cbn [is_blank].
      change (N.eqb DQ DQ) with true. cbn iota.
      change (N.eqb SQ DQ) with false. rewrite dq_literal_sq. cbn iota.
      change (is_blank SQ) with false. cbn iota.
      rewrite IH. rewrite <- app_assoc. reflexivity.
    + cbn [app bw grow]. apply N.eqb_neq in Hn. rewrite Hn. rewrite IH. rewrite <- app_assoc. reflexivity.
Qed.

(* ---------- one quoted word followed by anything ---------- *)
Lemma bw_quote t r : bw (bash_quote t ++ r) QU None = bw r QU (Some t).
Proof.
  unfold bash_quote. destruct t as [|c t].
  - reflexivity.
  - destruct (forallb quote_safe (c :: t)) eqn:E.
    + rewrite bw_safe_run by exact E. reflexivity.
    + change ((SQ :: esc_sq (c :: t) ++ [SQ]) ++ r) with (SQ :: (esc_sq (c :: t) ++ [SQ]) ++ r).
      rewrite <- app_assoc. cbn [bw app]. change (is_blank SQ) with false. cbn iota.
      rewrite N.eqb_refl. cbn [open_q]. apply (bw_in_sq (c :: t) r []).
Qed.

Lemma quote_faithful s : bash_words (bash_quote s) = Some [s].
Proof.
  unfold bash_words. rewrite <- (app_nil_r (bash_quote s)). rewrite bw_quote. reflexivity.
Qed.

Lemma join_cons t u ts : bash_join (t :: u :: ts) = bash_quote t ++ [32] ++ bash_join (u :: ts).
Proof. reflexivity. Qed.

Lemma bw_join ts : ts <> [] -> bw (bash_join ts) QU None = Some ts.
Proof.
  induction ts as [|t ts IH]; intro H; [congruence|].
  destruct ts as [|u ts].
  - apply quote_faithful.
  - rewrite join_cons. rewrite bw_quote. cbn [app bw]. change (is_blank 32) with true. cbn iota.
    cbn [emit]. rewrite IH by congruence. reflexivity.
Qed.

Lemma join_faithful ts : ts <> [] -> bash_words (bash_join ts) = Some ts.
Proof. exact (bw_join ts). Qed.

(* corollaries: the quoting is injective, and a join never merges or splits words *)
Lemma quote_injective s t : bash_quote s = bash_quote t -> s = t.
Proof.
  intro H. pose proof (quote_faithful s) as A. rewrite H, quote_faithful in A. congruence.
Qed.

Lemma join_injective ts us : ts <> [] -> us <> [] -> bash_join ts = bash_join us -> ts = us.
Proof.
  intros Ht Hu H. pose proof (join_faithful ts Ht) as A. rewrite H, (join_faithful us Hu) in A. congruence.
Qed.

(* ---------- what Dippy itself reads back (analyzer._strip_quotes after the quote-removal repair) ---------- *)
Definition safe_nobs (c : N) : bool := implb (quote_safe c) (negb (N.eqb c BS)).
Lemma safe_nobs_ascii : forallb safe_nobs ascii_codes = true.
Proof. vm_compute. reflexivity. Qed.
Lemma safe_not_bs c : quote_safe c = true -> N.eqb c BS = false.
Proof.
  intro Hs. destruct (N.ltb_spec c 128) as [Hlt|Hge].
  - pose proof (proj1 (forallb_forall _ _) safe_nobs_ascii c (ascii_codes_complete c Hlt)) as H.
    unfold safe_nobs in H. rewrite Hs in H. cbn [implb] in H. apply negb_true_iff in H. exact H.
  - apply N.eqb_neq. unfold BS. lia.
Qed.

Lemma mem_ch_false_forall (c : N) (s : str) (P : N -> bool) :
  (forall x, P x = true -> N.eqb x c = false) -> forallb P s = true -> mem_ch c s = false.
Proof.
  intros HP H. induction s as [|x s IH]; [reflexivity|].
  cbn [forallb] in H. apply andb_true_iff in H as [Hx Hs].
  unfold mem_ch in *. cbn [existsb]. rewrite N.eqb_sym, (HP x Hx). cbn [orb]. apply IH, Hs.
Qed.

Lemma safe_word_plain s : forallb quote_safe s = true -> strip_quotes s = s.
Proof.
  intro H. unfold strip_quotes.
  rewrite (mem_ch_false_forall SQ s quote_safe) by (try exact H; intros x Hx; apply (safe_char x Hx)).
  rewrite (mem_ch_false_forall DQ s quote_safe) by (try exact H; intros x Hx; apply (safe_char x Hx)).
  rewrite (mem_ch_false_forall BS s quote_safe) by (try exact H; intros x Hx; apply (safe_not_bs x Hx)).
  reflexivity.
Qed.

(* inside '...' the quote-removal undoes the escaping of embedded single quotes *)
Lemma unq_in_sq w : forall r, unq (esc_sq w ++ SQ :: r) USq = option_map (app w) (unq r UOut).
Proof.
  induction w as [|c w IH]; intro r.
  - cbn [esc_sq flat_map app unq]. rewrite N.eqb_refl. destruct (unq r UOut); reflexivity.
  - unfold esc_sq in *. cbn [flat_map]. destruct (N.eqb_spec c SQ) as [->|Hn].
    + cbn [app unq]. rewrite N.eqb_refl.
      change (N.eqb DQ SQ) with false. change (N.eqb DQ DQ) with true. cbv iota.
      change (N.eqb SQ DQ) with false. change (N.eqb SQ BS) with false. cbv iota.
      change (N.eqb DQ BS) with false. cbv iota.
      rewrite IH. destruct (unq r UOut); reflexivity.
    + cbn [app unq]. apply N.eqb_neq in Hn. rewrite Hn. rewrite IH. destruct (unq r UOut); reflexivity.
Qed.

Lemma infix2_mem a b v : infixb [a; b] v = true -> mem_ch b v = true.
Proof.
  induction v as [|x v IH]; intro H; [discriminate|].
  cbn [infixb] in H. apply orb_true_iff in H as [H|H].
  - destruct v as [|y v]; cbn [prefixb] in H.
    + rewrite andb_false_r in H. discriminate.
    + apply andb_true_iff in H as [_ H]. apply andb_true_iff in H as [H _].
      unfold mem_ch. cbn [existsb]. rewrite H. rewrite orb_true_r. reflexivity.
  - unfold mem_ch in *. cbn [existsb]. rewrite (IH H). apply orb_true_r.
Qed.

(* the words for which re-reading is NOT the identity: a dollar sign ends up right before a quote
   (the walker then keeps the word as written, quotes included) *)
Definition clean (w : str) : bool := negb (has_dollar_quote (bash_quote w)).

Lemma reread_clean w : clean w = true -> reread w = w.
Proof.
  unfold clean. rewrite negb_true_iff. intro H. unfold reread.
  unfold bash_quote in *. destruct w as [|c t]; [reflexivity|].
  destruct (forallb quote_safe (c :: t)) eqn:E.
  - apply safe_word_plain, E.
  - unfold strip_quotes. rewrite H.
    assert (M : mem_ch SQ (SQ :: esc_sq (c :: t) ++ [SQ]) = true) by (unfold mem_ch; cbn [existsb]; rewrite N.eqb_refl; reflexivity).
    rewrite M. cbn [negb andb]. cbn [unq]. rewrite N.eqb_refl.
    rewrite (unq_in_sq (c :: t) []). cbn [unq option_map]. rewrite app_nil_r. reflexivity.
Qed.

Lemma reread_dollar w : clean w = false -> reread w = bash_quote w.
Proof.
  unfold clean. rewrite negb_false_iff. intro H. unfold reread, strip_quotes. rewrite H.
  destruct (negb (mem_ch SQ (bash_quote w)) && negb (mem_ch DQ (bash_quote w)) && negb (mem_ch BS (bash_quote w))); reflexivity.
Qed.

(* a word with no dollar sign at all is always clean *)
Lemma no_dollar_clean w : mem_ch DOLLAR w = false -> clean w = true.
Proof.
  intro H. unfold clean, has_dollar_quote. apply negb_true_iff.
  assert (G : forall q v, mem_ch DOLLAR v = false -> infixb [DOLLAR; q] v = false).
  { intros q v. induction v as [|x v IH]; intro Hv; [reflexivity|].
    unfold mem_ch in Hv. cbn [existsb] in Hv. apply orb_false_iff in Hv as [Hx Hv].
    cbn [infixb prefixb]. rewrite Hx. cbn [andb orb]. apply IH, Hv. }
  assert (D : mem_ch DOLLAR (bash_quote w) = false).
  { unfold bash_quote. destruct w as [|c t]; [reflexivity|].
    destruct (forallb quote_safe (c :: t)); [exact H|].
    unfold mem_ch. cbn [existsb]. change (N.eqb DOLLAR SQ) with false. cbn [orb].
    rewrite existsb_app. cbn [existsb]. change (N.eqb DOLLAR SQ) with false. rewrite !orb_false_r.
    unfold esc_sq. apply not_true_is_false. intro E. apply existsb_exists in E as [x [Hx Ex]].
    apply in_flat_map in Hx as [y [Hy Hx]]. apply N.eqb_eq in Ex. subst x.
    destruct (N.eqb y SQ).
    - cbn in Hx. repeat (destruct Hx as [Hx|Hx]; [discriminate|]). destruct Hx.
    - destruct Hx as [Hx|[]]. subst y. unfold mem_ch in H.
      assert (existsb (N.eqb DOLLAR) (c :: t) = true) by (apply existsb_exists; exists DOLLAR; split; [exact Hy|apply N.eqb_refl]).
      congruence. }
  rewrite (G SQ _ D), (G DQ _ D). reflexivity.
Qed.
