(* bash_quote / bash_join are read back by bash as exactly the words that were quoted. *)
From DippyV Require Import Base.Str Gen.Tables Model.BashQuote.

(* ---------- characters bash_quote leaves unquoted are ordinary word characters for bash ---------- *)
Definition ascii_codes : list N := map N.of_nat (seq 0 128).

Lemma ascii_codes_complete c : c < 128 -> In c ascii_codes.
Proof.
  intro H. unfold ascii_codes. apply in_map_iff. exists (N.to_nat c). split.
  - apply N2Nat.id.
  - apply in_seq. lia.
Qed.

Definition safe_ok (c : N) : bool :=
  implb (quote_safe c) (unq_literal c && negb (is_blank c) && negb (N.eqb c SQ) && negb (N.eqb c DQ)).

Lemma safe_ok_ascii : forallb safe_ok ascii_codes = true.
Proof. vm_compute. reflexivity. Qed.

Lemma blank_lt c : is_blank c = true -> c < 128.
Proof. unfold is_blank. rewrite orb_true_iff, !N.eqb_eq. lia. Qed.

Lemma safe_char c : quote_safe c = true ->
  unq_literal c = true /\ is_blank c = false /\ N.eqb c SQ = false /\ N.eqb c DQ = false.
Proof.
  intro Hs. destruct (N.ltb_spec c 128) as [Hlt|Hge].
  - pose proof (proj1 (forallb_forall _ _) safe_ok_ascii c (ascii_codes_complete c Hlt)) as H.
    unfold safe_ok in H. rewrite Hs in H. cbn [implb] in H.
    rewrite !andb_true_iff, !negb_true_iff in H. tauto.
  - repeat split.
    + unfold unq_literal. destruct (N.ltb_spec c 128); [lia|reflexivity].
    + destruct (is_blank c) eqn:E; [apply blank_lt in E; lia|reflexivity].
    + apply N.eqb_neq. unfold SQ. lia.
    + apply N.eqb_neq. unfold DQ. lia.
Qed.

(* ---------- the lexer on an unquoted run of safe characters ---------- *)
Definition add (cur : option str) (s : str) : option str :=
  match s with [] => cur | _ => match cur with None => Some s | Some w => Some (w ++ s) end end.

Lemma add_grow cur c s : add (grow cur c) s = add cur (c :: s).
Proof.
  destruct s as [|d s]; destruct cur as [w|]; cbn [add grow]; try reflexivity.
  - rewrite <- app_assoc. reflexivity.
Qed.

Lemma bw_safe_run s : forall r cur, forallb quote_safe s = true ->
  bw (s ++ r) QU cur = bw r QU (add cur s).
Proof.
  induction s as [|c s IH]; intros r cur H.
  - reflexivity.
  - cbn [forallb] in H. apply andb_true_iff in H as [Hc Hs].
    destruct (safe_char c Hc) as (Hl & Hb & Hq & Hd).
    cbn [app bw]. rewrite Hb, Hq, Hd, Hl. rewrite IH by exact Hs. rewrite add_grow. reflexivity.
Qed.

(* ---------- the lexer inside '...' over the escaped text ---------- *)
Lemma dq_literal_sq : dq_literal SQ = true.
Proof. reflexivity. Qed.

Definition addq (cur : option str) (s : str) : option str :=
  match cur with None => Some s | Some w => Some (w ++ s) end.

Lemma addq_grow cur c s : addq (grow cur c) s = addq cur (c :: s).
Proof. destruct cur as [w|]; cbn [addq grow]; [rewrite <- app_assoc|]; reflexivity. Qed.

Lemma bw_in_sq s : forall r cur,
  bw (esc_sq s ++ SQ :: r) QS (Some cur) = bw r QU (Some (cur ++ s)).
Proof.
  induction s as [|c s IH]; intros r cur.
  - cbn [esc_sq flat_map app bw]. rewrite N.eqb_refl. rewrite app_nil_r. reflexivity.
  - unfold esc_sq in *. cbn [flat_map]. destruct (N.eqb_spec c SQ) as [->|Hn].
    + (* ' "'" ' : close, "'" , reopen *)
      cbn [app bw grow open_q]. rewrite N.eqb_refl.
      change (N.eqb DQ SQ) with false. change (is_blank DQ) with false. cbn [is_blank].
      change (N.eqb DQ DQ) with true. cbn iota.
      change (N.eqb SQ DQ) with false. rewrite dq_literal_sq. cbn iota.
      change (is_blank SQ) with false. cbn iota.
      rewrite IH. rewrite <- app_assoc. reflexivity.
    + cbn [app bw grow]. apply N.eqb_neq in Hn. rewrite Hn. rewrite IH. rewrite <- app_assoc. reflexivity.
Qed.

(* ---------- one quoted word followed by anything ---------- *)
Lemma bw_quote t r : bw (bash_quote t ++ r) QU None = bw r QU (Some t).
Proof.
  unfold bash_quote. destruct t as [|c t].
  - reflexivity.
  - destruct (forallb quote_safe (c :: t)) eqn:E.
    + rewrite bw_safe_run by exact E. reflexivity.
    + change ((SQ :: esc_sq (c :: t) ++ [SQ]) ++ r) with (SQ :: (esc_sq (c :: t) ++ [SQ]) ++ r).
      rewrite <- app_assoc. cbn [bw app]. change (is_blank SQ) with false. cbn iota.
      rewrite N.eqb_refl. cbn [open_q]. apply (bw_in_sq (c :: t) r []).
Qed.

Lemma quote_faithful s : bash_words (bash_quote s) = Some [s].
Proof.
  unfold bash_words. rewrite <- (app_nil_r (bash_quote s)). rewrite bw_quote. reflexivity.
Qed.

Lemma join_cons t u ts : bash_join (t :: u :: ts) = bash_quote t ++ [32] ++ bash_join (u :: ts).
Proof. reflexivity. Qed.

Lemma bw_join ts : ts <> [] -> bw (bash_join ts) QU None = Some ts.
Proof.
  induction ts as [|t ts IH]; intro H; [congruence|].
  destruct ts as [|u ts].
  - apply quote_faithful.
  - rewrite join_cons. rewrite bw_quote. cbn [app bw]. change (is_blank 32) with true. cbn iota.
    cbn [emit]. rewrite IH by congruence. reflexivity.
Qed.

Lemma join_faithful ts : ts <> [] -> bash_words (bash_join ts) = Some ts.
Proof. exact (bw_join ts). Qed.

(* corollaries: the quoting is injective, and a join never merges or splits words *)
Lemma quote_injective s t : bash_quote s = bash_quote t -> s = t.
Proof.
  intro H. pose proof (quote_faithful s) as A. rewrite H, quote_faithful in A. congruence.
Qed.

Lemma join_injective ts us : ts <> [] -> us <> [] -> bash_join ts = bash_join us -> ts = us.
Proof.
  intros Ht Hu H. pose proof (join_faithful ts Ht) as A. rewrite H, (join_faithful us Hu) in A. congruence.
Qed.

(* ---------- what Dippy itself reads back: only the outer quotes are removed ---------- *)
Lemma rev_app_last {A} (l : list A) (x : A) : rev (l ++ [x]) = x :: rev l.
Proof. rewrite rev_app_distr. reflexivity. Qed.

Lemma strip_sq_wrapped m : strip_quotes (SQ :: m ++ [SQ]) = m.
Proof.
  unfold strip_quotes. rewrite rev_app_last. rewrite N.eqb_refl.
  change (N.eqb SQ DQ) with false. cbn [andb orb]. apply rev_involutive.
Qed.

Lemma esc_sq_id s : existsb (N.eqb SQ) s = false -> esc_sq s = s.
Proof.
  induction s as [|c s IH]; intro H; [reflexivity|].
  cbn [existsb] in H. apply orb_false_iff in H as [Hc Hs].
  unfold esc_sq in *. cbn [flat_map]. rewrite N.eqb_sym, Hc. cbn [app]. rewrite IH by exact Hs. reflexivity.
Qed.

Lemma safe_no_quote_ends s : forallb quote_safe s = true -> strip_quotes s = s.
Proof.
  intro H. destruct s as [|a r]; [reflexivity|].
  unfold strip_quotes. destruct (rev r) as [|b mid] eqn:E; [reflexivity|].
  cbn [forallb] in H. apply andb_true_iff in H as [Ha _].
  destruct (safe_char a Ha) as (_ & _ & Hq & Hd). rewrite Hq, Hd. reflexivity.
Qed.

(* re-reading is the identity exactly on words without a single quote; otherwise the ladder is
   handed the escaped text *)
Lemma reread_plain w : existsb (N.eqb SQ) w = false -> w <> [] -> reread w = w.
Proof.
  intros H Hne. unfold reread, bash_quote. destruct w as [|c t]; [congruence|].
  destruct (forallb quote_safe (c :: t)) eqn:E.
  - apply safe_no_quote_ends; exact E.
  - rewrite strip_sq_wrapped. apply esc_sq_id; exact H.
Qed.

Lemma reread_empty : reread [] = [].
Proof. reflexivity. Qed.

Lemma reread_quoted w : existsb (N.eqb SQ) w = true -> reread w = esc_sq w.
Proof.
  intro H. unfold reread, bash_quote. destruct w as [|c t]; [discriminate|].
  destruct (forallb quote_safe (c :: t)) eqn:E.
  - exfalso. apply existsb_exists in H as [x [Hin Hx]]. apply N.eqb_eq in Hx; subst x.
    pose proof (proj1 (forallb_forall _ _) E SQ Hin) as Hs.
    destruct (safe_char SQ Hs) as (_ & _ & Hq & _). rewrite N.eqb_refl in Hq. discriminate.
  - apply strip_sq_wrapped.
Qed.
