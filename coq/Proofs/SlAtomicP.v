(* C20, part "untorn": the tmp.<pid> + rename protocol keeps the cache entry complete under
   every interleaving of writers, readers and kills. *)
From Coq Require Import Arith.
From DippyV Require Import Base.Str Model.Statusline.
Local Open Scope nat_scope.

Lemma fname_eqb_spec a b : reflect (a = b) (fname_eqb a b).
Proof.
  destruct a as [|p], b as [|q]; simpl; try (constructor; congruence).
  destruct (Nat.eqb_spec p q); constructor; congruence.
Qed.

Lemma upd_same {A} (f : nat -> A) p v : upd f p v p = v.
Proof. unfold upd. rewrite Nat.eqb_refl. reflexivity. Qed.
Lemma upd_other {A} (f : nat -> A) p q v : q <> p -> upd f p v q = f q.
Proof. unfold upd. intro H. destruct (Nat.eqb_spec q p); congruence. Qed.
Lemma dupd_same d n v : dupd d n v n = v.
Proof. unfold dupd. destruct (fname_eqb_spec n n); congruence. Qed.
Lemma dupd_other d n m v : m <> n -> dupd d n v m = d m.
Proof. unfold dupd. intro H. destruct (fname_eqb_spec m n); congruence. Qed.

(* ---- list facts *)
Lemma firstn_len_firstn {A} k (l : list A) : firstn (length (firstn k l)) l = firstn k l.
Proof.
  rewrite firstn_length. destruct (Nat.le_ge_cases k (length l)).
  - rewrite Nat.min_l by assumption. reflexivity.
  - rewrite Nat.min_r by assumption. rewrite firstn_all. symmetry. apply firstn_all2. assumption.
Qed.

Lemma firstn_extend {A} off k (w : list A) :
  firstn off w ++ firstn k (skipn off w) = firstn (off + length (firstn k (skipn off w))) w.
Proof.
  revert w. induction off as [|off IH]; intro w.
  - simpl. symmetry. apply firstn_len_firstn.
  - destruct w as [|a w]; simpl.
    + rewrite !firstn_nil. reflexivity.
    + f_equal. apply IH.
Qed.

Lemma pwrite_extend off k (w : content) : off <= length w ->
  pwrite (firstn off w) off (firstn k (skipn off w)) = firstn (off + length (firstn k (skipn off w))) w.
Proof.
  intro H. unfold pwrite.
  assert (L : length (firstn off w) = off) by (rewrite firstn_length; lia).
  rewrite L, Nat.sub_diag. simpl. rewrite app_nil_r.
  rewrite firstn_all2 by lia.
  rewrite skipn_all2 with (l := firstn off w) by lia. rewrite app_nil_r. apply firstn_extend.
Qed.

Lemma chunk_bound {A} off k (w : list A) : off <= length w -> off + length (firstn k (skipn off w)) <= length w.
Proof. intro H. rewrite firstn_length, skipn_length. lia. Qed.

(* ---- the invariant *)
Definition tmp_named (s : st) (i : nat) : Prop := exists p, dir s (Tmp p) = Some i.
Definition complete (s : st) (c : content) : Prop := In c (produced s).

Record Inv (s : st) : Prop := {
  I_inj : forall n1 n2 i, dir s n1 = Some i -> dir s n2 = Some i -> n1 = n2;
  I_alloc : forall n i, dir s n = Some i -> i < nxt s;
  (* an allocated inode that no tmp name designates holds a complete line, for ever *)
  I_frozen : forall i, i < nxt s -> tmp_named s i \/ complete s (ino s i);
  I_rd : forall r i got, rd s r = ROpen i got ->
           i < nxt s /\ ~ tmp_named s i /\ got = firstn (length got) (ino s i);
  I_rdone : forall r got, rd s r = RDone got -> complete s got;
  I_wopen : forall p i off, wr s p = WOpen i off ->
           dir s (Tmp p) = Some i /\ ino s i = firstn off (want s p) /\ off <= length (want s p) /\ complete s (want s p);
  I_wclosed : forall p, wr s p = WClosed ->
           exists i, dir s (Tmp p) = Some i /\ ino s i = want s p /\ complete s (want s p);
  I_widle : forall p, wr s p = WIdle -> complete s (want s p)
}.

Lemma inv_init c0 : Inv (init c0).
Proof.
  destruct c0 as [c|]; constructor; simpl; intros; try discriminate; try lia.
  - destruct n1, n2; congruence.
  - destruct n; [injection H as <-; lia | discriminate].
  - right. left. reflexivity.
Qed.

Ltac inv_fields H :=
  destruct H as [Hinj Halloc Hfrozen Hrd Hrdone Hwopen Hwclosed Hwidle].

(* tmp names other than p's keep their meaning *)
Lemma tmp_named_ino s f i : tmp_named (set_ino s f) i <-> tmp_named s i.
Proof. reflexivity. Qed.

Lemma step_spawn s p c s' : Inv s -> step Protocol s (ESpawn p c) = Some s' -> Inv s'.
Proof.
  intros HI. cbn [step]. intro H.
  assert (Hp : (wr s p = WDone \/ wr s p = WDead) /\
          s' = {| ino := ino s; nxt := nxt s; dir := dir s; wr := upd (wr s) p WIdle; want := upd (want s) p c;
                  rd := rd s; produced := c :: produced s |}).
  { destruct (wr s p); try discriminate; injection H as <-; auto. }
  clear H. destruct Hp as [Hp ->]. inv_fields HI.
  constructor; unfold complete, tmp_named in *; cbn [ino nxt dir wr want rd produced]; intros.
  - eauto.
  - eauto.
  - destruct (Hfrozen i H); [left|right; right]; auto.
  - eauto.
  - right. eauto.
  - destruct (Nat.eqb_spec p0 p) as [->|Hne].
    + rewrite upd_same in H. discriminate.
    + rewrite upd_other in H by assumption; rewrite (upd_other (want s)) by assumption. destruct (Hwopen _ _ _ H) as [A [B [C D]]]. repeat split; auto. right; auto.
  - destruct (Nat.eqb_spec p0 p) as [->|Hne].
    + rewrite upd_same in H. discriminate.
    + rewrite upd_other in H by assumption; rewrite (upd_other (want s)) by assumption. destruct (Hwclosed _ H) as [i [A [B C]]]. exists i. repeat split; auto. right; auto.
  - destruct (Nat.eqb_spec p0 p) as [->|Hne].
    + rewrite upd_same. left. reflexivity.
    + rewrite upd_other in H by assumption; rewrite (upd_other (want s)) by assumption. right. auto.
Qed.

Lemma step_openw s p s' : Inv s -> step Protocol s (EOpenW p) = Some s' -> Inv s'.
Proof.
  intros HI. cbn [step wname]. destruct (wr s p) eqn:Wp; try discriminate.
  inv_fields HI. pose proof (Hwidle _ Wp) as Hwant.
  destruct (dir s (Tmp p)) as [i|] eqn:Dp; intro H; injection H as <-.
  - (* O_TRUNC of the leftover inode of an earlier process with the same pid *)
    constructor; unfold complete, tmp_named in *; cbn [ino nxt dir wr want rd produced]; intros.
    + eauto.
    + eauto.
    + destruct (Nat.eqb_spec i0 i) as [->|Hne]; [left; eauto|]. rewrite upd_other by assumption. auto.
    + destruct (Hrd _ _ _ H) as [A [B C]]. repeat split; auto.
      rewrite upd_other; auto. intros ->. apply B. eauto.
    + eauto.
    + destruct (Nat.eqb_spec p0 p) as [->|Hne].
      * rewrite upd_same in H. injection H as <- <-. rewrite upd_same. repeat split; auto. lia.
      * rewrite upd_other in H by assumption. destruct (Hwopen _ _ _ H) as [A [B [C D]]]. repeat split; auto.
        rewrite upd_other; auto. intros ->. assert (Tmp p0 = Tmp p) by eauto. congruence.
    + destruct (Nat.eqb_spec p0 p) as [->|Hne]; [rewrite upd_same in H; discriminate|].
      rewrite upd_other in H by assumption. destruct (Hwclosed _ H) as [j [A [B C]]]. exists j. repeat split; auto.
      rewrite upd_other; auto. intros ->. assert (Tmp p0 = Tmp p) by eauto. congruence.
    + destruct (Nat.eqb_spec p0 p) as [->|Hne]; [rewrite upd_same in H; discriminate|].
      rewrite upd_other in H by assumption. auto.
  - (* O_CREAT: a fresh inode *)
    assert (Hfresh : forall n, dir s n <> Some (nxt s)) by (intros n E; apply Halloc in E; lia).
    constructor; unfold complete, tmp_named in *; cbn [ino nxt dir wr want rd produced]; intros.
    + destruct (fname_eqb_spec n1 (Tmp p)) as [->|N1], (fname_eqb_spec n2 (Tmp p)) as [->|N2]; auto.
      * rewrite dupd_same in H. rewrite dupd_other in H0 by assumption. injection H as <-. exfalso; eapply Hfresh; eauto.
      * rewrite dupd_same in H0. rewrite dupd_other in H by assumption. injection H0 as <-. exfalso; eapply Hfresh; eauto.
      * rewrite dupd_other in * by assumption. eauto.
    + destruct (fname_eqb_spec n (Tmp p)) as [->|N1].
      * rewrite dupd_same in H. injection H as <-. lia.
      * rewrite dupd_other in H by assumption. apply Halloc in H. lia.
    + destruct (Nat.eqb_spec i (nxt s)) as [->|Hne].
      * left. exists p. apply dupd_same.
      * rewrite upd_other by assumption. destruct (Hfrozen i) as [[q Hq]|Hc]; [lia| |auto].
        left. exists q. rewrite dupd_other; auto. congruence.
    + destruct (Hrd _ _ _ H) as [A [B C]]. repeat split; [lia| |rewrite upd_other; auto; lia].
      intros [q Hq]. destruct (fname_eqb_spec (Tmp q) (Tmp p)) as [E|N].
      * rewrite E, dupd_same in Hq. injection Hq as <-. lia.
      * rewrite dupd_other in Hq by assumption. apply B. eauto.
    + eauto.
    + destruct (Nat.eqb_spec p0 p) as [->|Hne].
      * rewrite upd_same in H. injection H as <- <-. rewrite dupd_same, upd_same. repeat split; auto. lia.
      * rewrite upd_other in H by assumption. destruct (Hwopen _ _ _ H) as [A [B [C D]]].
        rewrite dupd_other by congruence. repeat split; auto.
        rewrite upd_other; auto. intros ->. eapply Hfresh; eauto.
    + destruct (Nat.eqb_spec p0 p) as [->|Hne]; [rewrite upd_same in H; discriminate|].
      rewrite upd_other in H by assumption. destruct (Hwclosed _ H) as [j [A [B C]]]. exists j.
      rewrite dupd_other by congruence. repeat split; auto.
      rewrite upd_other; auto. intros ->. eapply Hfresh; eauto.
    + destruct (Nat.eqb_spec p0 p) as [->|Hne]; [rewrite upd_same in H; discriminate|].
      rewrite upd_other in H by assumption. auto.
Qed.

Lemma step_write s p k s' : Inv s -> step Protocol s (EWrite p k) = Some s' -> Inv s'.
Proof.
  intros HI. cbn [step]. destruct (wr s p) eqn:Wp; try discriminate. intro H; injection H as <-.
  inv_fields HI. destruct (Hwopen _ _ _ Wp) as [Dp [Ci [Hoff Hwant]]].
  constructor; unfold complete, tmp_named, set_wr, set_ino in *; cbn [ino nxt dir wr want rd produced]; intros.
  - eauto.
  - eauto.
  - destruct (Nat.eqb_spec i0 i) as [->|Hne]; [left; eauto|]. rewrite upd_other by assumption. auto.
  - destruct (Hrd _ _ _ H) as [A [B C]]. repeat split; auto.
    rewrite upd_other; auto. intros ->. apply B. eauto.
  - eauto.
  - destruct (Nat.eqb_spec p0 p) as [->|Hne].
    + rewrite upd_same in H. injection H as <- <-. rewrite upd_same. repeat split; auto.
      * rewrite Ci. apply pwrite_extend. assumption.
      * apply chunk_bound. assumption.
    + rewrite upd_other in H by assumption. destruct (Hwopen _ _ _ H) as [A [B [C D]]]. repeat split; auto.
      rewrite upd_other; auto. intros ->. assert (Tmp p0 = Tmp p) by eauto. congruence.
  - destruct (Nat.eqb_spec p0 p) as [->|Hne]; [rewrite upd_same in H; discriminate|].
    rewrite upd_other in H by assumption. destruct (Hwclosed _ H) as [j [A [B C]]]. exists j. repeat split; auto.
    rewrite upd_other; auto. intros ->. assert (Tmp p0 = Tmp p) by eauto. congruence.
  - destruct (Nat.eqb_spec p0 p) as [->|Hne]; [rewrite upd_same in H; discriminate|].
    rewrite upd_other in H by assumption. auto.
Qed.

Lemma step_closew s p s' : Inv s -> step Protocol s (ECloseW p) = Some s' -> Inv s'.
Proof.
  intros HI. cbn [step]. destruct (wr s p) eqn:Wp; try discriminate.
  destruct (Nat.leb_spec (length (want s p)) off) as [Hfull|]; [|discriminate]. intro H; injection H as <-.
  inv_fields HI. destruct (Hwopen _ _ _ Wp) as [Dp [Ci [Hoff Hwant]]].
  constructor; unfold complete, tmp_named, set_wr in *; cbn [ino nxt dir wr want rd produced]; intros; eauto.
  - destruct (Nat.eqb_spec p0 p) as [->|Hne]; [rewrite upd_same in H; discriminate|].
    rewrite upd_other in H by assumption. eauto.
  - destruct (Nat.eqb_spec p0 p) as [->|Hne].
    + exists i. repeat split; auto. rewrite Ci. apply firstn_all2. assumption.
    + rewrite upd_other in H by assumption. eauto.
  - destruct (Nat.eqb_spec p0 p) as [->|Hne]; [rewrite upd_same in H; discriminate|].
    rewrite upd_other in H by assumption. eauto.
Qed.

Lemma step_rename s p s' : Inv s -> step Protocol s (ERename p) = Some s' -> Inv s'.
Proof.
  intros HI. cbn [step wname]. destruct (wr s p) eqn:Wp; try discriminate.
  inv_fields HI. destruct (Hwclosed _ Wp) as [i [Dp [Ci Hwant]]]. rewrite Dp. intro H; injection H as <-.
  assert (Hsub : forall q j, dupd (dupd (dir s) Final (Some i)) (Tmp p) None (Tmp q) = Some j -> q <> p /\ dir s (Tmp q) = Some j).
  { intros q j E. destruct (Nat.eqb_spec q p) as [->|Hne]; [rewrite dupd_same in E; discriminate|].
    rewrite !dupd_other in E by congruence. auto. }
  constructor; unfold complete, tmp_named in *; cbn [ino nxt dir wr want rd produced]; intros.
  - destruct (fname_eqb_spec n1 (Tmp p)) as [->|N1]; [rewrite dupd_same in H; discriminate|].
    destruct (fname_eqb_spec n2 (Tmp p)) as [->|N2]; [rewrite dupd_same in H0; discriminate|].
    rewrite dupd_other in H, H0 by assumption.
    destruct (fname_eqb_spec n1 Final) as [->|F1], (fname_eqb_spec n2 Final) as [->|F2]; auto.
    + rewrite dupd_same in H. rewrite dupd_other in H0 by assumption. injection H as <-.
      exfalso. apply N2. eauto.
    + rewrite dupd_same in H0. rewrite dupd_other in H by assumption. injection H0 as <-.
      exfalso. apply N1. eauto.
    + rewrite dupd_other in H, H0 by assumption. eauto.
  - destruct (fname_eqb_spec n (Tmp p)) as [->|N1]; [rewrite dupd_same in H; discriminate|].
    rewrite dupd_other in H by assumption.
    destruct (fname_eqb_spec n Final) as [->|F1].
    + rewrite dupd_same in H. injection H as <-. eauto.
    + rewrite dupd_other in H by assumption. eauto.
  - destruct (Nat.eqb_spec i0 i) as [->|Hne]; [right; rewrite Ci; assumption|].
    destruct (Hfrozen _ H) as [[q Hq]|Hc]; [|auto].
    left. exists q. assert (q <> p) by (intros ->; congruence). rewrite !dupd_other; auto; congruence.
  - destruct (Hrd _ _ _ H) as [A [B C]]. repeat split; auto.
    intros [q Hq]. apply Hsub in Hq as [_ Hq]. apply B. eauto.
  - eauto.
  - destruct (Nat.eqb_spec p0 p) as [->|Hne]; [rewrite upd_same in H; discriminate|].
    rewrite upd_other in H by assumption. destruct (Hwopen _ _ _ H) as [A [B [C D]]].
    rewrite !dupd_other by congruence. auto.
  - destruct (Nat.eqb_spec p0 p) as [->|Hne]; [rewrite upd_same in H; discriminate|].
    rewrite upd_other in H by assumption. destruct (Hwclosed _ H) as [j [A [B C]]]. exists j.
    rewrite !dupd_other by congruence. auto.
  - destruct (Nat.eqb_spec p0 p) as [->|Hne]; [rewrite upd_same in H; discriminate|].
    rewrite upd_other in H by assumption. auto.
Qed.

Lemma step_killw s p s' : Inv s -> step Protocol s (EKillW p) = Some s' -> Inv s'.
Proof.
  intros HI. cbn [step]. intro H; injection H as <-. inv_fields HI.
  constructor; unfold complete, tmp_named, set_wr in *; cbn [ino nxt dir wr want rd produced]; intros; eauto;
    (destruct (Nat.eqb_spec p0 p) as [->|Hne]; [rewrite upd_same in H; discriminate|];
     rewrite upd_other in H by assumption; eauto).
Qed.

Lemma step_openr s r s' : Inv s -> step Protocol s (EOpenR r) = Some s' -> Inv s'.
Proof.
  intros HI. cbn [step]. inv_fields HI.
  destruct (dir s Final) as [i|] eqn:Df; intro H; injection H as <-;
    constructor; unfold complete, tmp_named, set_rd in *; cbn [ino nxt dir wr want rd produced]; intros; eauto.
  - destruct (Nat.eqb_spec r0 r) as [->|Hne].
    + rewrite upd_same in H. injection H as <- <-. repeat split; eauto.
      intros [q Hq]. assert (Tmp q = Final) by eauto. discriminate.
    + rewrite upd_other in H by assumption. eauto.
  - destruct (Nat.eqb_spec r0 r) as [->|Hne]; [rewrite upd_same in H; discriminate|].
    rewrite upd_other in H by assumption. eauto.
  - destruct (Nat.eqb_spec r0 r) as [->|Hne]; [rewrite upd_same in H; discriminate|].
    rewrite upd_other in H by assumption. eauto.
  - destruct (Nat.eqb_spec r0 r) as [->|Hne]; [rewrite upd_same in H; discriminate|].
    rewrite upd_other in H by assumption. eauto.
Qed.

Lemma step_read s r k s' : Inv s -> step Protocol s (ERead r k) = Some s' -> Inv s'.
Proof.
  intros HI. cbn [step]. destruct (rd s r) eqn:Rr; try discriminate. intro H; injection H as <-. inv_fields HI.
  destruct (Hrd _ _ _ Rr) as [A [B C]].
  constructor; unfold complete, tmp_named, set_rd in *; cbn [ino nxt dir wr want rd produced]; intros; eauto.
  - destruct (Nat.eqb_spec r0 r) as [->|Hne].
    + rewrite upd_same in H. injection H as <- <-. repeat split; auto.
      remember (length got) as n eqn:En. rewrite app_length, <- En. rewrite C.
      apply firstn_extend.
    + rewrite upd_other in H by assumption. eauto.
  - destruct (Nat.eqb_spec r0 r) as [->|Hne]; [rewrite upd_same in H; discriminate|].
    rewrite upd_other in H by assumption. eauto.
Qed.

Lemma step_closer s r s' : Inv s -> step Protocol s (ECloseR r) = Some s' -> Inv s'.
Proof.
  intros HI. cbn [step]. destruct (rd s r) eqn:Rr; try discriminate.
  destruct (Nat.leb_spec (length (ino s i)) (length got)) as [Hfull|]; [|discriminate].
  intro H; injection H as <-. inv_fields HI. destruct (Hrd _ _ _ Rr) as [A [B C]].
  constructor; unfold complete, tmp_named, set_rd in *; cbn [ino nxt dir wr want rd produced]; intros; eauto.
  - destruct (Nat.eqb_spec r0 r) as [->|Hne]; [rewrite upd_same in H; discriminate|].
    rewrite upd_other in H by assumption. eauto.
  - destruct (Nat.eqb_spec r0 r) as [->|Hne].
    + rewrite upd_same in H. injection H as <-.
      rewrite C. rewrite firstn_all2 by assumption.
      destruct (Hfrozen _ A); [contradiction|assumption].
    + rewrite upd_other in H by assumption. eauto.
Qed.

Lemma step_killr s r s' : Inv s -> step Protocol s (EKillR r) = Some s' -> Inv s'.
Proof.
  intros HI. cbn [step]. intro H; injection H as <-. inv_fields HI.
  constructor; unfold complete, tmp_named, set_rd in *; cbn [ino nxt dir wr want rd produced]; intros; eauto;
    (destruct (Nat.eqb_spec r0 r) as [->|Hne]; [rewrite upd_same in H; discriminate|];
     rewrite upd_other in H by assumption; eauto).
Qed.

(* every step, kill included, preserves the invariant *)
Lemma step_inv s e s' : Inv s -> step Protocol s e = Some s' -> Inv s'.
Proof.
  intros HI H. destruct e;
    [ eapply step_spawn | eapply step_openw | eapply step_write | eapply step_closew | eapply step_rename
    | eapply step_killw | eapply step_openr | eapply step_read | eapply step_closer | eapply step_killr ]; eassumption.
Qed.

Lemma exec_inv evs : forall s s', Inv s -> exec Protocol s evs = Some s' -> Inv s'.
Proof.
  induction evs as [|e evs IH]; simpl; intros s s' HI H.
  - injection H as <-. assumption.
  - destruct (step Protocol s e) as [s1|] eqn:E; [|discriminate]. eauto using step_inv.
Qed.

(* what the ghost field contains: the initial content and the line of every invocation *)
Lemma produced_step v s e s' : step v s e = Some s' ->
  forall c, In c (produced s') <-> In c (produced s) \/ exists p, e = ESpawn p c.
Proof.
  intros H c. destruct e; cbn [step] in H;
    repeat match type of H with
           | context [match ?x with _ => _ end] => destruct x
           end; try discriminate; injection H as <-; unfold set_wr, set_rd, set_ino; cbn [produced];
    try (split; [auto | intros [?|[? ?]]; [assumption|discriminate]]).
  all: split; [intros [<-|?]; eauto | intros [?|[q E]]; [right; assumption | injection E as _ ->; left; reflexivity]].
Qed.

Lemma produced_exec v evs : forall s s', exec v s evs = Some s' ->
  forall c, In c (produced s') <-> In c (produced s) \/ exists p, In (ESpawn p c) evs.
Proof.
  induction evs as [|e evs IH]; simpl; intros s s' H c.
  - injection H as <-. split; [auto | intros [?|[? []]]; assumption].
  - destruct (step v s e) as [s1|] eqn:E; [|discriminate].
    rewrite (IH _ _ H c), (produced_step _ _ _ _ E c). split.
    + intros [[?|[p Hp]]|[p ?]]; eauto.
    + intros [?|[p [Hp|?]]]; eauto.
Qed.

Lemma produced_init c0 c : In c (produced (init c0)) <-> c0 = Some c.
Proof. destruct c0; simpl; split; try tauto; try discriminate. - intros [->|[]]; reflexivity. - intro H; injection H; auto. Qed.

Definition is_line (c0 : option content) (evs : list ev) (c : content) : Prop :=
  c0 = Some c \/ exists p, In (ESpawn p c) evs.

Lemma atomic c0 evs s : exec Protocol (init c0) evs = Some s ->
  (forall i, dir s Final = Some i -> is_line c0 evs (ino s i)) /\
  (forall r got, rd s r = RDone got -> is_line c0 evs got) /\
  (forall r i got, rd s r = ROpen i got -> exists c, is_line c0 evs c /\ got = firstn (length got) c).
Proof.
  intro H. pose proof (exec_inv _ _ _ (inv_init c0) H) as HI.
  assert (P : forall c, complete s c -> is_line c0 evs c).
  { intros c Hc. unfold complete in Hc. rewrite (produced_exec _ _ _ _ H) in Hc. rewrite produced_init in Hc. exact Hc. }
  inv_fields HI. repeat split.
  - intros i Hi. apply P. destruct (Hfrozen i (Halloc _ _ Hi)) as [[q Hq]|]; [|assumption].
    assert (Tmp q = Final) by eauto. discriminate.
  - intros r got Hr. apply P. eauto.
  - intros r i got Hr. destruct (Hrd _ _ _ Hr) as [A [B C]]. exists (ino s i). split; [|assumption].
    apply P. destruct (Hfrozen i A); [contradiction|assumption].
Qed.

(* ---- the broken variants *)
Definition A_ : N := 65%N.
Definition B_ : N := 66%N.

Lemma inplace_torn : exists evs s got,
  exec InPlace (init None) evs = Some s /\ rd s 0 = RDone got /\ ~ is_line None evs got.
Proof.
  exists [ESpawn 0 [A_; B_]; EOpenW 0; EWrite 0 1; EOpenR 0; ERead 0 5; ECloseR 0].
  eexists. exists [A_]. split; [vm_compute; reflexivity|]. split; [vm_compute; reflexivity|].
  intros [E|[p [E|[E|[E|[E|[E|[E|[]]]]]]]]]; discriminate.
Qed.

Lemma inplace_torn_existing : exists c0 evs s got,
  exec InPlace (init (Some c0)) evs = Some s /\ rd s 0 = RDone got /\ ~ is_line (Some c0) evs got.
Proof.
  (* a reader that opened the old entry sees it truncated and partly overwritten *)
  exists [A_; A_; A_], [EOpenR 0; ERead 0 1; ESpawn 0 [B_; B_; B_]; EOpenW 0; EWrite 0 2; ERead 0 5; ECloseR 0].
  eexists. exists [A_; B_]. split; [vm_compute; reflexivity|]. split; [vm_compute; reflexivity|].
  intros [E|[p [E|[E|[E|[E|[E|[E|[E|[]]]]]]]]]]; discriminate.
Qed.

Lemma sharedtmp_mixed : exists evs s i,
  exec SharedTmp (init None) evs = Some s /\ dir s Final = Some i /\ ~ is_line None evs (ino s i).
Proof.
  exists [ESpawn 1 [A_; A_; A_; A_]; ESpawn 2 [B_; B_]; EOpenW 1; EWrite 1 1; EOpenW 2; EWrite 2 2; EWrite 1 3;
          ECloseW 1; ERename 1].
  eexists. exists 0. split; [vm_compute; reflexivity|]. split; [vm_compute; reflexivity|].
  vm_compute. intros [E|[p [E|[E|[E|[E|[E|[E|[E|[E|[E|[]]]]]]]]]]]]; discriminate.
Qed.

(* non-vacuity: a full run in which a reader is overtaken by two writers and a kill *)
Lemma protocol_example :
  exists s, exec Protocol (init (Some [A_]))
              [EOpenR 0; ESpawn 7 [B_; B_]; EOpenW 7; EWrite 7 1; ESpawn 8 [A_; B_]; EOpenW 8; EWrite 8 2; ECloseW 8;
               ERename 8; EOpenR 1; EKillW 7; ERead 0 9; ECloseR 0; ERead 1 1; ERead 1 9; ECloseR 1;
               ESpawn 7 [B_]; EOpenW 7; EWrite 7 9; ECloseW 7; ERename 7; EOpenR 2; ERead 2 4; ECloseR 2] = Some s
            /\ rd s 0 = RDone [A_] /\ rd s 1 = RDone [A_; B_] /\ rd s 2 = RDone [B_].
Proof. eexists. split; [vm_compute; reflexivity|]. repeat split; vm_compute; reflexivity. Qed.
