(* C04, ladder half, round 2: the arguments of the wrapped command are never consulted by the unwrapping.
   (The seeded change C04b made `command CMD -v ...` a lookup: it read a word BEHIND the command name.) *)
From Coq Require Import Arith PeanoNat Lia.
From DippyV Require Import Base.Str Base.Verdict Base.Sx Base.Tree Gen.Tables Model.Walker Model.Ladder Proofs.LadderP.

Lemma hd_app_cons {A} (d : A) (l : list A) (x : A) (r : list A) : hd d (l ++ x :: r) = hd d (l ++ [x]).
Proof. destruct l; reflexivity. Qed.

Lemma nth0_hd {A} (d : A) (l : list A) : nth 0 l d = hd d l.
Proof. destruct l; reflexivity. Qed.

Lemma skipn_exact {A} (ops rest : list A) : skipn (length ops) (ops ++ rest) = rest.
Proof. induction ops as [|o ops IH]; [reflexivity|exact IH]. Qed.

Section Oracles.
  Variable mcmd : ctx -> list str -> option verdict.
  Variable handler : ctx -> list str -> option hres.
  Variable mredir : str -> str -> option verdict.
  Variable astr : ctx -> str -> verdict.
  Notation ladder := (ladder mcmd handler mredir astr).

  (* where the unwrapping stops is decided by the words up to and including the command name *)
  Lemma skip_args_stop_at_command w opts ops cmd args :
    let wa := assoc_flags w WRAPPER_FLAGS_WITH_ARG in
    forallb (plain_opt wa) opts = true ->
    length ops = assoc_nat w WRAPPER_OPERANDS ->
    operand_word (hd cmd ops) = true -> mem_str (hd cmd ops) wa = false ->
    skip_wrapper_args w (opts ++ ops ++ cmd :: args) = cmd :: args.
  Proof.
    intros wa Ho Hl Hop Hwa. unfold skip_wrapper_args. fold wa.
    rewrite (skip_opts_plain wa opts (ops ++ cmd :: args) Ho).
    - rewrite <- Hl. apply skipn_exact.
    - destruct ops as [|o ops]; cbn [app hd] in *; split; assumption.
  Qed.

  (* ... so the verdict of `w [options] [operands] CMD ARGS` is that of `CMD ARGS` for EVERY list ARGS: no word
     behind the command name can turn the wrapper into something else (a lookup, a help query, an option) *)
  Lemma wrapper_args_irrelevant c w opts ops cmd args :
    let wa := assoc_flags w WRAPPER_FLAGS_WITH_ARG in
    is_assignment w = false -> mem_str w WRAPPER_COMMANDS = true ->
    mcmd c (w :: opts ++ ops ++ cmd :: args) = None ->
    (str_eqb w $"command" && mem_str (hd [] (opts ++ ops ++ [cmd])) COMMAND_V_FLAGS) = false ->
    forallb (plain_opt wa) opts = true ->
    length ops = assoc_nat w WRAPPER_OPERANDS ->
    operand_word (hd cmd ops) = true -> mem_str (hd cmd ops) wa = false ->
    (negb (str_eqb w $"time") && is_assignment cmd) = false ->
    ladder c (w :: opts ++ ops ++ cmd :: args) = ladder c (cmd :: args).
  Proof.
    intros wa Ha Hw Hm Hv Ho Hl Hop Hwa Hna.
    apply (wrapper_transparent mcmd handler mredir astr c w (opts ++ ops ++ cmd :: args) (cmd :: args) Ha Hw Hm).
    - rewrite nth0_hd. rewrite app_assoc, hd_app_cons, <- app_assoc. exact Hv.
    - apply skip_args_stop_at_command; assumption.
    - discriminate.
    - exact Hna.
  Qed.

  (* the lookup shortcut needs -v / -V as the FIRST word after `command`: an operand-shaped command name never is *)
  Lemma operand_not_lookup_flag cmd : operand_word cmd = true -> mem_str cmd COMMAND_V_FLAGS = false.
  Proof.
    intro H. destruct (mem_str cmd COMMAND_V_FLAGS) eqn:E; [|reflexivity]. exfalso.
    assert (Hall : forallb (fun f => negb (operand_word f)) COMMAND_V_FLAGS = true) by (vm_compute; reflexivity).
    apply mem_str_In in E. rewrite forallb_forall in Hall. specialize (Hall cmd E). rewrite H in Hall. discriminate.
  Qed.

  (* the plain forms `w CMD ARGS` of the wrappers without operand: exact, for every CMD that is not option-shaped *)
  Lemma plain_wrapper_exact c w cmd args :
    is_assignment w = false -> mem_str w WRAPPER_COMMANDS = true -> assoc_nat w WRAPPER_OPERANDS = 0%nat ->
    mcmd c (w :: cmd :: args) = None ->
    operand_word cmd = true -> mem_str cmd (assoc_flags w WRAPPER_FLAGS_WITH_ARG) = false ->
    (negb (str_eqb w $"time") && is_assignment cmd) = false ->
    ladder c (w :: cmd :: args) = ladder c (cmd :: args).
  Proof.
    intros Ha Hw H0 Hm Hop Hwa Hna.
    apply (wrapper_args_irrelevant c w [] [] cmd args); try assumption; try reflexivity.
    - cbn [app hd]. rewrite (operand_not_lookup_flag cmd Hop). apply andb_false_r.
    - symmetry. exact H0.
  Qed.
End Oracles.
