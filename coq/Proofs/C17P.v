(* C17, command-line half: _scan_options reads python's own options the way CPython's getopt does, so
   an approval is sound with respect to [py_cmdline] for EVERY token list; what the decision reads
   (C17_args) and which file it has analysed (C17_file) follow from the same correspondence. *)
From DippyV Require Import Base.Str Base.Sx Base.Tree Gen.Tables Model.PyArgs Proofs.PyArgsP.

Definition known (ss : list str) : bool := forallb (fun o => mem_str o PY_KNOWN_OPTIONS) ss.
Definition has_info (ss : list str) : bool := existsb (fun o => mem_str o PY_INFO_OPTIONS) ss.

(* CPython's flags after the options in ss *)
Definition upd (fl : pyflags) (ss : list str) : pyflags :=
  mkfl (fl_version fl || mem_str $"-V" ss) (fl_inspect fl || mem_str $"-i" ss) (fl_skip1 fl || mem_str $"-x" ss).

Definition inert (r : pyrun) : Prop := r = RInfo \/ r = RUsageError.

(* ---------------------------------------------------------------- one short option letter *)

Definition step_fl (fl : pyflags) (c : N) : pyflags :=
  if N.eqb c 86 then mkfl true (fl_inspect fl) (fl_skip1 fl)
  else if N.eqb c 105 then mkfl (fl_version fl) true (fl_skip1 fl)
  else if N.eqb c 120 then mkfl (fl_version fl) (fl_inspect fl) true
  else fl.

(* letters both parsers step over *)
Definition passes (c : N) : bool :=
  negb (N.eqb c 45) && negb (N.eqb c 99) && negb (N.eqb c 109) && negb (N.eqb c 87 || N.eqb c 88) &&
  negb (N.eqb c 104 || N.eqb c 63) &&
  (N.eqb c 86 || N.eqb c 105 || N.eqb c 120 || mem_ch c plain_short).

Lemma cluster_pass c r fl next : passes c = true -> cluster fl (c :: r) next = cluster (step_fl fl c) r next.
Proof.
  unfold passes, step_fl. cbn [cluster]. intros H.
  repeat (apply andb_true_iff in H as [H ?]).
  destruct (N.eqb c 45); [discriminate|]. destruct (N.eqb c 99); [discriminate|].
  destruct (N.eqb c 109); [discriminate|]. destruct (N.eqb c 87 || N.eqb c 88); [discriminate|].
  destruct (N.eqb c 104 || N.eqb c 63); [discriminate|].
  destruct (N.eqb c 86); [reflexivity|]. destruct (N.eqb c 105); [reflexivity|].
  destruct (N.eqb c 120); [reflexivity|]. cbn [orb] in *.
  match goal with H : mem_ch c plain_short = true |- _ => rewrite H end. reflexivity.
Qed.

(* the short options _KNOWN_OPTIONS lists, by what the two parsers do with them *)
Inductive letter (c : N) : Prop :=
| L_prog : with_arg c = true -> is_cm c = true -> mem_str (opt_name c) PY_INFO_OPTIONS = false -> letter c
| L_arg : with_arg c = true -> is_cm c = false -> N.eqb c 87 || N.eqb c 88 = true ->
          mem_str (opt_name c) PY_INFO_OPTIONS = false -> str_eqb $"-V" (opt_name c) = false ->
          str_eqb $"-i" (opt_name c) = false -> str_eqb $"-x" (opt_name c) = false -> letter c
| L_help : with_arg c = false -> N.eqb c 104 || N.eqb c 63 = true -> N.eqb c 45 = false -> N.eqb c 99 = false ->
           N.eqb c 109 = false -> N.eqb c 87 || N.eqb c 88 = false ->
           mem_str (opt_name c) PY_INFO_OPTIONS = true -> letter c
| L_pass : with_arg c = false -> passes c = true ->
           mem_str (opt_name c) PY_INFO_OPTIONS = N.eqb c 86 ->
           str_eqb $"-V" (opt_name c) = N.eqb c 86 -> str_eqb $"-i" (opt_name c) = N.eqb c 105 ->
           str_eqb $"-x" (opt_name c) = N.eqb c 120 -> letter c.

Lemma known_letter c : mem_str (opt_name c) PY_KNOWN_OPTIONS = true -> letter c.
Proof.
  intros H. apply mem_str_In in H. unfold opt_name in H. vm_compute in H.
  repeat (destruct H as [H|H];
          [first [ discriminate H
                 | injection H as <-;
                   first [ apply L_prog; vm_compute; reflexivity
                         | apply L_arg; vm_compute; reflexivity
                         | apply L_help; vm_compute; reflexivity
                         | apply L_pass; vm_compute; reflexivity ] ]|]).
  destruct H.
Qed.

Lemma upd_cons fl c ss : passes c = true ->
  str_eqb $"-V" (opt_name c) = N.eqb c 86 -> str_eqb $"-i" (opt_name c) = N.eqb c 105 ->
  str_eqb $"-x" (opt_name c) = N.eqb c 120 ->
  upd fl (opt_name c :: ss) = upd (step_fl fl c) ss.
Proof.
  intros _ HV HI HX. unfold upd, step_fl. cbn [mem_str existsb]. fold (mem_str $"-V" ss) (mem_str $"-i" ss) (mem_str $"-x" ss).
  rewrite HV, HI, HX.
  destruct (N.eqb_spec c 86) as [->|]; [cbn; rewrite !orb_true_r; reflexivity|].
  destruct (N.eqb_spec c 105) as [->|]; [cbn; rewrite !orb_true_r; reflexivity|].
  destruct (N.eqb_spec c 120) as [->|]; [cbn; rewrite !orb_true_r; reflexivity|].
  cbn [orb]. destruct fl; reflexivity.
Qed.

Lemma upd_one fl o : str_eqb $"-V" o = false -> str_eqb $"-i" o = false -> str_eqb $"-x" o = false -> upd fl [o] = fl.
Proof. intros A B C. unfold upd. cbn [mem_str existsb]. rewrite A, B, C. cbn. rewrite !orb_false_r. destruct fl; reflexivity. Qed.

(* ---------------------------------------------------------------- one option token (a cluster) *)

(* what CPython's reading of a cluster may be, given the scanner's reading (ss, e) of the same letters *)
Definition cl_rel (fl : pyflags) (ss : list str) (e : scl) (has_next : bool) (x : cl) : Prop :=
  match x with
  | CErr => True
  | CInfo => has_info ss = true
  | CEnd => False
  | CCmd fl' code => fl' = upd fl ss /\ e = SProg 99 code /\ (code = None -> has_next = true) /\
                     (has_info ss = true -> fl_version fl' = true)
  | CMod fl' m => fl' = upd fl ss /\ e = SProg 109 m /\ (m = None -> has_next = true) /\
                  (has_info ss = true -> fl_version fl' = true)
  | CNext fl' b => fl' = upd fl ss /\ e = SNext b /\ (b = true -> has_next = true) /\
                   (has_info ss = true -> fl_version fl' = true)
  end.

Lemma cluster_rel cs : forall fl next,
  known (fst (scan_cluster cs)) = true ->
  cl_rel fl (fst (scan_cluster cs)) (snd (scan_cluster cs)) (match next with Some _ => true | None => false end)
         (cluster fl cs next).
Proof.
  induction cs as [|c r IH]; intros fl next HK.
  - cbn. repeat split; try discriminate. unfold upd. cbn. rewrite !orb_false_r. destruct fl; reflexivity.
  - assert (HL : letter c).
    { apply known_letter. cbn [scan_cluster] in HK. destruct (with_arg c).
      - destruct (is_cm c); cbn [fst known forallb] in HK; apply andb_true_iff in HK as [HK _]; exact HK.
      - destruct (scan_cluster r) as [ss e]. cbn [fst known forallb] in HK. apply andb_true_iff in HK as [HK _]. exact HK. }
    destruct HL as [HW HC HI|HW HC H8 HI HV Hi Hx|HW HH H45 H99 H109 H8 HI|HW HP HI HV Hi Hx].
    + (* -c / -m *)
      cbn [scan_cluster]. rewrite HW, HC. cbn [fst snd]. unfold is_cm in HC. cbn [cluster].
      assert (E45 : N.eqb c 45 = false).
      { destruct (N.eqb_spec c 99) as [->|]; [reflexivity|]. destruct (N.eqb_spec c 109) as [->|]; [reflexivity|discriminate]. }
      rewrite E45.
      assert (U : upd fl [opt_name c] = fl).
      { destruct (N.eqb_spec c 99) as [->|]; [unfold upd; cbn; rewrite !orb_false_r; destruct fl; reflexivity|].
        destruct (N.eqb_spec c 109) as [->|]; [unfold upd; cbn; rewrite !orb_false_r; destruct fl; reflexivity|discriminate]. }
      assert (NI : has_info [opt_name c] = false) by (unfold has_info; cbn [existsb]; rewrite HI; reflexivity).
      destruct (N.eqb_spec c 99) as [->|N99].
      * destruct r; [destruct next|]; cbn [cl_rel]; try exact I; rewrite U; repeat split; try discriminate;
          rewrite NI; discriminate.
      * destruct (N.eqb_spec c 109) as [->|]; [|discriminate].
        destruct r; [destruct next|]; cbn [cl_rel]; try exact I; rewrite U; repeat split; try discriminate;
          rewrite NI; discriminate.
    + (* -W / -X *)
      cbn [scan_cluster]. rewrite HW, HC. cbn [fst snd]. cbn [cluster].
      assert (E : N.eqb c 45 = false /\ N.eqb c 99 = false /\ N.eqb c 109 = false).
      { apply orb_true_iff in H8 as [H8|H8]; apply N.eqb_eq in H8; subst c; repeat split; reflexivity. }
      destruct E as [E45 [E99 E109]]. rewrite E45, E99, E109, H8.
      assert (NI : has_info [opt_name c] = false) by (unfold has_info; cbn [existsb]; rewrite HI; reflexivity).
      destruct r; [destruct next|]; cbn [cl_rel is_empty]; try exact I;
        rewrite (upd_one fl _ HV Hi Hx); repeat split; try discriminate; rewrite NI; discriminate.
    + (* -h / -? *)
      cbn [cluster]. rewrite H45, H99, H109, H8, HH. cbn [cl_rel].
      cbn [scan_cluster]. rewrite HW. destruct (scan_cluster r) as [ss e]. cbn [fst].
      unfold has_info. cbn [existsb]. rewrite HI. reflexivity.
    + (* a letter both step over *)
      rewrite (cluster_pass c r fl next HP). cbn [scan_cluster] in *. rewrite HW in *.
      specialize (IH (step_fl fl c) next).
      destruct (scan_cluster r) as [ss e]. cbn [fst snd] in *.
      cbn [known forallb] in HK. apply andb_true_iff in HK as [_ HK]. specialize (IH HK).
      assert (HIi : has_info (opt_name c :: ss) = N.eqb c 86 || has_info ss).
      { unfold has_info. cbn [existsb]. rewrite HI. reflexivity. }
      destruct (cluster (step_fl fl c) r next) as [| | |fl' code|fl' m|fl' b]; cbn [cl_rel] in *.
      * exact I.
      * rewrite HIi, IH. apply orb_true_r.
      * exact IH.
      * rewrite (upd_cons fl c ss HP HV Hi Hx). destruct IH as [A [B [C D]]]. repeat split; try assumption.
        rewrite HIi. intros HX. apply orb_true_iff in HX as [HX|HX]; [|exact (D HX)].
        rewrite A. unfold upd, step_fl. rewrite HX. cbn. reflexivity.
      * rewrite (upd_cons fl c ss HP HV Hi Hx). destruct IH as [A [B [C D]]]. repeat split; try assumption.
        rewrite HIi. intros HX. apply orb_true_iff in HX as [HX|HX]; [|exact (D HX)].
        rewrite A. unfold upd, step_fl. rewrite HX. cbn. reflexivity.
      * rewrite (upd_cons fl c ss HP HV Hi Hx). destruct IH as [A [B [C D]]]. repeat split; try assumption.
        rewrite HIi. intros HX. apply orb_true_iff in HX as [HX|HX]; [|exact (D HX)].
        rewrite A. unfold upd, step_fl. rewrite HX. cbn. reflexivity.
Qed.

(* ---------------------------------------------------------------- pending -V: nothing runs *)

Lemma cluster_version fl cs nx : fl_version fl = true ->
  match cluster fl cs nx with
  | CCmd fl' _ | CMod fl' _ | CNext fl' _ => fl_version fl' = true
  | _ => True
  end.
Proof.
  revert fl. induction cs as [|c r IH]; intros fl Hv; cbn [cluster]; [exact Hv|].
  destruct (N.eqb c 45).
  { destruct (is_empty r); [exact I|]. destruct (str_eqb r _).
    { destruct nx as [a|]; [|exact I]. destruct (mem_str a hash_modes); [exact Hv|exact I]. }
    destruct (mem_str r help_longs); exact I. }
  destruct (N.eqb c 99). { destruct r; [destruct nx|]; try exact I; exact Hv. }
  destruct (N.eqb c 109). { destruct r; [destruct nx|]; try exact I; exact Hv. }
  destruct (N.eqb c 87 || N.eqb c 88). { destruct r; [destruct nx|]; try exact I; exact Hv. }
  destruct (N.eqb c 104 || N.eqb c 63); [exact I|].
  destruct (N.eqb c 86); [apply IH; reflexivity|].
  destruct (N.eqb c 105); [apply IH; exact Hv|].
  destruct (N.eqb c 120); [apply IH; exact Hv|].
  destruct (mem_ch c plain_short); [apply IH; exact Hv|exact I].
Qed.

Lemma version_inert_n n : forall l fl i, (length l <= n)%nat -> fl_version fl = true -> inert (pyargs fl i l).
Proof.
  induction n as [|n IH]; intros l fl i Hn Hv.
  - destruct l; [|cbn in Hn; lia]. cbn [pyargs]. unfold fin. rewrite Hv. left. reflexivity.
  - destruct l as [|t r]. { cbn [pyargs]. unfold fin. rewrite Hv. left. reflexivity. }
    cbn [length] in Hn. cbn [pyargs].
    destruct (negb (is_dash t) || str_eqb t dash). { unfold fin. rewrite Hv. left. reflexivity. }
    destruct (str_eqb t $"--"). { unfold fin. rewrite Hv. left. reflexivity. }
    destruct (str_eqb t $"--help"). { left. reflexivity. }
    destruct (str_eqb t $"--version"). { apply IH; [lia|reflexivity]. }
    pose proof (cluster_version fl (tl t) (hd_error r) Hv) as HC.
    destruct (cluster fl (tl t) (hd_error r)) as [| | |fl' [code|]|fl' [m|]|fl' [|]].
    + right. reflexivity.
    + left. reflexivity.
    + unfold fin. rewrite Hv. left. reflexivity.
    + unfold fin. rewrite HC. left. reflexivity.
    + destruct r; [right; reflexivity|]. unfold fin. rewrite HC. left. reflexivity.
    + unfold fin. rewrite HC. left. reflexivity.
    + destruct r; [right; reflexivity|]. unfold fin. rewrite HC. left. reflexivity.
    + destruct r as [|x r']; [right; reflexivity|]. apply IH; [cbn [length] in Hn; lia|exact HC].
    + apply IH; [lia|exact HC].
Qed.

Lemma version_inert l fl i : fl_version fl = true -> inert (pyargs fl i l).
Proof. apply (version_inert_n (length l)). lia. Qed.

(* ---------------------------------------------------------------- the whole option list *)

(* what CPython does, given the scanner's result r on the same tokens l = tokens[i:] *)
Definition agrees (fl : pyflags) (i : nat) (l : list str) (r : scanres) : Prop :=
  let fl' := upd fl (sc_seen r) in
  match sc_mode r with
  | Some c =>
      exists a, sc_arg r = Some a /\
        ((c = 99 /\ pyargs fl i l = RCommand (sc_idx r) a fl') \/ (c = 109 /\ pyargs fl i l = RModule (sc_idx r) a fl'))
  | None => pyargs fl i l = program fl' (sc_idx r) (skipn (sc_idx r - i) l)
  end.

Lemma known_cons t x : known (t :: x) = mem_str t PY_KNOWN_OPTIONS && known x.
Proof. reflexivity. Qed.
Lemma has_info_cons t x : has_info (t :: x) = mem_str t PY_INFO_OPTIONS || has_info x.
Proof. reflexivity. Qed.
Lemma known_app a b : known (a ++ b) = known a && known b.
Proof. unfold known. apply forallb_app. Qed.
Lemma has_info_app a b : has_info (a ++ b) = has_info a || has_info b.
Proof. unfold has_info. apply existsb_app. Qed.
Lemma mem_str_app x a b : mem_str x (a ++ b) = mem_str x a || mem_str x b.
Proof. unfold mem_str. apply existsb_app. Qed.
Lemma upd_app fl a b : upd fl (a ++ b) = upd (upd fl a) b.
Proof. unfold upd. cbn [fl_version fl_inspect fl_skip1]. rewrite !mem_str_app, !orb_assoc. reflexivity. Qed.
Lemma upd_nil fl : upd fl [] = fl.
Proof. unfold upd. cbn. rewrite !orb_false_r. destruct fl; reflexivity. Qed.

Lemma scan_idx_n n : forall l i, (length l <= n)%nat -> (i <= sc_idx (scan i l))%nat.
Proof.
  induction n as [|n IH]; intros l i Hn.
  - destruct l; [cbn; lia|cbn in Hn; lia].
  - destruct l as [|t r]; [cbn; lia|]. cbn [length] in Hn. cbn [scan].
    destruct (negb (is_dash t) || str_eqb t dash); [cbn; lia|].
    destruct (str_eqb t $"--"); [cbn; lia|].
    destruct (prefixb $"--" t).
    { cbn [add_seen sc_idx]. destruct (str_eqb t $"--check-hash-based-pycs").
      - destruct r as [|x r']; [cbn; lia|]. specialize (IH r' (S (S i))). cbn [length] in Hn. lia.
      - specialize (IH r (S i)). lia. }
    destruct (scan_cluster (tl t)) as [ss [[|]|c [a|]]]; cbn [add_seen sc_idx]; try lia.
    + destruct r as [|x r']; [cbn; lia|]. specialize (IH r' (S (S i))). cbn [length] in Hn. lia.
    + specialize (IH r (S i)). lia.
Qed.
Lemma scan_idx l i : (i <= sc_idx (scan i l))%nat.
Proof. apply (scan_idx_n (length l)). lia. Qed.

(* a known long option *)
Lemma known_long t : mem_str t PY_KNOWN_OPTIONS = true -> prefixb $"--" t = true ->
  (t = $"--check-hash-based-pycs" /\ mem_str t PY_INFO_OPTIONS = false) \/
  (mem_str t PY_INFO_OPTIONS = true /\
   (t = $"--help" \/ t = $"--version" \/
    (str_eqb t $"--help" = false /\ str_eqb t $"--version" = false /\ str_eqb t $"--" = false /\
     forall fl nx, cluster fl (tl t) nx = CInfo))).
Proof.
  intros H HP. apply mem_str_In in H. unfold PY_KNOWN_OPTIONS in H. cbn [In] in H.
  repeat (destruct H as [<-|H];
          [first [ discriminate HP
                 | left; split; [reflexivity|vm_compute; reflexivity]
                 | right; split; [vm_compute; reflexivity|left; reflexivity]
                 | right; split; [vm_compute; reflexivity|right; left; reflexivity]
                 | right; split; [vm_compute; reflexivity|right; right; repeat split; intros; reflexivity] ]|]).
  destruct H.
Qed.

Lemma skipn_step {A} (x : A) l i j : (S i <= j)%nat -> skipn (j - i) (x :: l) = skipn (j - S i) l.
Proof. intros H. replace (j - i)%nat with (S (j - S i)) by lia. reflexivity. Qed.

(* -c / -m at the end of a cluster: the program is the attached text or the next token *)
Lemma prog_case fl i r ss (c : N) (code : option str) :
  (code = None -> match hd_error r with Some _ => true | None => false end = true) ->
  (has_info ss = true -> fl_version (upd fl ss) = true) ->
  (c = 99 \/ c = 109) ->
  let x := match code with
           | Some a => fin (upd fl ss) (if N.eqb c 99 then RCommand i a (upd fl ss) else RModule i a (upd fl ss))
           | None => match r with
                     | a :: _ => fin (upd fl ss) (if N.eqb c 99 then RCommand (S i) a (upd fl ss) else RModule (S i) a (upd fl ss))
                     | [] => RUsageError
                     end
           end in
  let rr := match code with Some a => mkscan ss i (Some c) (Some a) | None => mkscan ss (S i) (Some c) (hd_error r) end in
  (has_info (sc_seen rr) = true -> inert x) /\
  (has_info (sc_seen rr) = false -> fl_version fl = false ->
     inert x \/ exists a, sc_arg rr = Some a /\
        ((c = 99 /\ x = RCommand (sc_idx rr) a (upd fl (sc_seen rr))) \/ (c = 109 /\ x = RModule (sc_idx rr) a (upd fl (sc_seen rr))))).
Proof.
  intros CN CV Hc. cbn zeta.
  assert (VF : has_info ss = false -> fl_version fl = false -> fl_version (upd fl ss) = false).
  { intros Hi Hv. unfold upd. cbn [fl_version]. rewrite Hv. cbn [orb]. destruct (mem_str $"-V" ss) eqn:EV; [|reflexivity].
    exfalso. apply mem_str_In in EV.
    assert (X : has_info ss = true) by (apply existsb_exists; exists $"-V"; split; [exact EV|vm_compute; reflexivity]).
    congruence. }
  destruct code as [a|]; cbn [sc_seen sc_arg sc_idx].
  - split.
    + intros Hi. unfold fin. rewrite (CV Hi). left. reflexivity.
    + intros Hi Hv. right. exists a. split; [reflexivity|]. unfold fin. rewrite (VF Hi Hv).
      destruct Hc as [->| ->]; [left|right]; split; reflexivity.
  - destruct r as [|a r']; cbn [hd_error] in *; [specialize (CN eq_refl); discriminate CN|]. split.
    + intros Hi. unfold fin. rewrite (CV Hi). left. reflexivity.
    + intros Hi Hv. right. exists a. split; [reflexivity|]. unfold fin. rewrite (VF Hi Hv).
      destruct Hc as [->| ->]; [left|right]; split; reflexivity.
Qed.

(* main correspondence: CPython and _scan_options read the options alike, or CPython stops with a
   message (usage error, help, version) *)
Lemma scan_agrees_n n : forall l fl i, (length l <= n)%nat ->
  known (sc_seen (scan i l)) = true ->
  (has_info (sc_seen (scan i l)) = true -> inert (pyargs fl i l)) /\
  (has_info (sc_seen (scan i l)) = false -> fl_version fl = false ->
     inert (pyargs fl i l) \/ agrees fl i l (scan i l)).
Proof.
  induction n as [|n IH]; intros l fl i Hn HK.
  { destruct l; [|cbn in Hn; lia]. cbn. split; [discriminate|]. intros _ Hv. right.
    unfold agrees. cbn. rewrite upd_nil. unfold fin. rewrite Hv. replace (i - i)%nat with 0%nat by lia. reflexivity. }
  destruct l as [|t r].
  { cbn. split; [discriminate|]. intros _ Hv. right.
    unfold agrees. cbn. rewrite upd_nil. unfold fin. rewrite Hv. replace (i - i)%nat with 0%nat by lia. reflexivity. }
  cbn [length] in Hn. unfold agrees. cbn [scan pyargs] in *.
  destruct (negb (is_dash t) || str_eqb t dash) eqn:E1.
  { cbn [sc_seen has_info existsb]. split; [discriminate|]. intros _ Hv. right. unfold agrees. cbn [sc_mode sc_idx sc_seen].
    rewrite upd_nil. replace (i - i)%nat with 0%nat by lia. unfold fin. rewrite Hv. reflexivity. }
  destruct (str_eqb t $"--") eqn:E2.
  { cbn [sc_seen has_info existsb]. split; [discriminate|]. intros _ Hv. right. unfold agrees. cbn [sc_mode sc_idx sc_seen].
    rewrite upd_nil. unfold fin. rewrite Hv. replace (S i - i)%nat with 1%nat by lia. reflexivity. }
  destruct (prefixb $"--" t) eqn:E3.
  { (* a long option *)
    cbn [add_seen sc_seen app] in HK |- *.
    rewrite known_cons in HK. apply andb_true_iff in HK as [HKt HK]. rewrite has_info_cons.
    destruct (known_long t HKt E3) as [[-> HNI]|[HI HC]].
    - (* --check-hash-based-pycs ARG *)
      rewrite HNI. cbn [orb]. replace (str_eqb $"--check-hash-based-pycs" $"--check-hash-based-pycs") with true in * by reflexivity.
      replace (str_eqb $"--check-hash-based-pycs" $"--help") with false by reflexivity.
      replace (str_eqb $"--check-hash-based-pycs" $"--version") with false by reflexivity.
      replace (cluster fl (tl $"--check-hash-based-pycs") (hd_error r))
        with (match hd_error r with Some a => if mem_str a hash_modes then CNext fl true else CErr | None => CErr end)
        by reflexivity.
      destruct r as [|a r']; cbn [hd_error].
      { split; [discriminate|]. intros _ _. left. right. reflexivity. }
      destruct (mem_str a hash_modes).
      2:{ split; intros; [right; reflexivity|left; right; reflexivity]. }
      cbn [length] in Hn. destruct (IH r' fl (S (S i)) ltac:(lia) HK) as [I1 I2]. split; [exact I1|].
      intros Hi Hv. destruct (I2 Hi Hv) as [X|X]; [left; exact X|right].
      unfold agrees in *. cbn [add_seen sc_mode sc_arg sc_idx sc_seen].
      assert (U : upd fl ($"--check-hash-based-pycs" :: sc_seen (scan (S (S i)) r')) = upd fl (sc_seen (scan (S (S i)) r'))).
      { change ($"--check-hash-based-pycs" :: ?x) with ([$"--check-hash-based-pycs"] ++ x). rewrite upd_app. f_equal. apply upd_one; reflexivity. }
      rewrite U. destruct (sc_mode (scan (S (S i)) r')); [exact X|].
      rewrite X. pose proof (scan_idx r' (S (S i))) as G.
      rewrite (skipn_step _ _ i) by lia. rewrite (skipn_step _ _ (S i)) by lia. reflexivity.
    - (* a help / version option *)
      rewrite HI. cbn [orb]. split; [intros _|discriminate].
      destruct HC as [->|[->|[N1 [N2 [N3 HCl]]]]].
      + left. reflexivity.
      + replace (str_eqb $"--version" $"--help") with false by reflexivity.
        replace (str_eqb $"--version" $"--version") with true by reflexivity.
        apply version_inert. reflexivity.
      + rewrite N1, N2, HCl. left. reflexivity. }
  (* a cluster of short options *)
  assert (E4 : str_eqb t $"--help" = false /\ str_eqb t $"--version" = false).
  { split; (destruct (str_eqb_spec t $"--help") as [->|]; [discriminate E3|]);
      (destruct (str_eqb_spec t $"--version") as [->|]; [discriminate E3|]); reflexivity. }
  destruct E4 as [E4 E5]. rewrite E4, E5.
  pose proof (cluster_rel (tl t) fl (hd_error r)) as CR.
  destruct (scan_cluster (tl t)) as [ss e] eqn:ESC. cbn [fst snd] in CR.
  assert (HKs : known ss = true).
  { destruct e as [[|]|c [a|]]; cbn [add_seen sc_seen] in HK; try rewrite known_app in HK;
      try (apply andb_true_iff in HK as [HK _]); exact HK. }
  specialize (CR HKs).
  destruct (cluster fl (tl t) (hd_error r)) as [| | |fl' code|fl' m|fl' b] eqn:ECL; cbn [cl_rel] in CR.
  - (* usage error *) split; intros; [right; reflexivity|left; right; reflexivity].
  - (* help *) split; intros; [left; reflexivity|left; left; reflexivity].
  - destruct CR.
  - (* -c *)
    destruct CR as [-> [-> [CN CV]]]. destruct code as [a|];
      [apply (prog_case fl i r ss 99 (Some a))|apply (prog_case fl i r ss 99 None)]; try assumption; try (left; reflexivity); discriminate.
  - (* -m *)
    destruct CR as [-> [-> [CN CV]]]. destruct m as [a|];
      [apply (prog_case fl i r ss 109 (Some a))|apply (prog_case fl i r ss 109 None)]; try assumption; try (right; reflexivity); discriminate.
  - (* the cluster is read to its end *)
    destruct CR as [-> [-> [CB CV]]].
    assert (REST : forall k r0, (length r0 <= n)%nat -> known (sc_seen (scan k r0)) = true ->
              (forall j, (k <= j)%nat -> skipn (j - i) (t :: r) = skipn (j - k) r0) ->
              (has_info (ss ++ sc_seen (scan k r0)) = true -> inert (pyargs (upd fl ss) k r0)) /\
              (has_info (ss ++ sc_seen (scan k r0)) = false -> fl_version fl = false ->
                 inert (pyargs (upd fl ss) k r0) \/
                 (let rr := add_seen ss (scan k r0) in
                  let fl' := upd fl (sc_seen rr) in
                  match sc_mode rr with
                  | Some c => exists a, sc_arg rr = Some a /\
                       ((c = 99 /\ pyargs (upd fl ss) k r0 = RCommand (sc_idx rr) a fl') \/
                        (c = 109 /\ pyargs (upd fl ss) k r0 = RModule (sc_idx rr) a fl'))
                  | None => pyargs (upd fl ss) k r0 = program fl' (sc_idx rr) (skipn (sc_idx rr - i) (t :: r))
                  end))).
    { intros k r0 Hl HK0 SK. destruct (IH r0 (upd fl ss) k Hl HK0) as [I1 I2]. rewrite has_info_app. split.
      - intros Hi. apply orb_true_iff in Hi as [Hi|Hi]; [apply version_inert; exact (CV Hi)|exact (I1 Hi)].
      - intros Hi Hv. apply orb_false_iff in Hi as [Hi1 Hi2].
        assert (V : fl_version (upd fl ss) = false).
        { unfold upd. cbn [fl_version]. rewrite Hv. cbn [orb]. destruct (mem_str $"-V" ss) eqn:EV; [|reflexivity].
          exfalso. apply mem_str_In in EV.
          assert (X : has_info ss = true) by (apply existsb_exists; exists $"-V"; split; [exact EV|vm_compute; reflexivity]).
          congruence. }
        destruct (I2 Hi2 V) as [X|X]; [left; exact X|right].
        unfold agrees in X. cbn [add_seen sc_mode sc_arg sc_idx sc_seen]. rewrite upd_app.
        destruct (sc_mode (scan k r0)); [exact X|]. rewrite X. rewrite (SK _ (scan_idx r0 k)). reflexivity. }
    destruct b.
    + (* -W / -X with the next token as argument *)
      destruct r as [|a r']; cbn [hd_error] in *; [specialize (CB eq_refl); discriminate CB|].
      cbn [add_seen sc_seen] in HK. rewrite known_app in HK. apply andb_true_iff in HK as [_ HK].
      cbn [length] in Hn.
      destruct (REST (S (S i)) r' ltac:(lia) HK) as [R1 R2].
      { intros j Hj. rewrite (skipn_step _ _ i) by lia. rewrite (skipn_step _ _ (S i)) by lia. reflexivity. }
      cbn [add_seen sc_seen]. split; [exact R1|]. intros Hi Hv. destruct (R2 Hi Hv) as [X|X]; [left; exact X|right; exact X].
    + cbn [add_seen sc_seen] in HK. rewrite known_app in HK. apply andb_true_iff in HK as [_ HK].
      destruct (REST (S i) r ltac:(lia) HK) as [R1 R2].
      { intros j Hj. rewrite (skipn_step _ _ i) by lia. reflexivity. }
      cbn [add_seen sc_seen]. split; [exact R1|]. intros Hi Hv. destruct (R2 Hi Hv) as [X|X]; [left; exact X|right; exact X].
Qed.

Lemma scan_agrees l fl i : known (sc_seen (scan i l)) = true ->
  (has_info (sc_seen (scan i l)) = true -> inert (pyargs fl i l)) /\
  (has_info (sc_seen (scan i l)) = false -> fl_version fl = false ->
     inert (pyargs fl i l) \/ agrees fl i l (scan i l)).
Proof. apply (scan_agrees_n (length l)). lia. Qed.

Lemma scan_cluster_cm cs : forall ss c a, scan_cluster cs = (ss, SProg c a) -> is_cm c = true.
Proof.
  induction cs as [|c0 r IH]; intros ss c a H; cbn [scan_cluster] in H; [discriminate|].
  destruct (with_arg c0).
  - destruct (is_cm c0) eqn:E; [injection H as _ <- _; exact E|discriminate].
  - destruct (scan_cluster r) as [ss0 e0]. injection H as _ ->. eapply IH. reflexivity.
Qed.

Lemma scan_mode_n n : forall l i c, (length l <= n)%nat -> sc_mode (scan i l) = Some c -> is_cm c = true.
Proof.
  induction n as [|n IH]; intros l i c Hn.
  { destruct l; [discriminate|cbn in Hn; lia]. }
  destruct l as [|t r]; [discriminate|]. cbn [length] in Hn. cbn [scan].
  destruct (negb (is_dash t) || str_eqb t dash); [discriminate|].
  destruct (str_eqb t $"--"); [discriminate|].
  destruct (prefixb $"--" t).
  { cbn [add_seen sc_mode]. destruct (str_eqb t $"--check-hash-based-pycs").
    - destruct r as [|a r']; [discriminate|]. cbn [length] in Hn. apply IH. lia.
    - apply IH. lia. }
  destruct (scan_cluster (tl t)) as [ss e] eqn:ESC. destruct e as [[|]|c0 [a|]]; cbn [add_seen sc_mode].
  - destruct r as [|a r']; [discriminate|]. cbn [length] in Hn. apply IH. lia.
  - apply IH. lia.
  - intros H. injection H as <-. eapply scan_cluster_cm. exact ESC.
  - intros H. injection H as <-. eapply scan_cluster_cm. exact ESC.
Qed.

(* ---------------------------------------------------------------- soundness, for every token list *)

Definition cwd_of (cc : option str) (pc : str) : str := match cc with Some c => c | None => pc end.

Lemma skipn_nth {A} (l : list A) k x : nth_error l k = Some x -> exists rest, skipn k l = x :: rest.
Proof.
  revert l. induction k as [|k IH]; intros [|y l] H; try discriminate.
  - injection H as ->. exists l. reflexivity.
  - cbn [nth_error] in H. cbn [skipn]. apply IH. exact H.
Qed.

Section Sound.
  Variable resolve : str -> option str.
  Variable analyze : str -> bool.
  Variable shadow : str -> bool.
  Notation classify := (classify resolve analyze shadow).
  Notation sound := (sound resolve analyze shadow).

  Lemma inert_sound cwd toks r : inert r -> sound cwd toks r.
  Proof. intros [->| ->]; exact I. Qed.

  (* classify on at least two tokens, in terms of the scan *)
  Definition classify_body (cwd : str) (tokens : list str) (r : scanres) : pyres :=
    let seen := sc_seen r in
    if negb (known seen) then PAsk
    else if has_info seen then PAllow
    else if mem_str $"-X" seen && wfx (sc_idx r - 1) (tl tokens) then PAsk
    else if match sc_mode r with Some c => N.eqb c 99 | None => false end then PAsk
    else if mem_str $"-i" seen || mem_str $"-x" seen then PAsk
    else if match sc_mode r with Some c => N.eqb c 109 | None => false end then
      match sc_arg r with
      | Some m => if str_eqb m $"calendar" && negb (shadow cwd) then PAllow else PAsk
      | None => PAsk
      end
    else
      match nth_error tokens (sc_idx r) with
      | None => PAsk
      | Some tok =>
          if str_eqb tok dash then PAsk
          else if shell_rewrites tok then PAsk
          else match resolve (pjoin cwd tok) with
               | None => PExn
               | Some p => if analyze p then PAllow else PAsk
               end
      end.

  Lemma classify_cons cc pc t0 r0 rest :
    classify cc pc (t0 :: r0 :: rest) = classify_body (cwd_of cc pc) (t0 :: r0 :: rest) (scan 1 (r0 :: rest)).
  Proof. reflexivity. Qed.

  Lemma args_sound cc pc tokens :
    classify cc pc tokens = PAllow -> sound (cwd_of cc pc) tokens (py_cmdline tokens).
  Proof.
    destruct tokens as [|t0 [|r0 rest]]; try discriminate.
    rewrite classify_cons. unfold py_cmdline. cbn [tl]. set (rs := r0 :: rest). set (cwd := cwd_of cc pc).
    unfold classify_body. pose proof (scan_agrees rs fl0 1) as SA. pose proof (scan_idx rs 1) as GE.
    destruct (known (sc_seen (scan 1 rs))) eqn:EK; [|discriminate]. cbn [negb].
    destruct (SA eq_refl) as [I1 I2]. clear SA.
    destruct (has_info (sc_seen (scan 1 rs))) eqn:EI.
    { intros _. apply inert_sound. apply I1. reflexivity. }
    destruct (I2 eq_refl eq_refl) as [X|X]; [intros _; apply inert_sound; exact X|]. clear I1 I2.
    destruct (mem_str $"-X" (sc_seen (scan 1 rs)) && wfx (sc_idx (scan 1 rs) - 1) (tl (t0 :: rs))); [discriminate|].
    unfold agrees in X. destruct (sc_mode (scan 1 rs)) as [c|].
    - destruct X as [a [EA X]].
      destruct (N.eqb_spec c 99) as [->|N99]; [discriminate|].
      destruct (mem_str $"-i" (sc_seen (scan 1 rs)) || mem_str $"-x" (sc_seen (scan 1 rs))) eqn:EIX; [discriminate|].
      apply orb_false_iff in EIX as [Ei Ex].
      destruct X as [[-> _]|[-> X]]; [contradiction|]. cbn [N.eqb Pos.eqb]. rewrite EA.
      destruct (str_eqb_spec a $"calendar") as [->|]; [|discriminate].
      destruct (shadow cwd) eqn:ES; [discriminate|]. intros _. rewrite X. cbn [PyArgs.sound].
      repeat split; try assumption; try (unfold upd; cbn [fl_inspect fl0]; rewrite Ei; reflexivity).
    - destruct (mem_str $"-i" (sc_seen (scan 1 rs)) || mem_str $"-x" (sc_seen (scan 1 rs))) eqn:EIX; [discriminate|].
      apply orb_false_iff in EIX as [Ei Ex].
      destruct (nth_error (t0 :: rs) (sc_idx (scan 1 rs))) as [tok|] eqn:EN; [|discriminate].
      destruct (str_eqb_spec tok dash) as [->|ND]; [discriminate|].
      destruct (shell_rewrites tok) eqn:ESR; [discriminate|].
      destruct (resolve (pjoin cwd tok)) as [p|] eqn:ER; [|discriminate].
      destruct (analyze p) eqn:EA; [|discriminate]. intros _.
      assert (EN' : nth_error rs (sc_idx (scan 1 rs) - 1) = Some tok).
      { destruct (sc_idx (scan 1 rs)) as [|k]; [lia|]. cbn [nth_error] in EN. replace (S k - 1)%nat with k by lia. exact EN. }
      destruct (skipn_nth _ _ _ EN') as [more ES]. rewrite X, ES. cbn [program].
      destruct (str_eqb_spec tok dash) as [->|_]; [contradiction|].
      cbn [PyArgs.sound]. unfold upd. cbn [fl_inspect fl_skip1 fl0]. rewrite Ei, Ex. repeat split.
      exists tok, p. repeat split; assumption.
  Qed.

  (* ------------------------------------------------------------- what is read *)

  Lemma firstn_nth {A} k : forall (l l' : list A), firstn (S k) l = firstn (S k) l' -> nth_error l k = nth_error l' k.
  Proof.
    induction k as [|k IH]; intros [|x l] [|y l'] H; cbn [firstn] in H; try discriminate; try reflexivity.
    - injection H as ->. reflexivity.
    - injection H as -> H. cbn [nth_error]. apply IH. exact H.
  Qed.

  Lemma firstn_cons_inv {A} k (x : A) l l' : firstn (S k) (x :: l) = firstn (S k) l' -> exists m, l' = x :: m /\ firstn k l = firstn k m.
  Proof. destruct l' as [|y m]; cbn [firstn]; intros H; [discriminate|]. injection H as <- H. eauto. Qed.

  (* _scan_options looks at nothing after the program position *)
  Lemma scan_firstn_n n : forall l l' i, (length l <= n)%nat ->
    firstn (S (sc_idx (scan i l) - i)) l = firstn (S (sc_idx (scan i l) - i)) l' -> scan i l' = scan i l.
  Proof.
    induction n as [|n IH]; intros l l' i Hn H.
    { destruct l; [|cbn in Hn; lia]. destruct l'; [reflexivity|]. cbn in H. replace (i - i)%nat with 0%nat in H by lia. discriminate H. }
    destruct l as [|t r].
    { destruct l'; [reflexivity|]. cbn in H. replace (i - i)%nat with 0%nat in H by lia. discriminate H. }
    cbn [length] in Hn. apply firstn_cons_inv in H as [m [-> H]]. revert H. cbn [scan].
    destruct (negb (is_dash t) || str_eqb t dash); [reflexivity|].
    destruct (str_eqb t $"--"); [reflexivity|].
    destruct (prefixb $"--" t).
    { cbn [add_seen sc_idx]. destruct (str_eqb t $"--check-hash-based-pycs").
      - destruct r as [|a r']; cbn [sc_idx].
        + replace (S (S i) - i)%nat with 2%nat by lia. destruct m as [|? [|? ?]]; cbn; intros H; try discriminate; reflexivity.
        + pose proof (scan_idx r' (S (S i))) as G. intros H.
          replace (sc_idx (scan (S (S i)) r') - i)%nat with (S (S (sc_idx (scan (S (S i)) r') - S (S i)))) in H by lia.
          apply firstn_cons_inv in H as [m' [-> H]]. cbn [length] in Hn. rewrite (IH r' m' (S (S i))) by (try lia; exact H). reflexivity.
      - pose proof (scan_idx r (S i)) as G. intros H.
        replace (sc_idx (scan (S i) r) - i)%nat with (S (sc_idx (scan (S i) r) - S i)) in H by lia.
        rewrite (IH r m (S i)) by (try lia; exact H). reflexivity. }
    destruct (scan_cluster (tl t)) as [ss [[|]|c [a|]]]; cbn [add_seen sc_idx].
    - destruct r as [|a r']; cbn [sc_idx].
      + replace (S (S i) - i)%nat with 2%nat by lia. destruct m as [|? [|? ?]]; cbn; intros H; try discriminate; reflexivity.
      + pose proof (scan_idx r' (S (S i))) as G. intros H.
        replace (sc_idx (scan (S (S i)) r') - i)%nat with (S (S (sc_idx (scan (S (S i)) r') - S (S i)))) in H by lia.
        apply firstn_cons_inv in H as [m' [-> H]]. cbn [length] in Hn. rewrite (IH r' m' (S (S i))) by (try lia; exact H). reflexivity.
    - pose proof (scan_idx r (S i)) as G. intros H.
      replace (sc_idx (scan (S i) r) - i)%nat with (S (sc_idx (scan (S i) r) - S i)) in H by lia.
      rewrite (IH r m (S i)) by (try lia; exact H). reflexivity.
    - reflexivity.
    - replace (S i - i)%nat with 1%nat by lia. intros H. f_equal.
      destruct r, m; cbn in H |- *; try discriminate; try reflexivity. injection H as ->. reflexivity.
  Qed.

  (* _writes_files_xoption(tokens, end) reads tokens[1..end] only *)
  Lemma wfx_firstn n : forall l l', firstn (S n) l = firstn (S n) l' -> wfx n l = wfx n l'.
  Proof.
    induction n as [|n IH]; intros l l' H; [destruct l, l'; reflexivity|].
    destruct l as [|t r]; destruct l' as [|t' r']; try discriminate H; [reflexivity|].
    cbn [firstn] in H. injection H as <- H. cbn [wfx]. rewrite (IH r r' H).
    destruct r as [|a r0]; destruct r' as [|a' r0']; try discriminate H; [reflexivity|].
    cbn [firstn] in H. injection H as <- _. reflexivity.
  Qed.

  (* C17_args: with p the position where python's own options end (the script, or the argument of -c / -m),
     the decision is a function of tokens[0..p] *)
  Lemma args_tail cc pc tokens tokens' :
    let p := sc_idx (scan 1 (tl tokens)) in
    firstn (S p) tokens = firstn (S p) tokens' -> classify cc pc tokens = classify cc pc tokens'.
  Proof.
    cbn zeta. destruct tokens as [|t0 [|r0 rest]].
    - cbn. destruct tokens'; [reflexivity|discriminate].
    - cbn. destruct tokens' as [|? [|? ?]]; cbn; intros H; try discriminate; injection H as ->; reflexivity.
    - cbn [tl]. set (rs := r0 :: rest). pose proof (scan_idx rs 1) as GE. intros H.
      pose proof (firstn_nth _ _ _ H) as HN.
      apply firstn_cons_inv in H as [m [-> H]].
      replace (sc_idx (scan 1 rs)) with (S (sc_idx (scan 1 rs) - 1)) in H by lia.
      pose proof (scan_firstn_n (length rs) rs m 1 ltac:(lia) H) as ES.
      destruct m as [|m0 m']; [subst rs; cbn in H; discriminate H|].
      unfold rs. rewrite !classify_cons. fold rs. rewrite ES. unfold classify_body. rewrite <- HN. cbn [tl].
      rewrite (wfx_firstn _ _ _ H). reflexivity.
  Qed.

  (* ------------------------------------------------------------- which file *)

  Lemma file_process_cwd c pc pc' tokens : classify (Some c) pc tokens = classify (Some c) pc' tokens.
  Proof. reflexivity. Qed.

  (* an approval has exactly three sources *)
  Lemma allow_inv cc pc t0 r0 rest : let tokens := t0 :: r0 :: rest in let r := scan 1 (r0 :: rest) in
    classify cc pc tokens = PAllow ->
    known (sc_seen r) = true /\
    ((exists o, In o (sc_seen r) /\ In o PY_INFO_OPTIONS) \/
     (sc_mode r = Some 109 /\ sc_arg r = Some $"calendar" /\ shadow (cwd_of cc pc) = false /\
      mem_str $"-i" (sc_seen r) = false) \/
     (sc_mode r = None /\ mem_str $"-i" (sc_seen r) = false /\ mem_str $"-x" (sc_seen r) = false /\
      exists s p, nth_error tokens (sc_idx r) = Some s /\ s <> dash /\ shell_rewrites s = false /\
                  resolve (pjoin (cwd_of cc pc) s) = Some p /\ analyze p = true)).
  Proof.
    cbn zeta. rewrite classify_cons. unfold classify_body. set (r := scan 1 (r0 :: rest)).
    destruct (known (sc_seen r)); [|discriminate]. cbn [negb]. intros H. split; [reflexivity|]. revert H.
    destruct (has_info (sc_seen r)) eqn:EI.
    { intros _. left. apply existsb_exists in EI as [o [Ho Hi]]. exists o. split; [exact Ho|]. apply mem_str_In. exact Hi. }
    destruct (mem_str $"-X" (sc_seen r) && wfx (sc_idx r - 1) (tl (t0 :: r0 :: rest))) eqn:EXW; [discriminate|].
    destruct (sc_mode r) as [c|] eqn:EM.
    - destruct (N.eqb_spec c 99); [discriminate|].
      destruct (mem_str $"-i" (sc_seen r) || mem_str $"-x" (sc_seen r)) eqn:EIX; [discriminate|].
      apply orb_false_iff in EIX as [Ei Ex].
      destruct (N.eqb_spec c 109) as [->|]; [|destruct (nth_error _ _) as [tok|]; [|discriminate]].
      + destruct (sc_arg r) as [m|]; [|discriminate].
        destruct (str_eqb_spec m $"calendar") as [->|]; [|discriminate].
        destruct (shadow (cwd_of cc pc)); [discriminate|]. intros _. right. left. repeat split; assumption.
      + destruct (str_eqb tok dash); [discriminate|]. destruct (shell_rewrites tok); [discriminate|]. destruct (resolve _) as [p|]; [|discriminate].
        (* a mode other than -c / -m does not exist; the scanner only returns c or m *)
        exfalso. assert (G : is_cm c = true) by (apply (scan_mode_n (length (r0 :: rest)) (r0 :: rest) 1 c); [lia|exact EM]).
        unfold is_cm in G. apply orb_true_iff in G as [G|G]; apply N.eqb_eq in G; congruence.
    - destruct (mem_str $"-i" (sc_seen r) || mem_str $"-x" (sc_seen r)) eqn:EIX; [discriminate|].
      apply orb_false_iff in EIX as [Ei Ex].
      destruct (nth_error _ _) as [tok|] eqn:EN; [|discriminate].
      destruct (str_eqb_spec tok dash) as [->|ND]; [discriminate|].
      destruct (shell_rewrites tok) eqn:ESR; [discriminate|].
      destruct (resolve _) as [p|] eqn:ER; [|discriminate]. destruct (analyze p) eqn:EA; [|discriminate].
      intros _. right. right. repeat split; try assumption. exists tok, p. repeat split; assumption.
  Qed.
  (* repair 6fb4634: no approval (other than a help / version query) with -X pycache_prefix / -X perf among python's own options *)
  Lemma xoption_asks cc pc t0 r0 rest : let r := scan 1 (r0 :: rest) in
    classify cc pc (t0 :: r0 :: rest) = PAllow -> has_info (sc_seen r) = false ->
    mem_str $"-X" (sc_seen r) = true -> wfx (sc_idx r - 1) (r0 :: rest) = false.
  Proof.
    cbn zeta. rewrite classify_cons. unfold classify_body. cbn [tl]. set (r := scan 1 (r0 :: rest)).
    destruct (known (sc_seen r)); [|discriminate]. cbn [negb]. intros H HI HX. rewrite HI, HX in H. cbn [andb] in H.
    destruct (wfx (sc_idx r - 1) (r0 :: rest)); [discriminate|reflexivity].
  Qed.
End Sound.

(* the file system is consulted about one path only: the token at the position the scan returns *)
Lemma file_only_path resolve an1 an2 shadow cc pc tokens :
  (forall s p, nth_error tokens (sc_idx (scan 1 (tl tokens))) = Some s ->
               resolve (pjoin (cwd_of cc pc) s) = Some p -> an1 p = an2 p) ->
  classify resolve an1 shadow cc pc tokens = classify resolve an2 shadow cc pc tokens.
Proof.
  intros H. destruct tokens as [|t0 [|r0 rest]]; try reflexivity.
  rewrite !classify_cons. unfold classify_body. cbn [tl] in H.
  destruct (negb _); [reflexivity|]. destruct (has_info _); [reflexivity|].
  destruct (mem_str _ _ && wfx _ _); [reflexivity|].
  destruct (match sc_mode _ with Some c => N.eqb c 99 | None => false end); [reflexivity|].
  destruct (_ || _); [reflexivity|].
  destruct (match sc_mode _ with Some c => N.eqb c 109 | None => false end); [reflexivity|].
  destruct (nth_error _ _) as [tok|] eqn:EN; [|reflexivity].
  destruct (str_eqb tok dash); [reflexivity|]. destruct (shell_rewrites tok); [reflexivity|].
  destruct (resolve _) as [p|] eqn:ER; [|reflexivity]. rewrite (H tok p eq_refl ER). reflexivity.
Qed.

(* `python [options] script args`, relative script: the verdict is that of resolve(cwd/script) *)
Lemma file_relative resolve analyze shadow cwd pc tokens s :
  let r := scan 1 (tl tokens) in
  (2 <= length tokens)%nat -> known (sc_seen r) = true -> has_info (sc_seen r) = false -> sc_mode r = None ->
  mem_str $"-i" (sc_seen r) = false -> mem_str $"-x" (sc_seen r) = false -> mem_str $"-X" (sc_seen r) = false ->
  nth_error tokens (sc_idx r) = Some s -> s <> dash -> shell_rewrites s = false -> is_abs s = false -> suffixb [47] cwd = false ->
  classify resolve analyze shadow (Some cwd) pc tokens =
  match resolve (cwd ++ [47] ++ s) with
  | None => PExn
  | Some p => if analyze p then PAllow else PAsk
  end.
Proof.
  cbn zeta. destruct tokens as [|t0 [|r0 rest]]; cbn [length]; try lia. intros _. cbn [tl].
  intros HK HI HM Hi Hx HX HN HD HR HA HS. rewrite classify_cons. unfold classify_body, cwd_of, pjoin.
  rewrite HK, HI, HM, Hi, Hx, HX, HN, HR, HA, HS. cbn [negb orb andb].
  destruct (str_eqb_spec s dash); [contradiction|]. reflexivity.
Qed.

(* concrete oracles for the examples *)
Definition w_resolve (p : str) : option str := Some p.
Definition w_analyze (p : str) : bool := str_eqb p $"/w/s.py".
Definition w_shadow (c : str) : bool := false.
Definition w_classify := classify w_resolve w_analyze w_shadow (Some $"/w") $"/".
