(* C17, command-line half: what classify looks at (C17_args), which file it has analysed
   (C17_file), and its soundness with respect to CPython's own argv grammar [py_cmdline]. *)
From DippyV Require Import Base.Str Base.Sx Base.Tree Gen.Tables Model.PyArgs Proofs.PyArgsP.

(* ---------------------------------------------------------------- closed facts about the flag tables *)
Lemma fwa_dashed : forallb is_dash PY_FLAGS_WITH_ARG = true. Proof. vm_compute. reflexivity. Qed.
Lemma cm_dashed : forallb is_dash PY_CM_FLAGS = true. Proof. vm_compute. reflexivity. Qed.
Lemma safe_dashed : forallb is_dash PY_SAFE_FLAGS = true. Proof. vm_compute. reflexivity. Qed.

Lemma undashed_plain s : is_dash s = false ->
  mem_str s PY_SAFE_FLAGS = false /\ mem_str s PY_CM_FLAGS = false /\ mem_str s PY_FLAGS_WITH_ARG = false.
Proof.
  intros H.
  assert (G : forall l, forallb is_dash l = true -> mem_str s l = false).
  { intros l Hl. apply not_mem. intro Hin. rewrite forallb_forall in Hl. rewrite (Hl s Hin) in H. discriminate. }
  repeat split; apply G; [apply safe_dashed|apply cm_dashed|apply fwa_dashed].
Qed.

(* ---------------------------------------------------------------- tokens _own_options consumes *)

(* a run of tokens that _own_options reads entirely as python's own options (without -c / -m) *)
Inductive consumed : list str -> Prop :=
| cons_nil : consumed []
| cons_arg t a l : mem_str t PY_CM_FLAGS = false -> mem_str t PY_FLAGS_WITH_ARG = true ->
                   consumed l -> consumed (t :: a :: l)
| cons_flag t l : mem_str t PY_CM_FLAGS = false -> mem_str t PY_FLAGS_WITH_ARG = false ->
                  is_dash t = true -> t <> dash -> consumed l -> consumed (t :: l).

Lemma own_tail_app pre l : consumed pre -> own_tail (pre ++ l) = pre ++ own_tail l.
Proof.
  induction 1 as [|t a l0 Hc Hf _ IH|t l0 Hc Hf Hd Hn _ IH]; [reflexivity| |].
  - cbn [app own_tail]. rewrite Hc, Hf, IH. reflexivity.
  - cbn [app own_tail]. rewrite Hc, Hf, Hd.
    destruct (str_eqb_spec t dash) as [E|_]; [contradiction|]. cbn [negb andb]. rewrite IH. reflexivity.
Qed.

Lemma own_tail_stop s post : is_dash s = false -> own_tail (s :: post) = [].
Proof.
  intros H. destruct (undashed_plain s H) as [_ [Hc Hf]]. cbn [own_tail]. rewrite Hc, Hf, H. reflexivity.
Qed.

Lemma own_tail_cm c tail : mem_str c PY_CM_FLAGS = true -> own_tail (c :: tail) = [c].
Proof. intros H. cbn [own_tail]. rewrite H. reflexivity. Qed.

(* does _find_script_path give up inside a consumed run (it stops at a help/version flag) *)
Fixpoint blocked (l : list str) : bool :=
  match l with
  | [] => false
  | t :: r =>
      if mem_str t PY_SAFE_FLAGS then true
      else if mem_str t PY_CM_FLAGS then true
      else if mem_str t PY_FLAGS_WITH_ARG then match r with [] => true | _ :: r' => blocked r' end
      else if is_dash t then blocked r
      else false
  end.

Lemma find_script_app pre l i : consumed pre ->
  find_script_at i (pre ++ l) = if blocked pre then None else find_script_at (length pre + i) l.
Proof.
  intros H. revert i. induction H as [|t a l0 Hc Hf _ IH|t l0 Hc Hf Hd Hn _ IH]; intros i; [reflexivity| |].
  - cbn [app find_script_at blocked length]. rewrite Hc, Hf.
    destruct (mem_str t PY_SAFE_FLAGS); [reflexivity|]. rewrite IH.
    replace (length l0 + S (S i))%nat with (S (S (length l0)) + i)%nat by lia. reflexivity.
  - cbn [app find_script_at blocked length]. rewrite Hc, Hf, Hd.
    destruct (mem_str t PY_SAFE_FLAGS); [reflexivity|]. rewrite IH.
    replace (length l0 + S i)%nat with (S (length l0) + i)%nat by lia. reflexivity.
Qed.

Lemma find_script_stop i s post : is_dash s = false -> find_script_at i (s :: post) = Some (i, s).
Proof.
  intros H. destruct (undashed_plain s H) as [Hs [Hc Hf]]. cbn [find_script_at]. rewrite Hs, Hc, Hf, H. reflexivity.
Qed.

Lemma find_script_cm i c tail : mem_str c PY_CM_FLAGS = true -> find_script_at i (c :: tail) = None.
Proof. intros H. cbn [find_script_at]. rewrite H. destruct (mem_str c PY_SAFE_FLAGS); reflexivity. Qed.

Lemma index_of_lt x l : mem_str x l = true -> (index_of x l < length l)%nat.
Proof.
  intros H. apply mem_str_In in H. induction l as [|y l IH]; [destruct H|].
  cbn [index_of length]. destruct (str_eqb_spec y x) as [->|Hn]; [lia|].
  destruct H as [->|H]; [contradiction|]. specialize (IH H). lia.
Qed.

Lemma nth_error_indep {A} (a : list A) s p p' n : (n <= length a)%nat ->
  nth_error (a ++ s :: p) n = nth_error (a ++ s :: p') n.
Proof.
  revert n. induction a as [|x a IH]; intros n Hn; cbn [length] in Hn.
  - assert (n = O) by lia. subst. reflexivity.
  - destruct n; [reflexivity|]. cbn [app nth_error]. apply IH. lia.
Qed.

Section Args.
  Variable resolve : str -> option str.
  Variable analyze : str -> bool.
  Notation classify := (classify resolve analyze).

  Definition cwd_of (cc : option str) (pc : str) : str := match cc with Some c => c | None => pc end.

  (* the -m branch of classify as a function of the tokens it reads *)
  Definition m_branch (tokens own : list str) : pyres :=
    match nth_error tokens (S (index_of $"-m" own)) with
    | Some m => if str_eqb m $"calendar" then PAllow else PAsk
    | None => PAsk
    end.

  (* classify for at least two tokens *)
  Definition classify_body (cwd t0 : str) (rest : list str) : pyres :=
    let own := t0 :: own_tail rest in
    if existsb (fun t => mem_str t PY_SAFE_FLAGS) (own_tail rest) then PAllow
    else if mem_str $"-c" own then PAsk
    else if mem_str $"-m" own then m_branch (t0 :: rest) own
    else if mem_str $"-i" own then PAsk
    else match find_script rest with
         | None => PAsk
         | Some tok =>
             match resolve (pjoin cwd tok) with
             | None => PExn
             | Some p => if analyze p then PAllow else PAsk
             end
         end.
  Lemma classify_cons cc pc t0 rest : rest <> [] -> classify cc pc (t0 :: rest) = classify_body (cwd_of cc pc) t0 rest.
  Proof. destruct rest; [congruence|reflexivity]. Qed.
  Lemma app_cons_ne {A} (a : list A) x b : a ++ x :: b <> [].
  Proof. destruct a; discriminate. Qed.

  (* classify on  t0 :: pre ++ s :: post  where pre is consumed and s is the first non-option *)
  Definition classify_script (cwd t0 : str) (pre : list str) (s : str) : pyres :=
    let own := t0 :: pre in
    if existsb (fun t => mem_str t PY_SAFE_FLAGS) pre then PAllow
    else if mem_str $"-c" own then PAsk
    else if mem_str $"-m" own then m_branch (own ++ [s]) own
    else if mem_str $"-i" own then PAsk
    else if blocked pre then PAsk
    else match resolve (pjoin cwd s) with
         | None => PExn
         | Some p => if analyze p then PAllow else PAsk
         end.

  Lemma m_branch_indep own s p p' : mem_str $"-m" own = true ->
    m_branch (own ++ s :: p) own = m_branch (own ++ s :: p') own.
  Proof.
    intros H. unfold m_branch. rewrite (nth_error_indep own s p p'); [reflexivity|].
    apply index_of_lt in H. lia.
  Qed.

  (* refinement: after the first non-option token nothing is read *)
  Lemma classify_script_form cc pc t0 pre s post : consumed pre -> is_dash s = false ->
    classify cc pc (t0 :: pre ++ s :: post) = classify_script (cwd_of cc pc) t0 pre s.
  Proof.
    intros Hp Hs. rewrite classify_cons by apply app_cons_ne. unfold classify_body, classify_script, find_script.
    rewrite (own_tail_app pre (s :: post) Hp), (own_tail_stop s post Hs), app_nil_r.
    destruct (existsb (fun t => mem_str t PY_SAFE_FLAGS) pre); [reflexivity|].
    destruct (mem_str $"-c" (t0 :: pre)); [reflexivity|].
    destruct (mem_str $"-m" (t0 :: pre)) eqn:Em.
    { apply (m_branch_indep (t0 :: pre) s post [] Em). }
    destruct (mem_str $"-i" (t0 :: pre)); [reflexivity|].
    rewrite (find_script_app pre (s :: post) 1 Hp).
    destruct (blocked pre); [reflexivity|].
    rewrite (find_script_stop _ s post Hs). reflexivity.
  Qed.

  Lemma args_script_tail cc pc t0 pre s post post' : consumed pre -> is_dash s = false ->
    classify cc pc (t0 :: pre ++ s :: post) = classify cc pc (t0 :: pre ++ s :: post').
  Proof. intros Hp Hs. rewrite !classify_script_form by assumption. reflexivity. Qed.

  (* -c CODE / -m MODULE: nothing after the argument is read *)
  Lemma args_cm_tail cc pc t0 pre c a post post' : consumed pre -> mem_str c PY_CM_FLAGS = true ->
    classify cc pc (t0 :: pre ++ c :: a :: post) = classify cc pc (t0 :: pre ++ c :: a :: post').
  Proof.
    intros Hp Hc. rewrite !classify_cons by apply app_cons_ne. unfold classify_body, find_script.
    rewrite !(own_tail_app pre _ Hp), !(own_tail_cm c _ Hc).
    destruct (existsb (fun t => mem_str t PY_SAFE_FLAGS) (pre ++ [c])); [reflexivity|].
    destruct (mem_str $"-c" (t0 :: pre ++ [c])); [reflexivity|].
    destruct (mem_str $"-m" (t0 :: pre ++ [c])) eqn:Em.
    { replace (t0 :: pre ++ c :: a :: post) with ((t0 :: pre ++ [c]) ++ a :: post)
        by (cbn [app]; rewrite <- app_assoc; reflexivity).
      replace (t0 :: pre ++ c :: a :: post') with ((t0 :: pre ++ [c]) ++ a :: post')
        by (cbn [app]; rewrite <- app_assoc; reflexivity).
      apply (m_branch_indep (t0 :: pre ++ [c]) a post post' Em). }
    destruct (mem_str $"-i" (t0 :: pre ++ [c])); [reflexivity|].
    rewrite !(find_script_app pre _ 1 Hp).
    destruct (blocked pre); [reflexivity|]. rewrite !(find_script_cm _ c _ Hc). reflexivity.
  Qed.

  (* ------------------------------------------------------------- which file *)

  Lemma file_process_cwd c pc pc' tokens : classify (Some c) pc tokens = classify (Some c) pc' tokens.
  Proof. reflexivity. Qed.

  Lemma file_default_cwd pc tokens : classify None pc tokens = classify (Some pc) pc tokens.
  Proof. reflexivity. Qed.

  (* an approval has exactly three sources *)
  Lemma allow_inv cc pc t0 rest : classify cc pc (t0 :: rest) = PAllow ->
    (exists h, In h (own_tail rest) /\ In h PY_SAFE_FLAGS) \/
    (mem_str $"-m" (t0 :: own_tail rest) = true /\
     nth_error (t0 :: rest) (S (index_of $"-m" (t0 :: own_tail rest))) = Some $"calendar") \/
    (exists s p, find_script rest = Some s /\ resolve (pjoin (cwd_of cc pc) s) = Some p /\ analyze p = true).
  Proof.
    unfold classify. destruct rest as [|r0 rest]; [discriminate|]. set (rs := r0 :: rest).
    fold (cwd_of cc pc).
    destruct (existsb (fun t => mem_str t PY_SAFE_FLAGS) (own_tail rs)) eqn:Es.
    { intros _. left. apply existsb_exists in Es as [h [Hh Hm]]. exists h. split; [exact Hh|]. apply mem_str_In. exact Hm. }
    destruct (mem_str $"-c" (t0 :: own_tail rs)); [discriminate|].
    destruct (mem_str $"-m" (t0 :: own_tail rs)) eqn:Em.
    { destruct (nth_error (t0 :: rs) (S (index_of $"-m" (t0 :: own_tail rs)))) as [m|]; [|discriminate].
      destruct (str_eqb_spec m $"calendar") as [E|]; [|discriminate].
      intros _. right. left. split; [reflexivity|]. rewrite E. reflexivity. }
    destruct (mem_str $"-i" (t0 :: own_tail rs)); [discriminate|].
    destruct (find_script rs) as [s|]; [|discriminate].
    destruct (resolve (pjoin (cwd_of cc pc) s)) as [p|] eqn:Er; [|discriminate].
    destruct (analyze p) eqn:Ea; [|discriminate].
    intros _. right. right. exists s, p. repeat split; assumption.
  Qed.
End Args.

(* the file system is consulted about one path only *)
Lemma file_only_path resolve an1 an2 cc pc tokens :
  (forall s p, find_script (tl tokens) = Some s -> resolve (pjoin (cwd_of cc pc) s) = Some p -> an1 p = an2 p) ->
  classify resolve an1 cc pc tokens = classify resolve an2 cc pc tokens.
Proof.
  intros H. unfold classify. destruct tokens as [|t0 rest]; [reflexivity|]. cbn [tl] in H.
  destruct rest as [|r0 rest]; [reflexivity|]. set (rs := r0 :: rest) in *. fold (cwd_of cc pc).
  destruct (existsb _ (own_tail rs)); [reflexivity|].
  destruct (mem_str $"-c" _); [reflexivity|]. destruct (mem_str $"-m" _); [reflexivity|].
  destruct (mem_str $"-i" _); [reflexivity|].
  destruct (find_script rs) as [s|]; [|reflexivity].
  destruct (resolve (pjoin (cwd_of cc pc) s)) as [p|] eqn:Er; [|reflexivity].
  rewrite (H s p eq_refl Er). reflexivity.
Qed.

(* `python [plain options] script args`: the verdict is that of resolve(cwd/script) *)
Lemma file_relative resolve analyze cwd pc t0 pre s post :
  consumed pre -> is_dash s = false -> is_abs s = false -> suffixb [47] cwd = false ->
  existsb (fun t => mem_str t PY_SAFE_FLAGS) pre = false ->
  mem_str $"-c" (t0 :: pre) = false -> mem_str $"-m" (t0 :: pre) = false -> mem_str $"-i" (t0 :: pre) = false ->
  blocked pre = false ->
  classify resolve analyze (Some cwd) pc (t0 :: pre ++ s :: post) =
  match resolve (cwd ++ [47] ++ s) with
  | None => PExn
  | Some p => if analyze p then PAllow else PAsk
  end.
Proof.
  intros Hp Hs Ha Hc H1 H2 H3 H4 H5. rewrite classify_script_form by assumption.
  unfold classify_script, cwd_of, pjoin. rewrite H1, H2, H3, H4, H5, Ha, Hc. reflexivity.
Qed.

(* ---------------------------------------------------------------- soundness w.r.t. CPython's grammar *)

(* whole-token options that only set a configuration bit *)
Definition PLAIN_FLAGS : list str :=
  [$"-b"; $"-bb"; $"-B"; $"-d"; $"-E"; $"-I"; $"-O"; $"-OO"; $"-P"; $"-q"; $"-R"; $"-s"; $"-S"; $"-t"; $"-u"; $"-v"].
Definition ARG_FLAGS : list str := [$"-W"; $"-X"].

Inductive plain_pre : list str -> Prop :=
| pp_nil : plain_pre []
| pp_flag t l : In t PLAIN_FLAGS -> plain_pre l -> plain_pre (t :: l)
| pp_arg t a l : In t ARG_FLAGS -> is_dash a = false -> plain_pre l -> plain_pre (t :: a :: l).

Definition special : list str := [$"-c"; $"-m"; $"-i"; $"--"; $"--help"; $"--version"; dash].

Lemma plain_flag_facts t : In t PLAIN_FLAGS ->
  mem_str t PY_CM_FLAGS = false /\ mem_str t PY_FLAGS_WITH_ARG = false /\ mem_str t PY_SAFE_FLAGS = false /\
  is_dash t = true /\ mem_str t special = false /\ (forall fl nx, cluster fl (tl t) nx = CNext fl false).
Proof.
  intros H. unfold PLAIN_FLAGS in H. cbn [In] in H.
  repeat (destruct H as [<-|H]; [vm_compute; repeat split; reflexivity|]). destruct H.
Qed.

Lemma arg_flag_facts t : In t ARG_FLAGS ->
  mem_str t PY_CM_FLAGS = false /\ mem_str t PY_FLAGS_WITH_ARG = true /\ mem_str t PY_SAFE_FLAGS = false /\
  is_dash t = true /\ mem_str t special = false /\ (forall fl a, cluster fl (tl t) (Some a) = CNext fl true).
Proof.
  intros H. unfold ARG_FLAGS in H. cbn [In] in H.
  repeat (destruct H as [<-|H]; [vm_compute; repeat split; reflexivity|]). destruct H.
Qed.

Lemma special_dashed : forallb is_dash special = true. Proof. vm_compute. reflexivity. Qed.
Lemma undashed_special a : is_dash a = false -> mem_str a special = false.
Proof.
  intros H. apply not_mem. intro Hin. pose proof special_dashed as G. rewrite forallb_forall in G.
  rewrite (G a Hin) in H. discriminate.
Qed.

Lemma plain_consumed pre : plain_pre pre -> consumed pre.
Proof.
  induction 1 as [|t l Ht _ IH|t a l Ht Ha _ IH]; [constructor| |].
  - destruct (plain_flag_facts t Ht) as [Hc [Hf [_ [Hd [Hsp _]]]]]. apply cons_flag; try assumption.
    intros ->. vm_compute in Hsp. discriminate.
  - destruct (arg_flag_facts t Ht) as [Hc [Hf _]]. apply cons_arg; assumption.
Qed.

Lemma mem_special x t : In x special -> mem_str t special = false -> str_eqb t x = false.
Proof.
  intros Hx Ht. destruct (str_eqb_spec t x) as [->|]; [|reflexivity].
  apply mem_str_In in Hx. congruence.
Qed.

(* nothing in a plain run is (or looks like) -c -m -i -- --help --version -, or a help/version flag *)
Lemma plain_clean pre : plain_pre pre ->
  existsb (fun t => mem_str t PY_SAFE_FLAGS) pre = false /\ blocked pre = false /\
  (forall x, In x special -> mem_str x pre = false).
Proof.
  induction 1 as [|t l Ht _ IH|t a l Ht Ha _ IH].
  - repeat split; reflexivity.
  - destruct (plain_flag_facts t Ht) as [Hc [Hf [Hs [Hd [Hsp _]]]]]. destruct IH as [I1 [I2 I3]].
    cbn [existsb blocked]. rewrite Hs, Hc, Hf, Hd. repeat split; try assumption.
    intros x Hx. cbn [mem_str existsb]. fold (mem_str x l). rewrite (I3 x Hx), orb_false_r.
    destruct (str_eqb_spec x t) as [->|]; [|reflexivity]. apply mem_str_In in Hx. congruence.
  - destruct (arg_flag_facts t Ht) as [Hc [Hf [Hs [Hd [Hsp _]]]]]. destruct IH as [I1 [I2 I3]].
    destruct (undashed_plain a Ha) as [As _].
    cbn [existsb blocked]. rewrite Hs, Hc, Hf, As. repeat split; try assumption.
    intros x Hx. cbn [mem_str existsb]. fold (mem_str x l). rewrite (I3 x Hx), orb_false_r.
    pose proof (undashed_special a Ha) as Asp.
    destruct (str_eqb_spec x t) as [->|]; [apply mem_str_In in Hx; congruence|].
    destruct (str_eqb_spec x a) as [->|]; [apply mem_str_In in Hx; congruence|]. reflexivity.
Qed.

Lemma pyargs_plain pre l fl i : plain_pre pre -> pyargs fl i (pre ++ l) = pyargs fl (length pre + i) l.
Proof.
  intros H. revert i. induction H as [|t l0 Ht _ IH|t a l0 Ht Ha _ IH]; intros i; [reflexivity| |].
  - destruct (plain_flag_facts t Ht) as [_ [_ [_ [Hd [Hsp Hcl]]]]].
    cbn [app pyargs length]. rewrite Hd. cbn [negb orb].
    rewrite (mem_special dash t), (mem_special $"--" t), (mem_special $"--help" t), (mem_special $"--version" t);
      try assumption; try (vm_compute; tauto).
    rewrite Hcl, IH. f_equal. lia.
  - destruct (arg_flag_facts t Ht) as [_ [_ [_ [Hd [Hsp Hcl]]]]].
    cbn [app pyargs length hd_error]. rewrite Hd. cbn [negb orb].
    rewrite (mem_special dash t), (mem_special $"--" t), (mem_special $"--help" t), (mem_special $"--version" t);
      try assumption; try (vm_compute; tauto).
    rewrite Hcl, IH. f_equal. lia.
Qed.

(* once -V / --version has been seen nothing is run *)
Definition inert (r : pyrun) : Prop := r = RInfo \/ r = RUsageError.

Lemma cluster_version fl cs nx : fl_version fl = true ->
  match cluster fl cs nx with
  | CCmd fl' _ | CMod fl' _ | CNext fl' _ => fl_version fl' = true
  | _ => True
  end.
Proof.
  revert fl. induction cs as [|c r IH]; intros fl Hv; cbn [cluster]; [exact Hv|].
  destruct (N.eqb c 45).
  { destruct (is_empty r); [exact I|]. destruct (str_eqb r _).
    { destruct nx as [a|]; [|exact I]. destruct (mem_str a hash_modes); [exact Hv|exact I]. }
    destruct (mem_str r help_longs); exact I. }
  destruct (N.eqb c 99). { destruct r; [destruct nx|]; try exact I; exact Hv. }
  destruct (N.eqb c 109). { destruct r; [destruct nx|]; try exact I; exact Hv. }
  destruct (N.eqb c 87 || N.eqb c 88). { destruct r; [destruct nx|]; try exact I; exact Hv. }
  destruct (N.eqb c 104 || N.eqb c 63); [exact I|].
  destruct (N.eqb c 86); [apply IH; reflexivity|].
  destruct (N.eqb c 105); [apply IH; exact Hv|].
  destruct (N.eqb c 120); [apply IH; exact Hv|].
  destruct (mem_ch c plain_short); [apply IH; exact Hv|exact I].
Qed.

Lemma version_inert_n n : forall l fl i, (length l <= n)%nat -> fl_version fl = true -> inert (pyargs fl i l).
Proof.
  induction n as [|n IH]; intros l fl i Hn Hv.
  - destruct l; [|cbn in Hn; lia]. cbn [pyargs]. unfold fin. rewrite Hv. left. reflexivity.
  - destruct l as [|t r]. { cbn [pyargs]. unfold fin. rewrite Hv. left. reflexivity. }
    cbn [length] in Hn. cbn [pyargs].
    destruct (negb (is_dash t) || str_eqb t dash). { unfold fin. rewrite Hv. left. reflexivity. }
    destruct (str_eqb t $"--"). { unfold fin. rewrite Hv. left. reflexivity. }
    destruct (str_eqb t $"--help"). { left. reflexivity. }
    destruct (str_eqb t $"--version"). { apply IH; [lia|reflexivity]. }
    pose proof (cluster_version fl (tl t) (hd_error r) Hv) as HC.
    destruct (cluster fl (tl t) (hd_error r)) as [| | |fl' [code|]|fl' [m|]|fl' [|]].
    + right. reflexivity.
    + left. reflexivity.
    + unfold fin. rewrite Hv. left. reflexivity.
    + unfold fin. rewrite HC. left. reflexivity.
    + destruct r; [right; reflexivity|]. unfold fin. rewrite HC. left. reflexivity.
    + unfold fin. rewrite HC. left. reflexivity.
    + destruct r; [right; reflexivity|]. unfold fin. rewrite HC. left. reflexivity.
    + destruct r as [|x r']; [right; reflexivity|]. apply IH; [cbn [length] in Hn; lia|exact HC].
    + apply IH; [lia|exact HC].
Qed.

Lemma version_inert l fl i : fl_version fl = true -> inert (pyargs fl i l).
Proof. apply (version_inert_n (length l)). lia. Qed.

(* a help / version flag as the first token after a plain run: nothing is run *)
Lemma safe_flag_inert h post i : In h PY_SAFE_FLAGS -> inert (pyargs fl0 i (h :: post)).
Proof.
  intros H. unfold PY_SAFE_FLAGS in H. cbn [In] in H.
  repeat (destruct H as [<-|H];
          [first [ left; reflexivity
                 | apply (version_inert post (mkfl true false false) (S i)); reflexivity ]|]).
  destruct H.
Qed.

Section Sound.
  Variable resolve : str -> option str.
  Variable analyze : str -> bool.
  Notation classify := (classify resolve analyze).
  Notation sound := (sound resolve analyze).

  Lemma inert_sound cwd toks r : inert r -> sound cwd toks r.
  Proof. intros [->| ->]; exact I. Qed.

  Lemma nth_error_mid {A} (a : list A) s p : nth_error (a ++ s :: p) (length a) = Some s.
  Proof. induction a; [reflexivity|assumption]. Qed.

  Lemma index_of_last x pre : mem_str x pre = false -> index_of x (pre ++ [x]) = length pre.
  Proof.
    induction pre as [|y pre IH]; cbn [app index_of length mem_str existsb].
    - rewrite str_eqb_refl. reflexivity.
    - fold (mem_str x pre). intros H. apply orb_false_iff in H as [H1 H2].
      destruct (str_eqb_spec y x) as [->|_]; [rewrite str_eqb_refl in H1; discriminate|]. rewrite IH by exact H2. reflexivity.
  Qed.

  Lemma mem_app_false x a b : mem_str x a = false -> mem_str x b = false -> mem_str x (a ++ b) = false.
  Proof. unfold mem_str. rewrite existsb_app. intros -> ->. reflexivity. Qed.

  (* the program selector that follows the plain options *)
  Inductive prog_head : list str -> Prop :=
  | ph_none : prog_head []
  | ph_script s post : is_dash s = false -> prog_head (s :: post)
  | ph_info h post : In h PY_SAFE_FLAGS -> prog_head (h :: post)
  | ph_cm c post : In c PY_CM_FLAGS -> prog_head (c :: post).

  Lemma args_sound cc pc t0 pre tail :
    is_dash t0 = false -> plain_pre pre -> prog_head tail ->
    classify cc pc (t0 :: pre ++ tail) = PAllow ->
    sound (cwd_of cc pc) (t0 :: pre ++ tail) (py_cmdline (t0 :: pre ++ tail)).
  Proof.
    intros Ht0 Hp Hh HA. pose proof (plain_consumed pre Hp) as Hc.
    destruct (plain_clean pre Hp) as [Hsafe [Hblk Hspec]].
    unfold py_cmdline. cbn [tl]. rewrite (pyargs_plain pre tail fl0 1 Hp).
    assert (T0 : forall x, In x special -> str_eqb t0 x = false).
    { intros x Hx. apply mem_special; [exact Hx|]. apply undashed_special. exact Ht0. }
    assert (OWN : forall x, In x special -> mem_str x (t0 :: pre) = false).
    { intros x Hx. cbn [mem_str existsb]. fold (mem_str x pre). rewrite (Hspec x Hx), orb_false_r.
      destruct (str_eqb_spec x t0) as [->|]; [|reflexivity].
      specialize (T0 t0 Hx). rewrite str_eqb_refl in T0. discriminate T0. }
    destruct Hh as [|s post Hs|h post Hh|c post Hcm].
    - (* no program at all: never approved *)
      exfalso. rewrite app_nil_r in HA. destruct pre as [|p0 pre']; [discriminate|].
      set (pr := p0 :: pre') in *. rewrite classify_cons in HA by discriminate. unfold classify_body, find_script in HA.
      pose proof (own_tail_app pr [] Hc) as E. rewrite app_nil_r in E. cbn [own_tail] in E. rewrite app_nil_r in E.
      rewrite E, Hsafe in HA. rewrite (OWN $"-c"), (OWN $"-m"), (OWN $"-i") in HA by (vm_compute; tauto).
      pose proof (find_script_app pr [] 1 Hc) as F. rewrite app_nil_r, Hblk in F. cbn [find_script_at] in F.
      rewrite F in HA. discriminate.
    - (* a script *)
      rewrite classify_script_form in HA by assumption. unfold classify_script in HA.
      rewrite Hsafe, Hblk in HA. rewrite (OWN $"-c"), (OWN $"-m"), (OWN $"-i") in HA by (vm_compute; tauto).
      destruct (resolve (pjoin (cwd_of cc pc) s)) as [p|] eqn:Er; [|discriminate].
      destruct (analyze p) eqn:Ea; [|discriminate].
      cbn [pyargs]. rewrite Hs. cbn [negb orb]. unfold fin, program. cbn [fl_version fl0].
      destruct (str_eqb_spec s dash) as [->|_]; [discriminate Hs|].
      cbn [sound fl_inspect fl_skip1 fl0]. repeat split. exists s, p. repeat split; try assumption.
      replace (length pre + 1)%nat with (S (length pre)) by lia. cbn [nth_error]. apply nth_error_mid.
    - (* --help, -V, ...: CPython prints and exits *)
      apply inert_sound. apply safe_flag_inert. exact Hh.
    - (* -c / -m *)
      unfold PY_CM_FLAGS in Hcm. cbn [In] in Hcm. destruct Hcm as [<-|[<-|[]]].
      + (* -c: never approved *)
        exfalso. rewrite classify_cons in HA by apply app_cons_ne. unfold classify_body in HA.
        rewrite (own_tail_app pre _ Hc), (own_tail_cm $"-c") in HA by (vm_compute; reflexivity).
        unfold existsb in HA. fold (existsb (fun t => mem_str t PY_SAFE_FLAGS)) in HA.
        rewrite existsb_app, Hsafe in HA. cbn [existsb orb] in HA.
        replace (mem_str $"-c" PY_SAFE_FLAGS) with false in HA by (vm_compute; reflexivity). cbn [orb] in HA.
        replace (mem_str $"-c" (t0 :: pre ++ [$"-c"])) with true in HA; [discriminate|].
        symmetry. apply mem_str_In. right. apply in_or_app. right. left. reflexivity.
      + (* -m MODULE: only calendar *)
        rewrite classify_cons in HA by apply app_cons_ne. unfold classify_body, m_branch in HA.
        rewrite (own_tail_app pre _ Hc), (own_tail_cm $"-m") in HA by (vm_compute; reflexivity).
        rewrite existsb_app, Hsafe in HA. cbn [existsb orb] in HA.
        replace (mem_str $"-m" PY_SAFE_FLAGS) with false in HA by (vm_compute; reflexivity). cbn [orb] in HA.
        replace (mem_str $"-c" (t0 :: pre ++ [$"-m"])) with false in HA.
        2:{ symmetry. change (t0 :: pre ++ [$"-m"]) with ((t0 :: pre) ++ [$"-m"]).
            apply mem_app_false; [apply OWN; vm_compute; tauto|vm_compute; reflexivity]. }
        replace (mem_str $"-m" (t0 :: pre ++ [$"-m"])) with true in HA.
        2:{ symmetry. apply mem_str_In. right. apply in_or_app. right. left. reflexivity. }
        change (t0 :: pre ++ [$"-m"]) with ((t0 :: pre) ++ [$"-m"]) in HA.
        rewrite (index_of_last $"-m" (t0 :: pre)) in HA by (apply OWN; vm_compute; tauto).
        cbn [length] in HA.
        match type of HA with context [nth_error (t0 :: ?X) (S ?n)] =>
          change (nth_error (t0 :: X) (S n)) with (nth_error X n) in HA end.
        destruct post as [|m post'].
        * exfalso. replace (nth_error (pre ++ [$"-m"]) (S (length pre))) with (@None str) in HA; [discriminate HA|].
          symmetry. apply nth_error_None. rewrite app_length. cbn [length]. lia.
        * replace (nth_error (pre ++ $"-m" :: m :: post') (S (length pre))) with (Some m) in HA.
          2:{ symmetry. replace (pre ++ $"-m" :: m :: post') with ((pre ++ [$"-m"]) ++ m :: post')
                by (rewrite <- app_assoc; reflexivity).
              replace (S (length pre)) with (length (pre ++ [$"-m"])) by (rewrite app_length; cbn [length]; lia).
              apply nth_error_mid. }
          destruct (str_eqb_spec m $"calendar") as [E|]; [|discriminate HA].
          subst m. cbn [pyargs]. vm_compute. split; reflexivity.
  Qed.
End Sound.

(* ---------------------------------------------------------------- what is false today *)

Definition w_resolve (p : str) : option str := Some p.
Definition w_analyze (p : str) : bool := str_eqb p $"/w/s.py".
Definition w_classify := classify w_resolve w_analyze (Some $"/w") $"/".
Definition unsound (tokens : list str) : Prop :=
  w_classify tokens = PAllow /\ ~ sound w_resolve w_analyze $"/w" tokens (py_cmdline tokens).

Ltac refute_with r fin :=
  split; [vm_compute; reflexivity|];
  let H := fresh "H" in
  intro H; replace (py_cmdline _) with r in H by (vm_compute; reflexivity);
  cbn [sound nth_error fl_inspect fl_skip1] in H; fin H.
Ltac fin_false H := exact H.
Ltac fin_flag1 H := let E := fresh in destruct H as [E _]; discriminate E.
Ltac fin_flag2 H := let E := fresh in destruct H as [_ [E _]]; discriminate E.
Ltac fin_mod H := let E := fresh in destruct H as [_ E]; discriminate E.
Ltac fin_file H :=
  let tok := fresh in let p := fresh in let E1 := fresh in let E2 := fresh in let E3 := fresh in
  destruct H as [_ [_ [tok [p [E1 [E2 E3]]]]]]; injection E1 as <-; injection E2 as <-;
  vm_compute in E3; discriminate E3.

Lemma refuted_stdin : unsound [$"python"; $"-"; $"s.py"].              (* the program comes from stdin *)
Proof. refute_with (RStdin fl0) fin_false. Qed.
Lemma refuted_cluster_i : unsound [$"python"; $"-Bi"; $"s.py"].        (* REPL after the script *)
Proof. refute_with (RFile 2 (mkfl false true false)) fin_flag1. Qed.
Lemma refuted_skip_line : unsound [$"python"; $"-x"; $"s.py"].         (* first source line skipped *)
Proof. refute_with (RFile 2 (mkfl false false true)) fin_flag2. Qed.
Lemma refuted_cluster_c : unsound [$"python"; $"-Bc"; $"s.py"].        (* the token is executed as code *)
Proof. refute_with (RCommand 2 $"s.py" fl0) fin_false. Qed.
Lemma refuted_i_m : unsound [$"python"; $"-i"; $"-m"; $"calendar"].    (* -m is looked at before -i: REPL after calendar *)
Proof. refute_with (RModule 3 $"calendar" (mkfl false true false)) fin_mod. Qed.
Lemma refuted_arg_help : unsound [$"python"; $"-W"; $"-h"; $"evil.py"].  (* -h is the argument of -W *)
Proof. refute_with (RFile 3 fl0) fin_file. Qed.
Lemma refuted_arg_m : unsound [$"python"; $"-W"; $"-m"; $"calendar"].  (* runs the file ./calendar *)
Proof. refute_with (RFile 3 fl0) fin_file. Qed.
Lemma refuted_ddash : unsound [$"python"; $"--"; $"-h"].               (* runs the file ./-h *)
Proof. refute_with (RFile 2 fl0) fin_file. Qed.

(* "-" ends python's options for _own_options but not for _find_script_path: the tail is read *)
Lemma refuted_tail :
  exists resolve analyze cc pc post post',
    classify resolve analyze cc pc ($"python" :: dash :: post) <> classify resolve analyze cc pc ($"python" :: dash :: post').
Proof.
  exists w_resolve, w_analyze, (Some $"/w"), $"/", [$"s.py"], [$"evil.py"]. vm_compute. discriminate.
Qed.
