(* Last match wins / non-matching rules are inert (generic in the matcher); literal and anchored
   patterns; the priority rule of match_command. *)
From DippyV Require Import Base.Str Base.Verdict Model.Fnmatch Model.Glob2 Model.Paths Model.Rules Proofs.FnmatchP.

Section Last.
  Context {R : Type} (m : R -> bool).
  Notation step := (fun (acc : option R) (r : R) => if m r then Some r else acc).

  Lemma fold_acc rs : forall acc,
    fold_left step rs acc = match last_match m rs with Some r => Some r | None => acc end.
  Proof.
    unfold last_match. induction rs as [|x rs IH]; intro acc; cbn [fold_left].
    - reflexivity.
    - rewrite IH. rewrite (IH (if m x then Some x else None)).
      destruct (fold_left step rs None); auto. destruct (m x); auto.
  Qed.

  Lemma last_match_app a b :
    last_match m (a ++ b) = match last_match m b with Some r => Some r | None => last_match m a end.
  Proof. unfold last_match at 1. rewrite fold_left_app. apply fold_acc. Qed.

  Lemma last_match_cons x rs :
    last_match m (x :: rs) =
    match last_match m rs with Some r => Some r | None => if m x then Some x else None end.
  Proof. apply (last_match_app [x] rs). Qed.

  Lemma last_match_snoc rs x : last_match m (rs ++ [x]) = if m x then Some x else last_match m rs.
  Proof. rewrite last_match_app. unfold last_match at 1. cbn. destruct (m x); reflexivity. Qed.

  (* the loop computes the first match of the list read backwards *)
  Lemma last_match_spec rs : last_match m rs = last_such m rs.
  Proof.
    unfold last_such. induction rs as [|x rs IH] using rev_ind; [reflexivity|].
    rewrite last_match_snoc, rev_app_distr. cbn [rev app find]. rewrite IH. reflexivity.
  Qed.

  (* a rule that does not match can be deleted anywhere *)
  Lemma last_match_inert a r b : m r = false -> last_match m (a ++ r :: b) = last_match m (a ++ b).
  Proof.
    intro H. rewrite !last_match_app, last_match_cons, H. destruct (last_match m b); reflexivity.
  Qed.

  (* ... and inserted anywhere *)
  Lemma last_match_None rs : last_match m rs = None <-> forallb (fun r => negb (m r)) rs = true.
  Proof.
    induction rs as [|x rs IH]; [cbn; tauto|].
    rewrite last_match_cons. cbn [forallb]. rewrite andb_true_iff, <- IH.
    destruct (last_match m rs); destruct (m x); cbn; split; try tauto; try discriminate;
      intros [? ?]; discriminate.
  Qed.

  Lemma last_match_Some rs r :
    last_match m rs = Some r <->
    exists a b, rs = a ++ r :: b /\ m r = true /\ forallb (fun x => negb (m x)) b = true.
  Proof.
    split.
    - induction rs as [|x rs IH]; [discriminate|].
      rewrite last_match_cons. destruct (last_match m rs) as [y|] eqn:E.
      + intro H; inversion H; subst y. destruct (IH eq_refl) as [a [b [-> [Hm Hb]]]].
        exists (x :: a), b. auto.
      + destruct (m x) eqn:Hx; [|discriminate]. intro H; inversion H; subst x.
        exists [], rs. repeat split; auto. apply last_match_None; auto.
    - intros [a [b [-> [Hm Hb]]]]. rewrite last_match_app, last_match_cons.
      apply last_match_None in Hb. rewrite Hb, Hm. reflexivity.
  Qed.

  (* the whole list can be reduced to its last matching rule *)
  Lemma last_match_reduce rs r : last_match m rs = Some r -> last_match m [r] = Some r.
  Proof.
    intro H. apply last_match_Some in H. destruct H as [a [b [_ [Hm _]]]].
    unfold last_match; cbn. rewrite Hm. reflexivity.
  Qed.

  Lemma last_match_In rs r : last_match m rs = Some r -> In r rs /\ m r = true.
  Proof.
    intro H. apply last_match_Some in H. destruct H as [a [b [-> [Hm _]]]].
    split; auto. apply in_or_app; right; left; reflexivity.
  Qed.
End Last.

Lemma last_match_ext {R} (m m' : R -> bool) rs :
  (forall r, In r rs -> m r = m' r) -> last_match m rs = last_match m' rs.
Proof.
  induction rs as [|x rs IH] using rev_ind; intro H; [reflexivity|].
  rewrite !last_match_snoc, IH, (H x).
  - reflexivity.
  - apply in_or_app; right; left; reflexivity.
  - intros r Hr. apply H. apply in_or_app; left; exact Hr.
Qed.

(* ---- glob characters ---- *)
Lemma mem_ch_cons c x l : mem_ch c (x :: l) = N.eqb c x || mem_ch c l.
Proof. reflexivity. Qed.

Lemma has_glob_no_glob p : has_glob p = negb (no_glob p).
Proof.
  unfold has_glob. induction p as [|c p IH]; [reflexivity|].
  rewrite no_glob_cons, negb_andb, negb_involutive, <- IH, !mem_ch_cons. unfold globc.
  rewrite (N.eqb_sym c_star c), (N.eqb_sym c_q c), (N.eqb_sym c_lb c).
  destruct (N.eqb c c_star), (N.eqb c c_q), (N.eqb c c_lb), (mem_ch c_star p), (mem_ch c_q p); reflexivity.
Qed.

Lemma no_glob_has_glob p : no_glob p = true -> has_glob p = false.
Proof. intro H. rewrite has_glob_no_glob, H. reflexivity. Qed.

Lemma no_glob_sp p : no_glob p = true -> no_glob (p ++ [c_sp]) = true.
Proof. intro H. rewrite no_glob_app, H. reflexivity. Qed.

Lemma no_glob_no_star p : no_glob p = true -> mem_ch c_star p = false.
Proof.
  induction p as [|c p IH]; [reflexivity|].
  rewrite no_glob_cons, mem_ch_cons. intro H. apply andb_true_iff in H. destruct H as [Hc Hp].
  rewrite (IH Hp), orb_false_r. apply negb_true_iff in Hc. apply globc_false in Hc.
  rewrite N.eqb_sym. tauto.
Qed.

Lemma mem_ch_app c a b : mem_ch c (a ++ b) = mem_ch c a || mem_ch c b.
Proof. unfold mem_ch. apply existsb_app. Qed.
Lemma mem_ch_rev c a : mem_ch c (rev a) = mem_ch c a.
Proof.
  induction a as [|x a IH]; [reflexivity|].
  cbn [rev]. rewrite mem_ch_app, IH, mem_ch_cons. cbn. rewrite orb_false_r. apply orb_comm.
Qed.

Lemma suffix_sp_star_mem np : suffixb sp_star np = true -> mem_ch c_star np = true.
Proof.
  unfold suffixb, sp_star. cbn [rev app]. intro H.
  apply prefixb_spec in H. destruct H as [r Hr].
  rewrite <- (mem_ch_rev c_star np), Hr. reflexivity.
Qed.

(* ---- C07_literal / C07_anchor on the normalised strings ---- *)
Lemma pat_literal np c : no_glob np = true ->
  pat_matches np false c = str_eqb c np || prefixb (np ++ [c_sp]) c.
Proof.
  intro Hn. unfold pat_matches. rewrite (no_glob_has_glob _ Hn). cbn [negb andb].
  replace (np ++ sp_star) with ((np ++ [c_sp]) ++ [c_star]) by (rewrite <- app_assoc; reflexivity).
  rewrite fnmatch_lit_star by (apply no_glob_sp; exact Hn). apply orb_comm.
Qed.

Lemma pat_literal_iff np c : no_glob np = true ->
  (pat_matches np false c = true <-> c = np \/ exists rest, c = np ++ c_sp :: rest).
Proof.
  intro Hn. rewrite pat_literal by exact Hn. rewrite orb_true_iff, str_eqb_eq, prefixb_spec.
  split; intros [H|[r H]]; auto; right; exists r; rewrite H; rewrite <- app_assoc; reflexivity.
Qed.

Lemma pat_anchor np c : no_glob np = true -> pat_matches np true c = str_eqb c np.
Proof.
  intro Hn. unfold pat_matches. cbn [negb andb].
  rewrite fnmatch_lit by exact Hn.
  destruct (suffixb sp_star np) eqn:E.
  - apply suffix_sp_star_mem in E. rewrite (no_glob_no_star _ Hn) in E. discriminate.
  - cbn [andb]. rewrite orb_false_r. apply str_eqb_sym.
Qed.

Lemma pat_anchor_iff np c : no_glob np = true -> (pat_matches np true c = true <-> c = np).
Proof. intro Hn. rewrite pat_anchor by exact Hn. apply str_eqb_eq. Qed.

(* "lit *" is the same rule as "lit" *)
Lemma firstn_app_exact {A} (a b : list A) : firstn (length (a ++ b) - length b) (a ++ b) = a.
Proof.
  rewrite app_length. replace (length a + length b - length b)%nat with (length a + 0)%nat by lia.
  rewrite firstn_app_2. cbn. apply app_nil_r.
Qed.

Lemma pat_trailing_star l exact c : no_glob l = true ->
  pat_matches (l ++ sp_star) exact c = str_eqb c l || prefixb (l ++ [c_sp]) c.
Proof.
  intro Hn. unfold pat_matches.
  assert (Hg : has_glob (l ++ sp_star) = true).
  { unfold has_glob. rewrite mem_ch_app. unfold sp_star. cbn. rewrite orb_true_r. reflexivity. }
  rewrite Hg. rewrite andb_false_r.
  replace (l ++ sp_star) with ((l ++ [c_sp]) ++ [c_star]) at 1 by (rewrite <- app_assoc; reflexivity).
  rewrite fnmatch_lit_star by (apply no_glob_sp; exact Hn).
  assert (Hs : suffixb sp_star (l ++ sp_star) = true).
  { unfold suffixb. rewrite rev_app_distr. apply prefixb_spec. eexists; reflexivity. }
  rewrite Hs. cbn [andb].
  change 2%nat with (length sp_star). rewrite firstn_app_exact. apply orb_comm.
Qed.

(* ---- match_command priority ---- *)
Lemma find_split {A} (f : A -> bool) l x : find f l = Some x ->
  exists a b, l = a ++ x :: b /\ f x = true /\ forall y, In y a -> f y = false.
Proof.
  induction l as [|h l IH]; [discriminate|]. cbn [find]. destruct (f h) eqn:E.
  - intro H; inversion H; subst. exists [], l. repeat split; auto. intros y [].
  - intro H. destruct (IH H) as [a [b [-> [Hx Ha]]]]. exists (h :: a), b. repeat split; auto.
    intros y [->|Hy]; auto.
Qed.

Definition first_with (d : verdict) (ms : list rule) (m : rule) : Prop :=
  exists a b, ms = a ++ m :: b /\ r_dec m = d /\ forall y, In y a -> r_dec y <> d.

Lemma is_deny_iff v : is_deny v = true <-> v = Deny. Proof. destruct v; cbn; split; congruence. Qed.
Lemma is_ask_iff v : is_ask v = true <-> v = Ask. Proof. destruct v; cbn; split; congruence. Qed.

Lemma find_dec_first d (f : verdict -> bool) ms m :
  (forall v, f v = true <-> v = d) ->
  find (fun x => f (r_dec x)) ms = Some m -> first_with d ms m.
Proof.
  intros Hf H. destruct (find_split _ _ _ H) as [a [b [-> [Hx Ha]]]].
  exists a, b. repeat split; auto. - apply Hf; auto.
  - intros y Hy E. apply Ha in Hy. apply Hf in E. congruence.
Qed.

(* exact statement of the priority rule *)
Lemma priority_spec ms :
  match priority ms with
  | None => ms = []
  | Some m =>
      (r_dec m = Deny /\ first_with Deny ms m)
      \/ (r_dec m = Ask /\ first_with Ask ms m /\ forall x, In x ms -> r_dec x <> Deny)
      \/ (r_dec m = Allow /\ hd_error ms = Some m /\ forall x, In x ms -> r_dec x = Allow)
  end.
Proof.
  unfold priority.
  destruct (find (fun m => is_deny (r_dec m)) ms) as [m|] eqn:Ed.
  { left. pose proof (find_dec_first Deny is_deny ms m is_deny_iff Ed) as H.
    split; auto. destruct H as [a [b [_ [H _]]]]; auto. }
  assert (Hnd : forall x, In x ms -> r_dec x <> Deny).
  { intros x Hx E. pose proof (find_none _ _ Ed x Hx) as H. cbn in H. apply is_deny_iff in E. congruence. }
  destruct (find (fun m => is_ask (r_dec m)) ms) as [m|] eqn:Ea.
  { right; left. pose proof (find_dec_first Ask is_ask ms m is_ask_iff Ea) as H.
    split; [|split]; auto. destruct H as [a [b [_ [H _]]]]; auto. }
  assert (Hna : forall x, In x ms -> r_dec x = Allow).
  { intros x Hx. pose proof (find_none _ _ Ea x Hx) as H. cbn in H. specialize (Hnd x Hx).
    destruct (r_dec x); auto; try discriminate; congruence. }
  destruct ms as [|m ms']; cbn [hd_error]; auto.
  right; right. repeat split; auto. apply Hna. left; reflexivity.
Qed.

(* the result's decision is the most restrictive of all matches (the C03 join) *)
Lemma priority_max ms m : priority ms = Some m -> r_dec m = combine (map r_dec ms).
Proof.
  intro H. pose proof (priority_spec ms) as S. rewrite H in S.
  unfold combine.
  destruct S as [[Hd [a [b [-> _]]]] | [[Ha [[a [b [E _]]] Hnd]] | [Hal [_ Hall]]]].
  - rewrite Hd. rewrite map_app, existsb_app. cbn. rewrite Hd. cbn. rewrite orb_true_r. reflexivity.
  - assert (existsb is_deny (map r_dec ms) = false) as ->.
    { destruct (existsb is_deny (map r_dec ms)) eqn:X; auto. apply existsb_exists in X.
      destruct X as [v [Hv Hd]]. apply in_map_iff in Hv. destruct Hv as [x [<- Hx]].
      apply is_deny_iff in Hd. exfalso. exact (Hnd x Hx Hd). }
    rewrite E, map_app, existsb_app. cbn. rewrite Ha. cbn. rewrite orb_true_r. auto.
  - assert (forall f, f Allow = false -> existsb f (map r_dec ms) = false) as X.
    { intros f Hf. destruct (existsb f (map r_dec ms)) eqn:X; auto. apply existsb_exists in X.
      destruct X as [v [Hv Hd]]. apply in_map_iff in Hv. destruct Hv as [x [<- Hx]].
      rewrite (Hall x Hx) in Hd. congruence. }
    rewrite (X is_deny), (X is_ask); auto.
Qed.

(* ---- the matchers of config.py, instantiated ---- *)
Section Matchers.
  Variable resolve1 : str -> str.
  Variable resolve2 : str -> str -> str.
  Variable home : str.
  Notation m_words := (match_words resolve1 resolve2 home).
  Notation wrm := (word_rule_matches resolve1 resolve2 home).
  Notation cstr := (cmd_string resolve1 resolve2 home).
  Notation m_redirect := (match_redirect resolve1 resolve2 home).
  Notation rrm := (redirect_rule_matches resolve1 resolve2 home).
  Notation m_after := (match_after resolve1 resolve2 home).
  Notation m_command := (match_command resolve1 resolve2 home).
  Notation c_matches := (command_matches resolve1 resolve2 home).

  Lemma words_last al rules cwd remote ws :
    m_words al rules cwd remote ws = last_such (wrm cwd remote (cstr al cwd remote ws)) rules.
  Proof. apply last_match_spec. Qed.

  Lemma words_inert al rs1 r rs2 cwd remote ws :
    wrm cwd remote (cstr al cwd remote ws) r = false ->
    m_words al (rs1 ++ r :: rs2) cwd remote ws = m_words al (rs1 ++ rs2) cwd remote ws.
  Proof. apply last_match_inert. Qed.

  Lemma words_reduce al rules cwd remote ws r :
    m_words al rules cwd remote ws = Some r ->
    m_words al [r] cwd remote ws = Some r /\ In r rules /\ wrm cwd remote (cstr al cwd remote ws) r = true.
  Proof.
    intro H. split; [exact (last_match_reduce _ _ _ H)|exact (last_match_In _ _ _ H)].
  Qed.

  Lemma words_none al rules cwd remote ws :
    m_words al rules cwd remote ws = None <->
    forallb (fun r => negb (wrm cwd remote (cstr al cwd remote ws) r)) rules = true.
  Proof. apply last_match_None. Qed.

  Lemma words_literal cwd remote r c :
    r_exact r = false -> no_glob (rule_pattern resolve1 resolve2 home cwd remote r) = true ->
    (wrm cwd remote c r = true <->
     c = rule_pattern resolve1 resolve2 home cwd remote r
     \/ exists rest, c = rule_pattern resolve1 resolve2 home cwd remote r ++ c_sp :: rest).
  Proof. intros He Hn. unfold word_rule_matches. rewrite He. apply pat_literal_iff. exact Hn. Qed.

  Lemma words_anchor cwd remote r c :
    r_exact r = true -> no_glob (rule_pattern resolve1 resolve2 home cwd remote r) = true ->
    (wrm cwd remote c r = true <-> c = rule_pattern resolve1 resolve2 home cwd remote r).
  Proof. intros He Hn. unfold word_rule_matches. rewrite He. apply pat_anchor_iff. exact Hn. Qed.

  Lemma words_trailing_star cwd remote r c l :
    rule_pattern resolve1 resolve2 home cwd remote r = l ++ sp_star -> no_glob l = true ->
    (wrm cwd remote c r = true <-> c = l \/ exists rest, c = l ++ c_sp :: rest).
  Proof.
    intros Hp Hn. unfold word_rule_matches. rewrite Hp, pat_trailing_star by exact Hn.
    rewrite orb_true_iff, str_eqb_eq, prefixb_spec.
    split; intros [H|[x H]]; auto; right; exists x; rewrite H; rewrite <- app_assoc; reflexivity.
  Qed.

  Lemma redirect_last rr cwd t : m_redirect rr cwd t = last_such (rrm cwd t) rr.
  Proof. apply last_match_spec. Qed.
  Lemma redirect_inert rs1 r rs2 cwd t : rrm cwd t r = false ->
    m_redirect (rs1 ++ r :: rs2) cwd t = m_redirect (rs1 ++ rs2) cwd t.
  Proof. apply last_match_inert. Qed.
  Lemma redirect_reduce rr cwd t r : m_redirect rr cwd t = Some r ->
    m_redirect [r] cwd t = Some r /\ In r rr /\ rrm cwd t r = true.
  Proof. intro H. split; [exact (last_match_reduce _ _ _ H)|exact (last_match_In _ _ _ H)]. Qed.

  Lemma after_last al ar cwd ws :
    m_after al ar cwd ws = option_map after_message (last_such (wrm cwd false (cstr al cwd false ws)) ar).
  Proof. unfold match_after. rewrite last_match_spec. reflexivity. Qed.
  Lemma after_inert al rs1 r rs2 cwd ws : wrm cwd false (cstr al cwd false ws) r = false ->
    m_after al (rs1 ++ r :: rs2) cwd ws = m_after al (rs1 ++ rs2) cwd ws.
  Proof. intro H. unfold match_after. rewrite last_match_inert by exact H. reflexivity. Qed.

  Lemma command_priority al rules rr cwd remote ws reds :
    match m_command al rules rr cwd remote ws reds with
    | None => c_matches al rules rr cwd remote ws reds = []
    | Some m =>
        let ms := c_matches al rules rr cwd remote ws reds in
        r_dec m = combine (map r_dec ms) /\
        ((r_dec m = Deny /\ first_with Deny ms m)
         \/ (r_dec m = Ask /\ first_with Ask ms m /\ forall x, In x ms -> r_dec x <> Deny)
         \/ (r_dec m = Allow /\ hd_error ms = Some m /\ forall x, In x ms -> r_dec x = Allow))
    end.
  Proof.
    unfold match_command. pose proof (priority_spec (c_matches al rules rr cwd remote ws reds)) as S.
    destruct (priority (c_matches al rules rr cwd remote ws reds)) as [m|] eqn:E; [|exact S].
    split; [apply priority_max; exact E|exact S].
  Qed.

  (* with no redirects (the way the analyzer calls it) match_command is _match_words *)
  Lemma command_no_redirects al rules rr cwd remote ws :
    m_command al rules rr cwd remote ws [] = m_words al rules cwd remote ws.
  Proof.
    unfold match_command, command_matches. cbn [flat_map]. destruct remote; rewrite app_nil_r;
      destruct (m_words al rules cwd _ ws) as [r|]; unfold priority; cbn; try reflexivity;
      destruct (r_dec r); reflexivity.
  Qed.
End Matchers.

Lemma mcp_last rs tool : match_mcp rs tool = last_such (mcp_rule_matches tool) rs.
Proof. apply last_match_spec. Qed.
Lemma mcp_inert rs1 r rs2 tool : mcp_rule_matches tool r = false ->
  match_mcp (rs1 ++ r :: rs2) tool = match_mcp (rs1 ++ rs2) tool.
Proof. apply last_match_inert. Qed.
Lemma mcp_literal r tool : no_glob (r_pat r) = true -> (mcp_rule_matches tool r = true <-> tool = r_pat r).
Proof.
  intro Hn. unfold mcp_rule_matches. rewrite fnmatch_lit by exact Hn. rewrite str_eqb_eq. split; congruence.
Qed.
Lemma after_mcp_last rs tool :
  match_after_mcp rs tool = option_map after_message (last_such (mcp_rule_matches tool) rs).
Proof. unfold match_after_mcp. rewrite last_match_spec. reflexivity. Qed.
Lemma after_mcp_inert rs1 r rs2 tool : mcp_rule_matches tool r = false ->
  match_after_mcp (rs1 ++ r :: rs2) tool = match_after_mcp (rs1 ++ rs2) tool.
Proof. intro H. unfold match_after_mcp. rewrite last_match_inert by exact H. reflexivity. Qed.
