(* Specifications of the helpers of the config-text parser that the function-level ties (entry cfg_fn,
   harness/cfgfuncs.py) compare with dippy/core/config.py and that had no theorem of their own:
   _strip_exact_anchor (complete), _apply_setting (the grammar of `set`: sound and complete for the two settings
   without an oracle, sound for `log`), _classify_token (the HOME kind, the only one parse_config acts on). *)
From DippyV Require Import Base.Str Model.ConfigText Proofs.ConfigTextP Proofs.ConfigRoundP.

Local Arguments is_space : simpl never.

(* ---------------------------------------------------------------- _strip_exact_anchor *)
Lemma ends_with_bar_snoc q c : ends_with_bar (q ++ [c]) = N.eqb c BAR.
Proof. unfold ends_with_bar. rewrite rev_app_distr. reflexivity. Qed.

(* the anchor is the LAST character, whatever precedes it; what precedes loses its trailing white space *)
Lemma anchor_present q : strip_exact_anchor (q ++ [BAR]) = (rstrip_ws q, true).
Proof. unfold strip_exact_anchor. rewrite rev_app_distr. cbn [rev app]. rewrite N.eqb_refl, rev_involutive. reflexivity. Qed.

Lemma anchor_flag p : snd (strip_exact_anchor p) = ends_with_bar p.
Proof.
  unfold strip_exact_anchor, ends_with_bar. destruct (rev p) as [|c r]; [reflexivity|].
  destruct (N.eqb c BAR); reflexivity.
Qed.

Lemma last_split (p : str) : p = [] \/ exists q c, p = q ++ [c].
Proof. destruct (rev p) as [|c r] eqn:E; [left|right].
  - apply (f_equal (@rev N)) in E. rewrite rev_involutive in E. exact E.
  - exists (rev r), c. apply (f_equal (@rev N)) in E. rewrite rev_involutive in E. exact E.
Qed.

Theorem anchor_spec p :
  (ends_with_bar p = true -> exists q, p = q ++ [BAR] /\ strip_exact_anchor p = (rstrip_ws q, true)) /\
  (ends_with_bar p = false -> strip_exact_anchor p = (p, false)).
Proof.
  split; [|apply anchor_absent].
  intro H. destruct (last_split p) as [->|[q [c ->]]]; [discriminate H|].
  rewrite ends_with_bar_snoc in H. apply N.eqb_eq in H. subst c. exists q. split; [reflexivity|apply anchor_present].
Qed.

(* ---------------------------------------------------------------- _apply_setting *)
Definition norm_key (k : str) : str := replace_ch 45 95 (lower k).
Definition first_value (more : list str) : option str := match more with v :: _ => Some v | [] => None end.

(* everything `set` accepts: exactly three forms *)
Theorem setting_sound expu g rest e : apply_setting expu g rest = Ok e ->
  exists k more, split1 rest = k :: more /\
    ((e = ESet SLogFull /\ norm_key k = $"log_full" /\ more = []) \/
     (exists v, e = ESet (SDefault v) /\ norm_key k = $"default" /\ first_value more = Some v /\ (v = $"allow" \/ v = $"ask")) \/
     (exists v p, e = ESet (SLog p) /\ norm_key k = $"log" /\ first_value more = Some v /\ expu v = EUOk p)).
Proof.
  unfold apply_setting. destruct (nonempty rest); [|discriminate].
  destruct (split1 rest) as [|k more]; [discriminate|]. fold (norm_key k).
  intro H. exists k, more. split; [reflexivity|].
  destruct (str_eqb_spec (norm_key k) $"log_full") as [E1|N1].
  - destruct more as [|v more']; [|discriminate H]. injection H as <-. left. auto.
  - destruct (str_eqb_spec (norm_key k) $"default") as [E2|N2].
    + destruct more as [|v more']; [discriminate H|].
      destruct (str_eqb_spec v $"allow") as [Ea|Na]; cbn [orb] in H.
      * injection H as <-. right; left. exists v. repeat split; auto.
      * destruct (str_eqb_spec v $"ask") as [Eb|Nb]; [|discriminate H].
        injection H as <-. right; left. exists v. repeat split; auto.
    + destruct (str_eqb_spec (norm_key k) $"log") as [E3|N3]; [|discriminate H].
      destruct more as [|v more']; [discriminate H|].
      right; right. unfold expanduser_guarded, expanduser_raw in H.
      destruct g; destruct (expu v) as [p| |] eqn:Ev; cbn [bind] in H; try discriminate H;
        injection H as <-; exists v, p; repeat split; auto.
Qed.

(* ... and every such form is accepted (the two settings that need no oracle) *)
Theorem setting_complete expu g rest k :
  (split1 rest = [k] -> norm_key k = $"log_full" -> apply_setting expu g rest = Ok (ESet SLogFull)) /\
  (forall v more, split1 rest = k :: v :: more -> norm_key k = $"default" -> (v = $"allow" \/ v = $"ask") ->
     apply_setting expu g rest = Ok (ESet (SDefault v))).
Proof.
  assert (NE : forall l, split1 rest = k :: l -> nonempty rest = true).
  { intros l H. destruct rest as [|c r]; [discriminate H|reflexivity]. }
  split.
  - intros Hs Hk. unfold apply_setting. rewrite (NE _ Hs), Hs. fold (norm_key k). rewrite Hk. reflexivity.
  - intros v more Hs Hk Hv. unfold apply_setting. rewrite (NE _ Hs), Hs. fold (norm_key k). rewrite Hk.
    cbn [str_eqb]. destruct Hv as [-> | ->]; reflexivity.
Qed.

(* ---------------------------------------------------------------- _classify_token: the HOME kind *)
(* a token is expanded at parse time iff it is `~` or starts with `~/` and contains no `://` *)
Theorem classify_home t :
  classify_token t = KHome <-> infixb $"://" t = false /\ (str_eqb t $"~" || prefixb $"~/" t) = true.
Proof.
  unfold classify_token. destruct (infixb $"://" t); [split; [discriminate|intros [H _]; discriminate H]|].
  destruct t as [|c t'].
  - cbn. split; [discriminate|intros [_ H]; discriminate H].
  - destruct (N.eqb_spec c 126) as [->|Hc].
    + (* starts with ~ : neither $ nor / *)
      replace (prefixb $"$" (126 :: t')) with false by reflexivity.
      replace (prefixb $"/" (126 :: t')) with false by reflexivity.
      destruct (str_eqb (126 :: t') $"~" || prefixb $"~/" (126 :: t')); [split; auto|].
      replace (prefixb $"~" (126 :: t')) with true by reflexivity.
      split; [discriminate|intros [_ H]; discriminate H].
    + assert (F1 : str_eqb (c :: t') $"~" = false).
      { destruct (str_eqb_spec (c :: t') $"~") as [E|]; [injection E as E _; contradiction|reflexivity]. }
      assert (F2 : prefixb $"~/" (c :: t') = false).
      { change (prefixb $"~/" (c :: t')) with (N.eqb 126 c && prefixb $"/" t').
        destruct (N.eqb_spec 126 c) as [E|]; [symmetry in E; contradiction|reflexivity]. }
      rewrite F1, F2. cbn [orb].
      split; [|intros [_ H]; discriminate H].
      destruct (prefixb $"$" (c :: t')); [discriminate|]. destruct (prefixb $"/" (c :: t')); [discriminate|].
      destruct (prefixb $"~" (c :: t')); [discriminate|].
      match goal with |- (if ?b then _ else _) = _ -> _ => destruct b; discriminate end.
Qed.
