(* Pattern-side and command-side normalisation agree (C07/C09, second round).
   _normalize_pattern splits the rule's text with str.split() and normalises token by token;
   _normalize_words normalises the command's words.  For a pattern that is the command's own text
   (words joined by one blank) the two are the same string, whatever resolve() and home() do -
   so a literal rule written with the words of a command fires on that command (and, when not
   anchored, on that command followed by more words).  Under the symlink-free hypothesis the same
   holds when pattern and command spell the same files differently. *)
From Coq Require Import PeanoNat.
From DippyV Require Import Base.Str Base.Verdict Model.Fnmatch Model.Glob2 Model.Paths Model.Rules
  Proofs.FnmatchP Proofs.RulesP Proofs.PathsP Proofs.C09P.

(* a shell word as the matcher sees it: non-empty, no character str.split() splits on *)
Definition wordb (w : str) : bool := nonempty w && forallb (fun c => negb (py_space c)) w.

Lemma sp_is_space : py_space c_sp = true.
Proof. vm_compute. reflexivity. Qed.

(* ---- str.split() on words joined by one blank ---- *)
Lemma split_aux_word w : forall cur rest,
  forallb (fun c => negb (py_space c)) w = true ->
  split_py_aux (w ++ rest) cur = split_py_aux rest (rev w ++ cur).
Proof.
  induction w as [|x w IH]; intros cur rest H; [reflexivity|].
  cbn [forallb] in H. apply andb_true_iff in H. destruct H as [Hx H].
  cbn [app split_py_aux]. apply negb_true_iff in Hx. rewrite Hx.
  rewrite IH by exact H. cbn [rev]. rewrite <- app_assoc. reflexivity.
Qed.

Lemma split_aux_end w : wordb w = true -> split_py_aux w [] = [w].
Proof.
  unfold wordb. intro H. apply andb_true_iff in H. destruct H as [Hn H].
  rewrite <- (app_nil_r w) at 1. rewrite split_aux_word by exact H. rewrite app_nil_r.
  cbn [split_py_aux]. destruct w as [|x w]; [discriminate|].
  destruct (rev (x :: w)) eqn:E.
  - apply (f_equal (@length N)) in E. rewrite rev_length in E. discriminate.
  - rewrite <- E, rev_involutive. reflexivity.
Qed.

Lemma split_aux_sep w rest : wordb w = true ->
  split_py_aux (w ++ c_sp :: rest) [] = w :: split_py_aux rest [].
Proof.
  unfold wordb. intro H. apply andb_true_iff in H. destruct H as [Hn H].
  rewrite split_aux_word by exact H. rewrite app_nil_r.
  cbn [split_py_aux]. rewrite sp_is_space.
  destruct w as [|x w]; [discriminate|].
  destruct (rev (x :: w)) eqn:E.
  - apply (f_equal (@length N)) in E. rewrite rev_length in E. discriminate.
  - rewrite <- E, rev_involutive. reflexivity.
Qed.

Lemma join_cons2 (sep : str) x y l : join sep (x :: y :: l) = x ++ sep ++ join sep (y :: l).
Proof. reflexivity. Qed.

Lemma split_py_join ws : forallb wordb ws = true -> split_py (join [c_sp] ws) = ws.
Proof.
  unfold split_py. induction ws as [|w ws IH]; intro H; [reflexivity|].
  cbn [forallb] in H. apply andb_true_iff in H. destruct H as [Hw H].
  destruct ws as [|v ws].
  - cbn [join]. apply split_aux_end. exact Hw.
  - rewrite join_cons2. cbn [app]. rewrite split_aux_sep by exact Hw. f_equal. apply IH. exact H.
Qed.

Lemma join_app_sp (a b : list str) : a <> [] -> b <> [] ->
  join [c_sp] (a ++ b) = join [c_sp] a ++ c_sp :: join [c_sp] b.
Proof.
  intros Ha Hb. induction a as [|x a IH]; [congruence|].
  destruct a as [|y a].
  - cbn [app]. destruct b as [|z b]; [congruence|]. rewrite join_cons2. reflexivity.
  - change ((x :: y :: a) ++ b) with (x :: y :: (a ++ b)). rewrite !join_cons2.
    change (y :: a ++ b) with ((y :: a) ++ b). rewrite IH by discriminate.
    rewrite <- !app_assoc. reflexivity.
Qed.

Section Spell.
  Variable resolve1 : str -> str.
  Variable resolve2 : str -> str -> str.
  Variable home : str.

  Notation ntoken := (normalize_token resolve1 resolve2 home).
  Notation nwords := (normalize_words resolve1 resolve2 home).
  Notation npattern := (normalize_pattern resolve1 resolve2 home).
  Notation wrm := (word_rule_matches resolve1 resolve2 home).
  Notation cstr := (cmd_string resolve1 resolve2 home).
  Notation m_words := (match_words resolve1 resolve2 home).

  (* the two normalisations are one function: for every resolve(), every home, every cwd *)
  Lemma pattern_is_words cwd ws : forallb wordb ws = true ->
    npattern cwd (join [c_sp] ws) = nwords cwd ws.
  Proof. intro H. unfold normalize_pattern, normalize_words. rewrite split_py_join by exact H. reflexivity. Qed.

  (* every token of a pattern is normalised exactly like a command word - in particular the lone
     ".", "..", "~" tokens, which the seeded fast path skipped *)
  Lemma pattern_tokenwise cwd p :
    npattern cwd p = join [c_sp] (map (ntoken cwd) (split_py p)).
  Proof. reflexivity. Qed.

  Lemma cstr_no_alias cwd ws : cstr [] cwd false ws = nwords cwd ws.
  Proof. unfold cmd_string. destruct ws; reflexivity. Qed.

  Lemma nwords_app cwd a b : a <> [] -> b <> [] ->
    nwords cwd (a ++ b) = nwords cwd a ++ c_sp :: nwords cwd b.
  Proof.
    intros Ha Hb. unfold normalize_words. rewrite map_app. apply join_app_sp.
    - destruct a; [congruence|discriminate].
    - destruct b; [congruence|discriminate].
  Qed.

  (* a rule whose pattern is the command's own text fires on it (anchored or not) ... *)
  Lemma self_match cwd r ws :
    r_pat r = join [c_sp] ws -> forallb wordb ws = true -> no_glob (nwords cwd ws) = true ->
    wrm cwd false (cstr [] cwd false ws) r = true.
  Proof.
    intros Hp Hw Hg. unfold word_rule_matches, rule_pattern. rewrite Hp, pattern_is_words by exact Hw.
    rewrite cstr_no_alias. destruct (r_exact r).
    - apply pat_anchor_iff; [exact Hg|reflexivity].
    - apply pat_literal_iff; [exact Hg|left; reflexivity].
  Qed.

  (* ... and, when not anchored, on the command followed by any further words; anchored, on nothing longer *)
  Lemma self_match_prefix cwd r ws extra :
    r_pat r = join [c_sp] ws -> forallb wordb ws = true -> no_glob (nwords cwd ws) = true ->
    ws <> [] -> extra <> [] ->
    wrm cwd false (cstr [] cwd false (ws ++ extra)) r = negb (r_exact r).
  Proof.
    intros Hp Hw Hg Hn He. unfold word_rule_matches, rule_pattern. rewrite Hp, pattern_is_words by exact Hw.
    rewrite cstr_no_alias, nwords_app by assumption. destruct (r_exact r); cbn [negb].
    - rewrite pat_anchor by exact Hg.
      destruct (str_eqb_spec (nwords cwd ws ++ c_sp :: nwords cwd extra) (nwords cwd ws)) as [E|]; [|reflexivity].
      apply (f_equal (@length N)) in E. rewrite app_length in E. cbn [length] in E.
      rewrite <- (Nat.add_0_r (length (nwords cwd ws))) in E at 2. apply Nat.add_cancel_l in E. discriminate.
    - apply pat_literal_iff; [exact Hg|]. right. eexists. reflexivity.
  Qed.

  Lemma match_words_self cwd r ws :
    r_pat r = join [c_sp] ws -> forallb wordb ws = true -> no_glob (nwords cwd ws) = true ->
    m_words [] [r] cwd false ws = Some r.
  Proof.
    intros Hp Hw Hg. unfold match_words, last_match. cbn [fold_left].
    rewrite (self_match cwd r ws Hp Hw Hg). reflexivity.
  Qed.

  (* remote mode (docker exec, ssh, ...; since 098b659): nothing is resolved, but a leading ~ of a command word is
     expanded the way parse_config expands it in the pattern (_expand_pattern_tildes = the same
     _expand_home_only, token by token) - so the rule written with the command's own words fires there too *)
  Lemma self_match_remote cwd r ws :
    r_pat r = join [c_sp] (map (expand_home_only home) ws) ->
    no_glob (r_pat r) = true ->
    m_words [] [r] cwd true ws = Some r.
  Proof.
    intros Hp Hg. unfold match_words, last_match. cbn [fold_left].
    unfold word_rule_matches, rule_pattern, cmd_string. rewrite <- Hp.
    assert (M : pat_matches (r_pat r) (r_exact r) (r_pat r) = true).
    { destruct (r_exact r).
      - apply pat_anchor_iff; [exact Hg|reflexivity].
      - apply pat_literal_iff; [exact Hg|left; reflexivity]. }
    rewrite M. reflexivity.
  Qed.

  (* ---- the same files in another spelling (symlink-free hypothesis) ---- *)
  Variable lex : lexical resolve1 resolve2.

  Lemma nwords_same cwd ws ws' :
    prefixb [c_slash] cwd = true -> prefixb [c_slash] home = true ->
    Forall2 (same_word home cwd) ws ws' -> nwords cwd ws = nwords cwd ws'.
  Proof.
    intros Hc Hh F. unfold normalize_words. f_equal.
    induction F as [|x y l l' Hxy F IH]; [reflexivity|]. cbn [map]. f_equal; [|exact IH].
    apply (ntoken_same resolve1 resolve2 home lex); assumption.
  Qed.

  (* a literal rule written in one spelling fires on the command written in any other spelling of
     the same files, in every position of the pattern *)
  Lemma rule_follows_file cwd r pws cws :
    prefixb [c_slash] cwd = true -> prefixb [c_slash] home = true ->
    r_pat r = join [c_sp] pws -> forallb wordb pws = true ->
    Forall2 (same_word home cwd) pws cws -> no_glob (nwords cwd cws) = true ->
    wrm cwd false (cstr [] cwd false cws) r = true.
  Proof.
    intros Hc Hh Hp Hw F Hg. unfold word_rule_matches, rule_pattern.
    rewrite Hp, pattern_is_words by exact Hw. rewrite cstr_no_alias.
    rewrite (nwords_same cwd pws cws Hc Hh F). destruct (r_exact r).
    - apply pat_anchor_iff; [exact Hg|reflexivity].
    - apply pat_literal_iff; [exact Hg|left; reflexivity].
  Qed.

  (* ... and two patterns that spell the same files are the same rule: same Match on every command *)
  Lemma pattern_respell cwd r r' pws pws' c :
    prefixb [c_slash] cwd = true -> prefixb [c_slash] home = true ->
    r_pat r = join [c_sp] pws -> r_pat r' = join [c_sp] pws' -> r_exact r = r_exact r' ->
    forallb wordb pws = true -> forallb wordb pws' = true ->
    Forall2 (same_word home cwd) pws pws' ->
    wrm cwd false c r = wrm cwd false c r'.
  Proof.
    intros Hc Hh Hp Hp' He Hw Hw' F. unfold word_rule_matches, rule_pattern.
    rewrite Hp, Hp', !pattern_is_words by assumption.
    rewrite (nwords_same cwd pws pws' Hc Hh F), He. reflexivity.
  Qed.
End Spell.

(* ---- non-vacuity and the seeded shape, on the lexical oracles ---- *)
Definition rule_add_parent : rule := mkRule Deny $"git add .." (Some $"never stage the parent") false [].
Lemma lone_dotdot_example :
  normalize_pattern lex1 lex2 $"/home/u" $"/w/proj" $"git add .." = $"git add /w" /\
  normalize_words lex1 lex2 $"/home/u" $"/w/proj" [$"git"; $"add"; $".."] = $"git add /w" /\
  match_words lex1 lex2 $"/home/u" [] [rule_add_parent] $"/w/proj" false [$"git"; $"add"; $"/w/proj/.."] = Some rule_add_parent /\
  match_words lex1 lex2 $"/home/u" [] [rule_add_parent] $"/w/proj" false [$"git"; $"add"; $"../"; $"-v"] = Some rule_add_parent /\
  match_words lex1 lex2 $"/home/u" [] [rule_add_parent] $"/w/proj" false [$"git"; $"add"; $"."] = None /\
  normalize_pattern lex1 lex2 $"/home/u" $"/w/proj" $"cp . ~ ~/x ./y  z/.." = $"cp /w/proj /home/u /home/u/x /w/proj/y /w/proj" /\
  forallb wordb [$"git"; $"add"; $".."] = true /\ wordb $"a b" = false /\ wordb [] = false.
Proof. repeat split; vm_compute; reflexivity. Qed.
