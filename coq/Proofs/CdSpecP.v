(* Soundness of the analyser's directory tracking through a list against the operational semantics of
   Model/CdSpec.v: for EVERY run (all exit statuses, all cd failures, all unpredictable moves), each element that
   bash runs is run in the directory the analyser judged it in - unless the analyser took that directory for
   unknown.  And the walker model's [next_state] is this abstract transition on classified elements. *)
From DippyV Require Import Base.Str Base.Tree Gen.Tables Model.Walker Model.CdSpec.
Local Open Scope list_scope.

Lemma is_unknown_sentinel : is_unknown UNKNOWN_CWD = true.
Proof. vm_compute. reflexivity. Qed.

Lemma op_and_or : str_eqb op_and op_or = false. Proof. reflexivity. Qed.
Lemma op_and_bg : str_eqb op_and op_bg = false. Proof. reflexivity. Qed.
Lemma op_or_bg : str_eqb op_or op_bg = false. Proof. reflexivity. Qed.
Lemma op_or_and : str_eqb op_or op_and = false. Proof. reflexivity. Qed.
Lemma op_bg_and : str_eqb op_bg op_and = false. Proof. reflexivity. Qed.
Lemma op_bg_or : str_eqb op_bg op_or = false. Proof. reflexivity. Qed.

Section Sound.
  Variable resolve : str -> str -> str.
  Definition is_abs (tgt : str) : bool := prefixb [47] tgt || prefixb [126] tgt.
  (* what is assumed of the resolution oracle (core/analyzer.py _resolve_cd_target): an absolute or home-relative
     target leads to the same place from anywhere, and a relative target keeps an unknown directory unknown *)
  Hypothesis abs_anywhere : forall d1 d2 tgt, is_abs tgt = true -> resolve d1 tgt = resolve d2 tgt.
  Hypothesis unknown_stays : forall d tgt, is_unknown d = true -> is_abs tgt = false -> is_unknown (resolve d tgt) = true.

  Notation cstep := (cstep resolve).
  Notation abs_next := (abs_next resolve).

  (* what the previous operator says about whether the next element runs *)
  Definition runs (prev : str) (run last : bool) : Prop :=
    if str_eqb prev op_and then run = last else if str_eqb prev op_or then run = negb last else run = true.

  Definition Inv (s : cstate) (st : astate) : Prop :=
    runs (snd (snd st)) (cs_run s) (cs_last s) /\
    (is_unknown (fst st) = true \/
     (fst (snd st) = false /\ cs_d s = fst st /\ cs_d0 s = fst st) \/
     (fst (snd st) = true /\ snd (snd st) = op_and /\ (cs_last s = true -> cs_d s = fst st))).

  Lemma inv_init d : Inv (cinit d) (d, (false, op_semi)).
  Proof. split; [reflexivity|]. right. left. repeat split. Qed.

  Lemma inv_here s st : Inv s st -> cs_run s = true -> is_unknown (fst st) = true \/ cs_d s = fst st.
  Proof.
    intros [HP [Hu|[[_ [Hd _]]|[_ [Hprev Hd]]]]] Hrun; [left; exact Hu|right; exact Hd|right].
    apply Hd. unfold runs in HP. rewrite Hprev in HP. cbn in HP. rewrite <- HP. exact Hrun.
  Qed.

  (* a followed cd: the new directory is right whenever the chain is still alive *)
  Lemma follow_ok rt i s d a prev tgt :
    Inv s (d, (a, prev)) -> str_eqb prev op_or = false ->
    let s' := cstep rt i s (ECd tgt) op_and in
    is_unknown (resolve d tgt) = true \/ (cs_last s' = true -> cs_d s' = resolve d tgt).
  Proof.
    intros [HP HI] Hor. cbn [fst snd] in *. unfold CdSpec.cstep. rewrite str_eqb_refl. cbn [cs_last cs_d exec_elem].
    destruct (cs_run s) eqn:Hrun.
    - (* the cd runs *)
      destruct HI as [Hu|[[_ [Hd _]]|[_ [Hprev Hd]]]].
      + destruct (is_abs tgt) eqn:Ha.
        * right. intro Hok. rewrite Hok. apply abs_anywhere. exact Ha.
        * left. apply unknown_stays; assumption.
      + right. intro Hok. rewrite Hok, Hd. reflexivity.
      + right. intro Hok. rewrite Hok. subst prev. unfold runs in HP. cbn in HP. rewrite Hd by (rewrite <- HP; reflexivity). reflexivity.
    - (* the cd is skipped: then the status so far is failure, because the operator before it is not "||" *)
      right. intro Hlast. exfalso. unfold runs in HP. rewrite Hor in HP.
      destruct (str_eqb prev op_and); [rewrite <- HP in Hlast; discriminate|discriminate].
  Qed.

  Lemma runs_step rt i s e op : runs op (cs_run (cstep rt i s e op)) (cs_last (cstep rt i s e op)).
  Proof.
    unfold runs, CdSpec.cstep. destruct (str_eqb op op_and) eqn:E1; [reflexivity|].
    destruct (str_eqb op op_or) eqn:E2; [reflexivity|]. destruct (str_eqb op op_bg); reflexivity.
  Qed.

  Lemma step_inv rt i s st e op : Inv s st -> Inv (cstep rt i s e op) (abs_next st e op).
  Proof.
    intro H. destruct st as [d [a prev]]. pose proof H as [HP HI]. cbn [fst snd] in HP, HI.
    assert (HR := runs_step rt i s e op).
    unfold CdSpec.abs_next. cbn [fst snd].
    destruct (str_eqb op op_bg) eqn:Ebg.
    { (* "&": the and-or list ran in a subshell *)
      apply str_eqb_eq in Ebg. subst op. rewrite op_bg_and. cbn [negb andb fst snd].
      destruct a; cbn [andb fst snd]; (split; [exact HR|]).
      - left. apply is_unknown_sentinel.
      - destruct HI as [Hu|[[_ [Hd Hd0]]|[Ha _]]]; [left; exact Hu| |discriminate].
        right. left. unfold CdSpec.cstep. rewrite op_bg_and, op_bg_or, str_eqb_refl. cbn [cs_d cs_d0]. repeat split; assumption. }
    destruct (str_eqb op op_and) eqn:Eand.
    { (* "&&": stays inside the and-or list *)
      apply str_eqb_eq in Eand. subst op. cbn [negb andb]. rewrite !andb_false_r.
      destruct e as [tgt| |]; cbn [andb fst snd].
      - destruct (str_eqb prev op_or) eqn:Eor; cbn [negb fst snd]; (split; [exact HR|]).
        + left. apply is_unknown_sentinel.
        + destruct (follow_ok rt i s d a prev tgt H Eor) as [Hu|Hd]; [left; exact Hu|].
          right. right. repeat split. exact Hd.
      - split; [exact HR|]. left. apply is_unknown_sentinel.
      - split; [exact HR|]. destruct HI as [Hu|[[Ha [Hd Hd0]]|[Ha [Hprev Hd]]]]; [left; exact Hu| |].
        + right. left. unfold CdSpec.cstep. rewrite str_eqb_refl. cbn [cs_d cs_d0 exec_elem]. repeat split; try assumption.
          destruct (cs_run s); exact Hd.
        + right. right. repeat split; [exact Ha|]. unfold CdSpec.cstep. rewrite str_eqb_refl. cbn [cs_d cs_last exec_elem].
          subst prev. unfold runs in HP. cbn in HP. destruct (cs_run s) eqn:Hrun.
          * intros _. apply Hd. rewrite <- HP. reflexivity.
          * intro Hl. apply Hd. exact Hl. }
    (* "||", ";" and anything else: the chain that rested on a cd is left *)
    cbn [negb]. rewrite !andb_true_r.
    assert (Hleft : forall m : str * bool, snd m = true ->
              Inv (cstep rt i s e op) (if snd m then (UNKNOWN_CWD, (false, op)) else (fst m, (snd m, op)))).
    { intros m Hm. rewrite Hm. split; [exact HR|]. left. apply is_unknown_sentinel. }
    assert (Hkeep : a = false -> cs_d s = d -> cs_d0 s = d -> e = EStay ->
              Inv (cstep rt i s e op) (d, (false, op))).
    { intros -> Hd Hd0 ->. split; [exact HR|]. right. left. cbn [fst snd]. unfold CdSpec.cstep. rewrite Eand, Ebg.
      destruct (str_eqb op op_or); cbn [cs_d cs_d0 exec_elem]; repeat split; try assumption; destruct (cs_run s); assumption. }
    destruct e as [tgt| |]; rewrite ?andb_false_l; cbn [fst snd].
    - destruct a; cbn [fst snd]; (split; [exact HR|]); left; apply is_unknown_sentinel.
    - destruct a; cbn [fst snd]; (split; [exact HR|]); left; apply is_unknown_sentinel.
    - destruct a; cbn [fst snd].
      + split; [exact HR|]. left. apply is_unknown_sentinel.
      + destruct HI as [Hu|[[_ [Hd Hd0]]|[Ha _]]]; [split; [exact HR|left; exact Hu]| |discriminate].
        apply Hkeep; auto.
  Qed.

  Theorem cd_tracking_sound rt l : forall i s st, Inv s st -> sound_run resolve rt i s st l.
  Proof.
    induction l as [|[e op] l IH]; intros i s st H; [exact I|].
    cbn [sound_run]. split; [exact (inv_here s st H)|]. apply IH. apply step_inv. exact H.
  Qed.

  Corollary cd_tracking_sound_from rt l d : sound_run resolve rt 0 (cinit d) (d, (false, op_semi)) l.
  Proof. apply cd_tracking_sound, inv_init. Qed.
End Sound.

(* ---- the walker model's transition IS the abstract transition on classified elements (local mode) ---- *)
Section Bridge.
  Variable cdres : str -> str -> str.

  Lemma next_state_abs c a prev t op : snd c = false ->
    next_state cdres (c, (a, prev)) t op =
    ((fst (abs_next cdres (fst c, (a, prev)) (classify t) op), false), snd (abs_next cdres (fst c, (a, prev)) (classify t) op)).
  Proof.
    intro Hc. destruct c as [d r]. cbn [snd] in Hc. subst r.
    unfold next_state, abs_next, classify, st_assumed, st_prev, unknown_ctx. cbn [fst snd].
    destruct (str_eqb op op_bg) eqn:Ebg.
    - cbn [fst snd]. destruct (a && negb (str_eqb op op_and)); reflexivity.
    - destruct (extract_cd_target t) as [tgt|].
      + destruct (nonempty tgt) eqn:En; cbn [andb orb].
        * destruct (str_eqb op op_and && negb (str_eqb prev op_or)); cbn [fst snd];
            [destruct (negb (str_eqb op op_and)); reflexivity|].
          destruct (a && negb (str_eqb op op_and)); reflexivity.
        * destruct (changes_directory t); cbn [fst snd]; destruct (a && negb (str_eqb op op_and)); reflexivity.
      + destruct (changes_directory t); cbn [fst snd]; destruct (a && negb (str_eqb op op_and)); reflexivity.
  Qed.

  (* the contexts the walker analyses the elements of a list in, against every run of the list *)
  Fixpoint sound_walk (rt : runtime) (i : nat) (s : cstate) (st : seq_state) (l : list (tree * str)) : Prop :=
    match l with
    | [] => True
    | (t, op) :: r =>
        (cs_run s = true -> is_unknown (fst (fst st)) = true \/ cs_d s = fst (fst st)) /\
        sound_walk rt (S i) (cstep cdres rt i s (classify t) op) (next_state cdres st t op) r
    end.

  Hypothesis abs_anywhere : forall d1 d2 tgt, is_abs tgt = true -> cdres d1 tgt = cdres d2 tgt.
  Hypothesis unknown_stays : forall d tgt, is_unknown d = true -> is_abs tgt = false -> is_unknown (cdres d tgt) = true.

  Lemma sound_walk_of_run rt l : forall i s d a prev,
    sound_run cdres rt i s (d, (a, prev)) (map (fun p => (classify (fst p), snd p)) l) ->
    sound_walk rt i s ((d, false), (a, prev)) l.
  Proof.
    induction l as [|[t op] l IH]; intros i s d a prev H; [exact I|].
    cbn [map sound_run sound_walk fst snd] in *. destruct H as [H1 H2]. split; [exact H1|].
    rewrite (next_state_abs (d, false) a prev t op eq_refl). cbn [fst].
    destruct (abs_next cdres (d, (a, prev)) (classify t) op) as [d' [a' prev']] eqn:E. cbn [fst snd].
    apply IH. cbn [fst snd] in H2. exact H2.
  Qed.

  Theorem walker_cd_sound rt l d : sound_walk rt 0 (cinit d) (init_state (d, false)) l.
  Proof.
    unfold init_state. apply sound_walk_of_run.
    apply (cd_tracking_sound_from cdres abs_anywhere unknown_stays).
  Qed.
End Bridge.

(* ---- the old transition is refuted by three two-element lists: a cd that fails before ";", a cd sent to the
   background, and a cd skipped after "||" ---- *)
Definition join_dir (d tgt : str) : str := d ++ [47] ++ tgt.
Definition rt_all (b : bool) : runtime := {| rt_ok := fun _ => b; rt_moved := fun _ => [] |}.
Definition rt_first_only : runtime := {| rt_ok := fun i => Nat.eqb i 0; rt_moved := fun _ => [] |}.

Lemma legacy_refuted_failed_cd :
  ~ sound_run_legacy join_dir (rt_all false) 0 (cinit $"/jail") ($"/jail", (false, op_semi)) [(ECd $"sub", op_semi); (EStay, op_semi)].
Proof. cbn. intros [_ [H _]]. destruct (H eq_refl) as [H1|H1]; [vm_compute in H1|]; discriminate. Qed.

Lemma legacy_refuted_background_cd :
  ~ sound_run_legacy join_dir (rt_all true) 0 (cinit $"/jail") ($"/jail", (false, op_semi)) [(ECd $"sub", op_bg); (EStay, op_semi)].
Proof. cbn. intros [_ [H _]]. destruct (H eq_refl) as [H1|H1]; [vm_compute in H1|]; discriminate. Qed.

(* the intermediate repair (follow through "&&" whatever precedes the cd) is refuted by  true || cd sub && x *)
Lemma follow_after_or_refuted :
  exists rt l, let st1 := ($"/jail", (false, op_or)) in
    l = [(EStay, op_or); (ECd $"sub", op_and); (EStay, op_semi)] /\
    cs_run (cstep join_dir rt 1 (cstep join_dir rt 0 (cinit $"/jail") EStay op_or) (ECd $"sub") op_and) = true /\
    cs_d (cstep join_dir rt 1 (cstep join_dir rt 0 (cinit $"/jail") EStay op_or) (ECd $"sub") op_and) = $"/jail" /\
    fst (abs_next join_dir st1 (ECd $"sub") op_and) = UNKNOWN_CWD.
Proof. exists (rt_all true), [(EStay, op_or); (ECd $"sub", op_and); (EStay, op_semi)]. cbn. repeat split; reflexivity. Qed.
