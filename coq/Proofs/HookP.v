(* Lemmas about the hook model (Model/Hook.v): envelopes, mode selection, the mode-free core,
   totality / fail-closed behaviour of main(), PostToolUse and MCP routing. *)
From Coq Require Import List Bool NArith String Lia.
From DippyV Require Import Base.Str Base.Verdict Gen.Tables Model.Hook.
Import ListNotations.
Open Scope N_scope.

(* ------------------------------------------------------------------ the result monad *)
Lemma bind_ok {A B} (a : A) (f : A -> res B) : bind (Ok a) f = f a.
Proof. reflexivity. Qed.
Lemma bind_raise {A B} e (f : A -> res B) : bind (Raise e) f = Raise e.
Proof. reflexivity. Qed.
Lemma bind_ret {A} (x : res A) : bind x (fun a => Ok a) = x.
Proof. destruct x; reflexivity. Qed.
Lemma bind_assoc {A B C} (x : res A) (f : A -> res B) (g : B -> res C) :
  bind (bind x f) g = bind x (fun a => bind (f a) g).
Proof. destruct x; reflexivity. Qed.
Lemma bind_inv_ok {A B} (x : res A) (f : A -> res B) b :
  bind x f = Ok b -> exists a, x = Ok a /\ f a = Ok b.
Proof. destruct x as [a|e]; cbn; [eauto | discriminate]. Qed.

(* only subclasses of Exception are raised *)
Definition exc_only {A} (r : res A) : Prop :=
  match r with Ok _ => True | Raise e => is_exception e = true end.
Lemma exc_only_bind {A B} (x : res A) (f : A -> res B) :
  exc_only x -> (forall a, exc_only (f a)) -> exc_only (bind x f).
Proof. destruct x; cbn; auto. Qed.
Lemma exc_only_ok {A} (a : A) : exc_only (Ok a).
Proof. exact I. Qed.

(* ------------------------------------------------------------------ typed access never raises outside Exception *)
Lemma py_get_exc j k d : exc_only (py_get j k d).
Proof. destruct j; exact I || reflexivity. Qed.
Lemma py_in_exc k j : exc_only (py_in k j).
Proof. destruct j; exact I || reflexivity. Qed.
Lemma py_startswith_exc j p : exc_only (py_startswith j p).
Proof. destruct j; exact I || reflexivity. Qed.
Lemma py_in_frozenset_exc j l : exc_only (py_in_frozenset j l).
Proof. destruct j; exact I || reflexivity. Qed.

Lemma py_get_obj kv k d : py_get (JObj kv) k d = Ok (match assoc k kv with Some v => v | None => d end).
Proof. reflexivity. Qed.
Lemma py_get_nonobj j k d : (forall kv, j <> JObj kv) -> py_get j k d = Raise AttributeError.
Proof. destruct j; intro H; try reflexivity. exfalso; eapply H; reflexivity. Qed.

(* a value whose .startswith succeeded is a str; `in frozenset` on it cannot raise *)
Lemma startswith_ok_str j p b : py_startswith j p = Ok b -> exists s, j = JStr s /\ b = prefixb p s.
Proof. destruct j; cbn; try discriminate. intro H; injection H as <-. eauto. Qed.
Lemma frozenset_after_startswith j p b l :
  py_startswith j p = Ok b -> py_in_frozenset j l = Ok (py_in_tuple j l).
Proof. intro H. apply startswith_ok_str in H as (s & -> & _). reflexivity. Qed.

(* ------------------------------------------------------------------ envelopes *)
Lemma approve_envelope m r : approve m r = envelope m Allow r.
Proof. destruct m; reflexivity. Qed.
Lemma ask_envelope m r : ask m r = envelope m Ask r.
Proof. destruct m; reflexivity. Qed.
Lemma deny_envelope m r : deny m r = envelope m Deny r.
Proof. destruct m; reflexivity. Qed.

Lemma unduck_duck r : unduck (duck ++ r) = r.
Proof. reflexivity. Qed.
Lemma verdict_of_str_str v : verdict_of_str (verdict_str v) = Some v.
Proof. destruct v; vm_compute; reflexivity. Qed.

Lemma read_pair_ok v r : read_pair (Some (JStr (verdict_str v))) (Some (JStr (duck ++ r))) = Some (v, r).
Proof. unfold read_pair. rewrite verdict_of_str_str, unduck_duck. reflexivity. Qed.

Lemma decode_envelope m v r : decode m (envelope m v r) = Some (v, r).
Proof. destruct m; exact (read_pair_ok v r). Qed.

Lemma decode_empty m : decode m (JObj []) = None.
Proof. destruct m; reflexivity. Qed.

Lemma is_vocab_str v : is_vocab (JStr (verdict_str v)) = true.
Proof. destruct v; vm_compute; reflexivity. Qed.

Lemma conforms_envelope m v r : conforms m (envelope m v r) = true.
Proof. destruct m, v; vm_compute; reflexivity. Qed.
Lemma conforms_empty m : conforms m (JObj []) = true.
Proof. destruct m; reflexivity. Qed.

(* the envelope of one host is not read as a decision by... itself with other keys: the key sets are disjoint *)
Lemma envelope_injective m v r v' r' : envelope m v r = envelope m v' r' -> v = v' /\ r = r'.
Proof.
  intro H. assert (D : decode m (envelope m v r) = decode m (envelope m v' r')) by (rewrite H; reflexivity).
  rewrite !decode_envelope in D. injection D as -> ->. auto.
Qed.
Lemma envelope_not_empty m v r : envelope m v r <> JObj [].
Proof. destruct m; discriminate. Qed.

(* ------------------------------------------------------------------ mode selection (C12_mode) *)
Definition wants (flag : string) (v : option str) (e : environ) : bool :=
  mem_str (s2l flag) (argv e) || env_flag v.

Lemma flags_spec e :
  detect_mode_from_flags e =
    if wants "--claude" (e_claude e) e then Some Claude
    else if wants "--gemini" (e_gemini e) e then Some Gemini
    else if wants "--cursor" (e_cursor e) e then Some Cursor
    else None.
Proof. reflexivity. Qed.

Lemma flags_claude e : wants "--claude" (e_claude e) e = true -> detect_mode_from_flags e = Some Claude.
Proof. intro H. rewrite flags_spec, H. reflexivity. Qed.
Lemma flags_gemini e :
  wants "--claude" (e_claude e) e = false -> wants "--gemini" (e_gemini e) e = true ->
  detect_mode_from_flags e = Some Gemini.
Proof. intros H1 H2. rewrite flags_spec, H1, H2. reflexivity. Qed.
Lemma flags_cursor e :
  wants "--claude" (e_claude e) e = false -> wants "--gemini" (e_gemini e) e = false ->
  wants "--cursor" (e_cursor e) e = true -> detect_mode_from_flags e = Some Cursor.
Proof. intros H1 H2 H3. rewrite flags_spec, H1, H2, H3. reflexivity. Qed.
Lemma flags_none e :
  wants "--claude" (e_claude e) e = false -> wants "--gemini" (e_gemini e) e = false ->
  wants "--cursor" (e_cursor e) e = false -> detect_mode_from_flags e = None.
Proof. intros H1 H2 H3. rewrite flags_spec, H1, H2, H3. reflexivity. Qed.

(* env_flag is case-insensitive membership in ENV_TRUTHY; anything else (0, junk, empty) is false *)
Lemma env_flag_spec v : env_flag v = true <-> exists s, v = Some s /\ In (lower s) ENV_TRUTHY.
Proof.
  unfold env_flag. destruct v as [s|].
  - rewrite mem_str_In. split; [eauto|]. intros (s' & E & H). injection E as ->. exact H.
  - split; [discriminate|]. intros (s' & E & _). discriminate.
Qed.

(* the shape rule on a JSON object *)
Definition has_key (k : str) (kv : list (str * json)) : bool :=
  match assoc k kv with Some _ => true | None => false end.
Definition field (k : str) (kv : list (str * json)) (d : json) : json :=
  match assoc k kv with Some v => v | None => d end.

Definition shape_mode (kv : list (str * json)) : mode :=
  if has_key $"command" kv && negb (has_key $"tool_name" kv) then Cursor
  else if py_in_tuple (field $"tool_name" kv (JStr [])) GEMINI_TOOL_NAMES then Gemini
  else Claude.

Lemma detect_obj kv :
  detect_mode_from_input (JObj kv) = Ok (shape_mode kv) \/
  (detect_mode_from_input (JObj kv) = Raise AttributeError /\
   exists v, assoc $"tool_name" kv = Some v /\ truthy v = true /\ forall s, v <> JStr s).
Proof.
  unfold detect_mode_from_input, shape_mode, has_key, field. cbn [py_in py_get bind].
  destruct (assoc $"command" kv) as [c|]; cbn [bind andb negb];
  destruct (assoc $"tool_name" kv) as [t|] eqn:Et; cbn [bind andb negb]; try (left; reflexivity).
  all: destruct (py_in_tuple t GEMINI_TOOL_NAMES); [left; reflexivity|].
  all: destruct (truthy t) eqn:Tt; cbn [andb]; [|left; reflexivity].
  all: destruct t; cbn [py_eq_str negb py_startswith bind]; try (right; split; [reflexivity|]; eexists; split; [reflexivity|]; split; [exact Tt|]; intros s0 H0; discriminate).
  all: destruct (str_eqb s $"Bash"); cbn; left; reflexivity.
Qed.

Lemma detect_ok_shape kv m : detect_mode_from_input (JObj kv) = Ok m -> m = shape_mode kv.
Proof.
  intro H. destruct (detect_obj kv) as [E|[E _]]; rewrite E in H; [injection H as <-; reflexivity | discriminate].
Qed.

Lemma detect_obj_eq kv :
  detect_mode_from_input (JObj kv) =
    if has_key $"command" kv && negb (has_key $"tool_name" kv) then Ok Cursor else
    if py_in_tuple (field $"tool_name" kv (JStr [])) GEMINI_TOOL_NAMES then Ok Gemini else
    (_ <- (if truthy (field $"tool_name" kv (JStr [])) && negb (py_eq_str (field $"tool_name" kv (JStr [])) $"Bash")
           then py_startswith (field $"tool_name" kv (JStr [])) $"mcp__" else Ok false) ;;
     Ok Claude).
Proof.
  unfold detect_mode_from_input, has_key, field. cbn [py_in py_get bind].
  destruct (assoc $"command" kv); destruct (assoc $"tool_name" kv); reflexivity.
Qed.

(* a non-object top level never yields a mode that lets main() go on: either detection raises, or
   (list / str) the next statement input_data.get raises *)
Lemma detect_exc inp : exc_only (detect_mode_from_input inp).
Proof.
  unfold detect_mode_from_input.
  apply exc_only_bind; [apply py_in_exc|]. intro c.
  apply exc_only_bind.
  { destruct c; [|exact I]. apply exc_only_bind; [apply py_in_exc|]. intro; exact I. }
  intros [|]; [exact I|].
  apply exc_only_bind; [apply py_get_exc|]. intro tn.
  destruct (py_in_tuple tn GEMINI_TOOL_NAMES); [exact I|].
  apply exc_only_bind; [|intro; exact I].
  destruct (truthy tn && negb (py_eq_str tn $"Bash")); [apply py_startswith_exc | exact I].
Qed.

(* ------------------------------------------------------------------ routing, as a function of the input alone *)
Inductive route := RShell (command : json) | RMcp (tn : str) | ROther.

(* the Claude / Gemini reading: tool_name, tool_input *)
Definition tool_route (inp : json) : res route :=
  tool_name <- py_get inp $"tool_name" (JStr []) ;;
  tool_input <- py_get inp $"tool_input" (JObj []) ;;
  is_mcp <- py_startswith tool_name $"mcp__" ;;
  if is_mcp then Ok (RMcp (str_of tool_name))
  else
    in_shell <- py_in_frozenset tool_name SHELL_TOOL_NAMES ;;
    if negb in_shell then Ok ROther
    else command <- py_get tool_input $"command" (JStr []) ;; Ok (RShell command).

(* [cursor] = the mode is Cursor; it matters only when the input has neither tool_name nor command *)
Definition route_of (cursor : bool) (inp : json) : res route :=
  cw <- cursor_way cursor inp ;;
  if cw then command <- py_get inp $"command" (JStr []) ;; Ok (RShell command)
  else tool_route inp.

Lemma cursor_way_exc cursor inp : exc_only (cursor_way cursor inp).
Proof.
  unfold cursor_way. apply exc_only_bind; [apply py_in_exc|]. intros [|]; cbn [negb]; [exact I|].
  destruct cursor; [exact I | apply py_in_exc].
Qed.

Lemma tool_route_exc inp : exc_only (tool_route inp).
Proof.
  unfold tool_route.
  apply exc_only_bind; [apply py_get_exc|]. intro tn.
  apply exc_only_bind; [apply py_get_exc|]. intro ti.
  apply exc_only_bind; [apply py_startswith_exc|]. intros [|]; [exact I|].
  apply exc_only_bind; [apply py_in_frozenset_exc|]. intros [|]; cbn [negb]; [|exact I].
  apply exc_only_bind; [apply py_get_exc|]. intro; exact I.
Qed.

Lemma route_exc cursor inp : exc_only (route_of cursor inp).
Proof.
  unfold route_of. apply exc_only_bind; [apply cursor_way_exc|]. intros [|]; [|apply tool_route_exc].
  apply exc_only_bind; [apply py_get_exc|]. intro; exact I.
Qed.

(* the cursor-way reading only ever yields a shell route *)
Lemma route_tool cursor inp rt :
  route_of cursor inp = Ok rt -> (forall c, rt <> RShell c) -> tool_route inp = Ok rt.
Proof.
  unfold route_of. destruct (cursor_way cursor inp) as [[|]|e]; cbn [bind]; [| auto | discriminate].
  destruct (py_get inp $"command" (JStr [])) as [c|e]; cbn [bind]; [|discriminate].
  intros H N. injection H as <-. exfalso. eapply N. reflexivity.
Qed.

(* an MCP route is exactly a str tool_name with the mcp__ prefix; a shell route through tool_name exactly a
   tool_name of SHELL_TOOL_NAMES without that prefix *)
Lemma tool_route_mcp_inv inp tn :
  tool_route inp = Ok (RMcp tn) ->
  py_get inp $"tool_name" (JStr []) = Ok (JStr tn) /\ prefixb $"mcp__" tn = true.
Proof.
  unfold tool_route.
  destruct (py_get inp $"tool_name" (JStr [])) as [t|e]; cbn [bind]; [|discriminate].
  destruct (py_get inp $"tool_input" (JObj [])) as [ti|e]; cbn [bind]; [|discriminate].
  destruct (py_startswith t $"mcp__") as [b|e] eqn:Sw; cbn [bind]; [|discriminate].
  apply startswith_ok_str in Sw as (s & -> & ->).
  destruct (prefixb $"mcp__" s) eqn:P.
  - intro H. injection H as <-. auto.
  - cbn [py_in_frozenset bind]. destruct (negb (py_in_tuple (JStr s) SHELL_TOOL_NAMES)); [discriminate|].
    destruct (py_get ti $"command" (JStr [])); cbn [bind]; discriminate.
Qed.

Lemma route_mcp_inv cursor inp tn :
  route_of cursor inp = Ok (RMcp tn) ->
  py_get inp $"tool_name" (JStr []) = Ok (JStr tn) /\ prefixb $"mcp__" tn = true.
Proof. intro H. apply tool_route_mcp_inv. apply (route_tool cursor); [exact H | discriminate]. Qed.

Lemma tool_route_shell_inv inp c :
  tool_route inp = Ok (RShell c) ->
  exists tn ti, py_get inp $"tool_name" (JStr []) = Ok (JStr tn) /\ In tn SHELL_TOOL_NAMES /\
                prefixb $"mcp__" tn = false /\
                py_get inp $"tool_input" (JObj []) = Ok ti /\ py_get ti $"command" (JStr []) = Ok c.
Proof.
  unfold tool_route.
  destruct (py_get inp $"tool_name" (JStr [])) as [t|e]; cbn [bind]; [|discriminate].
  destruct (py_get inp $"tool_input" (JObj [])) as [ti|e]; cbn [bind]; [|discriminate].
  destruct (py_startswith t $"mcp__") as [b|e] eqn:Sw; cbn [bind]; [|discriminate].
  apply startswith_ok_str in Sw as (s & -> & ->).
  destruct (prefixb $"mcp__" s) eqn:P; [discriminate|].
  cbn [py_in_frozenset bind]. destruct (py_in_tuple (JStr s) SHELL_TOOL_NAMES) eqn:M; cbn [negb]; [|discriminate].
  destruct (py_get ti $"command" (JStr [])) as [c'|e] eqn:C; cbn [bind]; [|discriminate].
  intro H. injection H as <-. exists s, ti. repeat split; auto.
  unfold py_in_tuple in M. apply existsb_exists in M as (x & Hx & E). cbn [py_eq_str] in E.
  apply str_eqb_eq in E. subst. exact Hx.
Qed.

(* a shell route is either the top-level command of an input without tool_name, or the above *)
Lemma route_shell_inv cursor inp c :
  route_of cursor inp = Ok (RShell c) ->
  (py_in $"tool_name" inp = Ok false /\ py_get inp $"command" (JStr []) = Ok c) \/
  (py_in $"tool_name" inp = Ok true /\ tool_route inp = Ok (RShell c)) \/
  (cursor = false /\ py_in $"tool_name" inp = Ok false /\ py_in $"command" inp = Ok false /\ tool_route inp = Ok (RShell c)).
Proof.
  unfold route_of, cursor_way.
  destruct (py_in $"tool_name" inp) as [[|]|e]; cbn [bind negb]; [ | |discriminate].
  - intro H. right; left. auto.
  - destruct cursor; cbn [bind].
    + destruct (py_get inp $"command" (JStr [])) as [c'|e]; cbn [bind]; [|discriminate].
      intro H; injection H as <-. left; auto.
    + destruct (py_in $"command" inp) as [[|]|e]; cbn [bind]; [ | |discriminate].
      * destruct (py_get inp $"command" (JStr [])) as [c'|e]; cbn [bind]; [|discriminate].
        intro H; injection H as <-. left; auto.
      * intro H. right; right. auto.
Qed.

(* with one of the two keys present, the mode plays no part in the routing *)
Definition keyed (inp : json) : Prop := py_in $"tool_name" inp = Ok true \/ py_in $"command" inp = Ok true.

Lemma cursor_way_keyed inp : keyed inp -> cursor_way true inp = cursor_way false inp.
Proof.
  unfold cursor_way. intros [H | H].
  - rewrite H. reflexivity.
  - destruct (py_in $"tool_name" inp) as [[|]|e]; cbn [bind negb]; try reflexivity. rewrite H. reflexivity.
Qed.
Lemma route_keyed inp : keyed inp -> route_of true inp = route_of false inp.
Proof. intro K. unfold route_of. rewrite (cursor_way_keyed inp K). reflexivity. Qed.

(* the bypass test as a function of the input alone *)
Definition bypass_of (inp : json) : res (option str) :=
  pm <- py_get inp $"permission_mode" (JStr $"default") ;;
  Ok (if py_in_tuple pm BYPASS_MODES then Some (str_of pm) else None).

Lemma bypass_of_in inp r : bypass_of inp = Ok (Some r) -> In r BYPASS_MODES.
Proof.
  unfold bypass_of. destruct (py_get inp $"permission_mode" (JStr $"default")) as [pm|e]; cbn [bind]; [|discriminate].
  destruct (py_in_tuple pm BYPASS_MODES) eqn:M; [|discriminate]. intro H. injection H as <-.
  unfold py_in_tuple in M. apply existsb_exists in M as (x & Hx & E).
  destruct pm; cbn [py_eq_str] in E; try discriminate. apply str_eqb_eq in E. subst. exact Hx.
Qed.

Definition is_post (he : json) : bool := py_eq_str he $"PostToolUse".
Definition event_of (inp : json) : res json := py_get inp $"hook_event_name" (JStr $"PreToolUse").
(* a pre-execution event: anything but the str "PostToolUse" (missing, other names, wrong types) *)
Definition pre_event (inp : json) : Prop := forall he, event_of inp = Ok he -> is_post he = false.
Definition post_event (inp : json) : Prop := exists he, event_of inp = Ok he /\ is_post he = true.

(* input_data.get("hook_event_name") != "PostToolUse" (default None) is the same test as the later one *)
Lemma event_null inp :
  (he <- py_get inp $"hook_event_name" JNull ;; Ok (py_eq_str he $"PostToolUse"))
  = (he <- event_of inp ;; Ok (is_post he)).
Proof.
  unfold event_of, is_post. destruct inp; try reflexivity. cbn [py_get bind].
  destruct (assoc $"hook_event_name" kv); reflexivity.
Qed.

(* ------------------------------------------------------------------ the three input shapes *)
Lemma assoc_extra k extra : extra_ok extra = true -> mem_str k routing_keys = true -> assoc k extra = None.
Proof.
  unfold extra_ok. intros H K. induction extra as [|[k' v] r IH]; [reflexivity|].
  cbn [forallb fst] in H. apply andb_prop in H as [H1 H2]. cbn [assoc].
  destruct (str_eqb_spec k' k) as [->|N]; [|apply IH; exact H2].
  rewrite K in H1. discriminate.
Qed.

Lemma shell_names_not_mcp tn : In tn SHELL_TOOL_NAMES -> prefixb $"mcp__" tn = false.
Proof.
  assert (F : forallb (fun t => negb (prefixb $"mcp__" t)) SHELL_TOOL_NAMES = true) by (vm_compute; reflexivity).
  rewrite forallb_forall in F. intro H. apply F in H. apply negb_true_iff in H. exact H.
Qed.
Lemma shell_names_in tn : In tn SHELL_TOOL_NAMES -> py_in_tuple (JStr tn) SHELL_TOOL_NAMES = true.
Proof.
  intro H. unfold py_in_tuple. apply existsb_exists. exists tn. split; [exact H|]. cbn. apply str_eqb_refl.
Qed.
Lemma gemini_names_shell tn : In tn GEMINI_TOOL_NAMES -> In tn SHELL_TOOL_NAMES.
Proof.
  assert (F : forallb (fun t => mem_str t SHELL_TOOL_NAMES) GEMINI_TOOL_NAMES = true) by (vm_compute; reflexivity).
  rewrite forallb_forall in F. intro H. apply F in H. apply mem_str_In in H. exact H.
Qed.
Lemma bash_shell : In $"Bash" SHELL_TOOL_NAMES.
Proof. apply mem_str_In. vm_compute. reflexivity. Qed.
Lemma bash_not_gemini : py_in_tuple (JStr $"Bash") GEMINI_TOOL_NAMES = false.
Proof. vm_compute. reflexivity. Qed.

Section Shapes.
  Variables (tn : str) (c cwd : json) (extra : list (str * json)).
  Let ci := cursor_input c cwd extra.
  Let ti := tool_input_shape tn c cwd extra.

  Lemma ci_cwd d : py_get ci $"cwd" d = Ok cwd.                      Proof. reflexivity. Qed.
  Lemma ci_command d : py_get ci $"command" d = Ok c.                Proof. reflexivity. Qed.
  Lemma ci_event d : py_get ci $"hook_event_name" d = Ok (field $"hook_event_name" extra d).  Proof. reflexivity. Qed.
  Lemma ci_perm d : py_get ci $"permission_mode" d = Ok (field $"permission_mode" extra d).  Proof. reflexivity. Qed.
  Lemma ci_tool_input d : py_get ci $"tool_input" d = Ok (field $"tool_input" extra d).  Proof. reflexivity. Qed.
  Lemma ti_cwd d : py_get ti $"cwd" d = Ok cwd.                      Proof. reflexivity. Qed.
  Lemma ti_tool_name d : py_get ti $"tool_name" d = Ok (JStr tn).    Proof. reflexivity. Qed.
  Lemma ti_tool_input d : py_get ti $"tool_input" d = Ok (JObj [($"command", c)]).  Proof. reflexivity. Qed.
  Lemma ti_event d : py_get ti $"hook_event_name" d = Ok (field $"hook_event_name" extra d).  Proof. reflexivity. Qed.
  Lemma ti_perm d : py_get ti $"permission_mode" d = Ok (field $"permission_mode" extra d).  Proof. reflexivity. Qed.

  Lemma shapes_event : event_of ci = event_of ti.       Proof. reflexivity. Qed.
  Lemma shapes_bypass : bypass_of ci = bypass_of ti.    Proof. reflexivity. Qed.

  Lemma ti_keyed : keyed ti.   Proof. left; reflexivity. Qed.
  Lemma ci_keyed : keyed ci.   Proof. right; reflexivity. Qed.

  Lemma ci_route cursor : extra_ok extra = true -> route_of cursor ci = Ok (RShell c).
  Proof.
    intro E. unfold route_of, cursor_way, ci, cursor_input. cbn [py_in].
    replace (assoc $"tool_name" (($"command", c) :: ($"cwd", cwd) :: extra)) with (assoc $"tool_name" extra) by reflexivity.
    rewrite (assoc_extra $"tool_name" extra E) by (vm_compute; reflexivity). cbn [bind negb].
    destruct cursor; reflexivity.
  Qed.
  Lemma ti_tool_route : In tn SHELL_TOOL_NAMES -> tool_route ti = Ok (RShell c).
  Proof.
    intro H. unfold tool_route. rewrite ti_tool_name, ti_tool_input. cbn [bind py_startswith].
    rewrite (shell_names_not_mcp tn H). cbn [py_in_frozenset bind]. rewrite (shell_names_in tn H). reflexivity.
  Qed.
  Lemma ti_route cursor : In tn SHELL_TOOL_NAMES -> route_of cursor ti = Ok (RShell c).
  Proof.
    intro H. unfold route_of, cursor_way.
    replace (py_in $"tool_name" ti) with (Ok true : res bool) by reflexivity. cbn [bind negb].
    apply ti_tool_route. exact H.
  Qed.

  (* auto-detection recognises each shape *)
  Lemma ci_detect : extra_ok extra = true -> detect_mode_from_input ci = Ok Cursor.
  Proof.
    intro E. unfold ci, cursor_input. rewrite detect_obj_eq.
    replace (has_key $"command" (($"command", c) :: ($"cwd", cwd) :: extra)) with true by reflexivity.
    replace (has_key $"tool_name" (($"command", c) :: ($"cwd", cwd) :: extra)) with (has_key $"tool_name" extra) by reflexivity.
    unfold has_key. rewrite (assoc_extra $"tool_name" extra E) by (vm_compute; reflexivity). reflexivity.
  Qed.
  Lemma ti_detect_gemini : In tn GEMINI_TOOL_NAMES -> detect_mode_from_input ti = Ok Gemini.
  Proof.
    intro H. unfold ti, tool_input_shape. rewrite detect_obj_eq.
    set (kv := ($"tool_name", JStr tn) :: ($"tool_input", JObj [($"command", c)]) :: ($"cwd", cwd) :: extra).
    replace (has_key $"tool_name" kv) with true by reflexivity.
    replace (field $"tool_name" kv (JStr [])) with (JStr tn) by reflexivity.
    rewrite andb_false_r.
    assert (M : py_in_tuple (JStr tn) GEMINI_TOOL_NAMES = true)
      by (apply existsb_exists; exists tn; split; [exact H | cbn; apply str_eqb_refl]).
    rewrite M. reflexivity.
  Qed.
  Lemma ti_detect_claude : tn = $"Bash" -> detect_mode_from_input ti = Ok Claude.
  Proof.
    intros E. unfold ti, tool_input_shape. rewrite detect_obj_eq.
    set (kv := ($"tool_name", JStr tn) :: ($"tool_input", JObj [($"command", c)]) :: ($"cwd", cwd) :: extra).
    replace (has_key $"tool_name" kv) with true by reflexivity.
    replace (field $"tool_name" kv (JStr [])) with (JStr tn) by reflexivity.
    rewrite andb_false_r. subst tn. rewrite bash_not_gemini. reflexivity.
  Qed.
End Shapes.

(* ------------------------------------------------------------------ main() over arbitrary oracles *)
Section Oracles.
  Variables S G : Type.
  Notation config := (config S G).
  Variable o_resolve : str -> res str.
  Variable o_getcwd : res str.
  Variable o_load_config : str -> res config.
  Variable o_configure_logging : G -> res unit.
  Variable o_log_decision : str -> str -> res unit.
  Variable o_analyze : str -> S -> str -> res (str * str).
  Variable o_gmatch : str -> str -> bool.
  Variable o_words : str -> list str.
  Variable o_after_prep : S -> str -> list str -> res unit.
  Variable o_after_rule : S -> str -> list str -> rule -> res bool.
  Variable o_print : str -> res unit.

  Notation main_try := (@main_try S G o_resolve o_getcwd o_load_config o_configure_logging o_log_decision
                                 o_analyze o_gmatch o_words o_after_prep o_after_rule o_print).
  Notation main := (@main S G o_resolve o_getcwd o_load_config o_configure_logging o_log_decision
                         o_analyze o_gmatch o_words o_after_prep o_after_rule o_print).
  Notation core := (@core S G o_resolve o_getcwd o_load_config o_configure_logging o_log_decision
                         o_analyze o_gmatch o_words o_after_prep o_after_rule o_print).
  Notation core_after_config := (@core_after_config S G o_log_decision o_analyze o_gmatch o_words
                                                   o_after_prep o_after_rule o_print).
  Notation core_shell := (@core_shell S G o_log_decision o_analyze o_words o_after_prep o_after_rule o_print).
  Notation core_mcp := (@core_mcp S G o_log_decision o_gmatch o_print).
  Notation after_config := (@after_config S G o_log_decision o_analyze o_gmatch o_words o_after_prep o_after_rule o_print).
  Notation shell_tail := (@shell_tail S G o_log_decision o_analyze o_words o_after_prep o_after_rule o_print).
  Notation mcp_part := (@mcp_part S G o_log_decision o_gmatch o_print).
  Notation find_cwd := (find_cwd o_resolve o_getcwd).
  Notation load_stage := (@load_stage S G o_load_config o_configure_logging).
  Notation perm_bypass := (perm_bypass o_log_decision).
  Notation text_outcome := (text_outcome o_print).
  Notation print_message := (print_message o_print).

  Definition lift (m : mode) (r : res outcome) : res (list item) := o <- r ;; Ok (render m o).

  (* ---- C12_factor: main() is an envelope around a computation that never sees the mode *)
  Lemma print_message_factor m msg : print_message msg = lift m (text_outcome msg).
  Proof.
    unfold print_message, text_outcome, lift. destruct msg as [[|c t]|]; try reflexivity.
    destruct (o_print (duck ++ c :: t)); reflexivity.
  Qed.

  Lemma verdict_render m action reason :
    (if str_eqb action $"allow" then Ok (approve m reason)
     else if str_eqb action $"deny" then Ok (deny m reason) else Ok (ask m reason))
    = Ok (envelope m (verdict_of_action action) reason).
  Proof.
    unfold verdict_of_action. rewrite approve_envelope, deny_envelope, ask_envelope.
    destruct (str_eqb action $"allow"); [reflexivity|]. destruct (str_eqb action $"deny"); reflexivity.
  Qed.

  Lemma shell_tail_factor m inp he command cfg cwd :
    shell_tail m inp he command cfg cwd = lift m (core_shell inp he command cfg cwd).
  Proof.
    unfold shell_tail, core_shell, lift, perm_bypass.
    destruct (py_eq_str he $"PostToolUse") eqn:P; cbn [negb bind].
    - unfold handle_post_tool_use. destruct (tokenize o_words command) as [ws|e]; cbn [bind]; [|reflexivity].
      destruct (match_after o_after_prep o_after_rule ws cfg cwd) as [msg|e]; cbn [bind]; [|reflexivity].
      apply print_message_factor.
    - destruct (py_get inp $"permission_mode" (JStr $"default")) as [pm|e]; cbn [bind]; [|reflexivity].
      destruct (py_in_tuple pm BYPASS_MODES).
      + destruct (o_log_decision $"allow" (str_of pm)); cbn [bind]; [|reflexivity].
        rewrite approve_envelope. reflexivity.
      + cbn [bind]. unfold check_command.
        destruct (analyze o_analyze command (c_shell cfg) cwd) as [[action reason]|e]; cbn [bind]; [|reflexivity].
        destruct (o_log_decision action reason); cbn [bind]; [|reflexivity].
        rewrite verdict_render. reflexivity.
  Qed.

  Lemma mcp_part_factor m inp he tn cfg :
    mcp_part m inp he tn cfg = lift m (core_mcp inp he tn cfg).
  Proof.
    unfold mcp_part, core_mcp, lift, perm_bypass.
    destruct (py_eq_str he $"PostToolUse") eqn:P; cbn [negb bind].
    - unfold handle_mcp_post_tool_use. apply print_message_factor.
    - destruct (py_get inp $"permission_mode" (JStr $"default")) as [pm|e]; cbn [bind]; [|reflexivity].
      destruct (py_in_tuple pm BYPASS_MODES).
      + destruct (o_log_decision $"allow" (str_of pm)); cbn [bind]; [|reflexivity].
        rewrite approve_envelope. reflexivity.
      + cbn [bind]. unfold check_mcp_tool.
        destruct (match_mcp o_gmatch tn cfg) as [r|]; [|reflexivity].
        destruct (o_log_decision (r_decision r) (mcp_reason r)); cbn [bind]; [|reflexivity].
        rewrite verdict_render. reflexivity.
  Qed.

  Lemma after_config_factor m inp cfg cwd :
    after_config m inp cfg cwd = lift m (core_after_config (is_cursor m) inp cfg cwd).
  Proof.
    unfold after_config, core_after_config, lift.
    destruct (py_get inp $"hook_event_name" (JStr $"PreToolUse")) as [he|e]; cbn [bind]; [|reflexivity].
    destruct (cursor_way (is_cursor m) inp) as [[|]|e]; cbn [bind]; [| |reflexivity].
    - destruct (py_get inp $"command" (JStr [])) as [c|e]; cbn [bind]; [|reflexivity].
      apply shell_tail_factor.
    - destruct (py_get inp $"tool_name" (JStr [])) as [tn|e]; cbn [bind]; [|reflexivity].
      destruct (py_get inp $"tool_input" (JObj [])) as [ti|e]; cbn [bind]; [|reflexivity].
      destruct (py_startswith tn $"mcp__") as [[|]|e]; cbn [bind]; [apply mcp_part_factor| |reflexivity].
      destruct (py_in_frozenset tn SHELL_TOOL_NAMES) as [[|]|e]; cbn [bind negb]; [|reflexivity|reflexivity].
      destruct (py_get ti $"command" (JStr [])) as [c|e]; cbn [bind]; [|reflexivity].
      apply shell_tail_factor.
  Qed.

  Lemma main_try_factor explicit inp :
    main_try explicit inp =
      (m <- (match explicit with Some m => Ok m | None => detect_mode_from_input inp end) ;;
       lift m (core (is_cursor m) inp)).
  Proof.
    unfold main_try, core, lift.
    destruct (match explicit with Some m => Ok m | None => detect_mode_from_input inp end) as [m|e];
      cbn [bind]; [|reflexivity].
    destruct (find_cwd inp) as [cwd|e]; cbn [bind]; [|reflexivity].
    destruct (load_stage cwd) as [cfg|e].
    - apply after_config_factor.
    - destruct e; try reflexivity.
      destruct (py_get inp $"hook_event_name" JNull) as [he|e]; cbn [bind]; [|reflexivity].
      destruct (py_eq_str he $"PostToolUse"); cbn [bind render]; [reflexivity|]. rewrite ask_envelope. reflexivity.
  Qed.

  (* claude and gemini: literally the same computation *)
  Lemma core_claude_gemini inp : core (is_cursor Claude) inp = core (is_cursor Gemini) inp.
  Proof. reflexivity. Qed.

  (* ---- the core in route form *)
  Lemma core_after_config_route cursor inp cfg cwd :
    core_after_config cursor inp cfg cwd =
      (he <- event_of inp ;;
       rt <- route_of cursor inp ;;
       match rt with
       | RShell c => core_shell inp he c cfg cwd
       | RMcp tn => core_mcp inp he tn cfg
       | ROther => Ok OEmpty
       end).
  Proof.
    unfold core_after_config, route_of, tool_route, event_of.
    destruct (py_get inp $"hook_event_name" (JStr $"PreToolUse")) as [he|e]; cbn [bind]; [|reflexivity].
    destruct (cursor_way cursor inp) as [[|]|e]; cbn [bind]; [| |reflexivity].
    - destruct (py_get inp $"command" (JStr [])); reflexivity.
    - destruct (py_get inp $"tool_name" (JStr [])) as [tn|e]; cbn [bind]; [|reflexivity].
      destruct (py_get inp $"tool_input" (JObj [])) as [ti|e]; cbn [bind]; [|reflexivity].
      destruct (py_startswith tn $"mcp__") as [[|]|e]; cbn [bind]; [reflexivity| |reflexivity].
      destruct (py_in_frozenset tn SHELL_TOOL_NAMES) as [[|]|e]; cbn [bind negb]; [|reflexivity|reflexivity].
      destruct (py_get ti $"command" (JStr [])); reflexivity.
  Qed.

  Lemma perm_bypass_spec inp post :
    perm_bypass inp post =
      if post then Ok None else
      (b <- bypass_of inp ;;
       match b with
       | Some r => _ <- o_log_decision $"allow" r ;; Ok (Some (ODecision Allow r))
       | None => Ok None
       end).
  Proof.
    unfold Hook.perm_bypass, bypass_of. destruct post; cbn [negb]; [reflexivity|].
    destruct (py_get inp $"permission_mode" (JStr $"default")) as [pm|e]; cbn [bind]; [|reflexivity].
    destruct (py_in_tuple pm BYPASS_MODES); reflexivity.
  Qed.

  (* ---- C06_total *)
  Record oracles_exc_only : Prop := {
    xo_resolve : forall s, exc_only (o_resolve s);
    xo_getcwd : exc_only o_getcwd;
    xo_load : forall c, exc_only (o_load_config c);
    xo_conf : forall g, exc_only (o_configure_logging g);
    xo_log : forall d c, exc_only (o_log_decision d c);
    xo_analyze : forall c s w, exc_only (o_analyze c s w);
    xo_prep : forall s c w, exc_only (o_after_prep s c w);
    xo_rule : forall s c w r, exc_only (o_after_rule s c w r);
    xo_print : forall s, exc_only (o_print s)
  }.

  Section Total.
    Variable X : oracles_exc_only.

    Lemma find_cwd_exc inp : exc_only (find_cwd inp).
    Proof.
      unfold Hook.find_cwd. apply exc_only_bind; [apply py_get_exc|]. intro c1.
      apply exc_only_bind.
      { destruct (negb (truthy c1)); [|exact I]. apply exc_only_bind; [apply py_get_exc|]. intro. apply py_get_exc. }
      intro c2. destruct (truthy c2); [|apply X].
      unfold path_resolve. destruct c2; try reflexivity. apply X.
    Qed.

    Lemma load_stage_exc cwd : exc_only (load_stage cwd).
    Proof.
      unfold Hook.load_stage. apply exc_only_bind; [apply X|]. intro cfg.
      apply exc_only_bind; [apply X|]. intro; exact I.
    Qed.

    Lemma text_outcome_exc msg : exc_only (text_outcome msg).
    Proof.
      unfold Hook.text_outcome. destruct msg as [[|c t]|]; try exact I.
      apply exc_only_bind; [apply X|]. intro; exact I.
    Qed.

    Lemma perm_bypass_exc inp post : exc_only (perm_bypass inp post).
    Proof.
      unfold Hook.perm_bypass. destruct (negb post); [|exact I].
      apply exc_only_bind; [apply py_get_exc|]. intro pm.
      destruct (py_in_tuple pm BYPASS_MODES); [|exact I].
      apply exc_only_bind; [apply X|]. intro; exact I.
    Qed.

    Lemma after_loop_exc sh cwd ws rules acc : exc_only (after_loop o_after_rule sh cwd ws rules acc).
    Proof.
      revert acc. induction rules as [|r rs IH]; intro acc; cbn [after_loop]; [exact I|].
      apply exc_only_bind; [apply X|]. intro b. apply IH.
    Qed.

    Lemma core_shell_exc inp he c cfg cwd : exc_only (core_shell inp he c cfg cwd).
    Proof.
      unfold Hook.core_shell. apply exc_only_bind; [apply perm_bypass_exc|]. intros [o|]; [exact I|].
      destruct (py_eq_str he $"PostToolUse").
      - apply exc_only_bind.
        { unfold tokenize. destruct (negb (truthy c)); [exact I|]. destruct c; exact I || reflexivity. }
        intro ws. apply exc_only_bind; [|apply text_outcome_exc].
        unfold match_after. apply exc_only_bind; [apply X|]. intro. apply after_loop_exc.
      - apply exc_only_bind.
        { unfold analyze. destruct c; try reflexivity. apply X. }
        intros [a r]. apply exc_only_bind; [apply X|]. intro; exact I.
    Qed.

    Lemma core_mcp_exc inp he tn cfg : exc_only (core_mcp inp he tn cfg).
    Proof.
      unfold Hook.core_mcp. apply exc_only_bind; [apply perm_bypass_exc|]. intros [o|]; [exact I|].
      destruct (py_eq_str he $"PostToolUse"); [apply text_outcome_exc|].
      destruct (match_mcp o_gmatch tn cfg); [|exact I].
      apply exc_only_bind; [apply X|]. intro; exact I.
    Qed.

    Lemma core_exc cursor inp : exc_only (core cursor inp).
    Proof.
      unfold Hook.core. apply exc_only_bind; [apply find_cwd_exc|]. intro cwd.
      pose proof (load_stage_exc cwd) as L. destruct (load_stage cwd) as [cfg|e].
      - rewrite core_after_config_route. apply exc_only_bind; [apply py_get_exc|]. intro he.
        apply exc_only_bind; [apply route_exc|]. intros [c|tn|]; [apply core_shell_exc|apply core_mcp_exc|exact I].
      - destruct e; try exact L. apply exc_only_bind; [apply py_get_exc|]. intro he.
        destruct (py_eq_str he $"PostToolUse"); exact I.
    Qed.

    Lemma main_try_exc explicit inp : exc_only (main_try explicit inp).
    Proof.
      rewrite main_try_factor. apply exc_only_bind.
      - destruct explicit; [exact I|apply detect_exc].
      - intro m. unfold lift. apply exc_only_bind; [apply core_exc|]. intro; exact I.
    Qed.

    (* every run ends with status 0 and without a traceback *)
    Lemma main_total setup e stdin :
      (setup = Ok tt \/ setup = Raise OSError) -> exc_only stdin ->
      exit_code (main setup e stdin) = 0%nat /\ traceback (main setup e stdin) = false.
    Proof.
      intros Hs Hi.
      assert (T : exc_only (inp <- stdin ;; main_try (detect_mode_from_flags e) inp)).
      { apply exc_only_bind; [exact Hi|]. intro inp. apply main_try_exc. }
      unfold Hook.main. destruct Hs as [-> | ->]; cbn [is_oserror].
      all: destruct (inp <- stdin ;; main_try (detect_mode_from_flags e) inp) as [l|x]; cbn [handlers];
        [split; reflexivity|]; cbn in T; rewrite T; split; reflexivity.
    Qed.
  End Total.

  (* ---- what a run can print: the shape of the outcome by event kind *)
  Lemma text_outcome_shape msg o :
    text_outcome msg = Ok o -> o = OSilent \/ exists c t, msg = Some (c :: t) /\ o = OText (duck ++ c :: t).
  Proof.
    unfold Hook.text_outcome. destruct msg as [[|c t]|].
    1,3: intro H; injection H as <-; left; reflexivity.
    destruct (o_print (duck ++ c :: t)); cbn [bind]; [|discriminate].
    intro H; injection H as <-. right. eauto.
  Qed.

  Definition is_decision (o : outcome) : bool := match o with ODecision _ _ => true | _ => false end.
  Definition feedback_shape (o : outcome) : Prop := o = OSilent \/ exists c t, o = OText (duck ++ c :: t).

  Lemma core_shell_pre inp he c cfg cwd o :
    is_post he = false -> core_shell inp he c cfg cwd = Ok o -> is_decision o = true.
  Proof.
    unfold Hook.core_shell, is_post. intros P. rewrite P, perm_bypass_spec.
    destruct (bypass_of inp) as [[r|]|e]; cbn [bind]; [| |discriminate].
    - destruct (o_log_decision $"allow" r); cbn [bind]; [|discriminate]. intro H; injection H as <-. reflexivity.
    - destruct (analyze o_analyze c (c_shell cfg) cwd) as [[a r]|e]; cbn [bind]; [|discriminate].
      destruct (o_log_decision a r); cbn [bind]; [|discriminate]. intro H; injection H as <-. reflexivity.
  Qed.

  Lemma core_mcp_pre inp he tn cfg o :
    is_post he = false -> core_mcp inp he tn cfg = Ok o -> is_decision o = true \/ o = OEmpty.
  Proof.
    unfold Hook.core_mcp, is_post. intros P. rewrite P, perm_bypass_spec.
    destruct (bypass_of inp) as [[r|]|e]; cbn [bind]; [| |discriminate].
    - destruct (o_log_decision $"allow" r); cbn [bind]; [|discriminate]. intro H; injection H as <-. left; reflexivity.
    - destruct (match_mcp o_gmatch tn cfg) as [r|]; [|intro H; injection H as <-; right; reflexivity].
      destruct (o_log_decision (r_decision r) (mcp_reason r)); cbn [bind]; [|discriminate].
      intro H; injection H as <-. left; reflexivity.
  Qed.

  Lemma core_shell_post inp he c cfg cwd o :
    is_post he = true -> core_shell inp he c cfg cwd = Ok o -> feedback_shape o.
  Proof.
    unfold Hook.core_shell, is_post. intros P. rewrite P, perm_bypass_spec. cbn [bind].
    destruct (tokenize o_words c) as [ws|e]; cbn [bind]; [|discriminate].
    destruct (match_after o_after_prep o_after_rule ws cfg cwd) as [msg|e]; cbn [bind]; [|discriminate].
    intro H. apply text_outcome_shape in H as [-> | (c0 & t & _ & ->)]; [left; reflexivity | right; eauto].
  Qed.

  Lemma core_mcp_post inp he tn cfg o :
    is_post he = true -> core_mcp inp he tn cfg = Ok o -> feedback_shape o.
  Proof.
    unfold Hook.core_mcp, is_post. intros P. rewrite P, perm_bypass_spec. cbn [bind].
    intro H. apply text_outcome_shape in H as [-> | (c0 & t & _ & ->)]; [left; reflexivity | right; eauto].
  Qed.

  (* a ConfigError while loading is answered before the event is looked at *)
  Definition config_error_at (inp : json) (msg : str) : Prop :=
    exists cwd, find_cwd inp = Ok cwd /\ load_stage cwd = Raise (ConfigError msg).

  (* the answer to a ConfigError: ask, or nothing on PostToolUse *)
  Definition config_error_outcome (inp : json) (msg : str) : res outcome :=
    he <- event_of inp ;; Ok (if is_post he then OSilent else ODecision Ask ($"config error: " ++ msg)).

  Lemma config_error_branch inp msg :
    (he <- py_get inp $"hook_event_name" JNull ;;
     if py_eq_str he $"PostToolUse" then Ok OSilent else Ok (ODecision Ask ($"config error: " ++ msg)))
    = config_error_outcome inp msg.
  Proof.
    unfold config_error_outcome, event_of, is_post. destruct inp; try reflexivity. cbn [py_get bind].
    destruct (assoc $"hook_event_name" kv) as [v|]; [|reflexivity].
    destruct (py_eq_str v $"PostToolUse"); reflexivity.
  Qed.

  Lemma core_cases cursor inp o :
    core cursor inp = Ok o ->
    (exists msg, config_error_at inp msg /\ config_error_outcome inp msg = Ok o) \/
    (exists cwd cfg he rt,
        find_cwd inp = Ok cwd /\ load_stage cwd = Ok cfg /\ event_of inp = Ok he /\ route_of cursor inp = Ok rt /\
        match rt with
        | RShell c => core_shell inp he c cfg cwd = Ok o
        | RMcp tn => core_mcp inp he tn cfg = Ok o
        | ROther => o = OEmpty
        end).
  Proof.
    unfold Hook.core. destruct (find_cwd inp) as [cwd|e] eqn:Ec; cbn [bind]; [|discriminate].
    destruct (load_stage cwd) as [cfg|e] eqn:El.
    - rewrite core_after_config_route.
      destruct (event_of inp) as [he|e] eqn:Ee; cbn [bind]; [|discriminate].
      destruct (route_of cursor inp) as [rt|e] eqn:Er; cbn [bind]; [|discriminate].
      intro H. right. exists cwd, cfg, he, rt. repeat split; auto.
      destruct rt; auto. injection H as <-. reflexivity.
    - destruct e; try discriminate. rewrite config_error_branch. intro H. left. exists msg. split; [|exact H].
      exists cwd. auto.
  Qed.

  Lemma config_error_pre inp msg o :
    pre_event inp -> config_error_outcome inp msg = Ok o -> o = ODecision Ask ($"config error: " ++ msg).
  Proof.
    unfold config_error_outcome. intros P. destruct (event_of inp) as [he|x] eqn:E; cbn [bind]; [|discriminate].
    rewrite (P he E). intro H; injection H as <-. reflexivity.
  Qed.
  Lemma config_error_post inp msg o :
    post_event inp -> config_error_outcome inp msg = Ok o -> o = OSilent.
  Proof.
    unfold config_error_outcome. intros (he & -> & P). cbn [bind]. rewrite P. intro H; injection H as <-. reflexivity.
  Qed.

  (* C06_one_object, on the core: a pre-execution event yields a decision or {} - never text, never nothing *)
  Lemma core_pre_outcome cursor inp o :
    pre_event inp -> core cursor inp = Ok o -> is_decision o = true \/ o = OEmpty.
  Proof.
    intros P H. apply core_cases in H as [(msg & _ & H) | (cwd & cfg & he & rt & _ & _ & Ee & _ & H)].
    - left. rewrite (config_error_pre inp msg o P H). reflexivity.
    - specialize (P he Ee). destruct rt.
      + left. eapply core_shell_pre; eauto.
      + eapply core_mcp_pre; eauto.
      + right; exact H.
  Qed.

  Lemma render_pre m o : is_decision o = true \/ o = OEmpty ->
    exists j, render m o = [J j] /\ (j = JObj [] \/ exists v r, j = envelope m v r).
  Proof.
    intros [H | ->].
    - destruct o; try discriminate. eexists; split; [reflexivity|]. right; eauto.
    - eexists; split; [reflexivity|]. left; reflexivity.
  Qed.

  Lemma main_try_pre explicit inp l :
    pre_event inp -> main_try explicit inp = Ok l ->
    exists m j, l = [J j] /\ (j = JObj [] \/ exists v r, j = envelope m v r).
  Proof.
    intros P. rewrite main_try_factor.
    destruct (match explicit with Some m => Ok m | None => detect_mode_from_input inp end) as [m|e];
      cbn [bind]; [|discriminate].
    unfold lift. destruct (core (is_cursor m) inp) as [o|e] eqn:Ec; cbn [bind]; [|discriminate].
    intro H; injection H as <-. apply core_pre_outcome in Ec; [|exact P].
    destruct (render_pre m o Ec) as (j & -> & Hj). exists m, j. auto.
  Qed.

  (* the whole process, for input that is a pre-execution event or cannot be read at all *)
  Definition stdin_pre (stdin : res json) : Prop :=
    match stdin with Ok inp => pre_event inp | Raise _ => True end.

  Lemma main_one_object setup e stdin :
    oracles_exc_only -> (setup = Ok tt \/ setup = Raise OSError) -> exc_only stdin -> stdin_pre stdin ->
    exists j, stdout (main setup e stdin) = [J j] /\
              (j = JObj [] \/ exists m v r, j = envelope m v r).
  Proof.
    intros X Hs Hi Hp.
    assert (E : main setup e stdin = handlers (inp <- stdin ;; main_try (detect_mode_from_flags e) inp)).
    { unfold Hook.main. destruct Hs as [-> | ->]; reflexivity. }
    rewrite E. destruct stdin as [inp|x]; cbn [bind].
    - pose proof (main_try_exc X (detect_mode_from_flags e) inp) as T.
      destruct (main_try (detect_mode_from_flags e) inp) as [l|x] eqn:Em; cbn [handlers].
      + apply main_try_pre in Em as (m & j & -> & Hj); [|exact Hp]. exists j. split; [reflexivity|].
        destruct Hj as [-> | (v & r & ->)]; [left; reflexivity | right; eauto].
      + cbn in T. rewrite T. exists (JObj []). split; [reflexivity | left; reflexivity].
    - cbn [handlers]. cbn in Hi. rewrite Hi. exists (JObj []). split; [reflexivity | left; reflexivity].
  Qed.

  (* ---- C06_failures: whatever goes wrong inside the try ends as {} ; ConfigError as ask *)
  Lemma main_failure_empty setup e stdin x :
    (setup = Ok tt \/ setup = Raise OSError) ->
    (inp <- stdin ;; main_try (detect_mode_from_flags e) inp) = Raise x -> is_exception x = true ->
    main setup e stdin = done [J (JObj [])].
  Proof.
    intros Hs H Hx. unfold Hook.main. destruct Hs as [-> | ->]; cbn [is_oserror]; rewrite H; cbn [handlers]; rewrite Hx; reflexivity.
  Qed.

  Lemma main_try_config_error explicit inp m msg :
    (match explicit with Some m => Ok m | None => detect_mode_from_input inp end) = Ok m ->
    config_error_at inp msg ->
    main_try explicit inp = lift m (config_error_outcome inp msg).
  Proof.
    intros Hm (cwd & Hc & Hl). rewrite main_try_factor, Hm; cbn [bind]. unfold Hook.core.
    rewrite Hc; cbn [bind]. rewrite Hl, config_error_branch. reflexivity.
  Qed.

  (* ... i.e. on a pre-execution event an ask envelope, on PostToolUse nothing *)
  Lemma main_try_config_error_pre explicit inp m msg :
    (match explicit with Some m => Ok m | None => detect_mode_from_input inp end) = Ok m ->
    config_error_at inp msg -> (exists he, event_of inp = Ok he /\ is_post he = false) ->
    main_try explicit inp = Ok [J (envelope m Ask ($"config error: " ++ msg))].
  Proof.
    intros Hm Hc (he & He & P). rewrite (main_try_config_error explicit inp m msg Hm Hc).
    unfold lift, config_error_outcome. rewrite He; cbn [bind]. rewrite P. reflexivity.
  Qed.
  Lemma main_try_config_error_post explicit inp m msg :
    (match explicit with Some m => Ok m | None => detect_mode_from_input inp end) = Ok m ->
    config_error_at inp msg -> post_event inp -> main_try explicit inp = Ok [].
  Proof.
    intros Hm Hc (he & He & P). rewrite (main_try_config_error explicit inp m msg Hm Hc).
    unfold lift, config_error_outcome. rewrite He; cbn [bind]. rewrite P. reflexivity.
  Qed.

  (* every typed-access failure and every oracle exception propagates: main_try is a chain of binds.
     The chain on a well-formed Claude/Gemini shell request, as a closed form: *)
  Definition wf_shell_run (m : mode) (s cwds : str) : res (list item) :=
    cwd <- o_resolve cwds ;;
    match load_stage cwd with
    | Raise (ConfigError msg) => Ok [J (envelope m Ask ($"config error: " ++ msg))]
    | Raise x => Raise x
    | Ok cfg =>
        ar <- o_analyze s (c_shell cfg) cwd ;;
        _ <- o_log_decision (fst ar) (snd ar) ;;
        Ok [J (envelope m (verdict_of_action (fst ar)) (snd ar))]
    end.

  (* ---- C12_same: the three shapes carrying the same command / cwd / extra fields *)
  Lemma core_shell_bypass_only inp1 inp2 he c cfg cwd :
    bypass_of inp1 = bypass_of inp2 -> core_shell inp1 he c cfg cwd = core_shell inp2 he c cfg cwd.
  Proof. intro H. unfold Hook.core_shell. rewrite !perm_bypass_spec, H. reflexivity. Qed.

  Lemma find_cwd_shapes tn c cwd extra :
    extra_ok extra = true ->
    find_cwd (cursor_input c cwd extra) = find_cwd (tool_input_shape tn c cwd extra).
  Proof.
    intro E. unfold Hook.find_cwd. rewrite ci_cwd, ti_cwd. cbn [bind].
    destruct (negb (truthy cwd)); [|reflexivity].
    rewrite ci_tool_input, ti_tool_input. unfold field.
    rewrite (assoc_extra $"tool_input" extra E) by (vm_compute; reflexivity). reflexivity.
  Qed.

  Lemma core_same c1 c2 tn c cwd extra :
    extra_ok extra = true -> In tn SHELL_TOOL_NAMES ->
    core c1 (cursor_input c cwd extra) = core c2 (tool_input_shape tn c cwd extra).
  Proof.
    intros E H. unfold Hook.core. rewrite (find_cwd_shapes tn c cwd extra E).
    destruct (find_cwd (tool_input_shape tn c cwd extra)) as [w|e]; cbn [bind]; [|reflexivity].
    destruct (load_stage w) as [cfg|e].
    - rewrite !core_after_config_route. rewrite (shapes_event tn c cwd extra), (ci_route c cwd extra c1 E), (ti_route tn c cwd extra c2 H).
      destruct (event_of (tool_input_shape tn c cwd extra)) as [he|e]; cbn [bind]; [|reflexivity].
      apply core_shell_bypass_only. apply shapes_bypass.
    - destruct e; reflexivity.
  Qed.

  (* what the host reads from the printed items *)
  Definition read (m : mode) (l : list item) : list (option (verdict * str)) :=
    map (fun i => match i with J j => decode m j | Text _ => None end) l.
  Definition read_outcome (o : outcome) : list (option (verdict * str)) :=
    match o with ODecision v r => [Some (v, r)] | OEmpty => [None] | OText _ => [None] | OSilent => [] end.
  Lemma read_render m o : read m (render m o) = read_outcome o.
  Proof. destruct o; cbn [render read map read_outcome]; rewrite ?decode_envelope, ?decode_empty; reflexivity. Qed.

  Definition read_res (m : mode) (r : res (list item)) : res (list (option (verdict * str))) :=
    l <- r ;; Ok (read m l).

  Lemma read_main_try m inp :
    read_res m (main_try (Some m) inp) = (o <- core (is_cursor m) inp ;; Ok (read_outcome o)).
  Proof.
    rewrite main_try_factor. cbn [bind]. unfold lift, read_res.
    destruct (core (is_cursor m) inp); cbn [bind]; [rewrite read_render|]; reflexivity.
  Qed.

  Lemma same_three tn_c tn_g c cwd extra :
    extra_ok extra = true -> In tn_c SHELL_TOOL_NAMES -> In tn_g SHELL_TOOL_NAMES ->
    read_res Cursor (main_try (Some Cursor) (cursor_input c cwd extra))
      = read_res Claude (main_try (Some Claude) (tool_input_shape tn_c c cwd extra)) /\
    read_res Cursor (main_try (Some Cursor) (cursor_input c cwd extra))
      = read_res Gemini (main_try (Some Gemini) (tool_input_shape tn_g c cwd extra)).
  Proof.
    intros E Hc Hg. rewrite !read_main_try. cbn [is_cursor].
    rewrite (core_same true false tn_c c cwd extra E Hc) at 1. rewrite (core_same true false tn_g c cwd extra E Hg). auto.
  Qed.

  (* the same with auto-detection instead of flags *)
  Lemma same_three_auto tn_g c cwd extra :
    extra_ok extra = true -> In tn_g GEMINI_TOOL_NAMES ->
    main_try None (cursor_input c cwd extra) = main_try (Some Cursor) (cursor_input c cwd extra) /\
    main_try None (tool_input_shape $"Bash" c cwd extra) = main_try (Some Claude) (tool_input_shape $"Bash" c cwd extra) /\
    main_try None (tool_input_shape tn_g c cwd extra) = main_try (Some Gemini) (tool_input_shape tn_g c cwd extra).
  Proof.
    intros E Hg. rewrite !main_try_factor.
    rewrite (ci_detect c cwd extra E), (ti_detect_claude $"Bash" c cwd extra eq_refl), (ti_detect_gemini tn_g c cwd extra Hg).
    auto.
  Qed.

  (* ---- C12: where the working directory comes from - top-level cwd, else tool_input.cwd, else the
     process's own; the mode is not among the arguments *)
  Definition cwd_spec (kv : list (str * json)) : res str :=
    let top := field $"cwd" kv JNull in
    if truthy top then path_resolve o_resolve top
    else
      inner <- py_get (field $"tool_input" kv (JObj [])) $"cwd" JNull ;;
      if truthy inner then path_resolve o_resolve inner else o_getcwd.

  Lemma find_cwd_spec kv : find_cwd (JObj kv) = cwd_spec kv.
  Proof.
    unfold Hook.find_cwd, cwd_spec, field. cbn [py_get bind].
    destruct (truthy match assoc $"cwd" kv with Some v => v | None => JNull end) eqn:T; cbn [negb bind].
    - rewrite T. reflexivity.
    - destruct (py_get match assoc $"tool_input" kv with Some v => v | None => JObj [] end $"cwd" JNull); reflexivity.
  Qed.

  (* main() in any mode: that directory, then a continuation that receives it *)
  Lemma main_try_cwd m kv :
    main_try (Some m) (JObj kv) =
      (cwd <- cwd_spec kv ;;
       match load_stage cwd with
       | Raise (ConfigError msg) => lift m (config_error_outcome (JObj kv) msg)
       | Raise e => Raise e
       | Ok cfg => after_config m (JObj kv) cfg cwd
       end).
  Proof.
    unfold Hook.main_try. cbn [bind]. rewrite find_cwd_spec.
    destruct (cwd_spec kv) as [cwd|e]; cbn [bind]; [|reflexivity].
    destruct (load_stage cwd) as [cfg|e]; [reflexivity|]. destruct e; try reflexivity.
    unfold lift. rewrite <- config_error_branch.
    destruct (py_get (JObj kv) $"hook_event_name" JNull) as [he|x]; cbn [bind]; [|reflexivity].
    destruct (py_eq_str he $"PostToolUse"); cbn [bind render]; [reflexivity|]. rewrite ask_envelope. reflexivity.
  Qed.

  (* ---- C12: the forced mode does not influence the verdict *)
  Lemma core_mode_independent inp :
    keyed inp \/ (forall kv, inp <> JObj kv) -> core true inp = core false inp.
  Proof.
    intros [K | N]; unfold Hook.core.
    - destruct (find_cwd inp) as [cwd|e]; cbn [bind]; [|reflexivity].
      destruct (load_stage cwd) as [cfg|e]; [|reflexivity].
      rewrite !core_after_config_route, (route_keyed inp K). reflexivity.
    - unfold Hook.find_cwd. rewrite (py_get_nonobj inp _ _ N). reflexivity.
  Qed.

  Lemma main_mode_independent m1 m2 inp :
    keyed inp \/ (forall kv, inp <> JObj kv) ->
    read_res m1 (main_try (Some m1) inp) = read_res m2 (main_try (Some m2) inp).
  Proof.
    intro K. rewrite !read_main_try.
    assert (E : forall b1 b2, core b1 inp = core b2 inp).
    { intros [|] [|]; try reflexivity; [|symmetry]; apply core_mode_independent; exact K. }
    rewrite (E (is_cursor m1) (is_cursor m2)). reflexivity.
  Qed.

  (* ---- C06_allow_only: exactly when does the core answer allow *)
  Definition legit_allow (cursor : bool) (inp : json) (r : str) : Prop :=
    exists cwd cfg he rt,
      find_cwd inp = Ok cwd /\ load_stage cwd = Ok cfg /\ event_of inp = Ok he /\ is_post he = false /\
      route_of cursor inp = Ok rt /\ o_log_decision $"allow" r = Ok tt /\
      ( (* the host declared a bypass permission mode, for a shell or an MCP call *)
        (rt <> ROther /\ bypass_of inp = Ok (Some r) /\ In r BYPASS_MODES)
        \/ (* analysis of a str command completed with allow *)
        (bypass_of inp = Ok None /\ exists s, rt = RShell (JStr s) /\ o_analyze s (c_shell cfg) cwd = Ok ($"allow", r))
        \/ (* the last matching MCP rule says allow *)
        (bypass_of inp = Ok None /\ exists tn rule, rt = RMcp tn /\ match_mcp o_gmatch tn cfg = Some rule /\
           r_decision rule = $"allow" /\ r = mcp_reason rule) ).

  Lemma verdict_of_action_allow a : verdict_of_action a = Allow <-> a = $"allow".
  Proof.
    unfold verdict_of_action. destruct (str_eqb_spec a $"allow") as [->|N]; [tauto|].
    destruct (str_eqb a $"deny"); split; intro H; try discriminate; contradiction.
  Qed.

  Lemma unit_ok (x : res unit) : (exists u, x = Ok u) -> x = Ok tt.
  Proof. intros ([] & ->). reflexivity. Qed.

  Lemma core_allow_only cursor inp r : core cursor inp = Ok (ODecision Allow r) -> legit_allow cursor inp r.
  Proof.
    intro H. apply core_cases in H as [(msg & _ & E) | (cwd & cfg & he & rt & Hc & Hl & He & Hr & H)].
    { unfold config_error_outcome in E. destruct (event_of inp) as [h|x]; cbn [bind] in E; [|discriminate].
      destruct (is_post h); discriminate. }
    destruct (is_post he) eqn:P.
    { destruct rt; [apply core_shell_post in H | apply core_mcp_post in H | discriminate]; auto;
        destruct H as [H | (c0 & t0 & H)]; discriminate. }
    exists cwd, cfg, he, rt. do 5 (split; [assumption|]).
    destruct rt as [c|tn|]; [| |discriminate].
    - unfold Hook.core_shell in H. unfold is_post in P. rewrite P, perm_bypass_spec in H.
      destruct (bypass_of inp) as [[b|]|e] eqn:B; cbn [bind] in H; [| |discriminate].
      + destruct (o_log_decision $"allow" b) as [u|e] eqn:Lg; cbn [bind] in H; [|discriminate].
        injection H as <-. split; [apply unit_ok; eauto|]. left. split; [discriminate|]. split; [reflexivity|].
        eapply bypass_of_in; eauto.
      + unfold analyze in H. destruct c; cbn [bind] in H; try discriminate.
        destruct (o_analyze s (c_shell cfg) cwd) as [[a r']|e] eqn:A; cbn [bind] in H; [|discriminate].
        destruct (o_log_decision a r') as [u|e] eqn:Lg; cbn [bind] in H; [|discriminate].
        injection H as Hv <-. apply verdict_of_action_allow in Hv. subst a.
        split; [apply unit_ok; eauto|]. right; left. split; [reflexivity|]. exists s. auto.
    - unfold Hook.core_mcp in H. unfold is_post in P. rewrite P, perm_bypass_spec in H.
      destruct (bypass_of inp) as [[b|]|e] eqn:B; cbn [bind] in H; [| |discriminate].
      + destruct (o_log_decision $"allow" b) as [u|e] eqn:Lg; cbn [bind] in H; [|discriminate].
        injection H as <-. split; [apply unit_ok; eauto|]. left. split; [discriminate|]. split; [reflexivity|].
        eapply bypass_of_in; eauto.
      + destruct (match_mcp o_gmatch tn cfg) as [rule|] eqn:M; [|discriminate].
        destruct (o_log_decision (r_decision rule) (mcp_reason rule)) as [u|e] eqn:Lg; cbn [bind] in H; [|discriminate].
        injection H as Hv <-. apply verdict_of_action_allow in Hv. rewrite Hv in Lg.
        split; [apply unit_ok; eauto|]. right; right. split; [reflexivity|]. exists tn, rule. auto.
  Qed.

  Lemma core_allow_if cursor inp r : legit_allow cursor inp r -> core cursor inp = Ok (ODecision Allow r).
  Proof.
    intros (cwd & cfg & he & rt & Hc & Hl & He & P & Hr & Lg & H).
    unfold Hook.core. rewrite Hc; cbn [bind]. rewrite Hl, core_after_config_route, He; cbn [bind]. rewrite Hr; cbn [bind].
    unfold is_post in P.
    destruct H as [(N & B & _) | [(B & s & -> & A) | (B & tn & rule & -> & M & D & ->)]].
    - destruct rt as [c|tn|]; [| |contradiction].
      + unfold Hook.core_shell. rewrite P, perm_bypass_spec, B; cbn [bind]. rewrite Lg. reflexivity.
      + unfold Hook.core_mcp. rewrite P, perm_bypass_spec, B; cbn [bind]. rewrite Lg. reflexivity.
    - unfold Hook.core_shell. rewrite P, perm_bypass_spec, B; cbn [bind analyze]. rewrite A; cbn [bind]. rewrite Lg. reflexivity.
    - unfold Hook.core_mcp. rewrite P, perm_bypass_spec, B; cbn [bind]. rewrite M, D, Lg. reflexivity.
  Qed.

  (* on the process: an allow envelope on stdout has a legitimate origin *)
  Lemma main_allow_only setup e inp m r :
    stdout (main setup e (Ok inp)) = [J (envelope m Allow r)] ->
    exists m', mode_of e inp = Ok m' /\ legit_allow (is_cursor m') inp r.
  Proof.
    unfold Hook.main, mode_of. cbn [bind].
    assert (K : forall res0, stdout (handlers res0) = [J (envelope m Allow r)] ->
                 res0 = main_try (detect_mode_from_flags e) inp ->
                 exists m', (match detect_mode_from_flags e with Some m0 => Ok m0 | None => detect_mode_from_input inp end) = Ok m'
                            /\ legit_allow (is_cursor m') inp r).
    { intros res0 H ->. rewrite main_try_factor in H.
      destruct (match detect_mode_from_flags e with Some m0 => Ok m0 | None => detect_mode_from_input inp end) as [m'|x];
        cbn [bind] in H.
      - exists m'. split; [reflexivity|]. unfold lift in H.
        destruct (core (is_cursor m') inp) as [o|x] eqn:Ec; cbn [bind handlers] in H.
        + apply core_allow_only. rewrite Ec. f_equal.
          destruct o; cbn [render done stdout] in H; try discriminate; injection H as H.
          * assert (m' = m) as ->.
            { destruct m', m; try reflexivity; discriminate. }
            apply envelope_injective in H as [-> ->]. reflexivity.
          * symmetry in H. apply envelope_not_empty in H. contradiction.
        + destruct (is_exception x); cbn [done crash stdout] in H; [|discriminate].
          injection H as H. symmetry in H. apply envelope_not_empty in H. contradiction.
      - cbn [handlers] in H. destruct (is_exception x); cbn [done crash stdout] in H; [|discriminate].
        injection H as H. symmetry in H. apply envelope_not_empty in H. contradiction. }
    destruct setup as [u|x].
    - intro H. eapply K; eauto.
    - destruct (is_oserror x); [intro H; eapply K; eauto | discriminate].
  Qed.

  (* ---- C06_failures: the closed form of a well-formed shell request: the first thing that raises decides *)
  Lemma wf_shell_run_spec m tn s cwds extra :
    In tn SHELL_TOOL_NAMES -> cwds <> [] ->
    is_post (field $"hook_event_name" extra (JStr $"PreToolUse")) = false ->
    py_in_tuple (field $"permission_mode" extra (JStr $"default")) BYPASS_MODES = false ->
    main_try (Some m) (tool_input_shape tn (JStr s) (JStr cwds) extra) = wf_shell_run m s cwds.
  Proof.
    intros H Hn P B. rewrite main_try_factor. cbn [bind]. unfold lift, Hook.core, wf_shell_run.
    destruct cwds as [|c0 t0]; [contradiction|].
    unfold Hook.find_cwd. rewrite ti_cwd. cbn [bind truthy nonempty negb path_resolve].
    destruct (o_resolve (c0 :: t0)) as [cwd|x]; cbn [bind]; [|reflexivity].
    destruct (load_stage cwd) as [cfg|x].
    2: { destruct x; try reflexivity. rewrite config_error_branch. unfold config_error_outcome, event_of.
         rewrite ti_event. cbn [bind]. rewrite P. reflexivity. }
    rewrite core_after_config_route. unfold event_of. rewrite ti_event, (ti_route tn _ _ extra (is_cursor m) H). cbn [bind].
    unfold Hook.core_shell. unfold is_post in P. rewrite P, perm_bypass_spec. unfold bypass_of. rewrite ti_perm. cbn [bind].
    rewrite B. cbn [bind analyze].
    destruct (o_analyze s (c_shell cfg) cwd) as [[a r]|x]; cbn [bind fst snd]; [|reflexivity].
    destruct (o_log_decision a r); reflexivity.
  Qed.

  (* a top-level JSON value that is not an object never gets past the first .get *)
  Lemma main_try_nonobject explicit inp :
    (forall kv, inp <> JObj kv) -> exists x, main_try explicit inp = Raise x /\ is_exception x = true.
  Proof.
    intro N. unfold Hook.main_try.
    pose proof (detect_exc inp) as D.
    destruct (match explicit with Some m => Ok m | None => detect_mode_from_input inp end) as [m|x] eqn:E; cbn [bind].
    - unfold Hook.find_cwd. rewrite (py_get_nonobj inp _ _ N). cbn [bind]. eauto.
    - destruct explicit; [discriminate|]. rewrite E in D. eauto.
  Qed.

  (* ---- C19: PostToolUse *)
  Lemma core_post_outcome cursor inp o :
    post_event inp -> core cursor inp = Ok o ->
    (route_of cursor inp = Ok ROther /\ o = OEmpty) \/ feedback_shape o.
  Proof.
    intros PE H. pose proof PE as (he' & Ee' & P).
    apply core_cases in H as [(msg & Hm & H) | (cwd & cfg & he & rt & _ & _ & Ee & Hr & H)].
    { right. left. exact (config_error_post inp msg o PE H). }
    rewrite Ee' in Ee. injection Ee as <-. destruct rt.
    - right. eapply core_shell_post; eauto.
    - right. eapply core_mcp_post; eauto.
    - left. auto.
  Qed.

  (* the printed line is the duck, then a non-empty message *)
  Lemma text_outcome_duck msg t : text_outcome msg = Ok (OText t) -> exists c r, msg = Some (c :: r) /\ t = duck ++ c :: r.
  Proof.
    intro H. apply text_outcome_shape in H as [H | (c & r & -> & H)]; [discriminate|]. injection H as ->. eauto.
  Qed.

  (* "last match wins" for the three rule loops *)
  Lemma find_snoc {A} (p : A -> bool) l x :
    find p (l ++ [x]) = match find p l with Some y => Some y | None => if p x then Some x else None end.
  Proof. induction l as [|a l IH]; cbn [app find]; [reflexivity|]. destruct (p a); [reflexivity | exact IH]. Qed.

  Definition last_such {A} (p : A -> bool) (l : list A) : option A := find p (rev l).

  Lemma last_such_cons {A} (p : A -> bool) a l :
    last_such p (a :: l) = match last_such p l with Some y => Some y | None => if p a then Some a else None end.
  Proof. unfold last_such. cbn [rev]. apply find_snoc. Qed.

  Definition mcp_hit (tn : str) (r : rule) : bool := o_gmatch tn (r_pattern r).

  Lemma match_mcp_loop_spec tn rules acc :
    match_mcp_loop o_gmatch tn rules acc = match last_such (mcp_hit tn) rules with Some r => Some r | None => acc end.
  Proof.
    revert acc. induction rules as [|r rs IH]; intro acc; cbn [match_mcp_loop]; [reflexivity|].
    rewrite IH, last_such_cons. destruct (last_such (mcp_hit tn) rs); [reflexivity|].
    unfold mcp_hit. destruct (o_gmatch tn (r_pattern r)); reflexivity.
  Qed.
  Lemma match_mcp_last tn (cfg : config) : match_mcp o_gmatch tn cfg = last_such (mcp_hit tn) (c_mcp cfg).
  Proof. unfold match_mcp. rewrite match_mcp_loop_spec. destruct (last_such (mcp_hit tn) (c_mcp cfg)); reflexivity. Qed.

  Lemma after_mcp_loop_spec tn rules acc :
    after_mcp_loop o_gmatch tn rules acc =
      match last_such (mcp_hit tn) rules with Some r => Some (msg_or_empty r) | None => acc end.
  Proof.
    revert acc. induction rules as [|r rs IH]; intro acc; cbn [after_mcp_loop]; [reflexivity|].
    rewrite IH, last_such_cons. destruct (last_such (mcp_hit tn) rs); [reflexivity|].
    unfold mcp_hit. destruct (o_gmatch tn (r_pattern r)); reflexivity.
  Qed.
  Lemma match_after_mcp_last tn (cfg : config) :
    match_after_mcp o_gmatch tn cfg = option_map msg_or_empty (last_such (mcp_hit tn) (c_after_mcp cfg)).
  Proof.
    unfold match_after_mcp. rewrite after_mcp_loop_spec. destruct (last_such (mcp_hit tn) (c_after_mcp cfg)); reflexivity.
  Qed.

  Lemma after_loop_spec sh cwd ws (p : rule -> bool) rules acc :
    Forall (fun r => o_after_rule sh cwd ws r = Ok (p r)) rules ->
    after_loop o_after_rule sh cwd ws rules acc =
      Ok (match last_such p rules with Some r => Some (msg_or_empty r) | None => acc end).
  Proof.
    intro F. revert acc. induction F as [|r rs Hr _ IH]; intro acc; cbn [after_loop]; [reflexivity|].
    rewrite Hr; cbn [bind]. rewrite IH, last_such_cons. destruct (last_such p rs); [reflexivity|].
    destruct (p r); reflexivity.
  Qed.

  (* if some rule's matcher raises, so does the loop (and the hook prints {}) *)
  Lemma after_loop_raise sh cwd ws rules acc :
    Exists (fun r => exists x, o_after_rule sh cwd ws r = Raise x) rules ->
    (forall r, In r rules -> exc_only (o_after_rule sh cwd ws r)) ->
    exists x, after_loop o_after_rule sh cwd ws rules acc = Raise x /\ is_exception x = true.
  Proof.
    intros E X. revert acc. induction rules as [|r rs IH]; intro acc; [inversion E|].
    cbn [after_loop]. pose proof (X r (or_introl eq_refl)) as Xr.
    destruct (o_after_rule sh cwd ws r) as [b|x] eqn:Er; cbn [bind].
    - apply IH.
      + inversion E as [? ? (x & Hx)|]; subst; [rewrite Er in Hx; discriminate | assumption].
      + intros r' Hr'. apply X. right; exact Hr'.
    - eauto.
  Qed.

  (* what is printed for an MCP tool on PostToolUse *)
  Definition feedback_of (msg : option str) : list item :=
    match msg with Some (c :: t) => [Text (duck ++ c :: t)] | _ => [] end.

  Lemma text_outcome_feedback m msg :
    (forall s, exists u, o_print s = Ok u) -> lift m (text_outcome msg) = Ok (feedback_of msg).
  Proof.
    intro Pr. unfold lift, Hook.text_outcome, feedback_of. destruct msg as [[|c t]|]; try reflexivity.
    destruct (Pr (duck ++ c :: t)) as (u & ->). reflexivity.
  Qed.

  (* ---- C19 on the process *)
  Lemma main_is_handlers setup e stdin :
    (setup = Ok tt \/ setup = Raise OSError) ->
    main setup e stdin = handlers (inp <- stdin ;; main_try (detect_mode_from_flags e) inp).
  Proof. intros [-> | ->]; reflexivity. Qed.

  Definition post_stdout (l : list item) : Prop :=
    l = [] \/ (exists c t, l = [Text (duck ++ c :: t)]) \/ l = [J (JObj [])].

  Lemma main_post_output setup e inp :
    oracles_exc_only -> (setup = Ok tt \/ setup = Raise OSError) -> post_event inp ->
    post_stdout (stdout (main setup e (Ok inp))) /\ exit_code (main setup e (Ok inp)) = 0%nat.
  Proof.
    intros X Hs P. split; [|apply (main_total X setup e (Ok inp) Hs I)].
    rewrite (main_is_handlers setup e (Ok inp) Hs). cbn [bind].
    pose proof (main_try_exc X (detect_mode_from_flags e) inp) as T.
    rewrite main_try_factor in *.
    destruct (match detect_mode_from_flags e with Some m => Ok m | None => detect_mode_from_input inp end) as [m|x];
      cbn [bind] in *.
    2: { cbn [handlers]. cbn in T. rewrite T. right; right; reflexivity. }
    unfold lift in *. destruct (core (is_cursor m) inp) as [o|x] eqn:Ec; cbn [bind handlers] in *.
    2: { cbn in T. rewrite T. right; right; reflexivity. }
    cbn [done stdout].
    apply core_post_outcome in Ec as [(_ & ->) | [-> | (c & t & ->)]];
      [right; right; reflexivity | left; reflexivity | right; left; cbn [render]; eauto | exact P].
  Qed.

  (* {} on PostToolUse has exactly two origins: something raised, or the tool is neither shell nor MCP *)
  Lemma main_post_empty_origin explicit inp m :
    (match explicit with Some m => Ok m | None => detect_mode_from_input inp end) = Ok m ->
    post_event inp -> main_try explicit inp = Ok [J (JObj [])] -> route_of (is_cursor m) inp = Ok ROther.
  Proof.
    intros Hm P. rewrite main_try_factor, Hm. cbn [bind]. unfold lift.
    destruct (core (is_cursor m) inp) as [o|x] eqn:Ec; cbn [bind]; [|discriminate].
    apply core_post_outcome in Ec as [(Hr & _) | [-> | (c & t & ->)]]; [auto | discriminate | discriminate | exact P].
  Qed.

  (* what exactly is printed: the message of the last matching rule *)
  Lemma post_mcp_feedback m inp tn cwd cfg he :
    find_cwd inp = Ok cwd -> load_stage cwd = Ok cfg -> event_of inp = Ok he -> is_post he = true ->
    route_of false inp = Ok (RMcp tn) -> is_cursor m = false -> (forall s, exists u, o_print s = Ok u) ->
    main_try (Some m) inp
    = Ok (feedback_of (option_map msg_or_empty (last_such (mcp_hit tn) (c_after_mcp cfg)))).
  Proof.
    intros Hc Hl He P Hr Hm Pr. rewrite main_try_factor. cbn [bind]. rewrite Hm.
    unfold Hook.core. rewrite Hc; cbn [bind]. rewrite Hl, core_after_config_route, He; cbn [bind]. rewrite Hr; cbn [bind].
    unfold Hook.core_mcp. unfold is_post in P. rewrite P, perm_bypass_spec. cbn [bind].
    rewrite match_after_mcp_last. apply text_outcome_feedback. exact Pr.
  Qed.

  Lemma post_shell_feedback m inp c ws cwd cfg he (p : rule -> bool) :
    find_cwd inp = Ok cwd -> load_stage cwd = Ok cfg -> event_of inp = Ok he -> is_post he = true ->
    route_of (is_cursor m) inp = Ok (RShell c) -> (forall s, exists u, o_print s = Ok u) ->
    tokenize o_words c = Ok ws -> (exists u, o_after_prep (c_shell cfg) cwd ws = Ok u) ->
    Forall (fun r => o_after_rule (c_shell cfg) cwd ws r = Ok (p r)) (c_after cfg) ->
    main_try (Some m) inp = Ok (feedback_of (option_map msg_or_empty (last_such p (c_after cfg)))).
  Proof.
    intros Hc Hl He P Hr Pr Ht (u & Hp) F. rewrite main_try_factor. cbn [bind].
    unfold Hook.core. rewrite Hc; cbn [bind]. rewrite Hl, core_after_config_route, He; cbn [bind]. rewrite Hr; cbn [bind].
    unfold Hook.core_shell. unfold is_post in P. rewrite P, perm_bypass_spec. cbn [bind]. rewrite Ht; cbn [bind].
    unfold match_after. rewrite Hp; cbn [bind]. rewrite (after_loop_spec _ _ _ p _ None F). cbn [bind].
    replace (match last_such p (c_after cfg) with Some r => Some (msg_or_empty r) | None => None end)
      with (option_map msg_or_empty (last_such p (c_after cfg))) by (destruct (last_such p (c_after cfg)); reflexivity).
    apply text_outcome_feedback. exact Pr.
  Qed.

  (* feedback_of prints nothing for no match and for an empty message *)
  Lemma feedback_of_none : feedback_of None = [].       Proof. reflexivity. Qed.
  Lemma feedback_of_empty : feedback_of (Some []) = [].  Proof. reflexivity. Qed.

  (* C14_routing: an MCP call that no *-mcp rule matches is answered {} (config loaded, pre-execution, no bypass) *)
  Lemma mcp_no_match_empty m inp tn cwd cfg he :
    find_cwd inp = Ok cwd -> load_stage cwd = Ok cfg -> event_of inp = Ok he -> is_post he = false ->
    route_of false inp = Ok (RMcp tn) -> is_cursor m = false -> bypass_of inp = Ok None ->
    (forall r, In r (c_mcp cfg) -> o_gmatch tn (r_pattern r) = false) ->
    main_try (Some m) inp = Ok [J (JObj [])].
  Proof.
    intros Hc Hl He P Hr Hm B N. rewrite main_try_factor. cbn [bind]. rewrite Hm.
    unfold Hook.core. rewrite Hc; cbn [bind]. rewrite Hl, core_after_config_route, He; cbn [bind]. rewrite Hr; cbn [bind].
    unfold Hook.core_mcp. unfold is_post in P. rewrite P, perm_bypass_spec, B. cbn [bind].
    rewrite match_mcp_last. unfold last_such.
    assert (F : find (mcp_hit tn) (rev (c_mcp cfg)) = None).
    { destruct (find (mcp_hit tn) (rev (c_mcp cfg))) as [r|] eqn:E; [|reflexivity].
      apply find_some in E as [Hin Hhit]. apply in_rev in Hin. unfold mcp_hit in Hhit. rewrite (N r Hin) in Hhit. discriminate. }
    rewrite F. reflexivity.
  Qed.

  (* and one that some rule matches is decided by the last such rule *)
  Lemma mcp_match_last m inp tn cwd cfg he rule :
    find_cwd inp = Ok cwd -> load_stage cwd = Ok cfg -> event_of inp = Ok he -> is_post he = false ->
    route_of false inp = Ok (RMcp tn) -> is_cursor m = false -> bypass_of inp = Ok None ->
    last_such (mcp_hit tn) (c_mcp cfg) = Some rule ->
    (exists u, o_log_decision (r_decision rule) (mcp_reason rule) = Ok u) ->
    main_try (Some m) inp = Ok [J (envelope m (verdict_of_action (r_decision rule)) (mcp_reason rule))].
  Proof.
    intros Hc Hl He P Hr Hm B L (u & Lg). rewrite main_try_factor. cbn [bind]. rewrite Hm.
    unfold Hook.core. rewrite Hc; cbn [bind]. rewrite Hl, core_after_config_route, He; cbn [bind]. rewrite Hr; cbn [bind].
    unfold Hook.core_mcp. unfold is_post in P. rewrite P, perm_bypass_spec, B. cbn [bind].
    rewrite match_mcp_last, L, Lg. reflexivity.
  Qed.
End Oracles.

(* ------------------------------------------------------------------ non-interference (C19_inert, C14_routing) *)
Section Two.
  Variables S G : Type.
  Notation config := (config S G).
  Variable o_resolve : str -> res str.
  Variable o_getcwd : res str.
  Variable o_configure_logging : G -> res unit.
  Variable o_log_decision : str -> str -> res unit.
  Variable o_print : str -> res unit.
  (* two worlds *)
  Variables lc lc' : str -> res config.
  Variables an an' : str -> S -> str -> res (str * str).
  Variables gm gm' : str -> str -> bool.
  Variables wd wd' : str -> list str.
  Variables pr pr' : S -> str -> list str -> res unit.
  Variables ar ar' : S -> str -> list str -> rule -> res bool.

  Notation core1 := (@core S G o_resolve o_getcwd lc o_configure_logging o_log_decision an gm wd pr ar o_print).
  Notation core2 := (@core S G o_resolve o_getcwd lc' o_configure_logging o_log_decision an' gm' wd' pr' ar' o_print).
  Notation main1 := (@main_try S G o_resolve o_getcwd lc o_configure_logging o_log_decision an gm wd pr ar o_print).
  Notation main2 := (@main_try S G o_resolve o_getcwd lc' o_configure_logging o_log_decision an' gm' wd' pr' ar' o_print).

  (* two load_config oracles related by R on what they return *)
  Definition rel_load (R : config -> config -> Prop) : Prop :=
    forall cwd, match lc cwd, lc' cwd with
                | Ok a, Ok b => R a b
                | Raise x, Raise y => x = y
                | _, _ => False
                end.

  Lemma load_stage_rel (R : config -> config -> Prop) cwd :
    rel_load R -> (forall a b, R a b -> c_log a = c_log b) ->
    (exists x, load_stage lc o_configure_logging cwd = Raise x /\ load_stage lc' o_configure_logging cwd = Raise x) \/
    (exists a b, load_stage lc o_configure_logging cwd = Ok a /\ load_stage lc' o_configure_logging cwd = Ok b /\ R a b).
  Proof.
    intros H L. specialize (H cwd). unfold load_stage.
    destruct (lc cwd) as [a|x], (lc' cwd) as [b|y]; try contradiction; cbn [bind].
    - rewrite <- (L a b H). destruct (o_configure_logging (c_log a)); cbn [bind]; [right; eauto | left; eauto].
    - subst. left; eauto.
  Qed.

  Lemma core_rel (R : config -> config -> Prop) cursor inp :
    rel_load R -> (forall a b, R a b -> c_log a = c_log b) ->
    (forall a b cwd, R a b ->
       core_after_config o_log_decision an gm wd pr ar o_print cursor inp a cwd =
       core_after_config o_log_decision an' gm' wd' pr' ar' o_print cursor inp b cwd) ->
    core1 cursor inp = core2 cursor inp.
  Proof.
    intros H L K. unfold core. destruct (find_cwd o_resolve o_getcwd inp) as [cwd|x]; cbn [bind]; [|reflexivity].
    destruct (load_stage_rel R cwd H L) as [(x & -> & ->) | (a & b & -> & -> & Hab)]; [reflexivity|].
    apply K. exact Hab.
  Qed.

  Lemma main_rel explicit inp :
    (forall cursor, core1 cursor inp = core2 cursor inp) -> main1 explicit inp = main2 explicit inp.
  Proof.
    intro H. rewrite !main_try_factor.
    destruct (match explicit with Some m => Ok m | None => detect_mode_from_input inp end); cbn [bind]; [|reflexivity].
    unfold lift. rewrite H. reflexivity.
  Qed.

End Two.
Arguments rel_load {S G}.

Section Three.
  Variables S G : Type.
  Notation config := (config S G).
  Variable o_resolve : str -> res str.
  Variable o_getcwd : res str.
  Variable o_configure_logging : G -> res unit.
  Variable o_log_decision : str -> str -> res unit.
  Variable o_print : str -> res unit.
  Variables lc lc' : str -> res config.
  Variables an an' : str -> S -> str -> res (str * str).
  Variables gm gm' : str -> str -> bool.
  Variables wd wd' : str -> list str.
  Variables pr pr' : S -> str -> list str -> res unit.
  Variables ar ar' : S -> str -> list str -> rule -> res bool.
  Notation corex := (@core S G o_resolve o_getcwd).
  Notation cac := (@core_after_config S G o_log_decision).

  (* C19_inert: configs that differ only in after / after-mcp rules; everything else the same world *)
  Definition same_but_after (a b : config) : Prop :=
    c_shell a = c_shell b /\ c_mcp a = c_mcp b /\ c_log a = c_log b.

  Lemma core_inert cursor inp :
    rel_load lc lc' same_but_after -> pre_event inp ->
    corex lc o_configure_logging o_log_decision an gm wd pr ar o_print cursor inp =
    corex lc' o_configure_logging o_log_decision an gm wd pr ar o_print cursor inp.
  Proof.
    intros H P. apply core_rel with (R := same_but_after); [exact H | intros a b (_ & _ & E); exact E |].
    intros a b cwd (Es & Em & _). rewrite !core_after_config_route.
    destruct (event_of inp) as [he|x] eqn:Ee; cbn [bind]; [|reflexivity].
    specialize (P he Ee). unfold is_post in P.
    destruct (route_of cursor inp) as [[c|tn|]|x]; cbn [bind]; try reflexivity.
    - unfold core_shell. rewrite P, Es. reflexivity.
    - unfold core_mcp, match_mcp. rewrite P, Em. reflexivity.
  Qed.

  (* C14_routing, MCP side: only the *-mcp rules, the log setting and fnmatch are consulted *)
  Definition same_mcp_part (a b : config) : Prop :=
    c_mcp a = c_mcp b /\ c_after_mcp a = c_after_mcp b /\ c_log a = c_log b.

  Lemma core_mcp_route_only inp tn :
    rel_load lc lc' same_mcp_part -> route_of false inp = Ok (RMcp tn) ->
    corex lc o_configure_logging o_log_decision an gm wd pr ar o_print false inp =
    corex lc' o_configure_logging o_log_decision an' gm wd' pr' ar' o_print false inp.
  Proof.
    intros H Hr. apply core_rel with (R := same_mcp_part); [exact H | intros a b (_ & _ & E); exact E |].
    intros a b cwd (Em & Ea & _). rewrite !core_after_config_route, Hr.
    destruct (event_of inp) as [he|x]; cbn [bind]; [|reflexivity].
    unfold core_mcp, match_mcp, match_after_mcp. rewrite Em, Ea. reflexivity.
  Qed.

  (* C14_routing, shell side: the *-mcp rules and their matcher are never consulted *)
  Definition same_shell_part (a b : config) : Prop :=
    c_shell a = c_shell b /\ c_after a = c_after b /\ c_log a = c_log b.

  Lemma core_shell_route_only cursor inp c :
    rel_load lc lc' same_shell_part -> route_of cursor inp = Ok (RShell c) ->
    corex lc o_configure_logging o_log_decision an gm wd pr ar o_print cursor inp =
    corex lc' o_configure_logging o_log_decision an gm' wd pr ar o_print cursor inp.
  Proof.
    intros H Hr. apply core_rel with (R := same_shell_part); [exact H | intros a b (_ & _ & E); exact E |].
    intros a b cwd (Es & Ea & _). rewrite !core_after_config_route, Hr.
    destruct (event_of inp) as [he|x]; cbn [bind]; [|reflexivity].
    unfold core_shell, match_after. rewrite Es, Ea. reflexivity.
  Qed.

  (* anything else (Read, Edit, ...) : {} whatever the rules say, provided the config loads *)
  Lemma core_other_route_only inp :
    rel_load lc lc' (fun a b => c_log a = c_log b) -> route_of false inp = Ok ROther ->
    corex lc o_configure_logging o_log_decision an gm wd pr ar o_print false inp =
    corex lc' o_configure_logging o_log_decision an' gm' wd' pr' ar' o_print false inp.
  Proof.
    intros H Hr. apply core_rel with (R := fun a b : config => c_log a = c_log b); [exact H | auto |].
    intros a b cwd _. rewrite !core_after_config_route, Hr. reflexivity.
  Qed.

  Notation mt := (@main_try S G o_resolve o_getcwd).

  Lemma main_inert explicit inp :
    rel_load lc lc' same_but_after -> pre_event inp ->
    mt lc o_configure_logging o_log_decision an gm wd pr ar o_print explicit inp =
    mt lc' o_configure_logging o_log_decision an gm wd pr ar o_print explicit inp.
  Proof. intros H P. apply main_rel. intro cursor. apply core_inert; assumption. Qed.

  Lemma main_mcp_route_only m inp tn :
    is_cursor m = false -> rel_load lc lc' same_mcp_part -> route_of false inp = Ok (RMcp tn) ->
    mt lc o_configure_logging o_log_decision an gm wd pr ar o_print (Some m) inp =
    mt lc' o_configure_logging o_log_decision an' gm wd' pr' ar' o_print (Some m) inp.
  Proof.
    intros Hm H Hr. rewrite !main_try_factor. cbn [bind]. rewrite Hm. unfold lift.
    rewrite (core_mcp_route_only inp tn H Hr). reflexivity.
  Qed.

  Lemma main_shell_route_only m inp c :
    rel_load lc lc' same_shell_part -> route_of (is_cursor m) inp = Ok (RShell c) ->
    mt lc o_configure_logging o_log_decision an gm wd pr ar o_print (Some m) inp =
    mt lc' o_configure_logging o_log_decision an gm' wd pr ar o_print (Some m) inp.
  Proof.
    intros H Hr. rewrite !main_try_factor. cbn [bind]. unfold lift.
    rewrite (core_shell_route_only (is_cursor m) inp c H Hr). reflexivity.
  Qed.
End Three.

(* ------------------------------------------------------------------ faults only ever push towards {} / ask (C06_failures) *)
(* r' is r, or r' raises (an Exception) where r returned *)
Definition fle {A} (r' r : res A) : Prop := r' = r \/ exists e, r' = Raise e /\ is_exception e = true.

Lemma fle_refl {A} (r : res A) : fle r r.
Proof. left; reflexivity. Qed.
Lemma fle_bind {A B} (x' x : res A) (f' f : A -> res B) :
  fle x' x -> (forall a, fle (f' a) (f a)) -> fle (bind x' f') (bind x f).
Proof.
  intros [-> | (e & -> & He)] H.
  - destruct x; cbn [bind]; [apply H | left; reflexivity].
  - right. exists e. auto.
Qed.
Lemma fle_raise {A} (r : res A) e : is_exception e = true -> fle (Raise e) r.
Proof. intro H. right. eauto. Qed.

Section Faulty.
  Variables S G : Type.
  Notation config := (config S G).
  (* the fault-free world ... *)
  Variable o_resolve : str -> res str.
  Variable o_getcwd : res str.
  Variable o_load_config : str -> res config.
  Variable o_configure_logging : G -> res unit.
  Variable o_log_decision : str -> str -> res unit.
  Variable o_analyze : str -> S -> str -> res (str * str).
  Variable o_after_prep : S -> str -> list str -> res unit.
  Variable o_after_rule : S -> str -> list str -> rule -> res bool.
  Variable o_print : str -> res unit.
  (* ... and one where any of these calls, at any arguments, may raise instead *)
  Variable f_resolve : str -> res str.
  Variable f_getcwd : res str.
  Variable f_load_config : str -> res config.
  Variable f_configure_logging : G -> res unit.
  Variable f_log_decision : str -> str -> res unit.
  Variable f_analyze : str -> S -> str -> res (str * str).
  Variable f_after_prep : S -> str -> list str -> res unit.
  Variable f_after_rule : S -> str -> list str -> rule -> res bool.
  Variable f_print : str -> res unit.
  (* fnmatch and tokenize are total in both *)
  Variable o_gmatch : str -> str -> bool.
  Variable o_words : str -> list str.

  Record faulty : Prop := {
    fl_resolve : forall s, fle (f_resolve s) (o_resolve s);
    fl_getcwd : fle f_getcwd o_getcwd;
    fl_load : forall c, fle (f_load_config c) (o_load_config c);
    fl_conf : forall g, fle (f_configure_logging g) (o_configure_logging g);
    fl_log : forall d c, fle (f_log_decision d c) (o_log_decision d c);
    fl_analyze : forall c s w, fle (f_analyze c s w) (o_analyze c s w);
    fl_prep : forall s c w, fle (f_after_prep s c w) (o_after_prep s c w);
    fl_rule : forall s c w r, fle (f_after_rule s c w r) (o_after_rule s c w r);
    fl_print : forall s, fle (f_print s) (o_print s)
  }.

  Variable F : faulty.

  Notation core_o := (@core S G o_resolve o_getcwd o_load_config o_configure_logging o_log_decision
                            o_analyze o_gmatch o_words o_after_prep o_after_rule o_print).
  Notation core_f := (@core S G f_resolve f_getcwd f_load_config f_configure_logging f_log_decision
                            f_analyze o_gmatch o_words f_after_prep f_after_rule f_print).
  Notation main_o := (@main S G o_resolve o_getcwd o_load_config o_configure_logging o_log_decision
                            o_analyze o_gmatch o_words o_after_prep o_after_rule o_print).
  Notation main_f := (@main S G f_resolve f_getcwd f_load_config f_configure_logging f_log_decision
                            f_analyze o_gmatch o_words f_after_prep f_after_rule f_print).

  Lemma find_cwd_fle inp : fle (find_cwd f_resolve f_getcwd inp) (find_cwd o_resolve o_getcwd inp).
  Proof.
    unfold find_cwd. apply fle_bind; [apply fle_refl|]. intro c1.
    apply fle_bind; [apply fle_refl|]. intro c2.
    destruct (truthy c2); [|apply F]. unfold path_resolve. destruct c2; try apply fle_refl. apply F.
  Qed.

  Lemma load_stage_fle cwd :
    fle (load_stage f_load_config f_configure_logging cwd) (load_stage o_load_config o_configure_logging cwd).
  Proof.
    unfold load_stage. apply fle_bind; [apply F|]. intro cfg. apply fle_bind; [apply F|]. intro; apply fle_refl.
  Qed.

  Lemma perm_bypass_fle inp post : fle (perm_bypass f_log_decision inp post) (perm_bypass o_log_decision inp post).
  Proof.
    unfold perm_bypass. destruct (negb post); [|apply fle_refl].
    apply fle_bind; [apply fle_refl|]. intro pm. destruct (py_in_tuple pm BYPASS_MODES); [|apply fle_refl].
    apply fle_bind; [apply F|]. intro; apply fle_refl.
  Qed.

  Lemma text_outcome_fle msg : fle (text_outcome f_print msg) (text_outcome o_print msg).
  Proof.
    unfold text_outcome. destruct msg as [[|c t]|]; try apply fle_refl.
    apply fle_bind; [apply F|]. intro; apply fle_refl.
  Qed.

  Lemma after_loop_fle sh cwd ws rules acc :
    fle (after_loop f_after_rule sh cwd ws rules acc) (after_loop o_after_rule sh cwd ws rules acc).
  Proof.
    revert acc. induction rules as [|r rs IH]; intro acc; cbn [after_loop]; [apply fle_refl|].
    apply fle_bind; [apply F|]. intro b. apply IH.
  Qed.

  Lemma core_shell_fle inp he c (cfg : config) cwd :
    fle (core_shell f_log_decision f_analyze o_words f_after_prep f_after_rule f_print inp he c cfg cwd)
        (core_shell o_log_decision o_analyze o_words o_after_prep o_after_rule o_print inp he c cfg cwd).
  Proof.
    unfold core_shell. apply fle_bind; [apply perm_bypass_fle|]. intros [o|]; [apply fle_refl|].
    destruct (py_eq_str he $"PostToolUse").
    - apply fle_bind; [apply fle_refl|]. intro ws. apply fle_bind; [|apply text_outcome_fle].
      unfold match_after. apply fle_bind; [apply F|]. intro. apply after_loop_fle.
    - apply fle_bind.
      { unfold analyze. destruct c; try apply fle_refl. apply F. }
      intros [a r]. apply fle_bind; [apply F|]. intro; apply fle_refl.
  Qed.

  Lemma core_mcp_fle inp he tn (cfg : config) :
    fle (core_mcp f_log_decision o_gmatch f_print inp he tn cfg) (core_mcp o_log_decision o_gmatch o_print inp he tn cfg).
  Proof.
    unfold core_mcp. apply fle_bind; [apply perm_bypass_fle|]. intros [o|]; [apply fle_refl|].
    destruct (py_eq_str he $"PostToolUse"); [apply text_outcome_fle|].
    destruct (match_mcp o_gmatch tn cfg); [|apply fle_refl].
    apply fle_bind; [apply F|]. intro; apply fle_refl.
  Qed.

  Lemma core_after_config_fle cursor inp (cfg : config) cwd :
    fle (core_after_config f_log_decision f_analyze o_gmatch o_words f_after_prep f_after_rule f_print cursor inp cfg cwd)
        (core_after_config o_log_decision o_analyze o_gmatch o_words o_after_prep o_after_rule o_print cursor inp cfg cwd).
  Proof.
    rewrite !core_after_config_route. apply fle_bind; [apply fle_refl|]. intro he.
    apply fle_bind; [apply fle_refl|]. intros [c|tn|]; [apply core_shell_fle | apply core_mcp_fle | apply fle_refl].
  Qed.

  (* the faulty core: the same outcome, or an exception, or the answer to a ConfigError *)
  Definition cle (inp : json) (r' r : res outcome) : Prop :=
    fle r' r \/ exists msg, r' = config_error_outcome inp msg.

  Lemma core_cle cursor inp : cle inp (core_f cursor inp) (core_o cursor inp).
  Proof.
    unfold core. destruct (find_cwd_fle inp) as [-> | (e & -> & He)].
    2: { left. right. exists e. auto. }
    destruct (find_cwd o_resolve o_getcwd inp) as [cwd|e]; cbn [bind]; [|left; apply fle_refl].
    destruct (load_stage_fle cwd) as [-> | (e & -> & He)].
    - destruct (load_stage o_load_config o_configure_logging cwd) as [cfg|e]; [|left; apply fle_refl].
      left. apply core_after_config_fle.
    - destruct e; try (left; right; eexists; split; [reflexivity | exact He]).
      right. exists msg. apply config_error_branch.
  Qed.

  (* on the process: injected failures leave the answer as it was, or turn it into {}, into the
     config-error ask, or - on PostToolUse - into nothing; never into anything else (in particular
     never into allow or deny) *)
  Lemma main_fault_monotone setup e inp :
    (setup = Ok tt \/ setup = Raise OSError) ->
    stdout (main_f setup e (Ok inp)) = stdout (main_o setup e (Ok inp)) \/
    stdout (main_f setup e (Ok inp)) = [J (JObj [])] \/
    (exists m msg, stdout (main_f setup e (Ok inp)) = [J (envelope m Ask ($"config error: " ++ msg))]) \/
    (post_event inp /\ stdout (main_f setup e (Ok inp)) = []).
  Proof.
    intro Hs. rewrite !main_is_handlers by exact Hs. cbn [bind]. rewrite !main_try_factor.
    destruct (match detect_mode_from_flags e with Some m => Ok m | None => detect_mode_from_input inp end) as [m|x];
      cbn [bind]; [|left; reflexivity].
    unfold lift. destruct (core_cle (is_cursor m) inp) as [[-> | (x & -> & Hx)] | (msg & ->)].
    - left; reflexivity.
    - right; left. cbn [bind handlers]. rewrite Hx. reflexivity.
    - unfold config_error_outcome. destruct (event_of inp) as [he|x] eqn:Ee; cbn [bind handlers].
      + destruct (is_post he) eqn:P; cbn [render done stdout].
        * right; right; right. split; [exists he; auto | reflexivity].
        * right; right; left. exists m, msg. reflexivity.
      + right; left. destruct inp; cbn in Ee; try (injection Ee as <-; reflexivity); discriminate.
  Qed.
End Faulty.
