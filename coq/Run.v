(* Single entry point of the executable models: request and oracle answers are sx values.
   The same function is run extracted to OCaml (ocaml/driver.ml) and inside Coq (vm_compute).
   Each model contributes one line: its Entry module's [entry]. *)
From DippyV Require Import Base.Str Base.Sx Entry.Common.
From DippyV Require Entry.WalkerE Entry.LadderE Entry.ConfigTextE Entry.RulesE Entry.SqlE Entry.PyArgsE Entry.LayersE Entry.LoggingE Entry.CacheE Entry.WrappersE Entry.HookE Entry.StatuslineE.

Definition run (orc : oracle) (inp : sx) : sx :=
  match inp with
  | L (A cmd :: args) =>
      first_some [
        Entry.WalkerE.entry orc cmd args;
        Entry.LadderE.entry orc cmd args;
        Entry.ConfigTextE.entry orc cmd args;
        Entry.RulesE.entry orc cmd args;
        Entry.SqlE.entry orc cmd args;
        Entry.PyArgsE.entry orc cmd args;
        Entry.LayersE.entry orc cmd args;
        Entry.LoggingE.entry orc cmd args;
        Entry.CacheE.entry orc cmd args;
        Entry.WrappersE.entry orc cmd args;
        Entry.HookE.entry orc cmd args;
        Entry.StatuslineE.entry orc cmd args
      ]
  | _ => A $"?malformed-request"
  end.
