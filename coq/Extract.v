From Coq Require Import Extraction ExtrOcamlBasic.
From DippyV Require Import Run.
Extraction Language OCaml.
Extraction "model.ml" Run.run.
