(* The verdict lattice allow < ask < deny and _combine. *)
From Coq Require Import List Bool.
Import ListNotations.

Inductive verdict := Allow | Ask | Deny.

Definition vmax (a b : verdict) : verdict :=
  match a, b with
  | Deny, _ | _, Deny => Deny
  | Ask, _ | _, Ask => Ask
  | Allow, Allow => Allow
  end.

(* _combine: deny if any deny, else ask if any ask, else allow (also for the empty list) *)
Definition is_deny v := match v with Deny => true | _ => false end.
Definition is_ask v := match v with Ask => true | _ => false end.
Definition is_allow v := match v with Allow => true | _ => false end.
Definition combine (l : list verdict) : verdict :=
  if existsb is_deny l then Deny else if existsb is_ask l then Ask else Allow.

Definition vle (a b : verdict) : bool :=
  match a, b with
  | Allow, _ => true
  | Ask, Allow => false
  | Ask, _ => true
  | Deny, Deny => true
  | Deny, _ => false
  end.

Definition verdict_eqb (a b : verdict) : bool :=
  match a, b with Allow, Allow | Ask, Ask | Deny, Deny => true | _, _ => false end.
