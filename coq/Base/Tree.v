(* Generic rose tree for ASTs (Parable's bash AST, Python's ast): kind, string attributes,
   boolean attributes, labelled children in attribute order. *)
From DippyV Require Import Base.Str Base.Sx.

Inductive tree := T (kind : str) (strs : list (str * str)) (flags : list (str * bool)) (kids : list (str * tree)).

Definition kind_of t := match t with T k _ _ _ => k end.
Definition strs_of t := match t with T _ s _ _ => s end.
Definition flags_of t := match t with T _ _ f _ => f end.
Definition kids_of t := match t with T _ _ _ k => k end.

Section Ind.
  Variable P : tree -> Prop.
  Hypothesis H : forall k ss fs ks, Forall (fun p => P (snd p)) ks -> P (T k ss fs ks).
  Fixpoint tree_ind' (t : tree) : P t :=
    match t with
    | T k ss fs ks =>
        H k ss fs ks
          ((fix go (l : list (str * tree)) : Forall (fun p => P (snd p)) l :=
              match l with
              | [] => Forall_nil _
              | (n, c) :: l' => Forall_cons (n, c) (tree_ind' c) (go l')
              end) ks)
    end.
End Ind.

Definition is_kind (k : string) (t : tree) : bool := str_eqb (kind_of t) (s2l k).

Fixpoint assoc_str (k : str) (l : list (str * str)) : option str :=
  match l with [] => None | (a, b) :: r => if str_eqb a k then Some b else assoc_str k r end.
Fixpoint assoc_flag (k : str) (l : list (str * bool)) : option bool :=
  match l with [] => None | (a, b) :: r => if str_eqb a k then Some b else assoc_flag k r end.

Definition attr (k : string) (t : tree) : option str := assoc_str (s2l k) (strs_of t).
Definition attr_d (k : string) (t : tree) : str := match attr k t with Some s => s | None => [] end.
Definition flag (k : string) (t : tree) : option bool := assoc_flag (s2l k) (flags_of t).
Definition children (k : string) (t : tree) : list tree :=
  map snd (filter (fun p => str_eqb (fst p) (s2l k)) (kids_of t)).
Definition child (k : string) (t : tree) : option tree :=
  match children k t with c :: _ => Some c | [] => None end.

(* all descendants, self included, through every labelled child *)
Fixpoint desc (t : tree) : list tree :=
  t :: match t with T _ _ _ ks => flat_map (fun p => desc (snd p)) ks end.

Lemma desc_self t : In t (desc t).
Proof. destruct t; simpl; auto. Qed.

Lemma desc_kid t l c d : In (l, c) (kids_of t) -> In d (desc c) -> In d (desc t).
Proof.
  destruct t as [k ss fs ks]; simpl; intros Hin Hd. right.
  apply in_flat_map. exists (l, c); auto.
Qed.

Lemma desc_trans t c d : In c (desc t) -> In d (desc c) -> In d (desc t).
Proof.
  induction t as [k ss fs ks IH] using tree_ind'. simpl. intros [<-|Hc] Hd.
  - exact Hd.
  - right. apply in_flat_map in Hc as [[l x] [Hin Hx]]. apply in_flat_map. exists (l, x). split; auto.
    rewrite Forall_forall in IH. apply (IH (l, x) Hin); auto.
Qed.

(* decoding from the wire format:  (kind ((k v)...) ((k b)...) ((label tree)...)) *)
Fixpoint tree_of_sx (x : sx) : tree :=
  match x with
  | L [A k; L ss; L fs; L ks] =>
      T k
        (map (fun p => (sx_str (sx_nth 0 p), sx_str (sx_nth 1 p))) ss)
        (map (fun p => (sx_str (sx_nth 0 p), sx_bool (sx_nth 1 p))) fs)
        ((fix go (l : list sx) : list (str * tree) :=
            match l with
            | [] => []
            | L [A lbl; c] :: r => (lbl, tree_of_sx c) :: go r
            | _ :: r => go r
            end) ks)
  | _ => T $"?malformed" [] [] []
  end.
