(* Strings as lists of Unicode code points; the small part of Python's str API the models use. *)
From Coq Require Export NArith Bool Ascii String List Lia.
Export ListNotations.
Open Scope string_scope.
Open Scope list_scope.
Open Scope N_scope.

Definition str := list N.

Definition ch (a : ascii) : N := N_of_ascii a.
Fixpoint s2l (s : string) : str :=
  match s with EmptyString => [] | String a r => ch a :: s2l r end.
Notation "$ s" := (s2l s) (at level 1, only parsing).

Fixpoint str_eqb (a b : str) : bool :=
  match a, b with
  | [], [] => true
  | x :: a', y :: b' => N.eqb x y && str_eqb a' b'
  | _, _ => false
  end.

Lemma str_eqb_spec a b : reflect (a = b) (str_eqb a b).
Proof.
  revert b; induction a as [|x a IH]; intros [|y b]; simpl; try (constructor; congruence).
  destruct (N.eqb_spec x y) as [->|Hn]; simpl.
  - destruct (IH b) as [->|Hn]; constructor; congruence.
  - constructor; congruence.
Qed.
Lemma str_eqb_eq a b : str_eqb a b = true <-> a = b.
Proof. destruct (str_eqb_spec a b); split; congruence. Qed.
Lemma str_eqb_refl a : str_eqb a a = true.
Proof. apply str_eqb_eq; reflexivity. Qed.

Definition mem_str (s : str) (l : list str) : bool := existsb (str_eqb s) l.
Definition mem_ch (c : N) (l : list N) : bool := existsb (N.eqb c) l.

Lemma mem_str_In s l : mem_str s l = true <-> In s l.
Proof.
  unfold mem_str; rewrite existsb_exists; split.
  - intros [x [Hx He]]. apply str_eqb_eq in He; subst; auto.
  - intro H; exists s; split; auto. apply str_eqb_refl.
Qed.
Lemma mem_ch_In c l : mem_ch c l = true <-> In c l.
Proof.
  unfold mem_ch; rewrite existsb_exists; split.
  - intros [x [Hx He]]. apply N.eqb_eq in He; subst; auto.
  - intro H; exists c; split; auto. apply N.eqb_refl.
Qed.

(* s.startswith(p) *)
Fixpoint prefixb (p s : str) : bool :=
  match p, s with
  | [], _ => true
  | x :: p', y :: s' => N.eqb x y && prefixb p' s'
  | _ :: _, [] => false
  end.
Definition suffixb (p s : str) : bool := prefixb (rev p) (rev s).

Lemma prefixb_spec p s : prefixb p s = true <-> exists r, s = p ++ r.
Proof.
  revert s; induction p as [|x p IH]; intros s; simpl.
  - split; eauto.
  - destruct s as [|y s]; [split; [discriminate| intros [r H]; discriminate]|].
    rewrite andb_true_iff, N.eqb_eq, IH. split.
    + intros [-> [r ->]]. eauto.
    + intros [r H]. injection H as -> ->. eauto.
Qed.

(* sub in s *)
Fixpoint infixb (p s : str) : bool :=
  prefixb p s || match s with [] => false | _ :: s' => infixb p s' end.

Definition last_ch (s : str) : option N := match rev s with [] => None | c :: _ => Some c end.
Definition first_ch (s : str) : option N := match s with [] => None | c :: _ => Some c end.

(* s.lstrip(chars) / rstrip / strip with an explicit character set *)
Fixpoint lstrip (cs : list N) (s : str) : str :=
  match s with
  | c :: s' => if mem_ch c cs then lstrip cs s' else s
  | [] => []
  end.
Definition rstrip (cs : list N) (s : str) : str := rev (lstrip cs (rev s)).
Definition strip (cs : list N) (s : str) : str := rstrip cs (lstrip cs s).

(* s.find(c) as an index *)
Fixpoint find_ch (c : N) (s : str) : option nat :=
  match s with
  | [] => None
  | x :: s' => if N.eqb x c then Some O else option_map S (find_ch c s')
  end.

(* s.replace(a, "") for a single character a *)
Definition remove_ch (c : N) (s : str) : str := filter (fun x => negb (N.eqb x c)) s.

(* sep.join(parts) *)
Fixpoint join (sep : str) (l : list str) : str :=
  match l with
  | [] => []
  | [x] => x
  | x :: l' => x ++ sep ++ join sep l'
  end.

(* s.split(c) for a single separator character (Python keeps empty fields) *)
Fixpoint split_ch_aux (c : N) (s : str) (cur : str) : list str :=
  match s with
  | [] => [rev cur]
  | x :: s' => if N.eqb x c then rev cur :: split_ch_aux c s' [] else split_ch_aux c s' (x :: cur)
  end.
Definition split_ch (c : N) (s : str) : list str := split_ch_aux c s [].

(* s.split() : split on runs of white space, no empty fields *)
Fixpoint split_ws_aux (ws : list N) (s : str) (cur : str) : list str :=
  match s with
  | [] => match cur with [] => [] | _ => [rev cur] end
  | x :: s' =>
      if mem_ch x ws then
        match cur with [] => split_ws_aux ws s' [] | _ => rev cur :: split_ws_aux ws s' [] end
      else split_ws_aux ws s' (x :: cur)
  end.
Definition split_ws (ws : list N) (s : str) : list str := split_ws_aux ws s [].

Definition ascii_digits : list N := [48;49;50;51;52;53;54;55;56;57].
(* s.isascii() and s.isdigit() *)
Definition is_ascii_digits (s : str) : bool :=
  match s with [] => false | _ => forallb (fun c => mem_ch c ascii_digits) s end.

Definition nonempty {A} (l : list A) : bool := match l with [] => false | _ => true end.

(* membership in a list of inclusive code-point ranges (interpreter tables) *)
Definition in_ranges (c : N) (rs : list (N * N)) : bool :=
  existsb (fun r => N.leb (fst r) c && N.leb c (snd r)) rs.
