(* A universal S-expression value: the wire format between the harness and the models.
   Decoders are total Gallina functions so that the same input text is run by the
   extracted OCaml driver and by vm_compute inside Coq. *)
From DippyV Require Import Base.Str Base.Verdict.

Inductive sx := A (s : str) | L (l : list sx).

Fixpoint sx_eqb (a b : sx) : bool :=
  match a, b with
  | A s, A t => str_eqb s t
  | L l, L m =>
      (fix go (l m : list sx) : bool :=
         match l, m with
         | [], [] => true
         | x :: l', y :: m' => sx_eqb x y && go l' m'
         | _, _ => false
         end) l m
  | _, _ => false
  end.

Definition sx_str (x : sx) : str := match x with A s => s | L _ => [] end.
Definition sx_list (x : sx) : list sx := match x with L l => l | A _ => [] end.
Definition sx_strs (x : sx) : list str := map sx_str (sx_list x).
Definition sx_bool (x : sx) : bool := match x with A [49] => true | _ => false end.   (* "1" *)
Definition sx_of_bool (b : bool) : sx := A (if b then [49] else [48]).
Definition sx_nth (n : nat) (x : sx) : sx := nth n (sx_list x) (L []).

Definition sx_of_verdict (v : verdict) : sx :=
  A (match v with Allow => $"allow" | Ask => $"ask" | Deny => $"deny" end).
Definition verdict_of_sx (x : sx) : verdict :=
  match x with
  | A s => if str_eqb s $"allow" then Allow else if str_eqb s $"deny" then Deny else Ask
  | _ => Ask
  end.
Definition sx_of_strs (l : list str) : sx := L (map A l).
Definition sx_opt {T} (f : T -> sx) (o : option T) : sx :=
  match o with None => L [] | Some x => L [f x] end.
Definition opt_of_sx {T} (f : sx -> T) (x : sx) : option T :=
  match x with L [y] => Some (f y) | _ => None end.

(* an oracle is a query/answer function over sx; a recorded transcript is an association list *)
Definition oracle := sx -> sx.
Fixpoint lookup (tbl : list (sx * sx)) (q : sx) : sx :=
  match tbl with
  | [] => A $"?missing"
  | (k, v) :: r => if sx_eqb k q then v else lookup r q
  end.
