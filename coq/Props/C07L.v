(* C07 (ladder half) - user rules decide over the built-in knowledge.  Property theorems only;
   the matcher half (last match wins, inert rules, literal/anchor matching) is Props/C07.v. *)
From DippyV Require Import Base.Str Base.Verdict Base.Tree Gen.Tables Model.Walker Model.Ladder Proofs.LadderP Proofs.AssignP.

Section Oracles.
  Variable mcmd : ctx -> list str -> option verdict.
  Variable handler : ctx -> list str -> option hres.
  Variable mredir : str -> str -> option verdict.
  Variable astr : ctx -> str -> verdict.
  Notation ladder := (ladder mcmd handler mredir astr).

  (* the deciding rule's verdict is the ladder's verdict, whatever the built-in class of the command
     (safe list, wrapper, handler, unknown) - in either direction; the rules are consulted on the
     words AFTER the environment-assignment prefix *)
  Theorem C07_supreme : forall c words t r v,
    skip_assignments words = t :: r -> mcmd c (t :: r) = Some v -> ladder c words = v.
  Proof. exact (rule_supreme mcmd handler mredir astr). Qed.

  (* an unwrapped wrapper hands the inner words to the same ladder: the rules see them *)
  Theorem C07_wrappers : forall c w rest inner,
    is_assignment w = false -> mem_str w WRAPPER_COMMANDS = true -> mcmd c (w :: rest) = None ->
    (str_eqb w $"command" && mem_str (nth 0 rest []) COMMAND_V_FLAGS) = false ->
    skip_wrapper_args w rest = inner -> inner <> [] ->
    (negb (str_eqb w $"time") && is_assignment (hd [] inner)) = false ->
    ladder c (w :: rest) = ladder c inner.
  Proof. exact (wrapper_transparent mcmd handler mredir astr). Qed.

  Theorem C07_prefix : forall c pre ws, forallb is_assignment pre = true -> ladder c (pre ++ ws) = ladder c ws.
  Proof. exact (env_prefix mcmd handler mredir astr). Qed.
End Oracles.
Print Assumptions C07_supreme.
Print Assumptions C07_wrappers.
Print Assumptions C07_prefix.

(* when no rule matches anything the verdict is the built-in one *)
Theorem C07_none : forall mcmd handler mredir astr c, (forall ts, mcmd c ts = None) ->
  forall words, ladder mcmd handler mredir astr c words = ladder (fun _ _ => None) handler mredir astr c words.
Proof. exact no_rule_builtin. Qed.
Print Assumptions C07_none.

(* which words are skipped as an assignment prefix before the rules are consulted: exactly bash's assignment
   words NAME=v, NAME+=v, NAME[sub]=v, NAME[sub]+=v (NAME an ASCII identifier, sub without "[" and "]": bash matches brackets inside a subscript, `a[[]=]` is a command name) - so a command
   whose name merely contains "=" (./a=b.sh) is offered to the rules under its own name *)
Theorem C07_assignment_words : forall w, is_assignment w = true <-> assignment_word w.
Proof. exact is_assignment_spec. Qed.
Print Assumptions C07_assignment_words.

Theorem C07_bracket_in_subscript_is_a_command_name : forall c name sub v,
  forallb ident_char name = true -> mem_ch 91 sub = true -> mem_ch 93 sub = false ->
  is_assignment (c :: name ++ 91 :: sub ++ 93 :: v) = false.
Proof. exact bracket_in_subscript_not_assignment. Qed.
Print Assumptions C07_bracket_in_subscript_is_a_command_name.

Theorem C07_command_name_kept : forall c r, ident_start c = false -> is_assignment (c :: r) = false.
Proof. exact not_assignment_head. Qed.
Print Assumptions C07_command_name_kept.

Example C07_assignment_example :
  map is_assignment [$"X=1"; $"PATH+=:/opt/bin"; $"a[0]=v"; $"a[k]+=v"; $"./a=b.sh"; $"--opt=v"; $"1a=b"; $"a[=b"; $"ab"]
  = [true; true; true; true; false; false; false; false; false].
Proof. vm_compute. reflexivity. Qed.
