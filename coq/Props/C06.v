(* C06 - Hook protocol is total and fails closed.
   Model: Model/Hook.v [main] = dippy.py main() with its try/except structure; json.load,
   Path.resolve, Path.cwd, load_config, configure_logging, log_decision, analyze, fnmatch, tokenize,
   the after-rule matcher and print are arbitrary functions that may return or raise.
   Property theorems only; proofs are in Proofs/HookP.v. *)
From Coq Require Import List Bool NArith String.
From DippyV Require Import Base.Str Base.Verdict Gen.Tables Model.Hook Model.HookView Proofs.HookP Proofs.HookViewP.
Import ListNotations.

Section Oracles.
  Variables S G : Type.
  Variable o_resolve : str -> res str.
  Variable o_getcwd : res str.
  Variable o_load_config : str -> res (config S G).
  Variable o_configure_logging : G -> res unit.
  Variable o_log_decision : str -> str -> res unit.
  Variable o_analyze : str -> S -> str -> res (str * str).
  Variable o_gmatch : str -> str -> bool.
  Variable o_words : str -> list str.
  Variable o_after_prep : S -> str -> list str -> res unit.
  Variable o_after_rule : S -> str -> list str -> rule -> res bool.
  Variable o_print : str -> res unit.
  Notation main := (@main S G o_resolve o_getcwd o_load_config o_configure_logging o_log_decision
                          o_analyze o_gmatch o_words o_after_prep o_after_rule o_print).
  Notation main_try := (@main_try S G o_resolve o_getcwd o_load_config o_configure_logging o_log_decision
                          o_analyze o_gmatch o_words o_after_prep o_after_rule o_print).
  Notation core := (@core S G o_resolve o_getcwd o_load_config o_configure_logging o_log_decision
                          o_analyze o_gmatch o_words o_after_prep o_after_rule o_print).
  Notation X := (oracles_exc_only S G o_resolve o_getcwd o_load_config o_configure_logging o_log_decision
                                  o_analyze o_after_prep o_after_rule o_print).
  Notation legit_allow := (legit_allow S G o_resolve o_getcwd o_load_config o_configure_logging o_log_decision
                                       o_analyze o_gmatch).

  (* Every run - any stdin (parsed value of any shape, or json.load raising anything), any flags and
     environment, any behaviour of every function main() calls, as long as what they raise is an
     Exception - ends with exit status 0 and no traceback. *)
  Theorem C06_total : X -> forall setup e stdin,
    (setup = Ok tt \/ setup = Raise OSError) -> exc_only stdin ->
    exit_code (main setup e stdin) = 0%nat /\ traceback (main setup e stdin) = false.
  Proof. exact (main_total S G o_resolve o_getcwd o_load_config o_configure_logging o_log_decision
                           o_analyze o_gmatch o_words o_after_prep o_after_rule o_print). Qed.

  (* A pre-execution event (hook_event_name missing, of any type, or any str but "PostToolUse") and
     unreadable stdin alike produce exactly one JSON object: {} or a decision envelope. *)
  Theorem C06_one_object : forall setup e stdin,
    X -> (setup = Ok tt \/ setup = Raise OSError) -> exc_only stdin -> stdin_pre stdin ->
    exists j, stdout (main setup e stdin) = [J j] /\ (j = JObj [] \/ exists m v r, j = envelope m v r).
  Proof. exact (main_one_object S G o_resolve o_getcwd o_load_config o_configure_logging o_log_decision
                                o_analyze o_gmatch o_words o_after_prep o_after_rule o_print). Qed.

  (* An allow envelope on stdout has one of three origins (legit_allow, Proofs/HookP.v): config loaded,
     pre-execution event, log_decision returned, and (a) a bypass permission mode on a shell / MCP
     call, or (b) analyze returned ("allow", r) on a command that is a str, or (c) the last matching
     MCP rule says allow.  No hypothesis on the oracles. *)
  Theorem C06_allow_only : forall setup e inp m r,
    stdout (main setup e (Ok inp)) = [J (envelope m Allow r)] ->
    exists m', mode_of e inp = Ok m' /\ legit_allow (is_cursor m') inp r.
  Proof. exact (main_allow_only S G o_resolve o_getcwd o_load_config o_configure_logging o_log_decision
                                o_analyze o_gmatch o_words o_after_prep o_after_rule o_print). Qed.

  (* ... and exactly those: the characterisation is an equivalence on the mode-free core *)
  Theorem C06_allow_exact : forall cursor inp r,
    core cursor inp = Ok (ODecision Allow r) <-> legit_allow cursor inp r.
  Proof. exact (fun cursor inp r => conj
      (core_allow_only S G o_resolve o_getcwd o_load_config o_configure_logging o_log_decision
                       o_analyze o_gmatch o_words o_after_prep o_after_rule o_print cursor inp r)
      (core_allow_if S G o_resolve o_getcwd o_load_config o_configure_logging o_log_decision
                     o_analyze o_gmatch o_words o_after_prep o_after_rule o_print cursor inp r)). Qed.

  (* Failures.  (1) whatever is raised inside the try - a typed-access failure or any oracle - ends as {} *)
  Theorem C06_failures_empty : forall setup e stdin x,
    (setup = Ok tt \/ setup = Raise OSError) ->
    (inp <- stdin ;; main_try (detect_mode_from_flags e) inp) = Raise x -> is_exception x = true ->
    main setup e stdin = done [J (JObj [])].
  Proof. exact (main_failure_empty S G o_resolve o_getcwd o_load_config o_configure_logging o_log_decision
                                   o_analyze o_gmatch o_words o_after_prep o_after_rule o_print). Qed.

  (* (2) a ConfigError from load_config / configure_logging is answered with an ask envelope on a
     pre-execution event (and with nothing on PostToolUse, see C19) *)
  Theorem C06_failures_config : forall explicit inp m msg,
    (match explicit with Some m => Ok m | None => detect_mode_from_input inp end) = Ok m ->
    config_error_at S G o_resolve o_getcwd o_load_config o_configure_logging inp msg ->
    (exists he, event_of inp = Ok he /\ is_post he = false) ->
    main_try explicit inp = Ok [J (envelope m Ask ($"config error: " ++ msg))].
  Proof. exact (main_try_config_error_pre S G o_resolve o_getcwd o_load_config o_configure_logging o_log_decision
                                          o_analyze o_gmatch o_words o_after_prep o_after_rule o_print). Qed.

  (* (3) a top-level JSON value that is not an object (null, bool, number, str, list) always raises *)
  Theorem C06_failures_nonobject : forall explicit inp,
    (forall kv, inp <> JObj kv) -> exists x, main_try explicit inp = Raise x /\ is_exception x = true.
  Proof. exact (main_try_nonobject S G o_resolve o_getcwd o_load_config o_configure_logging o_log_decision
                                   o_analyze o_gmatch o_words o_after_prep o_after_rule o_print). Qed.

  (* (4) a well-formed Claude / Gemini-shaped shell request, under any mode, in closed form: resolve, load, configure, analyze,
     log_decision in this order; the first one that raises decides ({} , or ask for ConfigError);
     only if all five return is the verdict of analyze printed. *)
  Theorem C06_failures_chain : forall m tn s cwds extra,
    In tn SHELL_TOOL_NAMES -> cwds <> [] ->
    is_post (field $"hook_event_name" extra (JStr $"PreToolUse")) = false ->
    py_in_tuple (field $"permission_mode" extra (JStr $"default")) BYPASS_MODES = false ->
    main_try (Some m) (tool_input_shape tn (JStr s) (JStr cwds) extra)
    = wf_shell_run S G o_resolve o_load_config o_configure_logging o_log_decision o_analyze m s cwds.
  Proof. exact (wf_shell_run_spec S G o_resolve o_getcwd o_load_config o_configure_logging o_log_decision
                                  o_analyze o_gmatch o_words o_after_prep o_after_rule o_print). Qed.

  (* (6) ONLY THE HOST-WRITTEN LEVEL OF THE PAYLOAD COUNTS.  host_view (Model/HookView.v) keeps of the payload the
     top-level members named in HOOK_TOP_KEYS and, of a tool_input object, the members named in
     HOOK_TOOL_INPUT_KEYS (both tables regenerated from dippy.py on every run) and nothing else.  The process -
     stdout, exit status, traceback - is a function of that view: whatever else the payload holds, at any
     depth, under any name (a permission_mode inside the model-written tool_input, a hook_event_name inside
     tool_response, ...) cannot change the answer, for any flags, environment and behaviour of the oracles. *)
  Theorem C06_host_view : forall setup e inp, main setup e (Ok (host_view inp)) = main setup e (Ok inp).
  Proof. exact (main_view S G o_resolve o_getcwd o_load_config o_configure_logging o_log_decision
                          o_analyze o_gmatch o_words o_after_prep o_after_rule o_print). Qed.
  Theorem C06_host_level_only : forall setup e a b,
    host_view a = host_view b -> main setup e (Ok a) = main setup e (Ok b).
  Proof. exact (main_host_level_only S G o_resolve o_getcwd o_load_config o_configure_logging o_log_decision
                                     o_analyze o_gmatch o_words o_after_prep o_after_rule o_print). Qed.
End Oracles.
Print Assumptions C06_host_view.
Print Assumptions C06_host_level_only.
Print Assumptions C06_total.
Print Assumptions C06_one_object.
Print Assumptions C06_allow_only.
Print Assumptions C06_allow_exact.
Print Assumptions C06_failures_empty.
Print Assumptions C06_failures_config.
Print Assumptions C06_failures_nonobject.
Print Assumptions C06_failures_chain.

(* (5) failures injected anywhere: take any world of oracles and any other world that differs from it only
   in that some calls - any of resolve, cwd, load_config, configure_logging, log_decision, analyze, the
   after-rule matcher, print; at any arguments; any number of them - raise an Exception instead of
   returning.  Then the answer is the one of the first world, or {}, or the config-error ask, or - on
   PostToolUse - nothing.  Nothing
   else: a failure never produces an allow or a deny that was not there. *)
Section Faults.
  Variables S G : Type.
  Variable o_resolve f_resolve : str -> res str.
  Variable o_getcwd f_getcwd : res str.
  Variable o_load_config f_load_config : str -> res (config S G).
  Variable o_configure_logging f_configure_logging : G -> res unit.
  Variable o_log_decision f_log_decision : str -> str -> res unit.
  Variable o_analyze f_analyze : str -> S -> str -> res (str * str).
  Variable o_after_prep f_after_prep : S -> str -> list str -> res unit.
  Variable o_after_rule f_after_rule : S -> str -> list str -> rule -> res bool.
  Variable o_print f_print : str -> res unit.
  Variable o_gmatch : str -> str -> bool.
  Variable o_words : str -> list str.

  Theorem C06_failures_monotone :
    faulty S G o_resolve o_getcwd o_load_config o_configure_logging o_log_decision o_analyze o_after_prep o_after_rule o_print
               f_resolve f_getcwd f_load_config f_configure_logging f_log_decision f_analyze f_after_prep f_after_rule f_print ->
    forall setup e inp, (setup = Ok tt \/ setup = Raise OSError) ->
    let good := @main S G o_resolve o_getcwd o_load_config o_configure_logging o_log_decision o_analyze o_gmatch o_words
                      o_after_prep o_after_rule o_print setup e (Ok inp) in
    let bad := @main S G f_resolve f_getcwd f_load_config f_configure_logging f_log_decision f_analyze o_gmatch o_words
                     f_after_prep f_after_rule f_print setup e (Ok inp) in
    stdout bad = stdout good \/ stdout bad = [J (JObj [])] \/
    (exists m msg, stdout bad = [J (envelope m Ask ($"config error: " ++ msg))]) \/
    (post_event inp /\ stdout bad = []).
  Proof. exact (main_fault_monotone S G o_resolve o_getcwd o_load_config o_configure_logging o_log_decision o_analyze
                                    o_after_prep o_after_rule o_print f_resolve f_getcwd f_load_config f_configure_logging
                                    f_log_decision f_analyze f_after_prep f_after_rule f_print o_gmatch o_words). Qed.
End Faults.
Print Assumptions C06_failures_monotone.

(* ... and which additions are invisible to the view: (a) a member under any name the hook does not look up,
   anywhere in the payload object; (b) a member INSIDE tool_input under any name but command / cwd; what tool_input
   is never asked for is stated outright in (c).  The bypass test of C06_allow_only (bypass_of) reads the view. *)
Theorem C06_decoy_top : forall n k v kv,
  mem_str k HOOK_TOP_KEYS = false -> host_view (JObj (insert_at n (k, v) kv)) = host_view (JObj kv).
Proof. exact decoy_top_inert. Qed.
Theorem C06_decoy_tool_input : forall n k v kv,
  mem_str k HOOK_TOOL_INPUT_KEYS = false -> host_view (JObj (decoy_in_tool_input n k v kv)) = host_view (JObj kv).
Proof. exact decoy_tool_input_inert. Qed.
(* the view is a normal form: member order and repeated members are gone by construction, and a tool_input that
   holds nothing the hook reads is the same as none *)
Theorem C06_view_empty_tool_input : forall n kv,
  assoc $"tool_input" kv = None -> host_view (JObj (insert_at n ($"tool_input", JObj []) kv)) = host_view (JObj kv).
Proof. exact view_empty_tool_input. Qed.
Print Assumptions C06_view_empty_tool_input.
Theorem C06_tool_input_read_set :
  mem_str $"permission_mode" HOOK_TOOL_INPUT_KEYS = false /\ mem_str $"hook_event_name" HOOK_TOOL_INPUT_KEYS = false /\
  mem_str $"tool_name" HOOK_TOOL_INPUT_KEYS = false /\ mem_str $"tool_input" HOOK_TOOL_INPUT_KEYS = false.
Proof. exact tool_input_read_set. Qed.
Theorem C06_bypass_host_level : forall inp, bypass_of (host_view inp) = bypass_of inp.
Proof. exact bypass_of_view. Qed.
Print Assumptions C06_decoy_top.
Print Assumptions C06_decoy_tool_input.
Print Assumptions C06_tool_input_read_set.
Print Assumptions C06_bypass_host_level.

(* Non-vacuity and the boundary of C06_total. *)
Definition cfg0 : config unit unit :=
  {| c_shell := tt; c_mcp := []; c_after := []; c_after_mcp := []; c_log := tt |}.
Definition demo_main (an : str -> unit -> str -> res (str * str)) (lg : str -> str -> res unit) :=
  @main unit unit (fun s => Ok s) (Ok $"/w") (fun _ => Ok cfg0) (fun _ => Ok tt) lg an
        (fun _ _ => false) (fun _ => []) (fun _ _ _ => Ok tt) (fun _ _ _ _ => Ok false) (fun _ => Ok tt)
        (Ok tt) {| argv := []; e_claude := None; e_gemini := None; e_cursor := None |}.
Definition bash_ls : json := tool_input_shape $"Bash" (JStr $"ls") (JStr $"/w") [].

(* analysis says allow -> the allow envelope *)
Example C06_example_allow :
  demo_main (fun _ _ _ => Ok ($"allow", $"ls")) (fun _ _ => Ok tt) (Ok bash_ls)
  = done [J (envelope Claude Allow $"ls")].
Proof. vm_compute. reflexivity. Qed.
(* analyze raises RecursionError -> {} *)
Example C06_example_fault :
  demo_main (fun _ _ _ => Raise RecursionError) (fun _ _ => Ok tt) (Ok bash_ls) = done [J (JObj [])].
Proof. vm_compute. reflexivity. Qed.
(* log_decision raises after an allow analysis -> {} : the decision is withheld *)
Example C06_example_log_fault :
  demo_main (fun _ _ _ => Ok ($"allow", $"ls")) (fun _ _ => Raise OSError) (Ok bash_ls) = done [J (JObj [])].
Proof. vm_compute. reflexivity. Qed.
(* the command is a list: analyze's command.strip() raises -> {} even though the oracle would allow *)
Example C06_example_nonstr :
  demo_main (fun _ _ _ => Ok ($"allow", $"ls")) (fun _ _ => Ok tt)
            (Ok (tool_input_shape $"Bash" (JArr [JStr $"ls"]) (JStr $"/w") [])) = done [J (JObj [])].
Proof. vm_compute. reflexivity. Qed.
(* tool_name is a dict: .startswith raises before `in SHELL_TOOL_NAMES` could (TypeError) -> {} *)
Example C06_example_tool_name_dict :
  demo_main (fun _ _ _ => Ok ($"allow", $"ls")) (fun _ _ => Ok tt)
            (Ok (JObj [($"tool_name", JObj [($"a", JNull)]); ($"tool_input", JObj [($"command", JStr $"ls")])]))
  = done [J (JObj [])].
Proof. vm_compute. reflexivity. Qed.
(* the hypothesis of C06_total is needed: a BaseException-only class (KeyboardInterrupt) escapes the
   `except Exception` clause - status 1 with a traceback.  This is Python's semantics, not a defect. *)
Example C06_total_needs_exception_only :
  demo_main (fun _ _ _ => Raise (BaseOnly $"KeyboardInterrupt")) (fun _ _ => Ok tt) (Ok bash_ls) = crash.
Proof. vm_compute. reflexivity. Qed.

(* a bypass mode written into the tool call's own arguments is not a host declaration: the command is analysed *)
Definition gemini_decoy : json :=
  JObj [($"tool_name", JStr $"run_shell_command");
        ($"tool_input", JObj [($"command", JStr $"rm -rf x"); ($"permission_mode", JStr $"bypassPermissions")]);
        ($"cwd", JStr $"/w")].
Example C06_example_decoy_view :
  host_view gemini_decoy = host_view (tool_input_shape $"run_shell_command" (JStr $"rm -rf x") (JStr $"/w") []).
Proof. vm_compute. reflexivity. Qed.
Example C06_example_decoy_bypass :
  demo_main (fun _ _ _ => Ok ($"ask", $"rm")) (fun _ _ => Ok tt) (Ok gemini_decoy) = done [J (envelope Gemini Ask $"rm")].
Proof. vm_compute. reflexivity. Qed.
(* ... while the same mode at the top level, where the host writes it, is one *)
Example C06_example_host_bypass :
  demo_main (fun _ _ _ => Ok ($"ask", $"rm")) (fun _ _ => Ok tt)
            (Ok (tool_input_shape $"run_shell_command" (JStr $"rm -rf x") (JStr $"/w") [($"permission_mode", JStr $"bypassPermissions")]))
  = done [J (envelope Gemini Allow $"bypassPermissions")].
Proof. vm_compute. reflexivity. Qed.
