(* C20 - "Statusline never crashes; its cache stays confined and untorn".
   Property theorems only; the proofs are in Proofs/SlPathP.v, SlMainP.v, SlAtomicP.v.

   The model follows /repo after the repairs c6068c5 (guard in bin/dippy-statusline), fe4fc32 (a
   transcript_path that is not a str is ignored), 16f7bd5 (one line, also from the cache) and b2d8f58 (the
   MCP cache is mcp.servers).  The first three are switches of the model ([fixes]; [current] = all on), so
   that the behaviour before each repair stays stated and refuted (the *_legacy_refuted theorems): a revert
   is recognised with the original witness.

   Full statement, now proved at full strength:
     for every stdin and every state of the cache / log / settings / transcript files the command exits 0
     with non-empty stdout and no traceback (C20_total), and stdout is a single line (C20_oneline: for EVERY
     input, data-source answer and cache content, not only for inputs without line breaks).  The cache entry
     and its tmp file live inside CACHE_DIR whatever the session id and never coincide with the MCP cache or
     its tmp file (C20_confine*, C20_mcp_no_alias); concurrent or killed invocations never make a reader see a
     partial or mixed line (C20_atomic). *)
From Coq Require Import ZArith.
From DippyV Require Import Base.Str Gen.Tables Model.Statusline Proofs.SlPathP Proofs.SlMainP Proofs.SlAtomicP.

(* ------------------------------------------------------------------ confinement *)
(* every session id that has a cache path at all: the path is CACHE_DIR "/" name with a name that
   contains no "/" and is neither "." nor ".."; base = $XDG_CACHE_HOME or ~/.cache, arbitrary *)
Theorem C20_confine : forall base sid p, get_cache_path base sid = Some p ->
  dirname p = cache_dir base /\ ~ In slash (basename p) /\ basename p <> $"." /\ basename p <> $".." /\
  p = cache_dir base ++ slash :: basename p.
Proof. exact confine. Qed.
Print Assumptions C20_confine.

(* the ids without a path (get_cache_path raises, caught by both callers: no cache at all) are
   exactly the truthy non-strings *)
Theorem C20_confine_nonstr : forall base sid,
  get_cache_path base sid = None <-> (truthy sid = true /\ forall s, sid <> JStr s).
Proof. exact no_path_iff. Qed.
Print Assumptions C20_confine_nonstr.

(* the tmp.<pid> file of set_cache is confined too, and can never be mistaken for a cache entry *)
Theorem C20_confine_tmp : forall base pid sid p, digits pid -> get_cache_path base sid = Some p ->
  let t := tmp_of pid p in
  dirname t = cache_dir base /\ ~ In slash (basename t) /\ basename t <> $"." /\ basename t <> $".." /\
  basename t = basename p ++ SL_TMP_INFIX ++ pid.
Proof. exact confine_tmp. Qed.
Print Assumptions C20_confine_tmp.
Theorem C20_tmp_not_entry : forall base pid sid p sid' p', digits pid ->
  get_cache_path base sid = Some p -> get_cache_path base sid' = Some p' -> tmp_of pid p <> p'.
Proof. exact tmp_not_entry. Qed.
Print Assumptions C20_tmp_not_entry.

(* no session id is mapped onto MCP_CACHE_PATH (the file of the MCP server-list cache, which the detached
   refresh pipeline writes), and no session's tmp.<pid> file is the file that pipeline redirects into, whatever
   the two pids: the protocol's writers are the only writers of an entry *)
Theorem C20_mcp_no_alias : forall base sid p, get_cache_path base sid = Some p -> p <> mcp_cache_path base.
Proof. exact mcp_no_alias. Qed.
Print Assumptions C20_mcp_no_alias.
Theorem C20_mcp_tmp_no_alias : forall base pid pid' sid p, digits pid -> digits pid' -> get_cache_path base sid = Some p ->
  tmp_of pid p <> mcp_tmp base pid' /\ tmp_of pid p <> mcp_cache_path base /\ p <> mcp_tmp base pid'.
Proof. exact mcp_tmp_no_alias. Qed.
Print Assumptions C20_mcp_tmp_no_alias.
(* before b2d8f58 the MCP cache was called "mcp.cache": session id "mcp" was mapped onto it and its tmp.<pid>
   onto the pipeline's (a mixture of both texts was served on /repo) *)
Theorem C20_mcp_alias_legacy_refuted : forall base pid,
  get_cache_path base (JStr $"mcp") = Some (path_join (cache_dir base) $"mcp.cache") /\
  tmp_of pid (path_join (cache_dir base) $"mcp.cache") = path_join (cache_dir base) $"mcp.cache" ++ SL_MCP_TMP_INFIX ++ pid.
Proof. exact mcp_alias_legacy. Qed.
Print Assumptions C20_mcp_alias_legacy_refuted.

(* ------------------------------------------------------------------ totality *)
(* for every stdin value (None = json.load raised), every behaviour of every data source, of the cache files
   and of the file system: exit 0, non-empty stdout, no traceback *)
Theorem C20_total :
  forall base pid sesc o_repr o_configured o_branch o_changes o_transcript o_pct o_mcp_local o_mcp_cache o_age o_read o_fs inp,
  let o := sl_main base pid sesc current o_repr o_configured o_branch o_changes o_transcript o_pct o_mcp_local o_mcp_cache
               o_age o_read o_fs inp in
  exit_ok o = true /\ out o <> [] /\ traceback o = false.
Proof. exact (fun base pid sesc r c b ch t p ml mc a rd fs inp =>
                total_gen base pid sesc current r c b ch t p ml mc a rd fs eq_refl inp (or_introl eq_refl)). Qed.
Print Assumptions C20_total.

(* ... and stdout is the cached text (only if that is exactly one line), the freshly built line (which is what
   set_cache was given), or "?", followed by one "\n" *)
Theorem C20_total_shape :
  forall base pid sesc o_repr o_configured o_branch o_changes o_transcript o_pct o_mcp_local o_mcp_cache o_age o_read o_fs inp,
  let o := sl_main base pid sesc current o_repr o_configured o_branch o_changes o_transcript o_pct o_mcp_local o_mcp_cache
               o_age o_read o_fs inp in
  (exists c, get_cached base o_age o_read (session_of (data_of inp)) = Some c /\ single_line c = true /\ out o = c ++ NL /\
             served o = true /\ store o = SNothing) \/
  (exists line, b_out (build_statusline current o_repr o_configured o_branch o_changes o_transcript o_pct o_mcp_local o_mcp_cache
                         (data_of inp)) = Ok line /\ out o = line ++ NL /\
                store o = set_cache base pid o_fs (session_of (data_of inp)) line) \/
  out o = QMARK ++ NL.
Proof. exact (fun base pid sesc r c b ch t p ml mc a rd fs inp =>
                run_shape base pid sesc current r c b ch t p ml mc a rd fs eq_refl inp (or_introl eq_refl)). Qed.
Print Assumptions C20_total_shape.

(* the code before fe4fc32: {"context_window":{"context_window_size":100},"transcript_path":true} closes stdout
   under the interpreter, nothing is printed (was confirmed on /repo: empty stdout, exit status 120 / 1 / 0);
   everything else was total already *)
Theorem C20_total_tpstr_legacy_refuted : exists inp, stdout_hazard inp = true /\ out (run_quiet before_tpstr inp) = [].
Proof. exact (ex_intro _ hazard_input tpstr_legacy_refuted). Qed.
Print Assumptions C20_total_tpstr_legacy_refuted.
Theorem C20_total_tpstr_legacy_partial :
  forall base pid sesc o_repr o_configured o_branch o_changes o_transcript o_pct o_mcp_local o_mcp_cache o_age o_read o_fs inp,
  stdout_hazard inp = false ->
  let o := sl_main base pid sesc before_tpstr o_repr o_configured o_branch o_changes o_transcript o_pct o_mcp_local o_mcp_cache
               o_age o_read o_fs inp in
  exit_ok o = true /\ out o <> [] /\ traceback o = false.
Proof. exact (fun base pid sesc r c b ch t p ml mc a rd fs inp H =>
                total_gen base pid sesc before_tpstr r c b ch t p ml mc a rd fs eq_refl inp (or_intror H)). Qed.
Print Assumptions C20_total_tpstr_legacy_partial.

(* the entry point before c6068c5 (F18): {"workspace":{"current_dir":5}} escapes with a traceback *)
Theorem C20_total_legacy_refuted : exists inp, stdout_hazard inp = false /\
  traceback (run_quiet before_guard inp) = true /\ exit_ok (run_quiet before_guard inp) = false.
Proof. exact (ex_intro _ f18_input (conj eq_refl legacy_refuted)). Qed.
Print Assumptions C20_total_legacy_refuted.

(* style() cannot raise: every element the code styles is in STYLES and its palette entries parse *)
Theorem C20_styles_total :
  forallb (fun e => match styled_wrap e with Some _ => true | None => false end)
    ["model"; "directory"; "branch"; "branch_detached"; "changes_clean"; "changes_dirty"; "context"; "mcp_title"]%string
  = true /\ (match conn_rgb with Some _ => true | None => false end) = true.
Proof. exact styles_total. Qed.
Print Assumptions C20_styles_total.

(* ------------------------------------------------------------------ single line *)
(* stdout is exactly one line - line ++ "\n" where line contains none of the characters at which
   str.splitlines() breaks (\n \v \f \r FS GS RS NEL U+2028 U+2029) - for EVERY input, every answer of every data
   source and every content of the cache file: nothing is assumed about line breaks anywhere *)
Theorem C20_oneline :
  forall base pid sesc o_repr o_configured o_branch o_changes o_transcript o_pct o_mcp_local o_mcp_cache o_age o_read o_fs inp,
  let o := sl_main base pid sesc current o_repr o_configured o_branch o_changes o_transcript o_pct o_mcp_local o_mcp_cache
               o_age o_read o_fs inp in
  exists line, out o = line ++ NL /\ Forall (fun c => is_break c = false) line.
Proof. exact (fun base pid sesc r c b ch t p ml mc a rd fs inp =>
                oneline_gen base pid sesc current r c b ch t p ml mc a rd fs eq_refl inp eq_refl (or_introl eq_refl)). Qed.
Print Assumptions C20_oneline.

(* ... hence also along every history of invocations sharing the cache directory (any session ids, ages,
   file-system failures; the cache files read back in text mode), from any initial cache files whatsoever *)
Theorem C20_oneline_history : forall base l f,
  Forall (fun o => exists line, out o = line ++ NL /\ Forall (fun c => is_break c = false) line) (history current base f l).
Proof. exact (fun base l f => history_oneline current base l eq_refl eq_refl eq_refl f). Qed.
Print Assumptions C20_oneline_history.

(* the code before 16f7bd5 served the cached text verbatim: two invocations whose text fields contain no "\n"
   (the first has a "\r", which the text-mode read turns into "\n"), the second is served a line with an embedded
   "\n" (was confirmed on /repo) *)
Theorem C20_oneline_legacy_refuted :
  let P := fun c : N => c <> 10 in
  let l := [cr_inv [97; 13; 98]; cr_inv [122]] in
  Forall P TEMPLATE /\ Forall (clean P) l /\
  exists o1 o2, history before_oneline [47; 99] (fun _ => None) l = [o1; o2] /\ served o2 = true /\ In 10 (removelast (out o2)).
Proof. exact history_cr_refuted. Qed.
Print Assumptions C20_oneline_legacy_refuted.

(* provenance (any version of the code): for ANY predicate P on characters that holds of the constant text of
   the line (escape sequences, separators, glyphs, labels, the blank that replaces a line break), if it holds of
   the text fields and of the answers of the data sources then it holds of every character of the built line.
   No other character can appear. *)
Theorem C20_provenance_build :
  forall fx o_repr o_configured o_branch o_changes o_transcript o_pct o_mcp_local o_mcp_cache (P : N -> Prop),
  Forall P TEMPLATE -> forall data,
  Forall P (py_str o_repr (field_model data)) ->
  (forall s, field_cwd data = JStr s -> Forall P s) ->
  (forall cwd b, o_branch cwd = Ok (true, b) -> Forall P b) ->
  (forall cwd a r, o_changes cwd = Ok (CDirty a r) -> Forall P a /\ Forall P r) ->
  (forall u size t, o_pct u size = Ok t -> Forall P t) ->
  Forall (Forall P) o_mcp_local ->
  (forall a c, o_mcp_cache = Ok (a, c) -> Forall P c) ->
  forall line, b_out (build_statusline fx o_repr o_configured o_branch o_changes o_transcript o_pct o_mcp_local o_mcp_cache data)
               = Ok line -> Forall P line.
Proof. exact build_chars. Qed.
Print Assumptions C20_provenance_build.

(* the constant text contains no line-break character *)
Theorem C20_template_no_breaks : Forall (fun c => ~ In c LINE_BREAKS) TEMPLATE.
Proof. exact template_no_breaks. Qed.
Print Assumptions C20_template_no_breaks.

(* one whole invocation, any guarded version: stdout is empty (only the pre-fe4fc32 hazard) or line ++ "\n" with P
   on every character of line, if P also holds of the text read from the cache file; and whatever is stored in
   the cache satisfies P again.  Along histories: if P excludes "\r", "all cache files satisfy P" is an invariant. *)
Theorem C20_provenance_run :
  forall base pid sesc fx o_repr o_configured o_branch o_changes o_transcript o_pct o_mcp_local o_mcp_cache o_age o_read o_fs,
  fx_guard fx = true -> forall (P : N -> Prop),
  Forall P TEMPLATE -> forall data,
  Forall P (py_str o_repr (field_model data)) ->
  (forall s, field_cwd data = JStr s -> Forall P s) ->
  (forall cwd b, o_branch cwd = Ok (true, b) -> Forall P b) ->
  (forall cwd a r, o_changes cwd = Ok (CDirty a r) -> Forall P a /\ Forall P r) ->
  (forall u size t, o_pct u size = Ok t -> Forall P t) ->
  Forall (Forall P) o_mcp_local ->
  (forall a c, o_mcp_cache = Ok (a, c) -> Forall P c) ->
  (forall p s, o_read p = Ok s -> Forall P s) ->
  forall inp, data = data_of inp ->
  let o := sl_main base pid sesc fx o_repr o_configured o_branch o_changes o_transcript o_pct o_mcp_local o_mcp_cache
               o_age o_read o_fs inp in
  line_ok P o /\ store_ok P (store o).
Proof. exact run_chars. Qed.
Print Assumptions C20_provenance_run.
Theorem C20_provenance_history : forall (P : N -> Prop),
  (forall c, P c -> c <> 13) -> Forall P TEMPLATE -> forall fx, fx_guard fx = true ->
  forall base l f, files_ok P f -> Forall (clean P) l -> Forall (line_ok P) (history fx base f l).
Proof. exact history_ok. Qed.
Print Assumptions C20_provenance_history.

(* ------------------------------------------------------------------ untorn cache *)
(* the invariant holds initially (entry absent or holding any c0) and is preserved by every step of
   every process - open(tmp.<pid>,"w"), write of any chunk, close, rename, open(path), read of any
   chunk, close - and by a kill of any process at any point, pids being reused freely *)
Theorem C20_atomic_inv :
  (forall c0, Inv (init c0)) /\ (forall s e s', Inv s -> step Protocol s e = Some s' -> Inv s').
Proof. exact (conj inv_init step_inv). Qed.
Print Assumptions C20_atomic_inv.

(* hence, for every schedule: the entry is absent or holds the initial content or the complete
   line of some invocation; every finished read returned such a line; every read in progress has
   a prefix of one such line (never a mixture) *)
Theorem C20_atomic : forall c0 evs s, exec Protocol (init c0) evs = Some s ->
  (forall i, dir s Final = Some i -> is_line c0 evs (ino s i)) /\
  (forall r got, rd s r = RDone got -> is_line c0 evs got) /\
  (forall r i got, rd s r = ROpen i got -> exists c, is_line c0 evs c /\ got = firstn (length got) c).
Proof. exact atomic. Qed.
Print Assumptions C20_atomic.

(* writing the entry in place breaks it: a reader gets a proper prefix ... *)
Theorem C20_atomic_refuted : exists evs s got,
  exec InPlace (init None) evs = Some s /\ rd s 0%nat = RDone got /\ ~ is_line None evs got.
Proof. exact inplace_torn. Qed.
Print Assumptions C20_atomic_refuted.
(* ... or a mixture of the old and the new line *)
Theorem C20_atomic_mixed_refuted : exists c0 evs s got,
  exec InPlace (init (Some c0)) evs = Some s /\ rd s 0%nat = RDone got /\ ~ is_line (Some c0) evs got.
Proof. exact inplace_torn_existing. Qed.
Print Assumptions C20_atomic_mixed_refuted.
(* and so does a tmp name that is not distinct per process (no pid in it) *)
Theorem C20_atomic_pid_refuted : exists evs s i,
  exec SharedTmp (init None) evs = Some s /\ dir s Final = Some i /\ ~ is_line None evs (ino s i).
Proof. exact sharedtmp_mixed. Qed.
Print Assumptions C20_atomic_pid_refuted.

(* ------------------------------------------------------------------ non-vacuity *)
Example C20_example_paths :
  get_cache_path $"/h/.cache" (JStr $"../../etc/x") = Some $"/h/.cache/claude-statusline/.._.._etc_x.cache" /\
  get_cache_path $"/h/.cache" (JStr $"..") = Some $"/h/.cache/claude-statusline/...cache" /\
  get_cache_path $"/h/.cache" JNull = Some $"/h/.cache/claude-statusline/default.cache" /\
  get_cache_path $"/h/.cache" (JNum false $"5") = None /\
  (* two different session ids share one entry *)
  get_cache_path $"/h/.cache" (JStr $"a/b") = get_cache_path $"/h/.cache" (JStr $"a_b").
Proof. repeat split; vm_compute; reflexivity. Qed.

Example C20_example_guard : out (run_quiet current f18_input) = QMARK ++ [10] /\ exit_ok (run_quiet current f18_input) = true.
Proof. exact guard_example. Qed.

Example C20_example_line :
  out (run_quiet current (Some (JObj [($"model", JObj [($"display_name", JStr $"Opus")]); ($"workspace", JObj [($"current_dir", JStr $"/a/proj")])])))
  = [27] ++ $"[38;2;187;187;187mOpus" ++ [27] ++ $"[0m | " ++ [27] ++ $"[38;2;187;187;187mproj" ++ [27] ++ $"[0m" ++ [10].
Proof. vm_compute. reflexivity. Qed.

(* the witnesses of the legacy refutations, on the repaired code *)
Example C20_example_tpstr : out (run_quiet current hazard_input) <> [] /\ exit_ok (run_quiet current hazard_input) = true.
Proof. exact tpstr_example. Qed.
Example C20_example_cr :
  exists o1 o2, history current [47; 99] (fun _ => None) [cr_inv [97; 13; 98]; cr_inv [122]] = [o1; o2] /\
    served o2 = true /\ ~ In 10 (removelast (out o1)) /\ ~ In 13 (out o1) /\ out o2 = out o1.
Proof. exact history_cr_example. Qed.

Example C20_example_schedule :
  exists s, exec Protocol (init (Some [A_]))
              [EOpenR 0; ESpawn 7 [B_; B_]; EOpenW 7; EWrite 7 1; ESpawn 8 [A_; B_]; EOpenW 8; EWrite 8 2; ECloseW 8;
               ERename 8; EOpenR 1; EKillW 7; ERead 0 9; ECloseR 0; ERead 1 1; ERead 1 9; ECloseR 1;
               ESpawn 7 [B_]; EOpenW 7; EWrite 7 9; ECloseW 7; ERename 7; EOpenR 2; ERead 2 4; ECloseR 2]%nat = Some s
            /\ rd s 0%nat = RDone [A_] /\ rd s 1%nat = RDone [A_; B_] /\ rd s 2%nat = RDone [B_].
Proof. exact protocol_example. Qed.
