(* C20 - "Statusline never crashes; its cache stays confined and untorn".
   Property theorems only; the proofs are in Proofs/SlPathP.v, SlMainP.v, SlAtomicP.v.

   Full statement (kept for reference; the parts marked (!) are FALSE of the code as it is today,
   see the _refuted theorems and notes/c20-findings.md):
     for every stdin and every state of the cache / log / settings / transcript files the command
     exits 0 with non-empty stdout and no traceback (!: transcript_path = true / 1), and stdout is a
     single line whenever the input's text fields contain no line breaks (holds for the line that is
     built; a line that is served from the cache is single iff the cached text is: with "\n" AND "\r"
     excluded from the text fields this is an invariant of every history, with only "\n" excluded
     it is not (!)).  The cache entry lives inside CACHE_DIR whatever the session id; concurrent or
     killed invocations never make a reader see a partial or mixed line (!: session id "mcp", whose
     entry and tmp name are also written by the MCP refresh pipeline - the SharedTmp variant below). *)
From Coq Require Import ZArith.
From DippyV Require Import Base.Str Gen.Tables Model.Statusline Proofs.SlPathP Proofs.SlMainP Proofs.SlAtomicP.

(* ------------------------------------------------------------------ confinement *)
(* every session id that has a cache path at all: the path is CACHE_DIR "/" name with a name that
   contains no "/" and is neither "." nor ".."; base = $XDG_CACHE_HOME or ~/.cache, arbitrary *)
Theorem C20_confine : forall base sid p, get_cache_path base sid = Some p ->
  dirname p = cache_dir base /\ ~ In slash (basename p) /\ basename p <> $"." /\ basename p <> $".." /\
  p = cache_dir base ++ slash :: basename p.
Proof. exact confine. Qed.
Print Assumptions C20_confine.

(* the ids without a path (get_cache_path raises, caught by both callers: no cache at all) are
   exactly the truthy non-strings *)
Theorem C20_confine_nonstr : forall base sid,
  get_cache_path base sid = None <-> (truthy sid = true /\ forall s, sid <> JStr s).
Proof. exact no_path_iff. Qed.
Print Assumptions C20_confine_nonstr.

(* the tmp.<pid> file of set_cache is confined too, and can never be mistaken for a cache entry *)
Theorem C20_confine_tmp : forall base pid sid p, digits pid -> get_cache_path base sid = Some p ->
  let t := tmp_of pid p in
  dirname t = cache_dir base /\ ~ In slash (basename t) /\ basename t <> $"." /\ basename t <> $".." /\
  basename t = basename p ++ SL_TMP_INFIX ++ pid.
Proof. exact confine_tmp. Qed.
Print Assumptions C20_confine_tmp.
Theorem C20_tmp_not_entry : forall base pid sid p sid' p', digits pid ->
  get_cache_path base sid = Some p -> get_cache_path base sid' = Some p' -> tmp_of pid p <> p'.
Proof. exact tmp_not_entry. Qed.
Print Assumptions C20_tmp_not_entry.

(* one session id - "mcp" - is mapped onto MCP_CACHE_PATH, the file of the MCP server-list cache, and its
   tmp.<pid> name onto the file the refresh pipeline spawned by the same process redirects into: for this id
   the entry has a second, unsynchronised writer (confirmed on /repo: a mixture of both texts is served) ... *)
Theorem C20_mcp_alias_refuted : forall base pid, exists sid,
  get_cache_path base sid = Some (mcp_cache_path base) /\ tmp_of pid (mcp_cache_path base) = mcp_tmp base pid.
Proof. exact (fun base pid => ex_intro _ (JStr MCP_SID) (mcp_alias base pid)). Qed.
Print Assumptions C20_mcp_alias_refuted.
(* ... and it is the only one *)
Theorem C20_mcp_alias_only : forall base sid,
  get_cache_path base sid = Some (mcp_cache_path base) -> sid = JStr $"mcp".
Proof. exact mcp_alias_only. Qed.
Print Assumptions C20_mcp_alias_only.

(* ------------------------------------------------------------------ totality *)
(* for every stdin value (None = json.load raised), every behaviour of every data source and of the
   file system: exit 0, non-empty stdout, no traceback - provided the input does not make
   get_context_from_transcript open file descriptor 1 (transcript_path = true or 1) *)
Theorem C20_total_partial :
  forall base pid sesc o_repr o_configured o_branch o_changes o_transcript o_pct o_mcp_local o_mcp_cache o_age o_read o_fs inp,
  stdout_hazard inp = false ->
  let o := sl_main base pid sesc o_repr o_configured o_branch o_changes o_transcript o_pct o_mcp_local o_mcp_cache
               o_age o_read o_fs true inp in
  exit_ok o = true /\ out o <> [] /\ traceback o = false.
Proof. exact total_partial. Qed.
Print Assumptions C20_total_partial.

(* ... and then stdout is the cached text, the freshly built line (which is what set_cache was
   given), or "?", followed by one "\n" *)
Theorem C20_total_shape :
  forall base pid sesc o_repr o_configured o_branch o_changes o_transcript o_pct o_mcp_local o_mcp_cache o_age o_read o_fs inp,
  stdout_hazard inp = false ->
  let o := sl_main base pid sesc o_repr o_configured o_branch o_changes o_transcript o_pct o_mcp_local o_mcp_cache
               o_age o_read o_fs true inp in
  (exists c, get_cached base o_age o_read (session_of (data_of inp)) = Some c /\ c <> [] /\ out o = c ++ NL /\
             served o = true /\ store o = SNothing) \/
  (exists line, b_out (build_statusline o_repr o_configured o_branch o_changes o_transcript o_pct o_mcp_local o_mcp_cache
                         (data_of inp)) = Ok line /\ out o = line ++ NL /\
                store o = set_cache base pid o_fs (session_of (data_of inp)) line) \/
  out o = QMARK ++ NL.
Proof. exact run_shape. Qed.
Print Assumptions C20_total_shape.

(* the full statement is false of today's code: {"context_window":{"context_window_size":100},
   "transcript_path":true} closes stdout under the interpreter: nothing is printed (confirmed on /repo:
   empty stdout; exit status 120 or 1, occasionally 0 - the status is not modelled) *)
Theorem C20_total_refuted : exists inp, stdout_hazard inp = true /\ out (run_quiet true inp) = [].
Proof. exact (ex_intro _ hazard_input (conj eq_refl (proj2 total_refuted))). Qed.
Print Assumptions C20_total_refuted.

(* the entry point as it was before the guard (F18): {"workspace":{"current_dir":5}} escapes *)
Theorem C20_total_legacy_refuted : exists inp, stdout_hazard inp = false /\
  traceback (run_quiet false inp) = true /\ exit_ok (run_quiet false inp) = false.
Proof. exact (ex_intro _ f18_input (conj eq_refl legacy_refuted)). Qed.
Print Assumptions C20_total_legacy_refuted.

(* style() cannot raise: every element the code styles is in STYLES and its palette entries parse *)
Theorem C20_styles_total :
  forallb (fun e => match styled_wrap e with Some _ => true | None => false end)
    ["model"; "directory"; "branch"; "branch_detached"; "changes_clean"; "changes_dirty"; "context"; "mcp_title"]%string
  = true /\ (match conn_rgb with Some _ => true | None => false end) = true.
Proof. exact styles_total. Qed.
Print Assumptions C20_styles_total.

(* ------------------------------------------------------------------ single line *)
(* provenance: for ANY predicate P on characters that holds of the constant text of the line
   (escape sequences, separators, glyphs, labels), if it holds of the text fields and of the answers
   of the data sources then it holds of every character of the built line.  No other character
   can appear. *)
Theorem C20_oneline_build :
  forall o_repr o_configured o_branch o_changes o_transcript o_pct o_mcp_local o_mcp_cache (P : N -> Prop),
  Forall P TEMPLATE -> forall data,
  Forall P (py_str o_repr (field_model data)) ->
  (forall s, field_cwd data = JStr s -> Forall P s) ->
  (forall cwd b, o_branch cwd = Ok (true, b) -> Forall P b) ->
  (forall cwd a r, o_changes cwd = Ok (CDirty a r) -> Forall P a /\ Forall P r) ->
  (forall u size t, o_pct u size = Ok t -> Forall P t) ->
  Forall (Forall P) o_mcp_local ->
  (forall a c, o_mcp_cache = Ok (a, c) -> Forall P c) ->
  forall line, b_out (build_statusline o_repr o_configured o_branch o_changes o_transcript o_pct o_mcp_local o_mcp_cache data)
               = Ok line -> Forall P line.
Proof. exact build_chars. Qed.
Print Assumptions C20_oneline_build.

(* the constant text contains none of the characters at which str.splitlines() breaks
   (\n \v \f \r FS GS RS NEL U+2028 U+2029); hence P := "is not a line break" is admissible above, and
   so is P := "is not \n" *)
Theorem C20_template_no_breaks : Forall (fun c => ~ In c LINE_BREAKS) TEMPLATE.
Proof. exact template_no_breaks. Qed.
Print Assumptions C20_template_no_breaks.

(* one whole invocation: stdout is empty (only in the hazard case above) or line ++ "\n" with P on
   every character of line - if P also holds of the text read from the cache file; and whatever
   is stored in the cache satisfies P again *)
Theorem C20_oneline_run :
  forall base pid sesc o_repr o_configured o_branch o_changes o_transcript o_pct o_mcp_local o_mcp_cache o_age o_read o_fs
         (P : N -> Prop),
  Forall P TEMPLATE -> forall data,
  Forall P (py_str o_repr (field_model data)) ->
  (forall s, field_cwd data = JStr s -> Forall P s) ->
  (forall cwd b, o_branch cwd = Ok (true, b) -> Forall P b) ->
  (forall cwd a r, o_changes cwd = Ok (CDirty a r) -> Forall P a /\ Forall P r) ->
  (forall u size t, o_pct u size = Ok t -> Forall P t) ->
  Forall (Forall P) o_mcp_local ->
  (forall a c, o_mcp_cache = Ok (a, c) -> Forall P c) ->
  (forall p s, o_read p = Ok s -> Forall P s) ->
  forall inp, data = data_of inp ->
  let o := sl_main base pid sesc o_repr o_configured o_branch o_changes o_transcript o_pct o_mcp_local o_mcp_cache
               o_age o_read o_fs true inp in
  line_ok P o /\ store_ok P (store o).
Proof. exact run_chars. Qed.
Print Assumptions C20_oneline_run.

(* histories: any number of invocations sharing the cache directory (any session ids, any ages, any
   file-system failures), the cache files being read back in text mode (universal newlines).  If P
   excludes "\r" then "all cache files satisfy P" is an invariant and every output is one P-line. *)
Theorem C20_oneline_history : forall (P : N -> Prop),
  (forall c, P c -> c <> 13) -> Forall P TEMPLATE ->
  forall base l f, files_ok P f -> Forall (clean P) l -> Forall (line_ok P) (history base f l).
Proof. exact history_ok. Qed.
Print Assumptions C20_oneline_history.

(* without that: two invocations whose text fields contain no "\n" (the first has a "\r"), the
   second is served a line with an embedded "\n" (confirmed on /repo) *)
Theorem C20_oneline_history_refuted :
  let P := fun c : N => c <> 10 in
  let l := [cr_inv [97; 13; 98]; cr_inv [122]] in
  Forall P TEMPLATE /\ Forall (clean P) l /\
  exists o1 o2, history [47; 99] (fun _ => None) l = [o1; o2] /\ served o2 = true /\ In 10 (removelast (out o2)).
Proof. exact history_cr_refuted. Qed.
Print Assumptions C20_oneline_history_refuted.

(* ------------------------------------------------------------------ untorn cache *)
(* the invariant holds initially (entry absent or holding any c0) and is preserved by every step of
   every process - open(tmp.<pid>,"w"), write of any chunk, close, rename, open(path), read of any
   chunk, close - and by a kill of any process at any point, pids being reused freely *)
Theorem C20_atomic_inv :
  (forall c0, Inv (init c0)) /\ (forall s e s', Inv s -> step Protocol s e = Some s' -> Inv s').
Proof. exact (conj inv_init step_inv). Qed.
Print Assumptions C20_atomic_inv.

(* hence, for every schedule: the entry is absent or holds the initial content or the complete
   line of some invocation; every finished read returned such a line; every read in progress has
   a prefix of one such line (never a mixture) *)
Theorem C20_atomic : forall c0 evs s, exec Protocol (init c0) evs = Some s ->
  (forall i, dir s Final = Some i -> is_line c0 evs (ino s i)) /\
  (forall r got, rd s r = RDone got -> is_line c0 evs got) /\
  (forall r i got, rd s r = ROpen i got -> exists c, is_line c0 evs c /\ got = firstn (length got) c).
Proof. exact atomic. Qed.
Print Assumptions C20_atomic.

(* writing the entry in place breaks it: a reader gets a proper prefix ... *)
Theorem C20_atomic_refuted : exists evs s got,
  exec InPlace (init None) evs = Some s /\ rd s 0%nat = RDone got /\ ~ is_line None evs got.
Proof. exact inplace_torn. Qed.
Print Assumptions C20_atomic_refuted.
(* ... or a mixture of the old and the new line *)
Theorem C20_atomic_mixed_refuted : exists c0 evs s got,
  exec InPlace (init (Some c0)) evs = Some s /\ rd s 0%nat = RDone got /\ ~ is_line (Some c0) evs got.
Proof. exact inplace_torn_existing. Qed.
Print Assumptions C20_atomic_mixed_refuted.
(* and so does a tmp name that is not distinct per process (no pid in it) *)
Theorem C20_atomic_pid_refuted : exists evs s i,
  exec SharedTmp (init None) evs = Some s /\ dir s Final = Some i /\ ~ is_line None evs (ino s i).
Proof. exact sharedtmp_mixed. Qed.
Print Assumptions C20_atomic_pid_refuted.

(* ------------------------------------------------------------------ non-vacuity *)
Example C20_example_paths :
  get_cache_path $"/h/.cache" (JStr $"../../etc/x") = Some $"/h/.cache/claude-statusline/.._.._etc_x.cache" /\
  get_cache_path $"/h/.cache" (JStr $"..") = Some $"/h/.cache/claude-statusline/...cache" /\
  get_cache_path $"/h/.cache" JNull = Some $"/h/.cache/claude-statusline/default.cache" /\
  get_cache_path $"/h/.cache" (JNum false $"5") = None /\
  (* two different session ids share one entry *)
  get_cache_path $"/h/.cache" (JStr $"a/b") = get_cache_path $"/h/.cache" (JStr $"a_b").
Proof. repeat split; vm_compute; reflexivity. Qed.

Example C20_example_guard : out (run_quiet true f18_input) = QMARK ++ [10] /\ exit_ok (run_quiet true f18_input) = true.
Proof. exact guard_example. Qed.

Example C20_example_line :
  out (run_quiet true (Some (JObj [($"model", JObj [($"display_name", JStr $"Opus")]); ($"workspace", JObj [($"current_dir", JStr $"/a/proj")])])))
  = [27] ++ $"[38;2;187;187;187mOpus" ++ [27] ++ $"[0m | " ++ [27] ++ $"[38;2;187;187;187mproj" ++ [27] ++ $"[0m" ++ [10].
Proof. vm_compute. reflexivity. Qed.

Example C20_example_schedule :
  exists s, exec Protocol (init (Some [A_]))
              [EOpenR 0; ESpawn 7 [B_; B_]; EOpenW 7; EWrite 7 1; ESpawn 8 [A_; B_]; EOpenW 8; EWrite 8 2; ECloseW 8;
               ERename 8; EOpenR 1; EKillW 7; ERead 0 9; ECloseR 0; ERead 1 1; ERead 1 9; ECloseR 1;
               ESpawn 7 [B_]; EOpenW 7; EWrite 7 9; ECloseW 7; ERename 7; EOpenR 2; ERead 2 4; ECloseR 2]%nat = Some s
            /\ rd s 0%nat = RDone [A_] /\ rd s 1%nat = RDone [A_; B_] /\ rd s 2%nat = RDone [B_].
Proof. exact protocol_example. Qed.
