(* C15 - Audit logging is a pure observer, even when it fails.
   Property theorems only; proofs are in Proofs/LoggingP.v, JsonP.v, LogLineP.v, AppendP.v.
   The model (Model/Logging.v) is a run of dippy.py main over two log sinks whose every operation
   consults a fault oracle; the routing and the analysis are given data. *)
From Coq Require Import Arith.
From DippyV Require Import Base.Str Base.Verdict Model.Logging Proofs.LoggingP Proofs.JsonP Proofs.LogLineP Proofs.AppendP.
From DippyV Require Model.Cache Proofs.CacheP.

(* the tie: the except clauses and the raiseExceptions setting read from the working tree are those of
   [head], the table every theorem below speaks about *)
Theorem C15_tables_tie : catches_agree current head = true.
Proof. exact tables_tie. Qed.
Print Assumptions C15_tables_tie.

(* For all fault oracles (any fault, at any operation of either sink, in any combination, of any
   class the real call can raise), for every input (mode, verdict class, route, config): stdout
   and the exit status are those of the run with logging off. *)
Theorem C15_observer : forall ts1 ts2 i f1 f2, realistic f1 -> realistic f2 ->
  let a := hook_run head f1 ts1 i in let b := hook_run head f2 ts2 i in let c := run_nolog i in
  r_stdout a = r_stdout b /\ r_exit a = r_exit b /\ r_stdout a = r_stdout c /\ r_exit a = r_exit c.
Proof. exact observer. Qed.
Print Assumptions C15_observer.

(* the general reason: every fault is caught at the site where it arises *)
Theorem C15_observer_sites : forall C ts i f, handled C f ->
  r_stdout (hook_run C f ts i) = r_stdout (run_nolog i) /\ r_exit (hook_run C f ts i) = r_exit (run_nolog i).
Proof. exact observer_gen. Qed.
Print Assumptions C15_observer_sites.

(* stdout is main's answer, nothing else *)
Theorem C15_stdout : forall C f ts, handled C f -> forall i,
  r_stdout (hook_run C f ts i) = expected i /\ r_exit (hook_run C f ts i) = 0%nat.
Proof. exact run_out. Qed.
Print Assumptions C15_stdout.

(* the code before d0d4edf / bdbaab3 (ValueError for NUL in the log path, RuntimeError for ~nosuchuser)
   did not have the property: the verdict became {} *)
Theorem C15_legacy_refuted :
  exists i f, realistic f /\ r_stdout (hook_run legacy f [] i) <> r_stdout (run_nolog i).
Proof. exact legacy_refuted. Qed.
Print Assumptions C15_legacy_refuted.
Theorem C15_legacy_expand_refuted :
  exists i f, realistic f /\ r_stdout (hook_run legacy f [] i) <> r_stdout (run_nolog i).
Proof. exact legacy_expand_refuted. Qed.
Print Assumptions C15_legacy_expand_refuted.
(* `realistic` cannot be dropped: setup_logging catches OSError only (a ValueError there would need
   a NUL in HOME, which neither the environment nor the password database can hold) *)
Theorem C15_setup_hypothesis_refuted :
  exists i f, r_exit (hook_run head f [] i) <> r_exit (run_nolog i) /\ r_stdout (hook_run head f [] i) <> r_stdout (run_nolog i).
Proof. exact setup_unrealistic_refuted. Qed.
Print Assumptions C15_setup_hypothesis_refuted.
(* stderr too: whatever the sinks do, the logging module prints no traceback (1aa56d9), stdout and
   exit being those of the run with logging off *)
Theorem C15_no_traceback : forall f ts i, realistic f ->
  r_tracebacks (hook_run head f ts i) = 0%nat /\
  r_stdout (hook_run head f ts i) = r_stdout (run_nolog i) /\ r_exit (hook_run head f ts i) = r_exit (run_nolog i).
Proof. exact no_traceback. Qed.
Print Assumptions C15_no_traceback.
(* the code before 1aa56d9 (table [loud]: logging.raiseExceptions at its default) printed one
   "--- Logging error ---" traceback per record when the approvals sink failed *)
Theorem C15_traceback_refuted :
  exists i f, realistic f /\ r_tracebacks (hook_run loud f [] i) <> r_tracebacks (run_nolog i).
Proof. exact traceback_refuted. Qed.
Print Assumptions C15_traceback_refuted.

(* When the decision log works (the approvals log may fail in any way), a decision appends exactly
   one line; the line is printable ASCII with its only newline at the end, an RFC 8259 reader gives
   back exactly the entry (as UTF-16 code units), and the keys are the documented ones. *)
Theorem C15_one_line : forall f ts i p full,
  realistic f -> dec_ok f -> unicode ts -> unicode_route (h_route i) ->
  h_json_ok i = true -> h_cfg_error i = false -> final_log (h_cfg i) None false = (Some p, full) ->
  decides (h_route i) = true ->
  exists e,
    r_declog (hook_run head f ts i) = [jline e] /\
    complete_line (jline e) /\
    read_line (jline e) = Some (map upair e) /\
    route_entry full ts (h_route i) = Some e /\
    map fst e = documented_keys full (h_route i).
Proof. exact one_line. Qed.
Print Assumptions C15_one_line.
(* ... and nothing otherwise (note: the `ask` answered on a config error is not recorded: the log
   destination is not known then) *)
Theorem C15_no_line : forall f ts i,
  realistic f -> dec_ok f ->
  h_json_ok i = false \/ h_cfg_error i = true \/ fst (final_log (h_cfg i) None false) = None \/ decides (h_route i) = false ->
  r_declog (hook_run head f ts i) = [].
Proof. exact no_line. Qed.
Print Assumptions C15_no_line.
(* whatever fails: the run appends nothing or one complete rendered line, never a fragment *)
Theorem C15_no_partial_line : forall f ts i, realistic f ->
  r_declog (hook_run head f ts i) = [] \/ exists e, r_declog (hook_run head f ts i) = [jline e].
Proof. exact no_partial_line. Qed.
Print Assumptions C15_no_partial_line.

(* the JSON writer/reader pair on its own: for every dict of Unicode strings *)
Theorem C15_json_roundtrip : forall e, unicode_entry e -> e <> [] ->
  read_line (jline e) = Some (map upair e) /\ complete_line (jline e).
Proof. exact (fun e H N => conj (read_jline e H N) (jline_complete e)). Qed.
Print Assumptions C15_json_roundtrip.

(* the command text is recorded iff log-full is set (and the decision is about a shell command) *)
Theorem C15_full : forall full ts r e, route_entry full ts r = Some e ->
  (has_key "command" (map upair e) = true <-> full = true /\ route_command r <> None).
Proof. exact full_iff. Qed.
Print Assumptions C15_full.

(* N processes, each issuing its complete lines as single atomic O_APPEND writes, under ANY schedule:
   the file splits into complete lines with no partial tail; every line is a line of the process
   that wrote it; each process's lines appear in its own order; with enough turns all of them. *)
Theorem C15_interleave : forall (prog : nat -> list str) sch,
  (forall p w, In w (prog p) -> complete_line w) ->
  let s := exec prog sch in
  lines_of (bytes s) = (map snd (file s), []) /\
  (forall p w, In (p, w) (file s) -> In w (prog p)) /\
  (forall p, by_proc p s = firstn (Nat.min (count_occ Nat.eq_dec sch p) (length (prog p))) (prog p)) /\
  (forall p, (length (prog p) <= count_occ Nat.eq_dec sch p)%nat -> by_proc p s = prog p).
Proof. exact interleave. Qed.
Print Assumptions C15_interleave.
(* if a line is issued as two writes, some schedule tears it *)
Theorem C15_interleave_chunked_refuted :
  exists prog sch l,
    (forall p, snd (lines_of (concat (prog p))) = []) /\
    In l (fst (lines_of (bytes (exec prog sch)))) /\ forall p, ~ In l (fst (lines_of (concat (prog p)))).
Proof. exact interleave_chunked_refuted. Qed.
Print Assumptions C15_interleave_chunked_refuted.

(* config.log_decision as a function of its arguments (what the direct-call stream of the harness compares, for every
   subset of the optional arguments): the keys, in order; the command text is there iff log-full is set and a command
   was given; the values are the arguments *)
Theorem C15_entry : forall full d c r m cmd ts,
  map fst (entry full d c r m cmd ts) =
    [$"decision"; $"cmd"] ++ (if is_given r then [$"rule"] else []) ++ (if is_given m then [$"message"] else [])
    ++ (if full && is_given cmd then [$"command"] else []) ++ [$"ts"] /\
  (In ($"command") (map fst (entry full d c r m cmd ts)) <-> full = true /\ cmd <> None) /\
  (forall x, cmd = Some x -> full = true -> In ($"command", x) (entry full d c r m cmd ts)).
Proof.
  exact (fun full d c r m cmd ts => conj (direct_entry_keys full d c r m cmd ts) (conj (direct_entry_command_iff full d c r m cmd ts)
           (proj2 (proj2 (proj2 (direct_entry_values full d c r m cmd ts)))))).
Qed.
Print Assumptions C15_entry.

(* A process that decides more than once (library use, a test harness; Model/Cache.v is the process state:
   handler cache, MODE, _log_config, _log_disabled): for ANY state the process is in - whatever it analysed,
   configured or failed to write before - a main() run appends to the destination of ITS OWN configuration, with
   the log-full flag of its own configuration, unless its own configure / write fails; nothing else. *)
Theorem C15_history_local :
  forall (value : Type) (load : str -> value) (input : Type) (analysis : input -> Cache.prog value) (explicit : option Cache.hmode)
         s s' det x log cf df,
    Cache.effect value load input analysis explicit s (Cache.QMain det x log cf df) = Cache.main_effect_spec log cf df /\
    Cache.effect value load input analysis explicit s (Cache.QMain det x log cf df) =
    Cache.effect value load input analysis explicit s' (Cache.QMain det x log cf df).
Proof.
  exact (fun value load input analysis explicit s s' det x log cf df =>
           conj (CacheP.main_effect value load input analysis explicit s det x log cf df)
                (CacheP.main_effect_local value load input analysis explicit s s' det x log cf df)).
Qed.
Print Assumptions C15_history_local.
Theorem C15_history_full :
  forall (value : Type) (load : str -> value) (input : Type) (analysis : input -> Cache.prog value) (explicit : option Cache.hmode)
         s det x log cf df p full,
    Cache.effect value load input analysis explicit s (Cache.QMain det x log cf df) = Some (p, full) -> log = Some (p, full).
Proof. exact CacheP.main_effect_full. Qed.
Print Assumptions C15_history_full.
(* the same for a bare log_decision call is false: an earlier failure silences it until the next
   configure_logging (documented: "prevents repeated attempts"); main() configures first, every time *)
Theorem C15_direct_call_refuted :
  exists (s s' : Cache.state unit),
    Cache.effect unit (fun _ => tt) unit (fun _ => Cache.Done (Allow, [])) None s (Cache.QLogDecision false)
    <> Cache.effect unit (fun _ => tt) unit (fun _ => Cache.Done (Allow, [])) None s' (Cache.QLogDecision false).
Proof. exact CacheP.direct_effect_refuted. Qed.
Print Assumptions C15_direct_call_refuted.

(* non-vacuity: a run with a /dev/full-like decision log and a dead approvals log still answers;
   a working run logs one line with the command under log-full *)
Example C15_example_faulty :
  let f : faults := fun s k => match s with Emit | DecWrite => Some EOS | _ => None end in
  r_stdout (hook_run head f $"T" a_check) = [OEnv Claude Allow $"ls"] /\ r_declog (hook_run head f $"T" a_check) = [] /\
  r_tracebacks (hook_run head f $"T" a_check) = 0%nat /\ r_tracebacks (hook_run loud f $"T" a_check) = 3%nat.
Proof. vm_compute. repeat split. Qed.
Example C15_example_full :
  let i := {| h_json_ok := true; h_explicit := false; h_mode := Claude; h_unknown_tool := false;
              h_cfg := [CSetLog $"/x/a.log"; CSetLogFull]; h_cfg_error := false;
              h_route := RCheck $"ls" Allow $"ls" |} in
  r_declog (hook_run head nofault $"T" i) =
  [$"{""decision"": ""allow"", ""cmd"": ""ls"", ""command"": ""ls"", ""ts"": ""T""}" ++ [10]].
Proof. vm_compute. reflexivity. Qed.
