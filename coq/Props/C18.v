(* C18 - Verdicts are a pure function of command, configuration, cwd and referenced files.
   Property theorems only; proofs are in Proofs/CacheP.v.  The model (Model/Cache.v) is the
   process-level state of a Dippy process (handler LRU of 32 module names, MODE, _log_config,
   _log_disabled) as a state machine; an analysis is any program that asks for handler modules
   adaptively and returns (action, reason).  Everything is for all `load`, all analyses, all
   histories - including histories that evict, switch modes and hit failing log sinks. *)
From Coq Require Import Arith.
From DippyV Require Import Base.Str Base.Verdict Model.Cache Model.PairWalk Proofs.CacheP Proofs.LruP Proofs.PairWalkP.

(* the tie: every place in the working tree where something can survive from one call to the next (functools
   caches, `global` statements, class-level containers, mutable defaults, writes to module-level tables, to other
   modules' state, to objects received as arguments - regenerated from the source on every run) is a component of
   the model's state or a justified constant (Model/Cache.v, header of state_inventory_ok) *)
Theorem C18_state_tie : state_inventory_ok = true.
Proof. exact state_tie. Qed.
Print Assumptions C18_state_tie.

Section Any.
  Variable value : Type.
  Variable load : str -> value.
  Variable input : Type.
  Variable analysis : input -> prog value.
  Variable explicit : option hmode.
  Notation step := (step value load input analysis explicit).
  Notation init := (init value explicit).
  Notation after := (after value load input analysis explicit).
  Notation Inv := (Inv value load).

  (* cached value = load value, distinct keys, at most 32 entries: holds initially and is preserved
     by every step, eviction included; and under it every step answers the cache-free analysis *)
  Theorem C18_inv :
    Inv init /\
    (forall s q, Inv s -> Inv (fst (step s q)) /\
                          verdict_of (snd (step s q)) = spec_verdict value load input analysis q).
  Proof. exact (conj (inv_init value load explicit) (step_inv value load input analysis explicit)). Qed.

  (* answers do not depend on the state *)
  Theorem C18_pure : forall s s' q, Inv s -> Inv s' -> verdict_of (snd (step s q)) = verdict_of (snd (step s' q)).
  Proof. exact (pure_verdict value load input analysis explicit). Qed.
  Theorem C18_pure_answer : forall s s' q, explicit = None -> is_check input q = false -> Inv s -> Inv s' ->
    snd (step s q) = snd (step s' q).
  Proof. exact (pure_answer value load input analysis explicit). Qed.

  (* for every history h and query q: the answer after h is the answer from the initial state,
     namely the analysis run with freshly loaded modules; asking twice gives the same *)
  Theorem C18_hist : forall h q,
    verdict_of (snd (step (after h init) q)) = verdict_of (snd (step init q)) /\
    verdict_of (snd (step (after h init) q)) = spec_verdict value load input analysis q /\
    verdict_of (snd (step (fst (step (after h init) q)) q)) = verdict_of (snd (step (after h init) q)).
  Proof.
    exact (fun h q => conj (hist value load input analysis explicit h q)
                      (conj (hist_spec value load input analysis explicit h q)
                            (again value load input analysis explicit h q))).
  Qed.
  Theorem C18_hist_answer : forall h q, explicit = None -> is_check input q = false ->
    snd (step (after h init) q) = snd (step init q).
  Proof. exact (hist_answer value load input analysis explicit). Qed.

  (* the cache never holds more than maxsize (= the decorator's bound, 32 today) modules, nor one twice *)
  Theorem C18_lru : forall h,
    (length (lru value (after h init)) <= maxsize)%nat /\ NoDup (map fst (lru value (after h init))).
  Proof. exact (lru_bound value load input analysis explicit). Qed.

  (* refinement to the specification of an LRU: after any history the cache holds exactly the module
     names of the _load_handler calls made so far, distinct, in order of last use (most recent first),
     cut at maxsize - whatever the analyses asked for and however adaptively *)
  Theorem C18_lru_spec : forall h,
    map fst (lru value (after h init)) =
    firstn maxsize (dedup (rev (flat_map (calls value load input analysis) h))).
  Proof. exact (lru_spec value load input analysis explicit). Qed.

  (* what one call leaves behind (Cache.residue lists the components of the process state whose value
     differs before and after; the residue oracle measures the same on the real process, per call):
     the comparison is exact, an analysis - and a direct check_command call - leaves nothing but the
     handler cache, every other call touches only its own variables and never the cache, and with a
     mode flag main() never rebinds the mode *)
  Theorem C18_residue_exact : forall c s s', In c (changed value s s') <-> ~ same value c s s'.
  Proof. exact (changed_spec value). Qed.
  Theorem C18_analyze_residue : forall s x c,
    In c (residue value load input analysis explicit s (QAnalyze x)) -> c = CLru.
  Proof. exact (analyze_residue value load input analysis explicit). Qed.
  Theorem C18_other_residue :
    (forall s x c, In c (residue value load input analysis explicit s (QCheck x)) -> c = CLru) /\
    (forall s m c, In c (residue value load input analysis explicit s (QSetMode m)) -> c = CMode) /\
    (forall s log fl c, In c (residue value load input analysis explicit s (QConfigure log fl)) -> c = CLogCfg \/ c = CLogDis) /\
    (forall s fl c, In c (residue value load input analysis explicit s (QLogDecision fl)) -> c = CLogDis) /\
    (forall s det x log cf df m, explicit = Some m ->
       ~ In CMode (residue value load input analysis explicit s (QMain det x log cf df))).
  Proof.
    exact (conj (check_residue value load input analysis explicit)
          (conj (setmode_residue value load input analysis explicit)
          (conj (configure_residue value load input analysis explicit)
          (conj (log_decision_residue value load input analysis explicit)
                (main_residue_explicit value load input analysis explicit))))).
  Qed.
End Any.
Print Assumptions C18_residue_exact.
Print Assumptions C18_analyze_residue.
Print Assumptions C18_other_residue.

(* soundness of the residue oracle for ANY process (no model of Dippy in it): when the snapshot `see` is
   complete - it determines the answers and the next snapshot - and no call asked of the fresh process
   leaves a visible residue, no history changes any answer.  Completeness of the snapshot is the trusted
   part (harness/c18_state.py walks every object reachable from the dippy modules; TRUSTED says so). *)
Theorem C18_residue_sound :
  forall (state query answer view : Type) (step : state -> query -> state * answer) (see : state -> view) (init : state),
    (forall s s' q, see s = see s' -> snd (step s q) = snd (step s' q) /\ see (fst (step s q)) = see (fst (step s' q))) ->
    (forall q, see (fst (step init q)) = see init) ->
    forall h q, snd (step (run state query answer step h init) q) = snd (step init q).
Proof. exact residue_sound. Qed.
Print Assumptions C18_residue_sound.

(* the walk of the history oracle over a pool of n queries: every ordered pair (leaker, victim), the
   diagonal included, is consecutive somewhere in it; it names only pool members; n*n + 2*n analyses *)
Theorem C18_pair_walk :
  forall n : nat,
    (forall a b : nat, (a < n)%nat -> (b < n)%nat -> exists before after, pair_walk n = before ++ [a] ++ [b] ++ after) /\
    (forall x : nat, In x (pair_walk n) -> (x < n)%nat) /\
    length (pair_walk n) = (n * n + 2 * n)%nat.
Proof. exact (fun n => conj (pair_walk_moment n) (conj (pair_walk_range n) (pair_walk_length n))). Qed.
Print Assumptions C18_pair_walk.
Example C18_example_walk : pair_walk 3 = [0; 0; 0; 1; 0; 2; 0; 1; 1; 1; 2; 1; 2; 2; 2]%nat%list.
Proof. vm_compute. reflexivity. Qed.
Example C18_example_residue :
  residues unit (fun _ => tt) unit (fun _ => Get [103%N] (fun _ => Done (Allow, []))) None (init unit None)
    [QAnalyze tt; QAnalyze tt; QMain HGemini tt (Some ([120%N], false)) false true; QSetMode HGemini]
  = [[CLru]; []; [CMode; CLogCfg; CLogDis]; []].
Proof. vm_compute. reflexivity. Qed.

Print Assumptions C18_inv.
Print Assumptions C18_pure.
Print Assumptions C18_pure_answer.
Print Assumptions C18_hist.
Print Assumptions C18_hist_answer.
Print Assumptions C18_lru.
Print Assumptions C18_lru_spec.

(* the envelope (not the verdict) of a direct check_command call does depend on history: it reads
   the MODE left behind by the previous main().  Full statement "forall h q, snd (step (after h init) q)
   = snd (step init q)" is false for q = QCheck; main() itself always rebinds MODE first. *)
Theorem C18_envelope_refuted :
  exists (h : list (query unit)) (q : query unit),
    let st := step unit (fun _ => tt) unit (fun _ => Done (Allow, [])) None in
    snd (st (after unit (fun _ => tt) unit (fun _ => Done (Allow, [])) None h (init unit None)) q)
    <> snd (st (init unit None) q).
Proof. exact envelope_refuted. Qed.
Print Assumptions C18_envelope_refuted.

(* non-vacuity: maxsize+1 distinct modules evict the first one (its next use is a miss), a recent one hits *)
Example C18_example_evict :
  let names := map (fun k => [N.of_nat k]) (seq 0 (S maxsize)) in
  fst (trace (list N) (fun m => m) [] (names ++ [[0%N]; [N.of_nat maxsize]])) = repeat false (S maxsize) ++ [false; true].
Proof. vm_compute. reflexivity. Qed.
Example C18_example_recent : dedup (rev [[1%N]; [2%N]; [1%N]; [3%N]; [2%N]]) = [[2%N]; [3%N]; [1%N]].
Proof. vm_compute. reflexivity. Qed.
