(* C07 - User rules decide: last match wins, non-matching rules are inert.
   The rule engine of config.py (the part of C07 below the decision ladder; the ladder theorems
   C07_supreme / C07_none / C07_prefix / C07_wrappers live with the ladder model).
   Property theorems only; proofs are in Proofs/.  All statements hold for every rule list, every
   command string and every choice of the oracles (resolve, home). *)
From DippyV Require Import Base.Str Base.Verdict Model.Fnmatch Model.Glob2 Model.Paths Model.Rules
  Proofs.FnmatchP Proofs.RulesP Proofs.PathsP Proofs.C09P Proofs.SpellP.

(* the loop `result = None; for r in rules: if m(r): result = r` of every matcher in config.py
   computes the first match of the list read backwards, whatever the predicate *)
Theorem C07_last_generic : forall (R : Type) (m : R -> bool) (rs : list R), last_match m rs = last_such m rs.
Proof. exact (@last_match_spec). Qed.
Print Assumptions C07_last_generic.

(* a rule that does not match can be deleted (or inserted) at any position *)
Theorem C07_inert_generic : forall (R : Type) (m : R -> bool) (a : list R) (r : R) (b : list R),
  m r = false -> last_match m (a ++ r :: b) = last_match m (a ++ b).
Proof. exact (@last_match_inert). Qed.
Print Assumptions C07_inert_generic.

(* the answer is a rule of the list that matches, nothing after it matches, and the whole list
   can be replaced by that single rule *)
Theorem C07_decides_generic : forall (R : Type) (m : R -> bool) (rs : list R) (r : R),
  last_match m rs = Some r <->
  exists a b, rs = a ++ r :: b /\ m r = true /\ forallb (fun x => negb (m x)) b = true.
Proof. exact (@last_match_Some). Qed.
Print Assumptions C07_decides_generic.

Theorem C07_none_generic : forall (R : Type) (m : R -> bool) (rs : list R),
  last_match m rs = None <-> forallb (fun r => negb (m r)) rs = true.
Proof. exact (@last_match_None). Qed.
Print Assumptions C07_none_generic.

(* ---- literal and anchored patterns, on the normalised strings ---- *)
(* no glob characters, no | anchor: whole-word prefix *)
Theorem C07_literal_pat : forall np c, no_glob np = true ->
  (pat_matches np false c = true <-> c = np \/ exists rest, c = np ++ c_sp :: rest).
Proof. exact pat_literal_iff. Qed.
Print Assumptions C07_literal_pat.

(* | anchor: equality *)
Theorem C07_anchor_pat : forall np c, no_glob np = true -> (pat_matches np true c = true <-> c = np).
Proof. exact pat_anchor_iff. Qed.
Print Assumptions C07_anchor_pat.

(* fnmatch itself on glob-free patterns, and on "literal*" *)
Theorem C07_fnmatch_literal : forall p s, no_glob p = true -> fnmatch s p = str_eqb p s.
Proof. exact fnmatch_lit. Qed.
Print Assumptions C07_fnmatch_literal.
Theorem C07_fnmatch_literal_star : forall p s, no_glob p = true -> fnmatch s (p ++ [c_star]) = prefixb p s.
Proof. exact fnmatch_lit_star. Qed.
Print Assumptions C07_fnmatch_literal_star.
Theorem C07_fnmatch_star : forall ts s,
  tmatch (TStar :: ts) s = true <-> exists a b, s = a ++ b /\ tmatch ts b = true.
Proof. exact tmatch_star_iff. Qed.
Print Assumptions C07_fnmatch_star.
Theorem C07_fnmatch_literal_total : forall p, no_glob p = true -> fn_error p = false.
Proof. exact fn_error_lit. Qed.
Print Assumptions C07_fnmatch_literal_total.

Section Oracles.
  Variable resolve1 : str -> str.
  Variable resolve2 : str -> str -> str.
  Variable home : str.
  Notation m_words := (match_words resolve1 resolve2 home).
  Notation wrm := (word_rule_matches resolve1 resolve2 home).
  Notation cstr := (cmd_string resolve1 resolve2 home).
  Notation rpat := (rule_pattern resolve1 resolve2 home).
  Notation m_redirect := (match_redirect resolve1 resolve2 home).
  Notation rrm := (redirect_rule_matches resolve1 resolve2 home).
  Notation m_after := (match_after resolve1 resolve2 home).
  Notation m_command := (match_command resolve1 resolve2 home).
  Notation c_matches := (command_matches resolve1 resolve2 home).

  (* _match_words *)
  Theorem C07_last : forall al rules cwd remote ws,
    m_words al rules cwd remote ws = last_such (wrm cwd remote (cstr al cwd remote ws)) rules.
  Proof. exact (words_last resolve1 resolve2 home). Qed.

  Theorem C07_inert : forall al rs1 r rs2 cwd remote ws,
    wrm cwd remote (cstr al cwd remote ws) r = false ->
    m_words al (rs1 ++ r :: rs2) cwd remote ws = m_words al (rs1 ++ rs2) cwd remote ws.
  Proof. exact (words_inert resolve1 resolve2 home). Qed.

  (* the Match is the last matching rule itself (decision, pattern and message are that rule's),
     and that rule alone gives the same Match *)
  Theorem C07_reduce : forall al rules cwd remote ws r,
    m_words al rules cwd remote ws = Some r ->
    m_words al [r] cwd remote ws = Some r /\ In r rules /\ wrm cwd remote (cstr al cwd remote ws) r = true.
  Proof. exact (words_reduce resolve1 resolve2 home). Qed.

  Theorem C07_none : forall al rules cwd remote ws,
    m_words al rules cwd remote ws = None <->
    forallb (fun r => negb (wrm cwd remote (cstr al cwd remote ws) r)) rules = true.
  Proof. exact (words_none resolve1 resolve2 home). Qed.

  (* the hypothesis is on the pattern AFTER cwd expansion: see C09_glob_cwd_refuted *)
  Theorem C07_literal : forall cwd remote r c,
    r_exact r = false -> no_glob (rpat cwd remote r) = true ->
    (wrm cwd remote c r = true <-> c = rpat cwd remote r \/ exists rest, c = rpat cwd remote r ++ c_sp :: rest).
  Proof. exact (words_literal resolve1 resolve2 home). Qed.

  Theorem C07_anchor : forall cwd remote r c,
    r_exact r = true -> no_glob (rpat cwd remote r) = true ->
    (wrm cwd remote c r = true <-> c = rpat cwd remote r).
  Proof. exact (words_anchor resolve1 resolve2 home). Qed.

  (* "lit *" is the same rule as "lit", anchored or not *)
  Theorem C07_trailing_star : forall cwd remote r c l,
    rpat cwd remote r = l ++ sp_star -> no_glob l = true ->
    (wrm cwd remote c r = true <-> c = l \/ exists rest, c = l ++ c_sp :: rest).
  Proof. exact (words_trailing_star resolve1 resolve2 home). Qed.

  (* _match_redirect *)
  Theorem C07_redirect_last : forall rr cwd t, m_redirect rr cwd t = last_such (rrm cwd t) rr.
  Proof. exact (redirect_last resolve1 resolve2 home). Qed.
  Theorem C07_redirect_inert : forall rs1 r rs2 cwd t, rrm cwd t r = false ->
    m_redirect (rs1 ++ r :: rs2) cwd t = m_redirect (rs1 ++ rs2) cwd t.
  Proof. exact (redirect_inert resolve1 resolve2 home). Qed.
  Theorem C07_redirect_reduce : forall rr cwd t r, m_redirect rr cwd t = Some r ->
    m_redirect [r] cwd t = Some r /\ In r rr /\ rrm cwd t r = true.
  Proof. exact (redirect_reduce resolve1 resolve2 home). Qed.

  (* match_after *)
  Theorem C19_after_last : forall al ar cwd ws,
    m_after al ar cwd ws = option_map after_message (last_such (wrm cwd false (cstr al cwd false ws)) ar).
  Proof. exact (after_last resolve1 resolve2 home). Qed.
  Theorem C19_after_inert : forall al rs1 r rs2 cwd ws, wrm cwd false (cstr al cwd false ws) r = false ->
    m_after al (rs1 ++ r :: rs2) cwd ws = m_after al (rs1 ++ rs2) cwd ws.
  Proof. exact (after_inert resolve1 resolve2 home). Qed.

  (* match_command: the Match of the command words followed by the Matches of the redirect
     targets, in order; the result is the FIRST deny, else the FIRST ask, else the first match;
     its decision is the C03 join of all matches *)
  Theorem C07_command_priority : forall al rules rr cwd remote ws reds,
    match m_command al rules rr cwd remote ws reds with
    | None => c_matches al rules rr cwd remote ws reds = []
    | Some m =>
        let ms := c_matches al rules rr cwd remote ws reds in
        r_dec m = combine (map r_dec ms) /\
        ((r_dec m = Deny /\ first_with Deny ms m)
         \/ (r_dec m = Ask /\ first_with Ask ms m /\ forall x, In x ms -> r_dec x <> Deny)
         \/ (r_dec m = Allow /\ hd_error ms = Some m /\ forall x, In x ms -> r_dec x = Allow))
    end.
  Proof. exact (command_priority resolve1 resolve2 home). Qed.

  (* the analyzer passes no redirects: there match_command is _match_words *)
  Theorem C07_command_words : forall al rules rr cwd remote ws,
    m_command al rules rr cwd remote ws [] = m_words al rules cwd remote ws.
  Proof. exact (command_no_redirects resolve1 resolve2 home). Qed.
  (* ---- pattern-side and command-side normalisation agree (second round; seeded change C07b) ----
     wordb w: w is non-empty and has no character str.split() splits on (a shell word as the matcher
     receives it).  All four statements hold for EVERY resolve() / home() / cwd: they do not depend on
     what a path token resolves to, only on both sides being normalised by the same function. *)
  Theorem C07_pattern_tokenwise : forall cwd p,
    normalize_pattern resolve1 resolve2 home cwd p
    = join [c_sp] (map (normalize_token resolve1 resolve2 home cwd) (split_py p)).
  Proof. exact (pattern_tokenwise resolve1 resolve2 home). Qed.
  Theorem C07_pattern_is_words : forall cwd ws, forallb wordb ws = true ->
    normalize_pattern resolve1 resolve2 home cwd (join [c_sp] ws) = normalize_words resolve1 resolve2 home cwd ws.
  Proof. exact (pattern_is_words resolve1 resolve2 home). Qed.
  (* a rule whose pattern is the command's own text fires on that command, anchored or not
     (the hypothesis is on the EXPANDED text, see C09_glob_cwd_refuted) *)
  Theorem C07_self_match : forall cwd r ws,
    r_pat r = join [c_sp] ws -> forallb wordb ws = true ->
    no_glob (normalize_words resolve1 resolve2 home cwd ws) = true ->
    m_words [] [r] cwd false ws = Some r.
  Proof. exact (match_words_self resolve1 resolve2 home). Qed.
  (* followed by more words: fires iff the rule has no | anchor *)
  Theorem C07_self_match_prefix : forall cwd r ws extra,
    r_pat r = join [c_sp] ws -> forallb wordb ws = true ->
    no_glob (normalize_words resolve1 resolve2 home cwd ws) = true -> ws <> [] -> extra <> [] ->
    wrm cwd false (cstr [] cwd false (ws ++ extra)) r = negb (r_exact r).
  Proof. exact (self_match_prefix resolve1 resolve2 home). Qed.
  (* remote mode (since /repo 098b659): no path is resolved on either side, and a leading ~ of a command
     word is expanded exactly as parse_config expands it in the pattern *)
  Theorem C07_self_match_remote : forall cwd r ws,
    r_pat r = join [c_sp] (map (expand_home_only home) ws) -> no_glob (r_pat r) = true ->
    m_words [] [r] cwd true ws = Some r.
  Proof. exact (self_match_remote resolve1 resolve2 home). Qed.
End Oracles.
Print Assumptions C07_last.
Print Assumptions C07_inert.
Print Assumptions C07_reduce.
Print Assumptions C07_none.
Print Assumptions C07_literal.
Print Assumptions C07_anchor.
Print Assumptions C07_trailing_star.
Print Assumptions C07_redirect_last.
Print Assumptions C07_redirect_inert.
Print Assumptions C07_redirect_reduce.
Print Assumptions C19_after_last.
Print Assumptions C19_after_inert.
Print Assumptions C07_command_priority.
Print Assumptions C07_command_words.
Print Assumptions C07_pattern_tokenwise.
Print Assumptions C07_pattern_is_words.
Print Assumptions C07_self_match.
Print Assumptions C07_self_match_prefix.
Print Assumptions C07_self_match_remote.

(* str.split() undoes ' '.join() on shell words *)
Theorem C07_split_join : forall ws, forallb wordb ws = true -> split_py (join [c_sp] ws) = ws.
Proof. exact split_py_join. Qed.
Print Assumptions C07_split_join.

(* match_mcp / match_after_mcp (the matcher half of C14 / C19) *)
Theorem C14_mcp_last : forall rs tool, match_mcp rs tool = last_such (mcp_rule_matches tool) rs.
Proof. exact mcp_last. Qed.
Print Assumptions C14_mcp_last.
Theorem C14_mcp_inert : forall rs1 r rs2 tool, mcp_rule_matches tool r = false ->
  match_mcp (rs1 ++ r :: rs2) tool = match_mcp (rs1 ++ rs2) tool.
Proof. exact mcp_inert. Qed.
Print Assumptions C14_mcp_inert.
Theorem C14_mcp_literal : forall r tool, no_glob (r_pat r) = true -> (mcp_rule_matches tool r = true <-> tool = r_pat r).
Proof. exact mcp_literal. Qed.
Print Assumptions C14_mcp_literal.
Theorem C19_after_mcp_last : forall rs tool,
  match_after_mcp rs tool = option_map after_message (last_such (mcp_rule_matches tool) rs).
Proof. exact after_mcp_last. Qed.
Print Assumptions C19_after_mcp_last.
Theorem C19_after_mcp_inert : forall rs1 r rs2 tool, mcp_rule_matches tool r = false ->
  match_after_mcp (rs1 ++ r :: rs2) tool = match_after_mcp (rs1 ++ rs2) tool.
Proof. exact after_mcp_inert. Qed.
Print Assumptions C19_after_mcp_inert.

(* non-vacuity: deny / allow / ask rules in an order where the last match decides, a literal rule
   matching by whole-word prefix only, an anchored rule matching by equality only *)
Definition ex_rules : list rule :=
  [mkRule Allow $"git *" None false []; mkRule Deny $"git push" (Some $"no pushing") false [];
   mkRule Ask $"git push --dry-run|" None true []; mkRule Allow $"zap" None false []].
Example C07_example_last :
  let mw := match_words (fun p => p) (fun _ t => t) $"/home/u" [] ex_rules $"/w" false in
  option_map r_dec (mw [$"git"; $"status"]) = Some Allow /\
  option_map r_msg (mw [$"git"; $"push"; $"origin"]) = Some (Some $"no pushing") /\
  option_map r_dec (mw [$"git"; $"pushx"]) = Some Allow /\
  mw [$"zapper"] = None /\ option_map r_dec (mw [$"zap"; $"x"]) = Some Allow.
Proof. vm_compute. repeat split; reflexivity. Qed.
Example C07_example_brackets :
  fnmatch $"b" $"[a-c]" = true /\ fnmatch $"b" $"[c-a]" = false /\ fnmatch $"]" $"[]]" = true /\
  fnmatch $"x" $"[!a-c]" = true /\ fnmatch $"[" $"[" = true /\ fnmatch $"-" $"[a-]" = true /\
  fnmatch [97;10;98] $"a?b" = true /\ fn_error $"[b-a][!--]" = false.
Proof. vm_compute. repeat split; reflexivity. Qed.
