(* C13 (handler half) - docker/podman exec and kubectl exec extract the inner command the tool really
   runs and delegate it with remote = true.  Models follow /repo after a411fbf (docker) and 7f14a42 (kubectl).
   Property theorems only; proofs in Proofs/WrappersP.v.  The ladder half (C13_inner, C13_relax, ...) is
   Props/C13L.v. *)
From DippyV Require Import Base.Str Base.Verdict Gen.Tables Model.BashQuote Model.Getopt Model.Wrappers Model.WrapSpec
  Proofs.WrappersP.

(* docker|podman exec ARGS, for EVERY argument list: whenever docker (pflag with docker's exec flag table:
   -d -i -t clusters, -e/-u/-w and --env --env-file --user --workdir --detach-keys with separate, attached or
   =-joined values - ANY value, also -- -, the -- separator before the container) sends the command cmd to the
   container, the handler delegates exactly cmd, marked remote. *)
Theorem C13_extract_docker : forall base args cmd,
  In base [$"docker"; $"podman"] -> docker_exec_args args = Some [cmd] ->
  modelled (base :: $"exec" :: args) = Some (HWords [cmd] true).
Proof. exact docker_extract_general. Qed.
Print Assumptions C13_extract_docker.

(* the step it rests on: the handler's option scan stops exactly where docker's does *)
Theorem C13_docker_options : forall args p a,
  pflag docker_exec_flags false args = POk p a false -> docker_exec_opts args = joinpos p a.
Proof. exact docker_opts_general. Qed.
Print Assumptions C13_docker_options.

(* kubectl|k exec WORDS -- COMMAND ARG... where WORDS are pod names, -i -t -it -q --stdin --tty --quiet,
   value flags with ANY separate value (also the word --), =-joined and attached values *)
Theorem C13_extract_kubectl : forall base mid ps cmd,
  In base [$"kubectl"; $"k"] -> kc_mid mid ps -> cmd <> [] ->
  modelled (base :: $"exec" :: mid ++ $"--" :: cmd) = Some (HWords [cmd] true) /\
  kubectl_exec ($"exec" :: mid ++ $"--" :: cmd) = Some [cmd].
Proof. exact kubectl_extract. Qed.
Print Assumptions C13_extract_kubectl.

(* the delegated command is a suffix of the command line *)
Theorem C13_inner_is_suffix :
  (forall l, suffix_of (docker_exec_inner l) l) /\ (forall l s, after_ddash l = Some s -> suffix_of s l).
Proof. exact (conj docker_inner_suffix after_ddash_suffix). Qed.
Print Assumptions C13_inner_is_suffix.

(* formerly refuted, now proved instances; the old extraction as Legacy with its refutation *)
Theorem C13_repaired_witnesses :
  (modelled (w ["docker"; "exec"; "--"; "ls"; "rm"; "x"]) = Some (HWords [w ["rm"; "x"]] true) /\
   modelled (w ["docker"; "exec"; "-ie"; "A=1"; "ls"; "rm"; "x"]) = Some (HWords [w ["rm"; "x"]] true) /\
   modelled (w ["docker"; "exec"; "--detach-keys"; "a"; "cat"; "rm"; "x"]) = Some (HWords [w ["rm"; "x"]] true)) /\
  (modelled (w ["kubectl"; "exec"; "--cache-dir"; "--"; "ls"; "--"; "rm"; "x"]) = Some (HWords [w ["rm"; "x"]] true) /\
   wrapper_exec (w ["kubectl"; "exec"; "--cache-dir"; "--"; "ls"; "--"; "rm"; "x"]) = Some [w ["rm"; "x"]]).
Proof. exact (conj docker_formerly_refuted kubectl_formerly_refuted). Qed.
Print Assumptions C13_repaired_witnesses.

Theorem C13_legacy_refuted :
  (legacy_docker_exec_inner (w ["--"; "ls"; "rm"; "x"]) = w ["ls"; "rm"; "x"] /\
   docker_exec_args (w ["--"; "ls"; "rm"; "x"]) = Some [w ["rm"; "x"]]) /\
  (legacy_after_ddash (w ["--cache-dir"; "--"; "ls"; "--"; "rm"; "x"]) = Some (w ["ls"; "--"; "rm"; "x"]) /\
   kubectl_exec (w ["exec"; "--cache-dir"; "--"; "ls"; "--"; "rm"; "x"]) = Some [w ["rm"; "x"]]).
Proof. exact (conj legacy_docker_refuted legacy_kubectl_refuted). Qed.
Print Assumptions C13_legacy_refuted.

Example C13_example_docker :
  docker_exec_args (w ["-it"; "-e"; "--"; "--env=A=1"; "-wdir"; "-ie"; "X=1"; "--"; "web"; "rm"; "-rf"; "/"]) = Some [w ["rm"; "-rf"; "/"]].
Proof. vm_compute. reflexivity. Qed.
Example C13_example_kubectl :
  kc_mid (w ["pod"; "-it"; "--cache-dir"; "--"; "-cctr"]) (w ["pod"]).
Proof.
  apply kc_pos; [reflexivity|]. apply kc_bool; [cbn; tauto|]. apply kc_sep; [cbn; tauto|].
  apply (kc_att $"-c" $"ctr"); [cbn; tauto|discriminate|]. constructor.
Qed.
