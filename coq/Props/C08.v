(* C08 - Allow rules are local to the command they match.  Property theorems only. *)
From DippyV Require Import Base.Str Base.Verdict Base.Tree Gen.Tables Model.Walker Model.Cover
  Proofs.WalkerP Proofs.CoverP Proofs.C08P.

(* Two configurations: without the rule (simple, rulematch) and with one more command rule
   (simple', rulematch', astr'), P = the token lists the rule's pattern matches.  Redirect rules
   are a separate list (mredir is shared).  For every tree, at every simple command reached at
   any depth of a program approved WITH the rule: its redirections are all granted, the
   substitutions in its words all approved, and if the rule does not match it the command itself
   is approved by the configuration without the rule. *)
Theorem C08_local : forall simple rulematch simple' rulematch' astr' P mredir cdres injrisk,
  (forall c ws, P (skip_assignments ws) = false ->
     simple' c ws = simple c ws /\ rulematch' c (skip_assignments ws) = rulematch c (skip_assignments ws)) ->
  forall c t, walk simple' astr' mredir cdres injrisk rulematch' c t = Allow ->
  forall n d, In (RNode, d) (reach_fuel n RNode t) -> is_kind "command" d = true ->
  exists c', snd c' = snd c /\
    ok (redirs_of simple' astr' mredir cdres injrisk rulematch' c' d) /\
    ok (wparts simple' astr' mredir cdres injrisk rulematch' c' (children "words" d)) /\
    ok (cmd_inj injrisk c' d) /\
    (P (skip_assignments (cmd_words d)) = false -> ok (cmd_proper simple rulematch c' d)).
Proof. exact allow_rule_local. Qed.
Print Assumptions C08_local.

(* the rule lookup sees the words of exactly one simple command: the command proper is the only
   component of a simple command's verdict that consults command rules *)
Theorem C08_one_command : forall simple astr mredir cdres injrisk rulematch c ss fs ks,
  let t := T $"command" ss fs ks in
  walk simple astr mredir cdres injrisk rulematch c t =
  combine (wparts simple astr mredir cdres injrisk rulematch c (children "words" t) ++ cmd_env t ++ cmd_names astr c t ++ cmd_inj injrisk c t ++
           redirs_of simple astr mredir cdres injrisk rulematch c t ++ cmd_proper simple rulematch c t).
Proof. exact walk_command. Qed.
Print Assumptions C08_one_command.

(* non-vacuity: "okcmd > f; rm x" with an allow rule for okcmd: not approved, and the redirect's
   and the sibling's verdicts are what they are without the rule *)
Example C08_example :
  let w s := T $"word" [($"value", s)] [] [] in
  let cmd ws rs := T $"command" [] [] (map (fun x => ($"words", x)) ws ++ map (fun x => ($"redirects", x)) rs) in
  let red := T $"redirect" [($"op", $">")] [] [($"target", w $"f")] in
  let t := T $"list" [] [] [($"parts", cmd [w $"okcmd"] [red]); ($"parts", cmd [w $"rm"; w $"x"] [])] in
  let simple' := fun (_ : ctx) ws => if str_eqb (hd [] ws) $"okcmd" then Allow else Ask in
  walk simple' (fun _ _ => Ask) (fun _ _ => None) (fun _ x => x) (fun _ _ => false) (fun _ _ => false) ([47], false) t = Ask.
Proof. vm_compute. reflexivity. Qed.
