(* C17 - Auto-approved Python scripts are inert; the analysed file is the one executed.
   Property theorems only; proofs are in Proofs/PyArgsP.v (visitor) and Proofs/C17P.v (command line).
   The model follows /repo after the repairs bf22018 (script analysis) and d90b300 (_scan_options).

   Three groups are proved here: C17_visitor* (the AST visitor skips no node), C17_args* (soundness of an
   approval with respect to CPython's own argv grammar, for EVERY token list, and what the decision
   reads), C17_file* (which path is analysed).  Runtime inertness of an approved script is NOT a
   theorem: there is no model of CPython's object model; it is explored by harness/c17.py under an
   audit hook and reported in the evidence as coverage.inertness. *)
From DippyV Require Import Base.Str Base.Sx Base.Tree Gen.Tables Model.PyArgs Proofs.PyArgsP Proofs.C17P.

(* ------------------------------------------------------------------ visitor *)

(* No node anywhere in the tree is skipped, for every tree shape: if SafetyAnalyzer reports nothing then
   every descendant - paired with the one bit of context the visitor keeps, "I am the Name in the func
   field of the Call above me" (_called_names) - passes the per-node check.  Hypothesis: Global nodes are
   leaves, as in Python's ast (Global(identifier* names)); visit_Global is `pass`. *)
Theorem C17_visitor : forall allow_print t,
  global_leaf t -> visit allow_print false t = [] ->
  forall callee d, In (callee, d) (descc false t) -> node_ok allow_print callee d.
Proof. exact visitor. Qed.
Print Assumptions C17_visitor.

(* descc is desc with that bit attached: every descendant is judged *)
Theorem C17_visitor_all_nodes : forall allow_print t,
  global_leaf t -> visit allow_print false t = [] ->
  forall d, In d (desc t) -> exists callee, In (callee, d) (descc false t) /\ node_ok allow_print callee d.
Proof. exact visitor_all_nodes. Qed.
Print Assumptions C17_visitor_all_nodes.

Theorem C17_visitor_exact : forall allow_print t,
  global_leaf t ->
  (visit allow_print false t = [] <-> forall callee d, In (callee, d) (descc false t) -> node_ok allow_print callee d).
Proof. exact visitor_iff. Qed.
Print Assumptions C17_visitor_exact.

(* node_ok (extended by the repair: no uncalled Load of a dangerous builtin, no attribute or imported
   name that is ESCAPE_ATTRS / named like a dangerous module) is exactly the visit_ method's own test *)
Theorem C17_node_check : forall allow_print callee d, local allow_print callee d = [] <-> node_ok allow_print callee d.
Proof. exact local_nil_iff. Qed.
Print Assumptions C17_node_check.

Theorem C17_visitor_order : forall allow_print t callee,
  visit allow_print callee t = flat_map (fun p => local allow_print (fst p) (snd p)) (reach callee t).
Proof. exact visit_reach. Qed.
Print Assumptions C17_visitor_order.

(* analyze_python_source = the visitor + the sibling check over imported_roots; and imported_roots misses
   no import statement of an accepted tree *)
Theorem C17_source : forall sibling local allow_print t,
  source_viols sibling local allow_print t = [] <->
  visit allow_print false t = [] /\ (forall r, In r (roots t) -> sibling r = false) /\ local = false.
Proof. exact source_viols_nil. Qed.
Print Assumptions C17_source.

Theorem C17_imported_roots : forall allow_print t callee, global_leaf t -> visit allow_print callee t = [] ->
  forall d, In d (desc t) ->
    (kind_of d = $"Import" -> forall a, In a (children "names" d) -> In (root_of (attr_d "name" a)) (roots t)) /\
    (kind_of d = $"ImportFrom" -> forall m, attr "module" d = Some m -> In (root_of m) (roots t)).
Proof. exact roots_complete. Qed.
Print Assumptions C17_imported_roots.

(* Full statement over ALL rose trees (no hypothesis) is false of the faithful model: visit_Global does
   not call generic_visit.  Not reachable from ast.parse output (checked on every run by the harness). *)
Theorem C17_visitor_all_trees_refuted :
  exists t, visit true false t = [] /\ exists b d, In (b, d) (descc false t) /\ ~ node_ok true b d.
Proof. exact global_leaf_needed. Qed.
Print Assumptions C17_visitor_all_trees_refuted.

Theorem C17_tables :
  PY_VISIT_METHODS = visit_kinds /\
  (forall m, In m PY_SAFE_MODULES -> mod_viols m = []) /\
  (forall m, In m PY_DANGEROUS_MODULES -> mod_viols m <> []) /\
  (forall b, In b PY_DANGEROUS_BUILTINS -> ~ In b PY_SAFE_BUILTINS) /\
  (forall a, In a PY_REFLECTION_ATTRS -> In a PY_DANGEROUS_ATTRS).
Proof. exact (conj visit_methods_tie tables_facts). Qed.
Print Assumptions C17_tables.

(* ------------------------------------------------------------------ arguments *)

(* Soundness against CPython's own grammar (py_cmdline), for EVERY token list and every file system
   (oracles): an approval means CPython runs nothing (help, version, usage error), or the standard
   calendar module with no REPL afterwards and no calendar.py/calendar/ in the command's directory, or
   exactly the file whose analysis succeeded, from its first line and without a REPL afterwards.
   No hypothesis is left: clustered / attached options, option arguments, "-", "--", -x, -i are all read
   as CPython reads them (the previous C17_args_sound_refuted witnesses are now examples below). *)
Theorem C17_args_sound : forall resolve analyze shadow cc pc tokens,
  classify resolve analyze shadow cc pc tokens = PAllow ->
  sound resolve analyze shadow (cwd_of cc pc) tokens (py_cmdline tokens).
Proof. exact args_sound. Qed.
Print Assumptions C17_args_sound.

(* the scanner and CPython agree on every option list of known options, or CPython stops with a message *)
Theorem C17_scan_agrees : forall l fl i, known (sc_seen (scan i l)) = true ->
  (has_info (sc_seen (scan i l)) = true -> inert (pyargs fl i l)) /\
  (has_info (sc_seen (scan i l)) = false -> fl_version fl = false ->
     inert (pyargs fl i l) \/ agrees fl i l (scan i l)).
Proof. exact scan_agrees. Qed.
Print Assumptions C17_scan_agrees.

(* With p the position where python's own options end (the script, or the argument of -c / -m), no token at
   an index after p influences the decision: `python x.py --version`, `python -c code -h` are not help. *)
Theorem C17_args_tail : forall resolve analyze shadow cc pc tokens tokens',
  let p := sc_idx (scan 1 (tl tokens)) in
  firstn (S p) tokens = firstn (S p) tokens' ->
  classify resolve analyze shadow cc pc tokens = classify resolve analyze shadow cc pc tokens'.
Proof. exact args_tail. Qed.
Print Assumptions C17_args_tail.

Theorem C17_version_inert : forall l fl i, fl_version fl = true -> inert (pyargs fl i l).
Proof. exact version_inert. Qed.
Print Assumptions C17_version_inert.

(* ------------------------------------------------------------------ file *)

Theorem C17_file_cwd : forall resolve analyze shadow c pc pc' tokens,
  classify resolve analyze shadow (Some c) pc tokens = classify resolve analyze shadow (Some c) pc' tokens.
Proof. exact file_process_cwd. Qed.
Print Assumptions C17_file_cwd.

Theorem C17_file_only_path : forall resolve an1 an2 shadow cc pc tokens,
  (forall s p, nth_error tokens (sc_idx (scan 1 (tl tokens))) = Some s ->
               resolve (pjoin (cwd_of cc pc) s) = Some p -> an1 p = an2 p) ->
  classify resolve an1 shadow cc pc tokens = classify resolve an2 shadow cc pc tokens.
Proof. exact file_only_path. Qed.
Print Assumptions C17_file_only_path.

Theorem C17_file_relative : forall resolve analyze shadow cwd pc tokens s,
  let r := scan 1 (tl tokens) in
  (2 <= length tokens)%nat -> known (sc_seen r) = true -> has_info (sc_seen r) = false -> sc_mode r = None ->
  mem_str $"-i" (sc_seen r) = false -> mem_str $"-x" (sc_seen r) = false -> mem_str $"-X" (sc_seen r) = false ->
  nth_error tokens (sc_idx r) = Some s -> s <> dash -> shell_rewrites s = false -> is_abs s = false -> suffixb [47] cwd = false ->
  classify resolve analyze shadow (Some cwd) pc tokens =
  match resolve (cwd ++ [47] ++ s) with
  | None => PExn
  | Some p => if analyze p then PAllow else PAsk
  end.
Proof. exact file_relative. Qed.
Print Assumptions C17_file_relative.

(* an approval has exactly three sources *)
Theorem C17_allow_sources : forall resolve analyze shadow cc pc t0 r0 rest,
  let tokens := t0 :: r0 :: rest in let r := scan 1 (r0 :: rest) in
  classify resolve analyze shadow cc pc tokens = PAllow ->
  known (sc_seen r) = true /\
  ((exists o, In o (sc_seen r) /\ In o PY_INFO_OPTIONS) \/
   (sc_mode r = Some 109 /\ sc_arg r = Some $"calendar" /\ shadow (cwd_of cc pc) = false /\
    mem_str $"-i" (sc_seen r) = false) \/
   (sc_mode r = None /\ mem_str $"-i" (sc_seen r) = false /\ mem_str $"-x" (sc_seen r) = false /\
    exists s p, nth_error tokens (sc_idx r) = Some s /\ s <> dash /\ shell_rewrites s = false /\
                resolve (pjoin (cwd_of cc pc) s) = Some p /\ analyze p = true)).
Proof. exact allow_inv. Qed.
Print Assumptions C17_allow_sources.

(* repairs 6fb4634 / 1872043: an approved script word is not one bash rewrites (~, $, `, {, *, ?, [) - see
   C17_allow_sources - and -X pycache_prefix / -X perf among python's own options is never approved *)
Theorem C17_xoption_asks : forall resolve analyze shadow cc pc t0 r0 rest,
  let r := scan 1 (r0 :: rest) in
  classify resolve analyze shadow cc pc (t0 :: r0 :: rest) = PAllow -> has_info (sc_seen r) = false ->
  mem_str $"-X" (sc_seen r) = true -> wfx (sc_idx r - 1) (r0 :: rest) = false.
Proof. exact xoption_asks. Qed.
Print Assumptions C17_xoption_asks.

(* ------------------------------------------------------------------ non-vacuity *)

Definition ex_tree : tree :=
  T $"Module" [] []
    [($"body", T $"Import" [] [] [($"names", T $"alias" [($"name", $"json")] [] [])]);
     ($"body", T $"Expr" [] []
        [($"value", T $"Call" [] []
           [($"func", T $"Name" [($"id", $"print")] [] [($"ctx", T $"Load" [] [] [])]);
            ($"args", T $"Call" [] []
               [($"func", T $"Name" [($"id", $"len")] [] [($"ctx", T $"Load" [] [] [])]);
                ($"args", T $"Constant" [($"value", $"x")] [] [])])])])].
Example ex_tree_accepted : visit true false ex_tree = [] /\ global_leaf ex_tree /\ roots ex_tree = [$"json"].
Proof.
  split; [vm_compute; reflexivity|]. split; [|vm_compute; reflexivity]. intros d Hd Hk. cbn in Hd.
  repeat (destruct Hd as [<-|Hd]; [try reflexivity; discriminate Hk|]). destruct Hd.
Qed.
Example ex_tree_shadowed : source_viols (fun r => str_eqb r $"json") false true ex_tree = [(KShadow, $"json")] /\
  source_viols (fun _ => false) true true ex_tree = [(KShadow, [])].
Proof. vm_compute. split; reflexivity. Qed.
(* `f = open` (a Load of the name, not a call) and `json.codecs` are now reported; `open = 1` (Store) is not *)
Example ex_alias :
  visit true false (T $"Assign" [] [] [($"targets", T $"Name" [($"id", $"f")] [] [($"ctx", T $"Store" [] [] [])]);
                                       ($"value", T $"Name" [($"id", $"open")] [] [($"ctx", T $"Load" [] [] [])])])
    = [(KBuiltin, $"open")] /\
  visit true false (T $"Attribute" [($"attr", $"codecs")] [] [($"value", T $"Name" [($"id", $"json")] [] [($"ctx", T $"Load" [] [] [])])])
    = [(KEscapeAttr, $"codecs")] /\
  visit true false (T $"Assign" [] [] [($"targets", T $"Name" [($"id", $"open")] [] [($"ctx", T $"Store" [] [] [])])]) = [].
Proof. vm_compute. repeat split. Qed.

(* the former counterexamples: all ask now; and the placements the property names *)
Example ex_former_witnesses :
  w_classify [$"python"; $"-"; $"s.py"] = PAsk /\ w_classify [$"python"; $"-Bi"; $"s.py"] = PAsk /\
  w_classify [$"python"; $"-x"; $"s.py"] = PAsk /\ w_classify [$"python"; $"-Bc"; $"s.py"] = PAsk /\
  w_classify [$"python"; $"-W"; $"-h"; $"evil.py"] = PAsk /\ w_classify [$"python"; $"-W"; $"-m"; $"calendar"] = PAsk /\
  w_classify [$"python"; $"--"; $"-h"] = PAsk /\ w_classify [$"python"; $"-i"; $"-m"; $"calendar"] = PAsk /\
  w_classify [$"python"; $"-u"; $"s.py"; $"--version"] = PAllow /\
  w_classify [$"python"; $"-u"; $"evil.py"; $"--version"] = PAsk /\
  w_classify [$"python"; $"-c"; $"1"; $"-h"] = PAsk /\ w_classify [$"python"; $"-Bm"; $"calendar"] = PAllow /\
  w_classify [$"python"; $"-BV"] = PAllow /\
  py_cmdline [$"python"; $"-u"; $"s.py"; $"--version"] = RFile 2 fl0 /\
  w_classify [$"python"; $"-X"; $"pycache_prefix=/c"; $"s.py"] = PAsk /\ w_classify [$"python"; $"-BXperf"; $"s.py"] = PAsk /\
  w_classify [$"python"; $"-X"; $"dev"; $"s.py"] = PAllow /\ w_classify [$"python"; $"-X"; $"perf"; $"-V"] = PAllow /\
  classify w_resolve (fun _ => true) w_shadow (Some $"/w") $"/" [$"python"; $"~/s.py"] = PAsk /\
  classify w_resolve (fun _ => true) w_shadow (Some $"/w") $"/" [$"python"; $"$HOME/s.py"] = PAsk /\
  classify w_resolve (fun _ => true) w_shadow (Some $"/w") $"/" [$"python"; $"{a,s}.py"] = PAsk /\
  classify w_resolve (fun _ => true) w_shadow (Some $"/w") $"/" [$"python"; $"s.py"] = PAllow.
Proof. vm_compute. repeat split. Qed.
