(* C17 - Auto-approved Python scripts are inert; the analysed file is the one executed.
   Property theorems only; proofs are in Proofs/PyArgsP.v (visitor) and Proofs/C17P.v (command line).

   Three groups are proved here: C17_visitor* (the AST visitor skips no node), C17_args* (what the
   decision reads from the command line, and its soundness with respect to CPython's own argv
   grammar), C17_file* (which path is analysed).  Runtime inertness of an approved script is NOT a
   theorem: there is no model of CPython's object model; it is explored by harness/c17.py under an
   audit hook and reported in the evidence as coverage.inertness. *)
From DippyV Require Import Base.Str Base.Sx Base.Tree Gen.Tables Model.PyArgs Proofs.PyArgsP Proofs.C17P.

(* ------------------------------------------------------------------ visitor *)

(* No node anywhere in the tree is skipped, for every tree shape: if SafetyAnalyzer reports nothing then
   every descendant passes the per-node check.  Hypothesis: Global nodes are leaves, as in Python's ast
   (Global(identifier* names)); visit_Global is `pass` and would hide a subtree otherwise. *)
Theorem C17_visitor : forall allow_print t,
  global_leaf t -> visit allow_print t = [] -> forall d, In d (desc t) -> node_ok allow_print d.
Proof. exact visitor. Qed.
Print Assumptions C17_visitor.

(* ... and conversely: the visitor reports nothing else *)
Theorem C17_visitor_exact : forall allow_print t,
  global_leaf t -> (visit allow_print t = [] <-> forall d, In d (desc t) -> node_ok allow_print d).
Proof. exact visitor_iff. Qed.
Print Assumptions C17_visitor_exact.

(* node_ok is exactly the test the visit_ method of the node's class performs itself *)
Theorem C17_node_check : forall allow_print d, local allow_print d = [] <-> node_ok allow_print d.
Proof. exact local_nil_iff. Qed.
Print Assumptions C17_node_check.

(* the violation list is the concatenation of the per-node reports in document order over the nodes
   reached (everything, minus below Global and below `from . import x`, which is itself reported) *)
Theorem C17_visitor_order : forall allow_print t, visit allow_print t = flat_map (local allow_print) (reach t).
Proof. exact visit_reach. Qed.
Print Assumptions C17_visitor_order.

(* Full statement over ALL rose trees (no hypothesis):
     forall ap t, visit ap t = [] -> forall d, In d (desc t) -> node_ok ap d
   is false of the faithful model: visit_Global does not call generic_visit.  Not reachable from
   ast.parse output (checked on every run by the harness: Global._fields == ('names',)). *)
Theorem C17_visitor_all_trees_refuted :
  exists t, visit true t = [] /\ exists d, In d (desc t) /\ ~ node_ok true d.
Proof. exact global_leaf_needed. Qed.
Print Assumptions C17_visitor_all_trees_refuted.

(* ties to the tables of cli/python.py regenerated on every run *)
Theorem C17_tables :
  PY_VISIT_METHODS = visit_kinds /\
  (forall m, In m PY_SAFE_MODULES -> mod_viols m = []) /\
  (forall m, In m PY_DANGEROUS_MODULES -> mod_viols m <> []) /\
  (forall b, In b PY_DANGEROUS_BUILTINS -> ~ In b PY_SAFE_BUILTINS) /\
  (forall a, In a PY_REFLECTION_ATTRS -> In a PY_DANGEROUS_ATTRS).
Proof. exact (conj visit_methods_tie tables_facts). Qed.
Print Assumptions C17_tables.

(* ------------------------------------------------------------------ arguments *)

(* Refinement: for `python <own options> script args...` the decision is a function of the options and
   the script token; no token after the script position is read. *)
Theorem C17_args_script_form : forall resolve analyze cc pc t0 pre s post,
  consumed pre -> is_dash s = false ->
  classify resolve analyze cc pc (t0 :: pre ++ s :: post) = classify_script resolve analyze (cwd_of cc pc) t0 pre s.
Proof. exact classify_script_form. Qed.
Print Assumptions C17_args_script_form.

Theorem C17_args_script_tail : forall resolve analyze cc pc t0 pre s post post',
  consumed pre -> is_dash s = false ->
  classify resolve analyze cc pc (t0 :: pre ++ s :: post) = classify resolve analyze cc pc (t0 :: pre ++ s :: post').
Proof. exact args_script_tail. Qed.
Print Assumptions C17_args_script_tail.

(* -c CODE args / -m MODULE args: nothing after the argument is read (`python -c code -h` is not help) *)
Theorem C17_args_cm_tail : forall resolve analyze cc pc t0 pre c a post post',
  consumed pre -> mem_str c PY_CM_FLAGS = true ->
  classify resolve analyze cc pc (t0 :: pre ++ c :: a :: post) =
  classify resolve analyze cc pc (t0 :: pre ++ c :: a :: post').
Proof. exact args_cm_tail. Qed.
Print Assumptions C17_args_cm_tail.

(* Full statement: "no token after the position where python's own options end influences the decision".
   False when that position holds "-" (stdin): _own_options stops there, _find_script_path does not. *)
Theorem C17_args_tail_refuted :
  exists resolve analyze cc pc post post',
    classify resolve analyze cc pc ($"python" :: dash :: post) <> classify resolve analyze cc pc ($"python" :: dash :: post').
Proof. exact refuted_tail. Qed.
Print Assumptions C17_args_tail_refuted.

(* Soundness against CPython's own grammar (py_cmdline), for command lines whose own options are
   whole-token configuration flags (-B -u -O ... / -W arg / -X arg) followed by a script, a help or
   version flag, or -c / -m: an approval means CPython runs nothing, or `-m calendar`, or exactly the
   analysed file, from its first line and without a REPL afterwards. *)
Theorem C17_args_sound_partial : forall resolve analyze cc pc t0 pre tail,
  is_dash t0 = false -> plain_pre pre -> prog_head tail ->
  classify resolve analyze cc pc (t0 :: pre ++ tail) = PAllow ->
  sound resolve analyze (cwd_of cc pc) (t0 :: pre ++ tail) (py_cmdline (t0 :: pre ++ tail)).
Proof. exact args_sound. Qed.
Print Assumptions C17_args_sound_partial.

(* Full statement:  forall tokens, classify ... tokens = PAllow -> sound ... tokens (py_cmdline tokens).
   False of the faithful model - and of the implementation (each witness is replayed on the real
   classify and the real interpreter by harness/c17.py): clustered short options, -x, "-", "--", and
   option ARGUMENTS mistaken for options, -m examined before -i. *)
Theorem C17_args_sound_refuted :
  unsound [$"python"; $"-"; $"s.py"] /\ unsound [$"python"; $"-Bi"; $"s.py"] /\
  unsound [$"python"; $"-x"; $"s.py"] /\ unsound [$"python"; $"-Bc"; $"s.py"] /\
  unsound [$"python"; $"-W"; $"-h"; $"evil.py"] /\ unsound [$"python"; $"-W"; $"-m"; $"calendar"] /\
  unsound [$"python"; $"--"; $"-h"] /\ unsound [$"python"; $"-i"; $"-m"; $"calendar"].
Proof.
  exact (conj refuted_stdin (conj refuted_cluster_i (conj refuted_skip_line (conj refuted_cluster_c
        (conj refuted_arg_help (conj refuted_arg_m (conj refuted_ddash refuted_i_m))))))).
Qed.
Print Assumptions C17_args_sound_refuted.

(* once -V / --version has been read CPython runs nothing, whatever follows *)
Theorem C17_version_inert : forall l fl i, fl_version fl = true -> inert (pyargs fl i l).
Proof. exact version_inert. Qed.
Print Assumptions C17_version_inert.

(* ------------------------------------------------------------------ file *)

(* the hook process's own working directory plays no role when the command's directory is given *)
Theorem C17_file_cwd : forall resolve analyze c pc pc' tokens,
  classify resolve analyze (Some c) pc tokens = classify resolve analyze (Some c) pc' tokens.
Proof. exact file_process_cwd. Qed.
Print Assumptions C17_file_cwd.

(* the analysed path is resolve(cwd/script) and the file system is consulted about that path only *)
Theorem C17_file_only_path : forall resolve an1 an2 cc pc tokens,
  (forall s p, find_script (tl tokens) = Some s -> resolve (pjoin (cwd_of cc pc) s) = Some p -> an1 p = an2 p) ->
  classify resolve an1 cc pc tokens = classify resolve an2 cc pc tokens.
Proof. exact file_only_path. Qed.
Print Assumptions C17_file_only_path.

Theorem C17_file_relative : forall resolve analyze cwd pc t0 pre s post,
  consumed pre -> is_dash s = false -> is_abs s = false -> suffixb [47] cwd = false ->
  existsb (fun t => mem_str t PY_SAFE_FLAGS) pre = false ->
  mem_str $"-c" (t0 :: pre) = false -> mem_str $"-m" (t0 :: pre) = false -> mem_str $"-i" (t0 :: pre) = false ->
  blocked pre = false ->
  classify resolve analyze (Some cwd) pc (t0 :: pre ++ s :: post) =
  match resolve (cwd ++ [47] ++ s) with
  | None => PExn
  | Some p => if analyze p then PAllow else PAsk
  end.
Proof. exact file_relative. Qed.
Print Assumptions C17_file_relative.

(* an approval has exactly three sources: a help/version flag among python's own options,
   `-m calendar`, or a successful analysis of resolve(cwd/script) *)
Theorem C17_allow_sources : forall resolve analyze cc pc t0 rest,
  classify resolve analyze cc pc (t0 :: rest) = PAllow ->
  (exists h, In h (own_tail rest) /\ In h PY_SAFE_FLAGS) \/
  (mem_str $"-m" (t0 :: own_tail rest) = true /\
   nth_error (t0 :: rest) (S (index_of $"-m" (t0 :: own_tail rest))) = Some $"calendar") \/
  (exists s p, find_script rest = Some s /\ resolve (pjoin (cwd_of cc pc) s) = Some p /\ analyze p = true).
Proof. exact allow_inv. Qed.
Print Assumptions C17_allow_sources.

(* ------------------------------------------------------------------ non-vacuity *)

(* `import json` + `print(len("x"))` as dumped by the harness (abridged): accepted, and Global-free *)
Definition ex_tree : tree :=
  T $"Module" [] []
    [($"body", T $"Import" [] [] [($"names", T $"alias" [($"name", $"json")] [] [])]);
     ($"body", T $"Expr" [] []
        [($"value", T $"Call" [] []
           [($"func", T $"Name" [($"id", $"print")] [] [($"ctx", T $"Load" [] [] [])]);
            ($"args", T $"Call" [] []
               [($"func", T $"Name" [($"id", $"len")] [] [($"ctx", T $"Load" [] [] [])]);
                ($"args", T $"Constant" [($"value", $"x")] [] [])])])])].
Example ex_tree_accepted : visit true ex_tree = [] /\ global_leaf ex_tree.
Proof.
  split; [vm_compute; reflexivity|]. intros d Hd Hk. cbn in Hd.
  repeat (destruct Hd as [<-|Hd]; [try reflexivity; discriminate Hk|]). destruct Hd.
Qed.
(* the same with print disallowed, and with eval nested in an argument position: rejected *)
Example ex_tree_print : visit false ex_tree = [(KBuiltin, $"print")].
Proof. vm_compute. reflexivity. Qed.
Example ex_nested_eval :
  visit true (T $"Expr" [] [] [($"value", T $"Call" [] []
     [($"func", T $"Name" [($"id", $"len")] [] []);
      ($"args", T $"ListComp" [] [] [($"elt", T $"Call" [] [] [($"func", T $"Name" [($"id", $"eval")] [] [])])])])])
  = [(KBuiltin, $"eval")].
Proof. vm_compute. reflexivity. Qed.

Example ex_consumed : consumed [$"-u"; $"-W"; $"ignore"; $"-X"; $"dev"].
Proof.
  apply cons_flag; try (vm_compute; reflexivity); [discriminate|].
  apply cons_arg; try (vm_compute; reflexivity). apply cons_arg; try (vm_compute; reflexivity). constructor.
Qed.
Example ex_plain : plain_pre [$"-u"; $"-W"; $"ignore"; $"-B"].
Proof. apply pp_flag; [cbn; tauto|]. apply pp_arg; [cbn; tauto|reflexivity|]. apply pp_flag; [cbn; tauto|constructor]. Qed.
(* `python -u s.py --version`: analysed as the script, and approved only because the analysis says so *)
Example ex_script_version :
  classify w_resolve w_analyze (Some $"/w") $"/" [$"python"; $"-u"; $"s.py"; $"--version"] = PAllow /\
  classify w_resolve (fun _ => false) (Some $"/w") $"/" [$"python"; $"-u"; $"s.py"; $"--version"] = PAsk /\
  classify w_resolve w_analyze (Some $"/w") $"/" [$"python"; $"-c"; $"1"; $"-h"] = PAsk /\
  py_cmdline [$"python"; $"-u"; $"s.py"; $"--version"] = RFile 2 fl0.
Proof. vm_compute. repeat split. Qed.
