(* C09 - Path rules follow the file, not its spelling.
   Property theorems only; proofs are in Proofs/.  `nf home cwd p` is the lexical normal form of
   the absolute path that the spelling p denotes (~ and ~/x via home, relative via cwd, then
   "//", ".", "dir/.." and trailing "/" removed).  The theorems about the code's behaviour assume
   `lexical resolve1 resolve2`: Path.resolve() acts as this lexical normalisation, i.e. no
   symbolic links on the way (the correspondence exercises the real resolve() with symlinks). *)
From DippyV Require Import Base.Str Base.Verdict Model.Fnmatch Model.Glob2 Model.Paths Model.Rules
  Proofs.FnmatchP Proofs.RulesP Proofs.PathsP Proofs.Glob2P Proofs.C09P Proofs.SpellP.

Theorem C09_norm_idem : forall p, norm (norm p) = norm p.
Proof. exact norm_idem. Qed.
Print Assumptions C09_norm_idem.

(* the normal form consists of clean segments only: non-empty, not ".", not "..", no "/" *)
Theorem C09_norm_clean : forall p, norm p = of_segs (segs_of p) /\ forallb cleanb (segs_of p) = true.
Proof. exact norm_clean. Qed.
Print Assumptions C09_norm_clean.

(* respell home cwd: the closure (reflexive, symmetric, transitive) of
   a/./b ~ a/b, a//b ~ a/b, a/d/../b ~ a/b (d a clean segment), a/ ~ a (a non-empty),
   rel ~ cwd/rel, ~/x ~ home/x, ~ ~ home *)
Theorem C09_respell : forall home cwd,
  prefixb [c_slash] cwd = true -> prefixb [c_slash] home = true ->
  forall p q, respell home cwd p q -> nf home cwd p = nf home cwd q.
Proof. exact respell_nf. Qed.
Print Assumptions C09_respell.

Section Oracles.
  Variable resolve1 : str -> str.
  Variable resolve2 : str -> str -> str.
  Variable home : str.
  Variable lex : lexical resolve1 resolve2.
  Notation m_redirect := (match_redirect resolve1 resolve2 home).
  Notation m_words := (match_words resolve1 resolve2 home).
  Notation rrm := (redirect_rule_matches resolve1 resolve2 home).

  (* the code's _normalize_path computes the normal form of every target except the two shapes
     bash itself rewrites before opening the file: pathlike p = the target (trailing slashes
     removed, "/" kept) does not start with "$" (variable) or "~user".  Since the repair 67c5613
     "://" inside a target and the target "/" are covered. *)
  Theorem C09_normalize_path : forall cwd p, pathlike p = true ->
    normalize_path resolve1 resolve2 home cwd p = nf home cwd p.
  Proof. exact (normalize_path_nf resolve1 resolve2 home lex). Qed.

  (* respelled redirect targets get the same Match from every redirect rule list *)
  Theorem C09_verdict : forall rr cwd p q,
    prefixb [c_slash] cwd = true -> prefixb [c_slash] home = true ->
    pathlike p = true -> pathlike q = true -> respell home cwd p q ->
    m_redirect rr cwd p = m_redirect rr cwd q.
  Proof. exact (redirect_respell resolve1 resolve2 home lex). Qed.

  (* ... and respelled path arguments the same Match from every command rule list
     (wordpath: tokens the code resolves - absolute, ~/..., or containing a slash) *)
  Theorem C09_verdict_words : forall al rules cwd ws ws',
    prefixb [c_slash] cwd = true -> prefixb [c_slash] home = true ->
    Forall2 (same_word home cwd) ws ws' ->
    m_words al rules cwd false ws = m_words al rules cwd false ws'.
  Proof. exact (words_respell resolve1 resolve2 home lex). Qed.

  (* a literal redirect rule fires on every spelling of its own path - provided the EXPANDED
     path has no glob character (see C09_glob_cwd_refuted) *)
  Theorem C09_literal_fires_partial : forall cwd r q,
    pathlike (r_pat r) = true -> pathlike q = true ->
    no_glob (r_pat r) = true -> no_glob (nf home cwd (r_pat r)) = true ->
    nf home cwd q = nf home cwd (r_pat r) ->
    rrm cwd q r = true.
  Proof. exact (literal_fires resolve1 resolve2 home lex). Qed.

  (* confinement: a rule D/** matches a target only if the target's normal form lies under the
     normal form of D (hence segs_of D is a prefix of the target's segments) *)
  Theorem C09_confine_rule : forall cwd D r t,
    r_pat r = D ++ slash_star2 -> nonempty (rstrip [c_slash] D) = true -> pathlike D = true -> no_glob D = true ->
    no_glob (nf home cwd D) = true -> pathlike t = true ->
    rrm cwd t r = true ->
    exists rest, nf home cwd t = nf home cwd D ++ c_slash :: rest.
  Proof. exact (confine resolve1 resolve2 home lex). Qed.
  (* ---- second round: the PATTERN side.  A literal command rule written with one spelling of some
     files fires on the command that names the same files in any other spelling, at every position
     of the pattern (same_word: equal, or both path-shaped and respellings of each other; this
     includes the lone tokens ".", "..", "~") ... *)
  Theorem C09_rule_follows_file : forall cwd r pws cws,
    prefixb [c_slash] cwd = true -> prefixb [c_slash] home = true ->
    r_pat r = join [c_sp] pws -> forallb wordb pws = true ->
    Forall2 (same_word home cwd) pws cws ->
    no_glob (normalize_words resolve1 resolve2 home cwd cws) = true ->
    word_rule_matches resolve1 resolve2 home cwd false (cmd_string resolve1 resolve2 home [] cwd false cws) r = true.
  Proof. exact (rule_follows_file resolve1 resolve2 home lex). Qed.
  (* ... and two rules whose patterns spell the same files are the same rule on every command
     (no glob hypothesis: holds for glob patterns such as `cat ./src/*` vs `cat src/*` too) *)
  Theorem C09_pattern_respell : forall cwd r r' pws pws' c,
    prefixb [c_slash] cwd = true -> prefixb [c_slash] home = true ->
    r_pat r = join [c_sp] pws -> r_pat r' = join [c_sp] pws' -> r_exact r = r_exact r' ->
    forallb wordb pws = true -> forallb wordb pws' = true ->
    Forall2 (same_word home cwd) pws pws' ->
    word_rule_matches resolve1 resolve2 home cwd false c r = word_rule_matches resolve1 resolve2 home cwd false c r'.
  Proof. exact (pattern_respell resolve1 resolve2 home lex). Qed.
End Oracles.
Print Assumptions C09_normalize_path.
Print Assumptions C09_verdict.
Print Assumptions C09_verdict_words.
Print Assumptions C09_literal_fires_partial.
Print Assumptions C09_confine_rule.
Print Assumptions C09_rule_follows_file.
Print Assumptions C09_pattern_respell.

(* the matcher-level confinement fact and its reading on segments *)
Theorem C09_confine : forall D t, no_glob D = true ->
  glob_match t (D ++ slash_star2) = G2 true -> exists r, t = D ++ c_slash :: r.
Proof. exact glob_match_dir. Qed.
Print Assumptions C09_confine.
Theorem C09_confine_segments : forall D rest,
  splitc c_slash (D ++ c_slash :: rest) = splitc c_slash D ++ splitc c_slash rest.
Proof. exact under_segments. Qed.
Print Assumptions C09_confine_segments.

(* in a ** pattern a single * matches a slash-free stretch and ? one non-slash character *)
Theorem C09_star_seg : forall L p s, no_glob L = true -> (forall r, p <> c_star :: r) ->
  (ematch (g2_elems (L ++ c_star :: p)) s = true <->
   exists u v, s = L ++ u ++ v /\ mem_ch c_slash u = false /\ ematch (g2_elems p) v = true).
Proof. exact star_one_segment. Qed.
Print Assumptions C09_star_seg.
Theorem C09_qmark_seg : forall L p s, no_glob L = true ->
  (ematch (g2_elems (L ++ c_q :: p)) s = true <->
   exists c v, s = L ++ c :: v /\ c <> c_slash /\ ematch (g2_elems p) v = true).
Proof. exact qmark_one_char. Qed.
Print Assumptions C09_qmark_seg.
(* "**/lit/*" grants exactly one level below .../lit/ (up to the final newline `$` tolerates) *)
Theorem C09_one_level : forall L s, no_glob L = true ->
  ematch (g2_elems (star2 ++ c_slash :: L ++ c_slash :: [c_star])) s = true ->
  exists x v, (s = x ++ L ++ c_slash :: v \/ s = x ++ L ++ c_slash :: v ++ [c_nl]) /\ mem_ch c_slash v = false.
Proof. exact one_level. Qed.
Print Assumptions C09_one_level.

(* ---- refutations of the full statement on the faithful model (lexical oracles) ----
   Full statement (false of the code):
     forall cwd rules p q, respell p q -> match_redirect rules cwd p = match_redirect rules cwd q
     and a literal rule P fires on the target P in every cwd. *)

(* 1. _has_glob_chars is evaluated after cwd expansion: in /w/proj[1] the literal rules
      `allow-redirect out` and `deny ./danger` stop firing *)
Theorem C09_glob_cwd_refuted :
  (match_redirect lex1 lex2 $"/home/u" [rule_out] cwd_glob $"out" = None /\
   match_redirect lex1 lex2 $"/home/u" [rule_out] $"/w/proj1" $"out" = Some rule_out) /\
  (match_words lex1 lex2 $"/home/u" [] [rule_danger] cwd_glob false [$"./danger"; $"x"] = None /\
   match_words lex1 lex2 $"/home/u" [] [rule_danger] $"/w/proj1" false [$"./danger"; $"x"] = Some rule_danger).
Proof. exact (conj glob_cwd_redirect glob_cwd_words). Qed.
Print Assumptions C09_glob_cwd_refuted.

(* 2. and 3. were refutations before the repair 67c5613; they are theorems now (instances of
   C09_normalize_path / C09_verdict), shown on the former witnesses, with the pre-repair behaviour
   kept as Legacy so that its reappearance is recognised by the correspondence *)
Theorem C09_url_target : 
  match_redirect lex1 lex2 $"/home/u" [rule_t] $"/w" $"/t/u://../../etc/passwd" = None /\
  match_redirect lex1 lex2 $"/home/u" [rule_t] $"/w" $"/t/u:/../../etc/passwd" = None /\
  match_redirect lex1 lex2 $"/home/u" [rule_t] $"/w" $"/t/u://x" = Some rule_t /\
  pathlike $"/t/u://../../etc/passwd" = true.
Proof. exact url_target_resolved. Qed.
Print Assumptions C09_url_target.
Theorem C09_root_target :
  match_redirect lex1 lex2 $"/home/u" [rule_dot] $"/w" $"/" = None /\
  match_redirect lex1 lex2 $"/home/u" [rule_dot] $"/w" $"/." = None /\
  normalize_path lex1 lex2 $"/home/u" $"/w" $"//" = $"/" /\ pathlike $"/" = true /\ pathlike [] = true.
Proof. exact root_target_is_root. Qed.
Print Assumptions C09_root_target.
Theorem C09_legacy_url_target_refuted :
  legacy_normalize_path lex1 lex2 $"/home/u" $"/w" $"/t/u://../../etc/passwd" = $"/t/u://../../etc/passwd" /\
  nf $"/home/u" $"/w" $"/t/u://../../etc/passwd" = $"/etc/passwd" /\
  glob_match $"/t/u://../../etc/passwd" $"/t/**" = G2 true.
Proof. exact legacy_url_target. Qed.
Print Assumptions C09_legacy_url_target_refuted.
Theorem C09_legacy_root_target_refuted :
  legacy_normalize_path lex1 lex2 $"/home/u" $"/w" $"/" = $"/w" /\
  legacy_normalize_path lex1 lex2 $"/home/u" $"/w" $"/." = $"/".
Proof. exact legacy_root_target. Qed.
Print Assumptions C09_legacy_root_target_refuted.

(* non-vacuity *)
(* the shape of the seeded change C07b: a lone ".." token of a pattern is resolved like the command's *)
Example C09_example_lone_tokens :
  normalize_pattern lex1 lex2 $"/home/u" $"/w/proj" $"git add .." = $"git add /w" /\
  normalize_words lex1 lex2 $"/home/u" $"/w/proj" [$"git"; $"add"; $".."] = $"git add /w" /\
  match_words lex1 lex2 $"/home/u" [] [rule_add_parent] $"/w/proj" false [$"git"; $"add"; $"/w/proj/.."] = Some rule_add_parent /\
  match_words lex1 lex2 $"/home/u" [] [rule_add_parent] $"/w/proj" false [$"git"; $"add"; $"../"; $"-v"] = Some rule_add_parent /\
  match_words lex1 lex2 $"/home/u" [] [rule_add_parent] $"/w/proj" false [$"git"; $"add"; $"."] = None /\
  normalize_pattern lex1 lex2 $"/home/u" $"/w/proj" $"cp . ~ ~/x ./y  z/.." = $"cp /w/proj /home/u /home/u/x /w/proj/y /w/proj" /\
  forallb wordb [$"git"; $"add"; $".."] = true /\ wordb $"a b" = false /\ wordb [] = false.
Proof. exact lone_dotdot_example. Qed.
Example C09_example_lexical : lexical lex1 lex2.
Proof. exact lex_lexical. Qed.
Example C09_example_respell :
  nf $"/home/u" $"/w/p" $"./a//b/../c/" = $"/w/p/a/c" /\ nf $"/home/u" $"/w/p" $"~/x/./y" = $"/home/u/x/y" /\
  nf $"/home/u" $"/w/p" $"../../../.." = $"/" /\ pathlike $"./a//b/../c/" = true /\ pathlike $"x://y" = true /\ pathlike $"$x/y" = false /\
  pathkind true $"x://y" = false.
Proof. vm_compute. repeat split; reflexivity. Qed.
Example C09_example_confine :
  let r := mkRule Allow $"out/**" None false [] in
  redirect_rule_matches lex1 lex2 $"/home/u" $"/w" $"out/a/b" r = true /\
  redirect_rule_matches lex1 lex2 $"/home/u" $"/w" $"out/../etc/x" r = false /\
  redirect_rule_matches lex1 lex2 $"/home/u" $"/w" $"/w/./out//a" r = true.
Proof. vm_compute. repeat split; reflexivity. Qed.
