(* C04 - Wrappers and launchers never launder a command; C13 (handler half) - docker/kubectl exec
   extract the command the tool really runs and delegate it as remote.
   Property theorems only; proofs are in Proofs/BashQuoteP.v and Proofs/WrappersP.v.

   Vocabulary
     bash_quote, bash_join        MODEL of core/bash.py
     bash_words                   SPEC: bash's word splitting and quote removal (BashQuote.v)
     reread w                     what the walker hands the ladder for a word bash_quote wrote:
                                  strip_quotes (bash_quote w), strip_quotes = bash quote removal
     modelled tokens              MODEL of the handlers' classify() (Wrappers.v); HWords cmds remote =
                                  "delegate bash_join of each command, ;-joined, with that remote flag"
     hverdict astr h              what step 5 of the ladder answers for that classification
     wrapper_exec / shell_exec    SPEC: the argv lists the real tool executes (WrapSpec.v, Getopt.v)
     judge remote words           ORACLE: the decision ladder (Model/Ladder.v of another package)
     astr remote text             ORACLE: analyze(text) = parser + walker + ladder
   The plain-form exactness of the wrapper loop (time/timeout/nice/nohup/command) and the
   env-assignment prefix law are theorems of the ladder model: Props/C04L.v.
   The docker/kubectl exec extraction theorems (handler half of C13) are in Props/C13H.v.
   The models follow /repo after the repairs 23c5075 (env) fcba02c (fd) b4cdef6 (find) 53c5c7c (shell)
   6c3ffaf (xargs) 5143c77 (quote removal) and the fd appended-path repair; what was refuted before them is now proved, and the old
   behaviour is kept as Legacy definitions with their refutations. *)
From DippyV Require Import Base.Str Base.Verdict Gen.Tables Model.BashQuote Model.Getopt Model.Wrappers Model.WrapSpec
  Proofs.VerdictP Proofs.BashQuoteP Proofs.WrappersP Proofs.WrapOptsP Proofs.FdClausesP.

(* ------------------------------------------------------------------ re-quoting *)
(* faithful for EVERY string: bash reads bash_quote s back as the single word s *)
Theorem C04_quote_faithful : forall s : str, bash_words (bash_quote s) = Some [s].
Proof. exact quote_faithful. Qed.
Print Assumptions C04_quote_faithful.

(* and a joined command line back as exactly the words that were joined *)
Theorem C04_join_faithful : forall ts : list str, ts <> [] -> bash_words (bash_join ts) = Some ts.
Proof. exact join_faithful. Qed.
Print Assumptions C04_join_faithful.

(* hence no two word lists are ever re-quoted to the same text *)
Theorem C04_join_injective : forall ts us : list str, ts <> [] -> us <> [] -> bash_join ts = bash_join us -> ts = us.
Proof. exact join_injective. Qed.
Print Assumptions C04_join_injective.

(* the fact the two theorems rest on: no character that bash_quote leaves bare (str.isalnum or one of
   - _ . / = @ :) is a blank, a quote or a shell metacharacter - for ALL code points (below 128 by
   evaluation over the table, above by the specification's clause that bash treats them as ordinary) *)
Theorem C04_bare_chars_are_inert : forall c : N, quote_safe c = true ->
  unq_literal c = true /\ is_blank c = false /\ N.eqb c SQ = false /\ N.eqb c DQ = false.
Proof. exact safe_char. Qed.
Print Assumptions C04_bare_chars_are_inert.

(* what Dippy itself reads back (analyzer._strip_quotes, quote removal): the word itself, for every word
   except those where a dollar sign ends up right before a quote (w ends in a dollar sign, or has one before a quote):
   the walker then keeps the quoted spelling - the reason the statements below carry [clean] *)
Theorem C04_reread : forall w : str,
  (clean w = true -> reread w = w) /\ (clean w = false -> reread w = bash_quote w) /\
  (mem_ch DOLLAR w = false -> clean w = true).
Proof. exact (fun w => conj (reread_clean w) (conj (reread_dollar w) (no_dollar_clean w))). Qed.
Print Assumptions C04_reread.

(* ------------------------------------------------------------------ no laundering *)
Section Oracles.
  Variable judge : bool -> list str -> verdict.
  Variable astr : bool -> str -> verdict.
  (* ORACLE HYPOTHESES, stated where they are used:
     Hwords - analysing the text bash_join ws is the ladder on the re-read words;
     Hseq   - a ;-joined text is judged as the most restrictive of its clauses (C03). *)
  Definition Hwords_t := forall r ws, ws <> [] -> astr r (bash_join ws) = judge r (map reread ws).
  Definition Hseq_t := forall r (l : list str), l <> [] -> astr r (join $"; " l) = combine (map (astr r) l).

  (* Whenever what a handler extracts is what the tool executes, every executed command is judged and
     the wrapper's verdict is at least as restrictive as each of them (all wrappers, all arguments). *)
  Theorem C04_no_launder : Hwords_t -> Hseq_t ->
    forall tokens inners r, modelled tokens = Some (HWords inners r) -> wrapper_exec tokens = Some inners ->
    Forall (fun c => c <> []) inners ->
    forall c, In c inners ->
      vle (judge r (map reread c)) (hverdict astr (HWords inners r)) = true /\
      (forallb clean c = true -> vle (judge r c) (hverdict astr (HWords inners r)) = true).
  Proof.
    exact (fun Hw Hs tokens inners r _ _ Hall c Hin =>
             conj (extracted_never_laundered judge astr Hw Hs inners r c Hall Hin)
                  (no_launder_of_extract judge astr Hw Hs (HWords inners r) inners r eq_refl Hall c Hin)).
  Qed.

  (* with a single inner command the verdict is EXACTLY the inner command's: wrapping adds no prompt *)
  Theorem C04_exact_delegate : Hwords_t -> Hseq_t ->
    forall c r, c <> [] -> forallb clean c = true -> hverdict astr (HWords [c] r) = judge r c.
  Proof. exact (fun Hw Hs c r => exact_of_extract judge astr Hw Hs (HWords [c] r) c r eq_refl). Qed.

  (* sh -c S / env -S S: the string from the command line is analysed as it stands *)
  Theorem C04_string_delegate : forall s, s <> [] -> hverdict astr (HString s) = astr false s.
  Proof. exact (hverdict_string astr). Qed.
End Oracles.
Print Assumptions C04_no_launder.
Print Assumptions C04_exact_delegate.
Print Assumptions C04_string_delegate.


(* ------------------------------------------------------------------ extraction = execution, per wrapper *)
(* sh/bash/dash, EVERY invocation the specification understands (long options with one or two dashes,
   option clusters with either sign, -o/-O names, -- and -, options after -c, operands after the string):
   if the shell runs a command string, exactly that string is delegated ... *)
Theorem C04_extract_bash : forall args s, bash_exec args = Some (SString s) ->
  shell_h ($"bash" :: args) = match s with [] => HAsk | _ => HString s end.
Proof. exact bash_extract_general. Qed.
Print Assumptions C04_extract_bash.
Theorem C04_extract_sh : forall base args s, In base [$"sh"; $"dash"] -> dash_exec args = Some (SString s) ->
  shell_h (base :: args) = match s with [] => HAsk | _ => HString s end.
Proof. exact dash_extract_general. Qed.
Print Assumptions C04_extract_sh.
(* ... and if it runs a script file or reads commands from stdin, nothing is delegated: the handler asks
   (bash script.sh -c ls, bash script.sh --help, bash -s) *)
Theorem C04_shell_script_asks :
  (forall args act, bash_exec args = Some act -> (forall s, act <> SString s) -> act <> SNothing -> shell_h ($"bash" :: args) = HAsk) /\
  (forall base args act, In base [$"sh"; $"dash"] -> dash_exec args = Some act -> (forall s, act <> SString s) -> shell_h (base :: args) = HAsk).
Proof. exact (conj bash_script_asks dash_script_asks). Qed.
Print Assumptions C04_shell_script_asks.

(* env [NAME=VALUE]... COMMAND ARG... : env executes COMMAND ARG...; since /repo 7bd4070 the handler delegates it
   behind the assignments that set a variable deciding what runs (allowlists.sets_execution_var: PATH, LD_PRELOAD,
   ...), in order - env_kept assigns = filter sets_exec assigns; every other assignment is dropped as before.
   The kept words are an assignment prefix of the delegated simple command: the ladder skips them
   (Props/C04L.v C04_env_prefix), the walker asks for each of them ("sets PATH"), the command stays visible. *)
Theorem C04_extract_env : forall assigns c0 cs,
  forallb assign_word assigns = true -> dash c0 = false -> has_eq c0 = false ->
  env_h ($"env" :: assigns ++ c0 :: cs) = HWords [env_kept assigns ++ c0 :: cs] false /\ env_exec (assigns ++ c0 :: cs) = Some [c0 :: cs].
Proof. exact env_extract. Qed.
Print Assumptions C04_extract_env.
(* what is kept: exactly the listed assignments that set an execution variable (nothing else enters the delegated
   text), and nothing when no assignment does - then the delegated words ARE the executed command and
   C04_no_launder / C04_exact_delegate apply as they stand *)
Theorem C04_env_kept : forall assigns,
  forallb sets_exec (env_kept assigns) = true /\ (forall a, In a (env_kept assigns) -> In a assigns).
Proof. exact env_kept_spec. Qed.
Print Assumptions C04_env_kept.
Theorem C04_env_kept_none : forall assigns, forallb (fun a => negb (sets_exec a)) assigns = true -> env_kept assigns = [].
Proof. exact env_kept_none. Qed.
Print Assumptions C04_env_kept_none.

(* env OPTION... [NAME=VALUE]... COMMAND ARG... for every sequence of option words of env_opts:
   clusters of -i -v (any length), -u NAME / -C DIR as last letter of a cluster with the value separate or
   attached, --NAME for EVERY spelling NAME that getopt_long resolves - exactly or as a unique abbreviation -
   to ignore-environment debug list-signal-handling block-signal default-signal ignore-signal, and
   --unset / --chdir in every resolvable spelling with a separate or =-joined value; every NAME env accepts,
   every DIR, every assignment list, every command (the spellings 23c5075 repaired included) *)
Theorem C04_extract_env_opts : forall opts assigns c0 cs,
  env_opts opts -> forallb assign_word assigns = true -> dash c0 = false -> has_eq c0 = false ->
  env_h ($"env" :: opts ++ assigns ++ c0 :: cs) = HWords [env_kept assigns ++ c0 :: cs] false /\
  env_exec (opts ++ assigns ++ c0 :: cs) = Some [c0 :: cs].
Proof. exact env_extract_opts. Qed.
Print Assumptions C04_extract_env_opts.
(* the handler's list of candidate long names is [m] whenever getopt_long resolves the spelling to m *)
Theorem C04_env_abbreviations : forall n m k, resolve_long n (longs env_spec) = Some (m, k) -> long_names ENV_LONG_OPTIONS n = [m].
Proof. exact (fun n m k => long_names_resolve ENV_LONG_OPTIONS (longs env_spec) n m k (proj1 env_tables_perm) (proj2 env_tables_perm)). Qed.
Print Assumptions C04_env_abbreviations.

(* env -S STRING WORD...: env ends STRING at a "#" comment and still runs WORD...; such a string is asked about *)
Theorem C04_env_split_string_comment_asks : forall kept value rest, mem_ch 35 value = true ->
  env_scan kept ($"-S" :: value :: rest) = HAsk /\ env_scan kept ($"--split-string" :: value :: rest) = HAsk /\
  env_scan kept ($"-iS" :: value :: rest) = HAsk /\ env_scan kept ($"--split" :: value :: rest) = HAsk.
Proof. exact env_S_comment. Qed.
Print Assumptions C04_env_split_string_comment_asks.
Theorem C04_env_split_string_plain : forall kept value rest, mem_ch 35 value = false ->
  env_scan kept ($"-S" :: value :: rest) = HString (join [32] (value :: rest)).
Proof. exact env_S_plain. Qed.
Print Assumptions C04_env_split_string_plain.
Theorem C04_env_split_string_witnesses :
  modelled (w ["env"; "-S"; "#"; "rm"; "x"]) = Some HAsk /\ modelled (w ["env"; "-S#"; "rm"; "x"]) = Some HAsk /\
  modelled (w ["env"; "-S"; "ls #"; "rm"; "x"]) = Some HAsk /\ modelled (w ["env"; "-S"; "ls -la"; "x"]) = Some (HString $"ls -la x").
Proof. exact env_S_comment_witness. Qed.
Print Assumptions C04_env_split_string_witnesses.

(* xargs COMMAND ARG... and xargs -- COMMAND ARG...: the command plus one unknown appended argument is judged *)
Theorem C04_extract_xargs : forall c0 cs, dash c0 = false -> xargs_unsafe (c0 :: cs) = false ->
  xargs_h ($"xargs" :: c0 :: cs) = HWords [(c0 :: cs) ++ [PLACEHOLDER]] false /\ xargs_exec (c0 :: cs) = Some [c0 :: cs].
Proof. exact xargs_extract. Qed.
Print Assumptions C04_extract_xargs.
Theorem C04_extract_xargs_ddash : forall c, c <> [] ->
  xargs_h ($"xargs" :: $"--" :: c) = HWords [c ++ [PLACEHOLDER]] false /\ xargs_exec ($"--" :: c) = Some [c].
Proof. exact xargs_extract_ddash. Qed.
Print Assumptions C04_extract_xargs_ddash.

(* fd -x|--exec|-X|--exec-batch COMMAND ARG...  for every command with no lone ; among its words: the handler delegates
   exactly the command fd runs, which ends in the found path ({}) unless a word holds one of fd's placeholders
   (repair of the finding C04-fd-appended-path: `fd -x env` was judged as `env` and runs every file found) *)
Theorem C04_extract_fd : forall flag c0 cs,
  In flag (map s2l ["-x"; "--exec"; "-X"; "--exec-batch"]) -> no_semi (c0 :: cs) = true ->
  fd_h ($"fd" :: flag :: c0 :: cs) = HWords [fd_with_path (c0 :: cs)] false /\
  fd_exec (flag :: c0 :: cs) = Some [fd_path (c0 :: cs)].
Proof. exact fd_extract. Qed.
Print Assumptions C04_extract_fd.
(* ... and for ANY number of exec clauses  fd -x C1 ; -x C2 ; ... ; -x Cn : one delegated command per clause, each the
   command fd runs (induction over the clause list; the handler's recursion behind a lone ; is the model's fuel) *)
Theorem C04_extract_fd_clauses : forall cs, cs <> [] -> Forall clause_ok cs ->
  fd_h ($"fd" :: fd_line cs) = HWords (map fd_with_path cs) false /\
  fd_exec (fd_line cs) = Some (map fd_path cs) /\
  map fd_with_path cs = map fd_path cs.
Proof. exact fd_clauses. Qed.
Print Assumptions C04_extract_fd_clauses.
Example C04_extract_fd_clauses_nonvacuous :
  Forall clause_ok [w ["ls"]; w ["nice"; "env"]; w ["mv"; "{}"; "{.}.bak"]] /\
  fd_line [w ["ls"]; w ["nice"; "env"]; w ["mv"; "{}"; "{.}.bak"]] = w ["-x"; "ls"; ";"; "-x"; "nice"; "env"; ";"; "-x"; "mv"; "{}"; "{.}.bak"].
Proof. exact fd_clauses_example. Qed.
Theorem C04_fd_path_agrees : forall c, fd_with_path c = fd_path c.
Proof. exact fd_with_path_spec. Qed.
Print Assumptions C04_fd_path_agrees.
Theorem C04_fd_path_appended : forall c, fd_has_placeholder c = false -> fd_with_path c = c ++ [PLACEHOLDER].
Proof. exact fd_with_path_appends. Qed.
Print Assumptions C04_fd_path_appended.
Theorem C04_fd_path_keeps_words : forall c, exists t, fd_with_path c = c ++ t.
Proof. exact fd_with_path_keeps. Qed.
Print Assumptions C04_fd_path_keeps_words.
(* the hypotheses are met by a non-trivial command *)
Example C04_extract_fd_nonvacuous :
  In ($"--exec") (map s2l ["-x"; "--exec"; "-X"; "--exec-batch"]) /\ no_semi (w ["nice"; "-n"; "5"; "env"]) = true /\
  fd_has_placeholder (w ["nice"; "-n"; "5"; "env"]) = false.
Proof. vm_compute. intuition. Qed.

(* find PATH... -exec COMMAND ARG... ;  for every command whose words are not ; \; -ok -okdir -delete and that
   has no + right after {} (a + anywhere else is an ordinary argument, as for find) *)
Theorem C04_extract_find : forall paths c,
  forallb plain_path paths = true -> forallb find_word_ok c = true -> no_plus_after_braces false c = true -> c <> [] ->
  find_h ($"find" :: paths ++ $"-exec" :: c ++ [$";"]) = HWords [c] false /\
  find_exec (paths ++ $"-exec" :: c ++ [$";"]) = Some [c].
Proof. exact (fun paths c Hp Hc Hq Hn => conj (find_extract_h paths c Hp Hc Hq Hn) (find_extract_spec paths c Hp Hc Hq Hn)). Qed.
Print Assumptions C04_extract_find.

(* the inner command a handler delegates is always a suffix of the command line *)
Theorem C04_inner_is_suffix : forall l, suffix_of (xargs_skip l) l.
Proof. exact xargs_skip_suffix. Qed.
Print Assumptions C04_inner_is_suffix.

(* ------------------------------------------------------------------ formerly refuted, now proved instances *)
Theorem C04_repaired_witnesses :
  (modelled (w ["bash"; "script.sh"; "-c"; "ls"]) = Some HAsk /\
   modelled (w ["sh"; "script.sh"; "-c"; "ls"]) = Some HAsk /\
   modelled (w ["bash"; "-rcfile"; "ls"; "-c"; "rm x"]) = Some (HString $"rm x") /\
   modelled (w ["bash"; "-c"; "-e"; "zap"]) = Some (HString $"zap") /\
   modelled (w ["bash"; "script.sh"; "--help"]) = Some HAsk) /\
  (modelled (w ["find"; "."; "-exec"; "env"; "-u"; "+"; "rm"; "x"; ";"]) = Some (HWords [w ["env"; "-u"; "+"; "rm"; "x"]] false) /\
   wrapper_exec (w ["find"; "."; "-exec"; "env"; "-u"; "+"; "rm"; "x"; ";"]) = Some [w ["env"; "-u"; "+"; "rm"; "x"]]) /\
  ((modelled (w ["env"; "-iu"; "ls"; "rm"; "x"]) = Some (HWords [w ["rm"; "x"]] false) /\
    wrapper_exec (w ["env"; "-iu"; "ls"; "rm"; "x"]) = Some [w ["rm"; "x"]]) /\
   (modelled (w ["env"; "--uns"; "ls"; "rm"; "x"]) = Some (HWords [w ["rm"; "x"]] false) /\
    wrapper_exec (w ["env"; "--uns"; "ls"; "rm"; "x"]) = Some [w ["rm"; "x"]]) /\
   modelled (w ["env"; "--split=rm x"]) = Some (HString $"rm x")) /\
  ((modelled (w ["xargs"; "-0I"; "ls"; "rm"; "x"]) = Some (HWords [w ["rm"; "x"]] false) /\
    wrapper_exec (w ["xargs"; "-0I"; "ls"; "rm"; "x"]) = Some [w ["rm"; "x"]]) /\
   (modelled (w ["xargs"; "--process-slot"; "ls"; "rm"; "x"]) = Some (HWords [w ["rm"; "x"; "{}"]] false) /\
    wrapper_exec (w ["xargs"; "--process-slot"; "ls"; "rm"; "x"]) = Some [w ["rm"; "x"]]) /\
   modelled (w ["xargs"; "env"]) = Some (HWords [w ["env"; "{}"]] false)) /\
  ((modelled (w ["fd"; "-x"; "ls"; ";"; "-x"; "rm"]) = Some (HWords [w ["ls"; "{}"]; w ["rm"; "{}"]] false) /\
    wrapper_exec (w ["fd"; "-x"; "ls"; ";"; "-x"; "rm"]) = Some [w ["ls"; "{}"]; w ["rm"; "{}"]]) /\
   (modelled (w ["fd"; "-x"; "env"]) = Some (HWords [w ["env"; "{}"]] false) /\
    wrapper_exec (w ["fd"; "-x"; "env"]) = Some [w ["env"; "{}"]]) /\
   (modelled (w ["fd"; "-X"; "mv"; "{}"; "{.}.bak"]) = Some (HWords [w ["mv"; "{}"; "{.}.bak"]] false) /\
    wrapper_exec (w ["fd"; "-X"; "mv"; "{}"; "{.}.bak"]) = Some [w ["mv"; "{}"; "{.}.bak"]])).
Proof. exact (conj shell_formerly_refuted (conj find_formerly_refuted (conj env_formerly_refuted (conj xargs_formerly_refuted fd_formerly_refuted)))). Qed.
Print Assumptions C04_repaired_witnesses.

(* Legacy definitions (the handlers before the repairs) and their refutations, kept to recognise a revert *)
Theorem C04_legacy_refuted :
  (legacy_after_c (w ["bash"; "script.sh"; "-c"; "ls"]) = Some (w ["ls"]) /\
   shell_exec (w ["bash"; "script.sh"; "-c"; "ls"]) = Some (SFile $"script.sh")) /\
  (legacy_env_scan (w ["-iu"; "ls"; "rm"; "x"]) = w ["ls"; "rm"; "x"] /\ env_exec (w ["-iu"; "ls"; "rm"; "x"]) = Some [w ["rm"; "x"]]).
Proof. exact (conj legacy_shell_refuted legacy_env_refuted). Qed.
Print Assumptions C04_legacy_refuted.

(* STILL refuted on /repo HEAD (known finding C04-xargs-e-separate-word, pinned by tests/cli/test_xargs.py):
   FULL STATEMENT  forall args, xargs_exec args = Some [c] -> xargs_h (xargs :: args) = HWords [c ++ [{}]] false *)
Theorem C04_extract_xargs_refuted :
  modelled (w ["xargs"; "-e"; "STOP"; "head"]) = Some (HWords [w ["head"; "{}"]] false) /\
  wrapper_exec (w ["xargs"; "-e"; "STOP"; "head"]) = Some [w ["STOP"; "head"]].
Proof. exact xargs_e_refuted. Qed.
Print Assumptions C04_extract_xargs_refuted.

(* ------------------------------------------------------------------ non-vacuity *)
Example C04_example_quote : bash_quote $"it's a; rm" = $"'it'""'""'s a; rm'" /\ bash_words $"ls '-l a'  ""x""'y'" = Some [$"ls"; $"-l a"; $"xy"]
  /\ reread $"it's a; rm" = $"it's a; rm" /\ reread $"cost$" = $"'cost$'".
Proof. vm_compute. repeat split; reflexivity. Qed.
Example C04_example_bash :
  bash_exec (w ["--norc"; "-ex"; "-o"; "pipefail"; "-c"; "-u"; "rm -rf x"; "arg0"]) = Some (SString $"rm -rf x") /\
  bash_exec (w ["-e"; "script.sh"; "-c"; "ls"]) = Some (SFile $"script.sh").
Proof. vm_compute. split; reflexivity. Qed.
Example C04_example_env :
  env_opts (w ["-iv"; "-iu"; "HOME"; "--ch=/tmp"; "-vuPATH"; "--block"; "--uns"; "X"]).
Proof.
  apply (eo_cluster [105; 118]); [discriminate|reflexivity|].
  apply (eo_unset_sep [105] $"HOME"); [reflexivity|reflexivity|].
  apply (eo_long_chdir_eq $"ch" AReq $"/tmp"); [reflexivity|vm_compute; reflexivity|].
  apply (eo_unset_att [118] $"PATH"); [reflexivity|reflexivity|].
  apply (eo_long $"block" $"block-signal" AOpt); [reflexivity|vm_compute; reflexivity|cbn; tauto|].
  apply (eo_long_unset_sep $"uns" AReq $"X"); [reflexivity|vm_compute; reflexivity|reflexivity|]. constructor.
Qed.
(* env -i PATH=/x FOO=1 zap a delegates PATH=/x zap a; a PATH of system directories and FOO=1 are dropped *)
Example C04_example_env_kept :
  modelled (w ["env"; "-i"; "PATH=/x"; "FOO=1"; "zap"; "a"]) = Some (HWords [w ["PATH=/x"; "zap"; "a"]] false) /\
  modelled (w ["env"; "PATH=/usr/bin:/bin"; "LD_PRELOAD=l.so"; "A=1"; "PATH+=:/y"; "ls"]) = Some (HWords [w ["LD_PRELOAD=l.so"; "PATH+=:/y"; "ls"]] false) /\
  modelled (w ["env"; "PATH=/x"]) = Some HAllow /\
  env_kept (w ["A=1"; "B=2"]) = [].
Proof. vm_compute. repeat split; reflexivity. Qed.
Example C04_example_oracles_satisfiable :
  let judge := fun (_ : bool) (_ : list str) => Ask in
  let astr := fun (_ : bool) (s : str) => match s with [] => Allow | _ => Ask end in
  forall r ws, ws <> [] -> astr r (bash_join ws) = judge r (map reread ws).
Proof.
  intros judge astr r ws H. unfold astr, judge. destruct (bash_join ws) eqn:E; [|reflexivity].
  exfalso. exact (bash_join_nonempty ws H E).
Qed.
