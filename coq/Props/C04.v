(* C04 - Wrappers and launchers never launder a command; C13 (handler half) - docker/kubectl exec
   extract the command the tool really runs and delegate it as remote.
   Property theorems only; proofs are in Proofs/BashQuoteP.v and Proofs/WrappersP.v.

   Vocabulary
     bash_quote, bash_join        MODEL of core/bash.py
     bash_words                   SPEC: bash's word splitting and quote removal (BashQuote.v)
     reread w                     what the walker hands the ladder for a word bash_quote wrote:
                                  strip_quotes (bash_quote w) - only the outer quotes are removed
     modelled tokens              MODEL of the handlers' classify() (Wrappers.v); HWords cmds remote =
                                  "delegate bash_join of each command, ;-joined, with that remote flag"
     hverdict astr h              what step 5 of the ladder answers for that classification
     wrapper_exec / shell_exec    SPEC: the argv lists the real tool executes (WrapSpec.v, Getopt.v)
     judge remote words           ORACLE: the decision ladder (Model/Ladder.v of another package)
     astr remote text             ORACLE: analyze(text) = parser + walker + ladder
   The plain-form exactness of the wrapper loop (time/timeout/nice/nohup/command) and the
   env-assignment prefix law are theorems of the ladder model: Props of Model/Ladder.v
   (C04_exact_plain, C04_env_prefix live there). *)
From DippyV Require Import Base.Str Base.Verdict Gen.Tables Model.BashQuote Model.Getopt Model.Wrappers Model.WrapSpec
  Proofs.VerdictP Proofs.BashQuoteP Proofs.WrappersP.

(* ------------------------------------------------------------------ re-quoting *)
(* faithful for EVERY string: bash reads bash_quote s back as the single word s *)
Theorem C04_quote_faithful : forall s : str, bash_words (bash_quote s) = Some [s].
Proof. exact quote_faithful. Qed.
Print Assumptions C04_quote_faithful.

(* and a joined command line back as exactly the words that were joined *)
Theorem C04_join_faithful : forall ts : list str, ts <> [] -> bash_words (bash_join ts) = Some ts.
Proof. exact join_faithful. Qed.
Print Assumptions C04_join_faithful.

(* hence no two word lists are ever re-quoted to the same text *)
Theorem C04_join_injective : forall ts us : list str, ts <> [] -> us <> [] -> bash_join ts = bash_join us -> ts = us.
Proof. exact join_injective. Qed.
Print Assumptions C04_join_injective.

(* the fact the two theorems rest on: no character that bash_quote leaves bare (str.isalnum or one of
   - _ . / = @ :) is a blank, a quote or a shell metacharacter - for ALL code points (below 128 by
   evaluation over the table, above by the specification's clause that bash treats them as ordinary) *)
Theorem C04_bare_chars_are_inert : forall c : N, quote_safe c = true ->
  unq_literal c = true /\ is_blank c = false /\ N.eqb c SQ = false /\ N.eqb c DQ = false.
Proof. exact safe_char. Qed.
Print Assumptions C04_bare_chars_are_inert.

(* what Dippy itself reads back is NOT always the word: only the outer quotes are stripped, so a word
   containing a single quote reaches the ladder in its escaped spelling (harmless for the verdict order
   as far as the search found, but the reason the no-launder statements below carry no_sq) *)
Theorem C04_reread : forall w : str,
  (no_sq w = true -> reread w = w) /\ (no_sq w = false -> reread w = esc_sq w).
Proof.
  exact (fun w => conj (reread_no_sq w)
                       (fun H => reread_quoted w (proj1 (negb_false_iff _) H))).
Qed.
Print Assumptions C04_reread.

(* ------------------------------------------------------------------ no laundering *)
Section Oracles.
  Variable judge : bool -> list str -> verdict.
  Variable astr : bool -> str -> verdict.
  (* ORACLE HYPOTHESES, stated where they are used:
     Hwords - analysing the text bash_join ws is the ladder on the re-read words;
     Hseq   - a ;-joined text is judged as the most restrictive of its clauses (C03). *)
  Definition Hwords_t := forall r ws, ws <> [] -> astr r (bash_join ws) = judge r (map reread ws).
  Definition Hseq_t := forall r (l : list str), l <> [] -> astr r (join $"; " l) = combine (map (astr r) l).

  (* Whenever what a handler extracts is what the tool executes, every executed command is judged and
     the wrapper's verdict is at least as restrictive as each of them (all wrappers, all arguments). *)
  Theorem C04_no_launder : Hwords_t -> Hseq_t ->
    forall tokens inners r, modelled tokens = Some (HWords inners r) -> wrapper_exec tokens = Some inners ->
    Forall (fun c => c <> []) inners ->
    forall c, In c inners ->
      vle (judge r (map reread c)) (hverdict astr (HWords inners r)) = true /\
      (forallb no_sq c = true -> vle (judge r c) (hverdict astr (HWords inners r)) = true).
  Proof.
    exact (fun Hw Hs tokens inners r _ _ Hall c Hin =>
             conj (extracted_never_laundered judge astr Hw Hs inners r c Hall Hin)
                  (no_launder_of_extract judge astr Hw Hs (HWords inners r) inners r eq_refl Hall c Hin)).
  Qed.

  (* with a single inner command the verdict is EXACTLY the inner command's: wrapping adds no prompt *)
  Theorem C04_exact_delegate : Hwords_t -> Hseq_t ->
    forall c r, c <> [] -> forallb no_sq c = true -> hverdict astr (HWords [c] r) = judge r c.
  Proof. exact (fun Hw Hs c r => exact_of_extract judge astr Hw Hs (HWords [c] r) c r eq_refl). Qed.

  (* sh -c S / env -S S: the string from the command line is analysed as it stands *)
  Theorem C04_string_delegate : forall s, s <> [] -> hverdict astr (HString s) = astr false s.
  Proof. exact (hverdict_string astr). Qed.
End Oracles.
Print Assumptions C04_no_launder.
Print Assumptions C04_exact_delegate.
Print Assumptions C04_string_delegate.

(* ------------------------------------------------------------------ extraction = execution, per wrapper *)
(* env [NAME=VALUE]... COMMAND ARG... *)
Theorem C04_extract_env : forall assigns c0 cs,
  forallb assign_word assigns = true -> dash c0 = false -> has_eq c0 = false ->
  env_h ($"env" :: assigns ++ c0 :: cs) = HWords [c0 :: cs] false /\ env_exec (assigns ++ c0 :: cs) = Some [c0 :: cs].
Proof. exact env_extract. Qed.
Print Assumptions C04_extract_env.

(* env OPTION... [NAME=VALUE]... COMMAND ARG... for every sequence of the option spellings of env_opts:
   -i -v and their clusters, --ignore-environment --debug --list-signal-handling --block-signal
   --default-signal --ignore-signal (also abbreviated), -u NAME, --unset NAME, -C DIR, --chdir DIR
   (separate), --unset=NAME --uns=NAME --chdir=DIR --ch=DIR (=-joined), -uNAME, -CDIR (attached) -
   every NAME that env accepts, every DIR, every assignment list and every command *)
Theorem C04_extract_env_opts : forall opts assigns c0 cs,
  env_opts opts -> forallb assign_word assigns = true -> dash c0 = false -> has_eq c0 = false ->
  env_h ($"env" :: opts ++ assigns ++ c0 :: cs) = HWords [c0 :: cs] false /\
  env_exec (opts ++ assigns ++ c0 :: cs) = Some [c0 :: cs].
Proof. exact env_extract_opts. Qed.
Print Assumptions C04_extract_env_opts.

(* xargs COMMAND ARG... and xargs -- COMMAND ARG... *)
Theorem C04_extract_xargs : forall c0 cs, dash c0 = false -> xargs_unsafe (c0 :: cs) = false ->
  xargs_h ($"xargs" :: c0 :: cs) = HWords [c0 :: cs] false /\ xargs_exec (c0 :: cs) = Some [c0 :: cs].
Proof. exact xargs_extract. Qed.
Print Assumptions C04_extract_xargs.
Theorem C04_extract_xargs_ddash : forall c, c <> [] ->
  xargs_h ($"xargs" :: $"--" :: c) = HWords [c] false /\ xargs_exec ($"--" :: c) = Some [c].
Proof. exact xargs_extract_ddash. Qed.
Print Assumptions C04_extract_xargs_ddash.

(* find PATH... -exec COMMAND ARG... ;   (any command whose words are not terminators/-ok/-delete) *)
Theorem C04_extract_find : forall paths c,
  forallb plain_path paths = true -> forallb find_word_ok c = true -> c <> [] ->
  find_h ($"find" :: paths ++ $"-exec" :: c ++ [$";"]) = HWords [c] false /\
  find_exec (paths ++ $"-exec" :: c ++ [$";"]) = Some [c].
Proof. exact (fun paths c Hp Hc Hn => conj (find_extract_h paths c Hp Hc Hn) (find_extract_spec paths c Hp Hc Hn)). Qed.
Print Assumptions C04_extract_find.

(* sh/bash OPTION-WORDS -c S ARG... : the handler picks S whatever non-c words precede; bash and dash run S *)
Theorem C04_extract_shell : forall base pre cflag s rest,
  is_c_flag base = false -> Forall (fun x => is_c_flag x = false) pre -> is_c_flag cflag = true -> s <> [] ->
  shell_h (base :: pre ++ cflag :: s :: rest) = HString s.
Proof. exact shell_c_extract. Qed.
Print Assumptions C04_extract_shell.
Theorem C04_shell_spec : forall s rest, optlike s = false ->
  bash_exec ($"-c" :: s :: rest) = Some (SString s) /\ dash_exec ($"-c" :: s :: rest) = Some (SString s).
Proof. exact shell_c_spec. Qed.
Print Assumptions C04_shell_spec.

(* ------------------------------------------------------------------ C13 (handler half) *)
(* docker|podman exec OPTIONS CONTAINER COMMAND ARG... for every sequence of option spellings of dk_opts
   ( -i -t -d and their clusters, --interactive --tty --detach --privileged, -e V  --env V  -w V  -u V
   --env-file V with V ANY word, --env=V ... --detach-keys=V, -eV -wV -uV ), every container name not
   starting with a dash and every inner command: the handler delegates exactly the command docker
   sends to the container, with remote = true. *)
Theorem C13_extract_docker : forall base opts ctr cmd,
  In base [$"docker"; $"podman"] -> dk_opts opts -> dash ctr = false -> cmd <> [] ->
  modelled (base :: $"exec" :: opts ++ ctr :: cmd) = Some (HWords [cmd] true) /\
  wrapper_exec (base :: $"exec" :: opts ++ ctr :: cmd) = Some [cmd].
Proof. exact docker_extract_full. Qed.
Print Assumptions C13_extract_docker.

(* kubectl|k exec WORDS -- COMMAND ARG... where WORDS are pod names, -i -t -it -q --stdin --tty, value
   flags with a separate value other than the word -- , or =-joined values (kc_mid) *)
Theorem C13_extract_kubectl : forall base mid ps cmd,
  In base [$"kubectl"; $"k"] -> kc_mid mid ps -> cmd <> [] ->
  modelled (base :: $"exec" :: mid ++ $"--" :: cmd) = Some (HWords [cmd] true) /\
  kubectl_exec ($"exec" :: mid ++ $"--" :: cmd) = Some [cmd].
Proof. exact kubectl_extract. Qed.
Print Assumptions C13_extract_kubectl.

(* the inner command a handler delegates is always a suffix of the command line: never invented,
   reordered or re-assembled *)
Theorem C13_inner_is_suffix :
  (forall l, suffix_of (docker_exec_inner l) l) /\ (forall l s, after_ddash l = Some s -> suffix_of s l) /\
  (forall l, suffix_of (xargs_skip l) l) /\ (forall l c r, env_scan l = HWords [c] r -> suffix_of c l /\ r = false).
Proof. exact (conj docker_inner_suffix (conj after_ddash_suffix (conj xargs_skip_suffix env_scan_words_suffix))). Qed.
Print Assumptions C13_inner_is_suffix.

(* ------------------------------------------------------------------ refutations of the full statements
   FULL STATEMENT (false of the faithful model, for every wrapper below):
     forall args, wrapper_exec (W :: args) = Some inners -> modelled (W :: args) = Some (HWords inners r)
   Each witness was confirmed on the real code and with the real tool (notes/c04-findings.md). *)
Theorem C13_extract_docker_refuted :
  (modelled (w ["docker"; "exec"; "--"; "ls"; "rm"; "x"]) = Some (HWords [w ["ls"; "rm"; "x"]] true) /\
   wrapper_exec (w ["docker"; "exec"; "--"; "ls"; "rm"; "x"]) = Some [w ["rm"; "x"]]) /\
  (modelled (w ["docker"; "exec"; "-ie"; "A=1"; "ls"; "rm"; "x"]) = Some (HWords [w ["ls"; "rm"; "x"]] true) /\
   wrapper_exec (w ["docker"; "exec"; "-ie"; "A=1"; "ls"; "rm"; "x"]) = Some [w ["rm"; "x"]]) /\
  (modelled (w ["docker"; "exec"; "--detach-keys"; "a"; "cat"; "rm"; "x"]) = Some (HWords [w ["cat"; "rm"; "x"]] true) /\
   wrapper_exec (w ["docker"; "exec"; "--detach-keys"; "a"; "cat"; "rm"; "x"]) = Some [w ["rm"; "x"]]).
Proof. exact docker_extract_refuted. Qed.
Print Assumptions C13_extract_docker_refuted.

Theorem C13_extract_kubectl_refuted :
  modelled (w ["kubectl"; "exec"; "--cache-dir"; "--"; "ls"; "--"; "rm"; "x"]) = Some (HWords [w ["ls"; "--"; "rm"; "x"]] true) /\
  wrapper_exec (w ["kubectl"; "exec"; "--cache-dir"; "--"; "ls"; "--"; "rm"; "x"]) = Some [w ["rm"; "x"]].
Proof. exact kubectl_extract_refuted. Qed.
Print Assumptions C13_extract_kubectl_refuted.

Theorem C04_extract_shell_refuted :
  (modelled (w ["bash"; "script.sh"; "-c"; "ls"]) = Some (HString $"ls") /\
   shell_exec (w ["bash"; "script.sh"; "-c"; "ls"]) = Some (SFile $"script.sh")) /\
  (modelled (w ["sh"; "script.sh"; "-c"; "ls"]) = Some (HString $"ls") /\
   shell_exec (w ["sh"; "script.sh"; "-c"; "ls"]) = Some (SFile $"script.sh")) /\
  (modelled (w ["bash"; "-rcfile"; "ls"; "-c"; "rm x"]) = Some (HString $"ls") /\
   shell_exec (w ["bash"; "-rcfile"; "ls"; "-c"; "rm x"]) = Some (SString $"rm x")).
Proof. exact shell_extract_refuted. Qed.
Print Assumptions C04_extract_shell_refuted.

Theorem C04_extract_find_refuted :
  modelled (w ["find"; "."; "-exec"; "env"; "-u"; "+"; "rm"; "x"; ";"]) = Some (HWords [w ["env"; "-u"]] false) /\
  wrapper_exec (w ["find"; "."; "-exec"; "env"; "-u"; "+"; "rm"; "x"; ";"]) = Some [w ["env"; "-u"; "+"; "rm"; "x"]].
Proof. exact find_extract_refuted. Qed.
Print Assumptions C04_extract_find_refuted.

Theorem C04_extract_env_refuted :
  (modelled (w ["env"; "-iu"; "ls"; "rm"; "x"]) = Some (HWords [w ["ls"; "rm"; "x"]] false) /\
   wrapper_exec (w ["env"; "-iu"; "ls"; "rm"; "x"]) = Some [w ["rm"; "x"]]) /\
  (modelled (w ["env"; "--uns"; "ls"; "rm"; "x"]) = Some (HWords [w ["ls"; "rm"; "x"]] false) /\
   wrapper_exec (w ["env"; "--uns"; "ls"; "rm"; "x"]) = Some [w ["rm"; "x"]]).
Proof. exact env_extract_refuted. Qed.
Print Assumptions C04_extract_env_refuted.

Theorem C04_extract_xargs_refuted :
  (modelled (w ["xargs"; "-0I"; "ls"; "rm"; "x"]) = Some (HWords [w ["ls"; "rm"; "x"]] false) /\
   wrapper_exec (w ["xargs"; "-0I"; "ls"; "rm"; "x"]) = Some [w ["rm"; "x"]]) /\
  (modelled (w ["xargs"; "--process-slot"; "ls"; "rm"; "x"]) = Some (HWords [w ["ls"; "rm"; "x"]] false) /\
   wrapper_exec (w ["xargs"; "--process-slot"; "ls"; "rm"; "x"]) = Some [w ["rm"; "x"]]) /\
  (modelled (w ["xargs"; "-e"; "STOP"; "head"]) = Some (HWords [w ["head"]] false) /\
   wrapper_exec (w ["xargs"; "-e"; "STOP"; "head"]) = Some [w ["STOP"; "head"]]).
Proof. exact xargs_extract_refuted. Qed.
Print Assumptions C04_extract_xargs_refuted.

Theorem C04_extract_fd_refuted :
  modelled (w ["fd"; "-x"; "ls"; ";"; "-x"; "rm"]) = Some (HWords [w ["ls"; ";"; "-x"; "rm"]] false) /\
  wrapper_exec (w ["fd"; "-x"; "ls"; ";"; "-x"; "rm"]) = Some [w ["ls"]; w ["rm"]].
Proof. exact fd_extract_refuted. Qed.
Print Assumptions C04_extract_fd_refuted.

(* ------------------------------------------------------------------ non-vacuity *)
Example C04_example_quote : bash_quote $"it's a; rm" = $"'it'""'""'s a; rm'" /\ bash_words $"ls '-l a'  ""x""'y'" = Some [$"ls"; $"-l a"; $"xy"].
Proof. vm_compute. split; reflexivity. Qed.
Example C13_example_docker :
  dk_opts (w ["-it"; "-e"; "--"; "--env=A=1"; "-wdir"]) /\
  modelled (w ["docker"; "exec"; "-it"; "-e"; "--"; "--env=A=1"; "-wdir"; "web"; "rm"; "-rf"; "/"]) = Some (HWords [w ["rm"; "-rf"; "/"]] true).
Proof.
  split; [|vm_compute; reflexivity].
  apply dk_bool; [cbn; tauto|]. apply dk_sep; [cbn; tauto|].
  apply (dk_eq $"--env=" $"A=1"); [cbn; tauto|]. apply (dk_att $"-w" $"dir"); [cbn; tauto|discriminate|]. constructor.
Qed.
Example C04_example_env :
  env_opts (w ["-iv"; "-u"; "HOME"; "--chdir=/tmp"; "-uPATH"; "--block-signal"]) /\
  env_h (w ["env"; "-iv"; "-u"; "HOME"; "--chdir=/tmp"; "-uPATH"; "--block-signal"; "A=1"; "rm"; "-rf"; "x"]) = HWords [w ["rm"; "-rf"; "x"]] false /\
  env_exec (w ["-iv"; "-u"; "HOME"; "--chdir=/tmp"; "-uPATH"; "--block-signal"; "A=1"; "rm"; "-rf"; "x"]) = Some [w ["rm"; "-rf"; "x"]].
Proof.
  split; [|vm_compute; split; reflexivity].
  apply eo_bool; [cbn; tauto|]. apply eo_unset; [cbn; tauto|reflexivity|].
  apply (eo_chdir_eq $"--chdir=" $"/tmp"); [cbn; tauto|]. apply (eo_unset_att $"PATH"); [reflexivity|].
  apply eo_bool; [cbn; tauto|]. constructor.
Qed.
Example C04_example_oracles_satisfiable :
  (* the two oracle hypotheses hold, e.g., for the analysis that asks for everything but the empty text *)
  let judge := fun (_ : bool) (_ : list str) => Ask in
  let astr := fun (_ : bool) (s : str) => match s with [] => Allow | _ => Ask end in
  forall r ws, ws <> [] -> astr r (bash_join ws) = judge r (map reread ws).
Proof.
  intros judge astr r ws H. unfold astr, judge. destruct (bash_join ws) eqn:E; [|reflexivity].
  exfalso. exact (bash_join_nonempty ws H E).
Qed.
