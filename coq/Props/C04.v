(* C04 - Wrappers and launchers never launder a command; C13 (handler half) - docker/kubectl exec
   extract the command the tool really runs and delegate it as remote.
   Property theorems only; proofs are in Proofs/BashQuoteP.v and Proofs/WrappersP.v.

   Vocabulary
     bash_quote, bash_join        MODEL of core/bash.py
     bash_words                   SPEC: bash's word splitting and quote removal (BashQuote.v)
     reread w                     what the walker hands the ladder for a word bash_quote wrote:
                                  strip_quotes (bash_quote w), strip_quotes = bash quote removal
     modelled tokens              MODEL of the handlers' classify() (Wrappers.v); HWords cmds remote =
                                  "delegate bash_join of each command, ;-joined, with that remote flag"
     hverdict astr h              what step 5 of the ladder answers for that classification
     wrapper_exec / shell_exec    SPEC: the argv lists the real tool executes (WrapSpec.v, Getopt.v)
     judge remote words           ORACLE: the decision ladder (Model/Ladder.v of another package)
     astr remote text             ORACLE: analyze(text) = parser + walker + ladder
   The plain-form exactness of the wrapper loop (time/timeout/nice/nohup/command) and the
   env-assignment prefix law are theorems of the ladder model: Props of Model/Ladder.v
   (C04_exact_plain, C04_env_prefix live there). *)
From DippyV Require Import Base.Str Base.Verdict Gen.Tables Model.BashQuote Model.Getopt Model.Wrappers Model.WrapSpec
  Proofs.VerdictP Proofs.BashQuoteP Proofs.WrappersP.

(* ------------------------------------------------------------------ re-quoting *)
(* faithful for EVERY string: bash reads bash_quote s back as the single word s *)
Theorem C04_quote_faithful : forall s : str, bash_words (bash_quote s) = Some [s].
Proof. exact quote_faithful. Qed.
Print Assumptions C04_quote_faithful.

(* and a joined command line back as exactly the words that were joined *)
Theorem C04_join_faithful : forall ts : list str, ts <> [] -> bash_words (bash_join ts) = Some ts.
Proof. exact join_faithful. Qed.
Print Assumptions C04_join_faithful.

(* hence no two word lists are ever re-quoted to the same text *)
Theorem C04_join_injective : forall ts us : list str, ts <> [] -> us <> [] -> bash_join ts = bash_join us -> ts = us.
Proof. exact join_injective. Qed.
Print Assumptions C04_join_injective.

(* the fact the two theorems rest on: no character that bash_quote leaves bare (str.isalnum or one of
   - _ . / = @ :) is a blank, a quote or a shell metacharacter - for ALL code points (below 128 by
   evaluation over the table, above by the specification's clause that bash treats them as ordinary) *)
Theorem C04_bare_chars_are_inert : forall c : N, quote_safe c = true ->
  unq_literal c = true /\ is_blank c = false /\ N.eqb c SQ = false /\ N.eqb c DQ = false.
Proof. exact safe_char. Qed.
Print Assumptions C04_bare_chars_are_inert.

(* what Dippy itself reads back (analyzer._strip_quotes, quote removal): the word itself, for every word
   except those where a dollar sign ends up right before a quote (w ends in a dollar sign, or has one before a quote):
   the walker then keeps the quoted spelling - the reason the statements below carry [clean] *)
Theorem C04_reread : forall w : str,
  (clean w = true -> reread w = w) /\ (clean w = false -> reread w = bash_quote w) /\
  (mem_ch DOLLAR w = false -> clean w = true).
Proof. exact (fun w => conj (reread_clean w) (conj (reread_dollar w) (no_dollar_clean w))). Qed.
Print Assumptions C04_reread.

(* ------------------------------------------------------------------ no laundering *)
Section Oracles.
  Variable judge : bool -> list str -> verdict.
  Variable astr : bool -> str -> verdict.
  (* ORACLE HYPOTHESES, stated where they are used:
     Hwords - analysing the text bash_join ws is the ladder on the re-read words;
     Hseq   - a ;-joined text is judged as the most restrictive of its clauses (C03). *)
  Definition Hwords_t := forall r ws, ws <> [] -> astr r (bash_join ws) = judge r (map reread ws).
  Definition Hseq_t := forall r (l : list str), l <> [] -> astr r (join $"; " l) = combine (map (astr r) l).

  (* Whenever what a handler extracts is what the tool executes, every executed command is judged and
     the wrapper's verdict is at least as restrictive as each of them (all wrappers, all arguments). *)
  Theorem C04_no_launder : Hwords_t -> Hseq_t ->
    forall tokens inners r, modelled tokens = Some (HWords inners r) -> wrapper_exec tokens = Some inners ->
    Forall (fun c => c <> []) inners ->
    forall c, In c inners ->
      vle (judge r (map reread c)) (hverdict astr (HWords inners r)) = true /\
      (forallb clean c = true -> vle (judge r c) (hverdict astr (HWords inners r)) = true).
  Proof.
    exact (fun Hw Hs tokens inners r _ _ Hall c Hin =>
             conj (extracted_never_laundered judge astr Hw Hs inners r c Hall Hin)
                  (no_launder_of_extract judge astr Hw Hs (HWords inners r) inners r eq_refl Hall c Hin)).
  Qed.

  (* with a single inner command the verdict is EXACTLY the inner command's: wrapping adds no prompt *)
  Theorem C04_exact_delegate : Hwords_t -> Hseq_t ->
    forall c r, c <> [] -> forallb clean c = true -> hverdict astr (HWords [c] r) = judge r c.
  Proof. exact (fun Hw Hs c r => exact_of_extract judge astr Hw Hs (HWords [c] r) c r eq_refl). Qed.

  (* sh -c S / env -S S: the string from the command line is analysed as it stands *)
  Theorem C04_string_delegate : forall s, s <> [] -> hverdict astr (HString s) = astr false s.
  Proof. exact (hverdict_string astr). Qed.
End Oracles.
Print Assumptions C04_no_launder.
Print Assumptions C04_exact_delegate.
Print Assumptions C04_string_delegate.

