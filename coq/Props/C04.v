(* C04 - Wrappers and launchers never launder a command.  Property theorems only; proofs in Proofs/. *)
From DippyV Require Import Base.Str Base.Verdict Model.BashQuote Model.Getopt Model.Wrappers Model.WrapSpec Proofs.BashQuoteP.

(* re-quoting is faithful for EVERY string: bash reads bash_quote s back as the single word s *)
Theorem C04_quote_faithful : forall s : str, bash_words (bash_quote s) = Some [s].
Proof. exact quote_faithful. Qed.
Print Assumptions C04_quote_faithful.

(* ... and a joined command line back as exactly the words that were joined *)
Theorem C04_join_faithful : forall ts : list str, ts <> [] -> bash_words (bash_join ts) = Some ts.
Proof. exact join_faithful. Qed.
Print Assumptions C04_join_faithful.
