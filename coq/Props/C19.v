(* C19 - Post-execution feedback rules are advisory only.
   Property theorems only; proofs are in Proofs/HookP.v. *)
From Coq Require Import List Bool NArith String.
From DippyV Require Import Base.Str Base.Verdict Base.Tree Gen.Tables Model.Hook Model.HookView Model.Tokens Proofs.HookP Proofs.HookViewP Proofs.TokensP.
Import ListNotations.

(* which kind of event this is is read at the host-written level of the payload only (Model/HookView.v): a
   hook_event_name key inside tool_input / tool_response / any other member can neither silence a pre-execution
   event nor make a PostToolUse event answer with a decision *)
Theorem C19_event_host_level : forall inp, event_of (host_view inp) = event_of inp /\ (post_event (host_view inp) <-> post_event inp).
Proof. exact (fun inp => conj (event_of_view inp) (post_event_view inp)). Qed.
Print Assumptions C19_event_host_level.

(* C19_tokens (parser.py tokenize, after Parable has parsed the text; Model/Tokens.v).
   Full statement: the tokens are the words - one surrounding pair of quotes removed - of the first simple command of
   the first pipeline of the first list OF THE COMMAND TEXT, nothing for any other construct.
       forall nodes, extract_tokens nodes = match nodes with t :: _ => node_tokens t | [] => [] end
   is FALSE of the code as it is: the loop extends the result for every top-level node, and Parable returns one node per
   line, so `git<newline>status` yields [git; status] where `git; status` yields [git] (notes/hook-findings.md F3). *)
Theorem C19_tokens_refuted :
  exists nodes, extract_tokens nodes <> match nodes with t :: _ => node_tokens t | [] => [] end.
Proof. exact tokens_first_node_refuted. Qed.
Print Assumptions C19_tokens_refuted.
(* what is true: for ONE top-level node (a command text without an unquoted newline between commands) the tokens are the
   words of the command found by descending list -> first part that is no operator, pipeline -> first command; a word
   or command node is its own answer; every other kind (subshell, brace group, if, negation, time, ...) gives []. *)
Theorem C19_tokens_partial : forall t,
  extract_tokens [t] = match first_simple t with Some c => simple_words c | None => [] end.
Proof. exact (fun t => eq_trans (extract_tokens_one t) (node_tokens_spec t)). Qed.
Print Assumptions C19_tokens_partial.
Theorem C19_tokens_lines : forall a b, extract_tokens (a ++ b) = extract_tokens a ++ extract_tokens b.
Proof. exact extract_tokens_app. Qed.
Print Assumptions C19_tokens_lines.
(* _strip_quotes: a value wrapped in one pair of the same quote character loses exactly that pair; a value that does not
   end with the quote it starts with, or is shorter than two characters, is left alone; never more than two characters go *)
Theorem C19_strip_quotes : forall q s, q = dquote \/ q = squote -> strip_quotes (q :: s ++ [q]) = s.
Proof. exact strip_quotes_quoted. Qed.
Print Assumptions C19_strip_quotes.
Theorem C19_strip_quotes_unbalanced : forall a b r, last (b :: r) 0%N <> a -> strip_quotes (a :: b :: r) = a :: b :: r.
Proof. exact strip_quotes_unbalanced. Qed.
Print Assumptions C19_strip_quotes_unbalanced.
Theorem C19_strip_quotes_length : forall v,
  (length (strip_quotes v) = length v \/ length (strip_quotes v) + 2 = length v)%nat.
Proof. exact strip_quotes_length. Qed.
Print Assumptions C19_strip_quotes_length.
Example C19_tokens_example_pipeline :
  extract_tokens [T $"pipeline" [] [] [($"commands", cmd [$"'git'"; $"push"]); ($"commands", cmd [$"cat"])]] = [$"git"; $"push"].
Proof. vm_compute. reflexivity. Qed.
Example C19_tokens_example_subshell : extract_tokens [T $"subshell" [] [] [($"body", cmd [$"git"; $"push"])]] = [].
Proof. vm_compute. reflexivity. Qed.

Section Oracles.
  Variables S G : Type.
  Variable o_resolve : str -> res str.
  Variable o_getcwd : res str.
  Variable o_load_config : str -> res (config S G).
  Variable o_configure_logging : G -> res unit.
  Variable o_log_decision : str -> str -> res unit.
  Variable o_analyze : str -> S -> str -> res (str * str).
  Variable o_gmatch : str -> str -> bool.
  Variable o_words : str -> list str.
  Variable o_after_prep : S -> str -> list str -> res unit.
  Variable o_after_rule : S -> str -> list str -> rule -> res bool.
  Variable o_print : str -> res unit.
  Notation main := (@main S G o_resolve o_getcwd o_load_config o_configure_logging o_log_decision
                          o_analyze o_gmatch o_words o_after_prep o_after_rule o_print).
  Notation main_try := (@main_try S G o_resolve o_getcwd o_load_config o_configure_logging o_log_decision
                          o_analyze o_gmatch o_words o_after_prep o_after_rule o_print).
  Notation X := (oracles_exc_only S G o_resolve o_getcwd o_load_config o_configure_logging o_log_decision
                                  o_analyze o_after_prep o_after_rule o_print).
  Notation find_cwd := (find_cwd o_resolve o_getcwd).
  Notation load_stage := (@load_stage S G o_load_config o_configure_logging).

  (* C19_output: a PostToolUse run prints nothing, or one line made of the duck and a non-empty message,
     or {} - never a decision - and exits 0; for every input, mode, configuration outcome (ConfigError
     included) and oracle behaviour. *)
  Theorem C19_output : forall setup e inp,
    X -> (setup = Ok tt \/ setup = Raise OSError) -> post_event inp ->
    post_stdout (stdout (main setup e (Ok inp))) /\ exit_code (main setup e (Ok inp)) = 0%nat.
  Proof. exact (main_post_output S G o_resolve o_getcwd o_load_config o_configure_logging o_log_decision
                                 o_analyze o_gmatch o_words o_after_prep o_after_rule o_print). Qed.

  (* {} (rather than nothing) is printed only when something raised or the tool is neither a shell tool
     nor an MCP tool: if main_try returns [{}], the route is "other" *)
  Theorem C19_output_empty_object : forall explicit inp m,
    (match explicit with Some m => Ok m | None => detect_mode_from_input inp end) = Ok m ->
    post_event inp -> main_try explicit inp = Ok [J (JObj [])] -> route_of (is_cursor m) inp = Ok ROther.
  Proof. exact (main_post_empty_origin S G o_resolve o_getcwd o_load_config o_configure_logging o_log_decision
                                       o_analyze o_gmatch o_words o_after_prep o_after_rule o_print). Qed.

  (* a ConfigError on PostToolUse: nothing is printed *)
  Theorem C19_output_config_error : forall explicit inp m msg,
    (match explicit with Some m => Ok m | None => detect_mode_from_input inp end) = Ok m ->
    config_error_at S G o_resolve o_getcwd o_load_config o_configure_logging inp msg -> post_event inp ->
    main_try explicit inp = Ok [].
  Proof. exact (main_try_config_error_post S G o_resolve o_getcwd o_load_config o_configure_logging o_log_decision
                                           o_analyze o_gmatch o_words o_after_prep o_after_rule o_print). Qed.

  (* C19_last, MCP tools: what is printed is the message of the LAST after-mcp rule whose pattern matches;
     nothing when none matches, when that rule has no message, or when its message is empty *)
  Theorem C19_last_mcp : forall m inp tn cwd cfg he,
    find_cwd inp = Ok cwd -> load_stage cwd = Ok cfg -> event_of inp = Ok he -> is_post he = true ->
    route_of false inp = Ok (RMcp tn) -> is_cursor m = false -> (forall s, exists u, o_print s = Ok u) ->
    main_try (Some m) inp
    = Ok (feedback_of (option_map msg_or_empty (last_such (mcp_hit o_gmatch tn) (c_after_mcp cfg)))).
  Proof. exact (post_mcp_feedback S G o_resolve o_getcwd o_load_config o_configure_logging o_log_decision
                                  o_analyze o_gmatch o_words o_after_prep o_after_rule o_print). Qed.

  (* C19_last, shell commands: likewise with the last after rule that matches the tokenized command
     ([p] is what the per-rule matcher answers) *)
  Theorem C19_last_shell : forall m inp c ws cwd cfg he (p : rule -> bool),
    find_cwd inp = Ok cwd -> load_stage cwd = Ok cfg -> event_of inp = Ok he -> is_post he = true ->
    route_of (is_cursor m) inp = Ok (RShell c) -> (forall s, exists u, o_print s = Ok u) ->
    tokenize o_words c = Ok ws -> (exists u, o_after_prep (c_shell cfg) cwd ws = Ok u) ->
    Forall (fun r => o_after_rule (c_shell cfg) cwd ws r = Ok (p r)) (c_after cfg) ->
    main_try (Some m) inp = Ok (feedback_of (option_map msg_or_empty (last_such p (c_after cfg)))).
  Proof. exact (post_shell_feedback S G o_resolve o_getcwd o_load_config o_configure_logging o_log_decision
                                    o_analyze o_gmatch o_words o_after_prep o_after_rule o_print). Qed.

  (* C19_inert: two configurations that differ only in their after / after-mcp rules give the same
     output on every pre-execution event (any input, any mode, any oracle behaviour) *)
  Theorem C19_inert : forall (lc' : str -> res (config S G)) explicit inp,
    rel_load o_load_config lc' (same_but_after S G) -> pre_event inp ->
    main_try explicit inp =
    @Hook.main_try S G o_resolve o_getcwd lc' o_configure_logging o_log_decision
                   o_analyze o_gmatch o_words o_after_prep o_after_rule o_print explicit inp.
  Proof. exact (fun lc' => main_inert S G o_resolve o_getcwd o_configure_logging o_log_decision o_print
                                      o_load_config lc' o_analyze o_gmatch o_words o_after_prep o_after_rule). Qed.
End Oracles.
Print Assumptions C19_output.
Print Assumptions C19_output_empty_object.
Print Assumptions C19_output_config_error.
Print Assumptions C19_last_mcp.
Print Assumptions C19_last_shell.
Print Assumptions C19_inert.

(* "last" is the last: a generic fact used above, with its reading *)
Theorem C19_last_such : forall (A : Type) (p : A -> bool) (a : A) (l : list A),
  last_such p (a :: l) = match last_such p l with Some y => Some y | None => if p a then Some a else None end.
Proof. exact @last_such_cons. Qed.
Print Assumptions C19_last_such.

(* History: before /repo commit 007d10b the ConfigError handler ran before the event was looked at and a
   PostToolUse run with an unreadable configuration printed a PreToolUse `ask` envelope (the former
   C19_output_refuted).  The same witness now prints nothing: *)
Definition demo_main (lc : str -> res (config unit unit)) :=
  @main unit unit (fun s => Ok s) (Ok $"/w") lc (fun _ => Ok tt) (fun _ _ => Ok tt)
        (fun _ _ _ => Ok ($"allow", $"ls")) (fun _ p => str_eqb p $"mcp__*") (fun _ => [$"ls"])
        (fun _ _ _ => Ok tt) (fun _ _ _ r => Ok (str_eqb (r_pattern r) $"ls")) (fun _ => Ok tt)
        (Ok tt) {| argv := []; e_claude := None; e_gemini := None; e_cursor := None |}.
Definition post_ls : json :=
  tool_input_shape $"Bash" (JStr $"ls") (JStr $"/w") [($"hook_event_name", JStr $"PostToolUse")].

Example C19_formerly_refuted_witness :
  stdout (demo_main (fun _ => Raise (ConfigError $"unreadable")) (Ok post_ls)) = [].
Proof. vm_compute. reflexivity. Qed.

(* non-vacuity: three after rules, the last matching one is printed; an empty last message silences *)
Definition mk (p : string) (m : option string) : rule :=
  {| r_decision := $"after"; r_pattern := s2l p; r_message := option_map s2l m; r_exact := false |}.
Definition cfg_after (rs : list rule) : config unit unit :=
  {| c_shell := tt; c_mcp := []; c_after := rs; c_after_mcp := []; c_log := tt |}.
Example C19_example_last :
  stdout (demo_main (fun _ => Ok (cfg_after [mk "ls" (Some "first"); mk "cat" (Some "other"); mk "ls" (Some "second")])) (Ok post_ls))
  = [Text (duck ++ $"second")].
Proof. vm_compute. reflexivity. Qed.
Example C19_example_silenced :
  stdout (demo_main (fun _ => Ok (cfg_after [mk "ls" (Some "first"); mk "ls" (Some "")])) (Ok post_ls)) = [].
Proof. vm_compute. reflexivity. Qed.
Example C19_example_none :
  stdout (demo_main (fun _ => Ok (cfg_after [mk "cat" (Some "other")])) (Ok post_ls)) = [].
Proof. vm_compute. reflexivity. Qed.
