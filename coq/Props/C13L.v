(* C13 (ladder/walker half) - remote delegation relaxes only local-path checks, only for the inner
   command.  Property theorems only; the extraction half (docker/kubectl exec option spellings) is
   in Props/C04.v (the C13_extract theorems). *)
From DippyV Require Import Base.Str Base.Verdict Base.Tree Gen.Tables Model.Walker Model.Cover Model.Ladder
  Proofs.WalkerP Proofs.CoverP Proofs.LadderP Proofs.C13P.

Section Ladder.
  Variable mcmd : ctx -> list str -> option verdict.
  Variable handler : ctx -> list str -> option hres.
  Variable mredir : str -> str -> option verdict.
  Variable astr : ctx -> str -> verdict.

  (* the delegated inner command is analysed as a command string with the handler's remote flag:
     judged exactly like any other command (rules included), only the context says remote *)
  Theorem C13_inner : forall c words t tk r,
    skip_assignments words = t :: tk -> reaches_handler mcmd handler c (t :: tk) r ->
    h_action r = HDelegate -> h_targets r = [] -> nonempty (h_inner r) = true ->
    ladder mcmd handler mredir astr c words = astr (fst c, h_remote r) (h_inner r).
  Proof. exact (delegate_decides mcmd handler mredir astr). Qed.
End Ladder.
Print Assumptions C13_inner.

(* what remote mode relaxes in the walker: exactly the redirect-rule lookup of a redirection's
   target (its substitutions are still analysed) and the cd tracking; nothing else reads the flag *)
Theorem C13_relax_redirects : forall simple astr mredir cdres injrisk rulematch c k ss fs ks,
  let t := T k ss fs ks in
  str_eqb k $"heredoc" = false -> snd c = true ->
  r_redir (ev simple astr mredir cdres injrisk rulematch t) c =
  match child "target" t with Some w => r_wp (ev simple astr mredir cdres injrisk rulematch w) (str_eqb (attr_d "op" t) HERESTRING_OP) c | None => [] end.
Proof. exact remote_redirect. Qed.
Print Assumptions C13_relax_redirects.

(* no leak: the remote flag never changes along the walk (only a delegating handler sets it, for the
   inner command string) - every node of an outer command line is analysed with the outer flag *)
Theorem C13_outer : forall simple astr mredir cdres injrisk rulematch n r t c,
  ok (field r (ev simple astr mredir cdres injrisk rulematch t) c) ->
  forall r' d, In (r', d) (reach_fuel n r t) ->
  exists c', same_mode c c' /\ ok (field r' (ev simple astr mredir cdres injrisk rulematch d) c').
Proof. exact cover. Qed.
Print Assumptions C13_outer.
