(* C05 - Unknown or unparseable input defaults to ask.  Property theorems only. *)
From DippyV Require Import Base.Str Base.Verdict Base.Tree Gen.Tables Model.Walker Model.Ladder
  Proofs.WalkerP Proofs.C01P Proofs.LadderP.

Section Oracles.
  Variable mcmd : ctx -> list str -> option verdict.
  Variable handler : ctx -> list str -> option hres.
  Variable mredir : str -> str -> option verdict.
  Variable astr : ctx -> str -> verdict.
  Notation ladder := (ladder mcmd handler mredir astr).

  (* a program name outside the shipped tables (safe list, wrappers, handlers), matching no rule,
     whatever its arguments: ask - unless the words have one of the help/version shapes *)
  Theorem C05_unknown : forall c words base args,
    skip_assignments words = base :: args -> mcmd c (base :: args) = None ->
    mem_str base WRAPPER_COMMANDS = false -> mem_str base SIMPLE_SAFE = false ->
    handler c (base :: args) = None -> is_help (base :: args) = false ->
    ladder c words = Ask.
  Proof. exact (unknown_asks mcmd handler mredir astr). Qed.

  Theorem C05_unknown_allowed_only_as_help : forall c words base args,
    skip_assignments words = base :: args -> mcmd c (base :: args) = None ->
    mem_str base WRAPPER_COMMANDS = false -> mem_str base SIMPLE_SAFE = false ->
    handler c (base :: args) = None ->
    ladder c words = Allow -> is_help (base :: args) = true.
  Proof. exact (unknown_allow_is_help mcmd handler mredir astr). Qed.

  (* behind a transparent wrapper the verdict is the inner command's, so an unknown inner program asks *)
  Theorem C05_wrapped : forall c w rest inner,
    is_assignment w = false -> mem_str w WRAPPER_COMMANDS = true -> mcmd c (w :: rest) = None ->
    (str_eqb w $"command" && mem_str (nth 0 rest []) COMMAND_V_FLAGS) = false ->
    skip_wrapper_args w rest = inner -> inner <> [] ->
    (negb (str_eqb w $"time") && is_assignment (hd [] inner)) = false ->
    ladder c (w :: rest) = ladder c inner.
  Proof. exact (wrapper_transparent mcmd handler mredir astr). Qed.
End Oracles.
Print Assumptions C05_unknown.
Print Assumptions C05_unknown_allowed_only_as_help.
Print Assumptions C05_wrapped.

(* the help/version exception is exactly: "cmd X" with X one of the five tokens, or a command of
   three or four words ending in --help / -h  (the token tables are the shipped ones) *)
Theorem C05_help_shape : forall tokens, is_help tokens = true <->
  (exists b t, tokens = [b; t] /\ (In t HELP_WORDS \/ In t HELP_FLAGS2 \/ In t HELP_TRAILING)) \/
  (exists b mid l, tokens = b :: mid ++ [l] /\ (1 <= length mid <= 2)%nat /\ In l HELP_TRAILING /\
                   forallb subcommand_word mid = true).
Proof. exact is_help_shape. Qed.
Print Assumptions C05_help_shape.

Theorem C05_help_tables :
  HELP_WORDS = [$"help"; $"version"] /\ HELP_FLAGS2 = [$"--help"; $"--version"; $"-h"] /\ HELP_TRAILING = [$"--help"; $"-h"].
Proof. exact (conj eq_refl (conj eq_refl eq_refl)). Qed.
Print Assumptions C05_help_tables.

Section Walk.
  Variable simple : ctx -> list str -> verdict.
  Variable astr : ctx -> str -> verdict.
  Variable mredir : str -> str -> option verdict.
  Variable cdres : str -> str -> str.
  Variable injrisk : ctx -> list str -> bool.
  Variable rulematch : ctx -> list str -> bool.

  (* syntax errors, empty programs and node kinds the walker does not know: ask *)
  Theorem C05_parse : forall c,
    analyze_nodes simple astr mredir cdres injrisk rulematch c None = Ask /\
    analyze_nodes simple astr mredir cdres injrisk rulematch c (Some []) = Ask.
  Proof. exact (parse_failclosed simple astr mredir cdres injrisk rulematch). Qed.

  Theorem C05_unknown_node : forall c k ss fs ks, mem_str k known_kinds = false ->
    walk simple astr mredir cdres injrisk rulematch c (T k ss fs ks) = Ask.
  Proof. exact (walk_unknown simple astr mredir cdres injrisk rulematch). Qed.

  (* the whole of analyze(), from the text: a text that is empty or white space only (in Python's sense), a text that
     holds white space bash does not separate words at (form feed, carriage return, no-break space, ...), a text the
     parser rejects or fails on, and an empty parse are all asked - whatever the parser oracle is *)
  Theorem C05_text : forall (parse : str -> option (list tree)) c s,
    (analyze_prelude s = None \/ (exists t, analyze_prelude s = Some t /\ (parse t = None \/ parse t = Some []))) ->
    analyze_text simple astr mredir cdres injrisk rulematch parse c s = Ask.
  Proof. exact (analyze_text_failclosed simple astr mredir cdres injrisk rulematch). Qed.
End Walk.
(* the text handed to the parser is not blank and its only white space is what bash separates words at *)
Theorem C05_parsed_text : forall s t, analyze_prelude s = Some t ->
  forallb py_space t = false /\ existsb (fun ch => py_space ch && negb (bash_blank ch)) t = false.
Proof. exact analyze_prelude_text. Qed.
Print Assumptions C05_text.
Print Assumptions C05_parsed_text.
Print Assumptions C05_parse.
Print Assumptions C05_unknown_node.

Example C05_example :
  is_help [$"frobnicate"; $"--help"] = true /\ is_help [$"frobnicate"; $"a"; $"b"; $"-h"] = true /\
  is_help [$"frobnicate"; $"a"; $"b"; $"c"; $"-h"] = false /\ is_help [$"frobnicate"; $"a"; $"--version"] = false.
Proof. vm_compute. repeat split; reflexivity. Qed.

Example C05_prelude_example :
  map analyze_prelude [$"  ls "; []; $" "; [12]; [160; 108; 115]; [108; 115; 13]; [9; 108; 115; 10]]
  = [Some $"ls"; None; None; None; None; None; Some $"ls"].
Proof. vm_compute. reflexivity. Qed.
