(* C01 - No hidden execution: approval covers every command bash would run.
   Property theorems only (proofs in Proofs/).  The AST (the vendored parser's output) and the
   decision ladder are oracles: every statement holds for ALL trees of any shape and depth and
   ALL oracle behaviours.  What is proved: nothing the specification [sub] says must be analysed
   is skipped by the walker, the raw-string scanner is exact on everything it does not answer
   "ask" for, and parse failures / unknown node kinds are never approved.  What is only tested
   (harness/c01.py, real bash): that [sub]'s closure covers every executable node of the ASTs
   Parable really produces, and that Parable agrees with bash. *)
From DippyV Require Import Base.Str Base.Verdict Base.Tree Gen.Tables Model.RawScan Model.Walker Model.Cover
  Proofs.VerdictP Proofs.RawScanP Proofs.WalkerP Proofs.CoverP Proofs.C01P.

Section Oracles.
  Variable simple : ctx -> list str -> verdict.
  Variable astr : ctx -> str -> verdict.
  Variable mredir : str -> str -> option verdict.
  Variable cdres : str -> str -> str.
  Variable injrisk : ctx -> list str -> bool.
  Variable rulematch : ctx -> list str -> bool.
  Notation ev := (ev simple astr mredir cdres injrisk rulematch).
  Notation walk := (walk simple astr mredir cdres injrisk rulematch).
  Notation analyze_nodes := (analyze_nodes simple astr mredir cdres injrisk rulematch).

  (* one step, any role: an approved node has every child that must be analysed approved *)
  Theorem C01_step : forall r t c, ok (field r (ev t) c) ->
    forall r' d, In (r', d) (sub r t) ->
    exists c', same_mode c c' /\ ok (field r' (ev d) c').
  Proof. exact (step_any simple astr mredir cdres injrisk rulematch). Qed.

  (* any depth: every node reached from an approved node is approved when analysed as a node
     (same remote flag; the directory may differ after a cd) *)
  Theorem C01_walker_complete : forall c t, walk c t = Allow ->
    forall n d, In (RNode, d) (reach_fuel n RNode t) -> exists c', snd c' = snd c /\ walk c' d = Allow.
  Proof. exact (approved_all_nodes simple astr mredir cdres injrisk rulematch). Qed.

  (* every raw string bash expands at a reached position was delimitable and its substitutions approved *)
  Theorem C01_raw_positions : forall c t, walk c t = Allow ->
    forall n r d s, In (r, d) (reach_fuel n RNode t) -> In s (raw_positions r d) ->
    exists c', snd c' = snd c /\ raw_ok astr c' s.
  Proof. exact (approved_all_raw simple astr mredir cdres injrisk rulematch). Qed.

  Theorem C01_raw_ok_meaning : forall c s, raw_ok astr c s ->
    scan_raw s <> RComplex /\ forall l, scan_raw s = RSubs l -> forall u, In u l -> astr c u = Allow.
  Proof. exact (raw_ok_spec astr). Qed.

  (* whole program: approval implies the parser accepted a non-empty program and every node
     reached from every top-level command is approved *)
  Theorem C01_program : forall c nodes, analyze_nodes c nodes = Allow ->
    exists ns, nodes = Some ns /\ ns <> [] /\
      forall t, In t ns -> forall n d, In (RNode, d) (reach_fuel n RNode t) ->
        exists c', snd c' = snd c /\ walk c' d = Allow.
  Proof. exact (approved_program simple astr mredir cdres injrisk rulematch). Qed.

  Theorem C01_parse_failclosed : forall c, analyze_nodes c None = Ask /\ analyze_nodes c (Some []) = Ask.
  Proof. exact (parse_failclosed simple astr mredir cdres injrisk rulematch). Qed.

  Theorem C01_unknown_kind : forall c k ss fs ks, mem_str k known_kinds = false -> walk c (T k ss fs ks) = Ask.
  Proof. exact (walk_unknown simple astr mredir cdres injrisk rulematch). Qed.

  (* "$((" not closed by "))": bash runs a command substitution where the parser saw arithmetic *)
  Theorem C01_unclosed_arith_word : forall c b k ss fs ks, let t := T k ss fs ks in
    nonempty (children "parts" t) = true -> unclosed_arith (attr_d "value" t) = true ->
    In Ask (r_wp (ev t) b c).
  Proof. exact (unclosed_arith_asks simple astr mredir cdres injrisk rulematch). Qed.
  Theorem C01_lost_substitution : forall c k ss fs ks, let t := T k ss fs ks in
    substitutions_lost (attr_d "value" t) t = true -> In Ask (r_wp (ev t) false c).
  Proof. exact (lost_substitution_asks simple astr mredir cdres injrisk rulematch). Qed.
  Theorem C01_inert_opener : forall c k ss fs ks, let t := T k ss fs ks in
    nonempty (children "parts" t) = true -> has_inert_opener (attr_d "value" t) = true -> In Ask (r_wp (ev t) true c).
  Proof. exact (inert_opener_asks simple astr mredir cdres injrisk rulematch). Qed.
  Theorem C01_unclosed_arith_cmd : forall c ss fs ks, let t := T $"arith-cmd" ss fs ks in
    unclosed_arith (attr_d "raw_content" t) = true -> walk c t <> Allow.
  Proof. exact (unclosed_arith_cmd_asks simple astr mredir cdres injrisk rulematch). Qed.

  (* an approved simple command has no word in its assignment prefix that sets a variable deciding WHICH program runs
     or making it load other code (PATH, LD_PRELOAD, BASH_ENV, IFS, PAGER, ...; a PATH assigned system directories only
     is the one exception): the command bash runs is the one that was judged *)
  Theorem C01_execution_variables : forall c ss fs ks, let t := T $"command" ss fs ks in
    walk c t = Allow ->
    forall i w, nth_error (cmd_words t) i = Some w ->
      (i < length (cmd_words t) - length (skip_assignments (cmd_words t)))%nat -> sets_execution_var w = false.
  Proof. exact (approved_sets_no_execution_var simple astr mredir cdres injrisk rulematch). Qed.
End Oracles.
Print Assumptions C01_execution_variables.
Print Assumptions C01_inert_opener.
Print Assumptions C01_unclosed_arith_word.
Print Assumptions C01_unclosed_arith_cmd.
Print Assumptions C01_lost_substitution.
Print Assumptions C01_step.
Print Assumptions C01_walker_complete.
Print Assumptions C01_raw_positions.
Print Assumptions C01_raw_ok_meaning.
Print Assumptions C01_program.
Print Assumptions C01_parse_failclosed.
Print Assumptions C01_unknown_kind.

(* the raw-string scanner: outcomes are exhaustive; on a string it accepts (plain_raw) it returns
   exactly the substitution spans of the declarative grammar Top; without an opener there is nothing *)
Theorem C01_rawscan_cases : forall s,
  (has_opener s = false /\ scan_raw s = RNone) \/
  (has_opener s = true /\ plain_raw s = false /\ scan_raw s = RComplex) \/
  (has_opener s = true /\ plain_raw s = true /\ exists l, Top s l /\ scan_raw s = RSubs l).
Proof. exact scan_raw_cases. Qed.
Print Assumptions C01_rawscan_cases.

Theorem C01_rawscan_exact : forall s, plain_raw s = true -> exists l, Top s l /\ scan (S (length s)) s = l.
Proof. exact plain_raw_exact. Qed.
Print Assumptions C01_rawscan_exact.

Theorem C01_rawscan_grammar : forall s l, Top s l -> forall fuel, (length s <= fuel)%nat -> scan fuel s = l.
Proof. exact scan_agrees_with_grammar. Qed.
Print Assumptions C01_rawscan_grammar.

Theorem C01_rawscan_none : forall n s, has_opener s = false -> scan n s = [].
Proof. exact no_opener_scan. Qed.
Print Assumptions C01_rawscan_none.

(* non-vacuity: echo $((1+$(ls))) - the inner command sits under word/arith/binary-op/cmdsub and is reached *)
Example C01_unclosed_example :
  unclosed_arith $"$((rm x) )" = true /\ unclosed_arith $"$(( (1+2)*3 ))" = false /\ unclosed_arith $"$((1+$((2)))) $((rm x); ls)" = true.
Proof. vm_compute. repeat split; reflexivity. Qed.

Example C01_example :
  let w s ks := T $"word" [($"value", s)] [] ks in
  let cmd ws := T $"command" [] [] (map (fun x => ($"words", x)) ws) in
  let inner := cmd [w $"ls" []] in
  let t := cmd [w $"echo" [];
                w $"$((1+$(ls)))" [($"parts", T $"arith" [] [] [($"expression",
                   T $"binary-op" [($"op", $"+")] [] [($"left", T $"number" [($"value", $"1")] [] []);
                                                      ($"right", T $"cmdsub" [] [] [($"command", inner)])])])]] in
  In (RNode, inner) (reach_fuel 6%nat RNode t) /\
  walk (fun _ ws => if mem_str (hd [] ws) [$"ls"; $"echo"] then Allow else Ask)
       (fun _ _ => Ask) (fun _ _ => None) (fun _ x => x) (fun _ _ => false) (fun _ _ => false) ([47], false) t = Allow.
Proof. vm_compute. split; [tauto|reflexivity]. Qed.

(* non-vacuity of C01_execution_variables: the predicate on the spellings that matter *)
Example C01_execution_variables_example :
  map sets_execution_var [$"PATH=/tmp/x"; $"PATH=/usr/bin:/bin"; $"PATH+=:/bin"; $"PATH=/bin:"; $"LD_PRELOAD=./x.so"; $"BASH_ENV=f"; $"IFS=/";
                          $"MYPATH=/x"; $"PATHX=1"; $"FOO=PATH=/x"; $"PATH[0]=x"; $"PATH"]
  = [true; false; true; true; true; true; true; false; false; false; false; false].
Proof. vm_compute. reflexivity. Qed.
