(* C02 - No unapproved file writes (redirections and handler-reported write targets).
   Property theorems only.  bash's operator table (Model/BashRedirSpec.v) is a trusted spec,
   validated by running approved programs under real bash and diffing the file tree. *)
From DippyV Require Import Base.Str Base.Verdict Base.Tree Gen.Tables Model.Walker Model.Cover Model.Ladder
  Model.BashRedirSpec Model.CdSpec Proofs.CoverP Proofs.C02P Proofs.LadderP Proofs.CdSpecP.

(* the shipped operator tables cover bash's: every write-capable operator, under ANY fd prefix
   (none, digits, {varname}), is checked against the redirect rules unless its target is a
   non-file sink (/dev/null, /dev/stdout, /dev/stdin) *)
Theorem C02_operator_table : forall p bare raw tgt,
  fd_wf p = true -> In bare (bash_dup_op :: bash_write_ops) ->
  fst (redirect_file raw tgt) = false ->
  bash_writes_bare bare (snd (redirect_file raw tgt)) = true ->
  redirect_check (fd_text p ++ bare) raw tgt = Some (lookup_name raw (snd (redirect_file raw tgt))) \/
  In (snd (redirect_file raw tgt)) nonfile_sinks.
Proof. exact class_covers_bash. Qed.
Print Assumptions C02_operator_table.

Theorem C02_fd_prefix : forall p bare, fd_wf p = true -> bare_ok bare = true -> (p = FdNone \/ bare <> []) ->
  strip_fd_prefix (fd_text p ++ bare) = bare.
Proof. exact strip_fd_prefix_spec. Qed.
Print Assumptions C02_fd_prefix.

Section Oracles.
  Variable simple : ctx -> list str -> verdict.
  Variable astr : ctx -> str -> verdict.
  Variable mredir : str -> str -> option verdict.
  Variable cdres : str -> str -> str.
  Variable injrisk : ctx -> list str -> bool.
  Variable rulematch : ctx -> list str -> bool.
  Notation walk := (walk simple astr mredir cdres injrisk rulematch).

  (* every redirection on every node of an approved program (simple command, group, subshell,
     loop, conditional, function body, [[ ]], (( )) - any node kind, any depth): if it needs a
     rule, the last matching redirect rule for its target, looked up in the directory the node
     runs in, is an allow - and the target is the file's name as written: it holds no character that
     bash still rewrites (an expansion such as sub/$x/../f, a glob, a brace), so the file matched is the file opened *)
  Theorem C02_redirects : forall c t, walk c t = Allow ->
    forall n r, In (RRedir, r) (reach_fuel n RNode t) -> is_kind "heredoc" r = false ->
    exists c', snd c' = snd c /\
      (snd c' = false ->
       forall file, redirect_check (attr_d "op" r) (target_raw r) (target_val r) = Some file ->
       mredir (fst c') file = Some Allow /\ has_rewritten file = false).
  Proof. exact (approved_redirects simple astr mredir cdres injrisk rulematch). Qed.

  (* "granted" means: a rule matched and the deciding one allows; no matching rule is an ask *)
  Theorem C02_granted_def : forall cwd tgt,
    redirect_rule mredir cwd tgt = Allow <-> mredir cwd tgt = Some Allow /\ has_rewritten tgt = false.
  Proof. exact (redirect_rule_allow mredir). Qed.

  (* tools whose file-writing options Dippy models: approval through a handler implies every
     write target the handler reports is a safe sink or granted *)
  Variable mcmd : ctx -> list str -> option verdict.
  Variable handler : ctx -> list str -> option hres.
  Theorem C02_handler_targets : forall c words t tk r,
    skip_assignments words = t :: tk -> reaches_handler mcmd handler c (t :: tk) r ->
    snd c = false -> is_help (t :: tk) = false ->
    ladder mcmd handler mredir astr c words = Allow ->
    forall x, In x (h_targets r) -> In x SAFE_REDIRECT_TARGETS \/ (mredir (fst c) x = Some Allow /\ has_rewritten x = false).
  Proof. exact (handler_targets_granted mcmd handler mredir astr). Qed.
End Oracles.
Print Assumptions C02_redirects.
Print Assumptions C02_granted_def.
Print Assumptions C02_handler_targets.

(* non-vacuity: "3>> f" and "{fd}> f" need a rule; "2>&1" does not *)
Example C02_example :
  redirect_check $"3>>" $"f" $"f" = Some $"f" /\ redirect_check $"{fd}>" $"f" $"f" = Some $"f" /\
  redirect_check $"2>" $"&1" $"&1" = None /\ redirect_check $">|" $"-" $"-" = Some $"-" /\
  redirect_check $">&" $"f" $"f" = Some $"f" /\ redirect_check $">&" $"2" $"2" = None /\
  redirect_check $"1>" $"&nogrant" $"&nogrant" = Some $"nogrant" /\ redirect_check $"1>" $"&2-" $"&2-" = None.
Proof. vm_compute. repeat split; reflexivity. Qed.

(* a word that is not a literal name is never granted and never followed as a cd target: the six characters are
   the ones of _REWRITTEN_CHARS ($ ` * ? [ {) *)
Example C02_rewritten_example :
  has_rewritten $"sub/$x/../f" = true /\ has_rewritten $"sub/`echo ..`/../f" = true /\ has_rewritten $"l*" = true /\
  has_rewritten $"out/{a,../../b}" = true /\ has_rewritten $"out/g" = false /\ has_rewritten $"~/q" = false /\
  written_rule (Some Allow) $"sub/$x" = None /\ written_rule (Some Deny) $"sub/$x" = Some Deny /\
  written_rule (Some Allow) $"out/g" = Some Allow.
Proof. vm_compute. repeat split; reflexivity. Qed.

(* a followed cd target is a literal name: the word has no expansion part of any kind and none of those characters *)
Theorem C02_cd_target_literal : forall t tgt, extract_cd_target t = Some tgt ->
  has_rewritten tgt = false /\
  exists w0 w1, children "words" t = [w0; w1] /\ children "parts" w1 = [] /\ tgt = word_value w1.
Proof. exact cd_target_literal. Qed.
Print Assumptions C02_cd_target_literal.

(* "earlier cd commands": the directory each element of a list  a op b op c ...  is analysed in, against the
   operational semantics of and-or lists (Model/CdSpec.v: && / || left-associative, ";" ends the and-or list, "&"
   runs it in a subshell, a cd either succeeds or leaves the directory alone).  For EVERY run - all exit
   statuses, all cd failures, all unpredictable moves - an element that bash runs is run in the directory the
   walker judged it in, unless the walker took that directory for unknown (relative paths then match no
   absolute rule).  The two hypotheses are about the resolution oracle (core/analyzer.py _resolve_cd_target). *)
Theorem C02_cd_tracking_sound : forall cdres : str -> str -> str,
  (forall d1 d2 tgt, is_abs tgt = true -> cdres d1 tgt = cdres d2 tgt) ->
  (forall d tgt, is_unknown d = true -> is_abs tgt = false -> is_unknown (cdres d tgt) = true) ->
  forall rt l d, sound_walk cdres rt 0 (cinit d) (init_state (d, false)) l.
Proof. exact walker_cd_sound. Qed.
Print Assumptions C02_cd_tracking_sound.

(* the walker's transition is the abstract transition of the specification on classified elements *)
Theorem C02_cd_transition : forall cdres c a prev t op, snd c = false ->
  next_state cdres (c, (a, prev)) t op =
  ((fst (abs_next cdres (fst c, (a, prev)) (classify t) op), false), snd (abs_next cdres (fst c, (a, prev)) (classify t) op)).
Proof. exact next_state_abs. Qed.
Print Assumptions C02_cd_transition.

(* the transition of the code before the repairs is refuted by this specification: a cd that fails before ";",
   a cd sent to the background (both: the next element runs in /jail, judged in /jail/sub) *)
Theorem C02_cd_legacy_refuted :
  ~ sound_run_legacy join_dir (rt_all false) 0 (cinit $"/jail") ($"/jail", (false, op_semi)) [(ECd $"sub", op_semi); (EStay, op_semi)] /\
  ~ sound_run_legacy join_dir (rt_all true) 0 (cinit $"/jail") ($"/jail", (false, op_semi)) [(ECd $"sub", op_bg); (EStay, op_semi)].
Proof. exact (conj legacy_refuted_failed_cd legacy_refuted_background_cd). Qed.
Print Assumptions C02_cd_legacy_refuted.

(* non-vacuity:  true || cd sub && x  - the cd is skipped, x runs in /jail, and the walker does not follow it *)
Example C02_cd_after_or :
  exists rt l, let st1 := ($"/jail", (false, op_or)) in
    l = [(EStay, op_or); (ECd $"sub", op_and); (EStay, op_semi)] /\
    cs_run (cstep join_dir rt 1 (cstep join_dir rt 0 (cinit $"/jail") EStay op_or) (ECd $"sub") op_and) = true /\
    cs_d (cstep join_dir rt 1 (cstep join_dir rt 0 (cinit $"/jail") EStay op_or) (ECd $"sub") op_and) = $"/jail" /\
    fst (abs_next join_dir st1 (ECd $"sub") op_and) = UNKNOWN_CWD.
Proof. exact follow_after_or_refuted. Qed.
