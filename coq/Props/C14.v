(* C14 - MCP and shell rules never interact: MCP tool calls are decided solely by the *-mcp rules (no
   match means {}, the host's own flow applies) and shell commands solely by the command / redirect rules.
   Three layers, one theorem group each (property theorems only; proofs are in Proofs/):
     1. parsing   (Proofs/C11P.v, model Model/ConfigText.v): the *-mcp lists depend on the *-mcp lines
        only, the shell lists on the shell lines only - under insertion, deletion, reordering of the others;
     2. matching  (Proofs/RulesP.v, model Model/Rules.v): match_mcp = last matching *-mcp rule; rules
        that do not match the tool name are inert;
     3. routing   (Proofs/HookP.v, model Model/Hook.v): main() never consults one family - nor the
        functions that evaluate it - for the other kind of call; no match => {}. *)
From Coq Require Import List Bool NArith String.
From DippyV Require Import Base.Str Base.Verdict Gen.Tables Model.Hook Proofs.HookP.
From DippyV Require Model.ConfigText Model.Rules Proofs.C11P Proofs.RulesP.
Import ListNotations.

(* ---------------------------------------------------------------- 1. parsing *)
Section Parse.
  Import Model.ConfigText.
  Theorem C14_parse_split_mcp : forall h expu ls ls',
    filter (line_is (Some h) expu mcp_effect) ls = filter (line_is (Some h) expu mcp_effect) ls' ->
    exists c c', parse_of_lines (Some h) expu ls = ConfigText.Ok c /\ parse_of_lines (Some h) expu ls' = ConfigText.Ok c' /\
                 mcp_view c = mcp_view c'.
  Proof. exact C11P.mcp_family. Qed.

  Theorem C14_parse_split_shell : forall h expu ls ls',
    filter (line_is (Some h) expu shell_effect) ls = filter (line_is (Some h) expu shell_effect) ls' ->
    exists c c', parse_of_lines (Some h) expu ls = ConfigText.Ok c /\ parse_of_lines (Some h) expu ls' = ConfigText.Ok c' /\
                 shell_view c = shell_view c'.
  Proof. exact C11P.shell_family. Qed.

  Theorem C14_parse_filter : forall h expu ls,
    (exists c c', parse_of_lines (Some h) expu ls = ConfigText.Ok c /\
                  parse_of_lines (Some h) expu (filter (line_is (Some h) expu mcp_effect) ls) = ConfigText.Ok c' /\ mcp_view c = mcp_view c') /\
    (exists c c', parse_of_lines (Some h) expu ls = ConfigText.Ok c /\
                  parse_of_lines (Some h) expu (filter (line_is (Some h) expu shell_effect) ls) = ConfigText.Ok c' /\ shell_view c = shell_view c').
  Proof. exact (fun h expu ls => conj (C11P.mcp_family_filter h expu ls) (C11P.shell_family_filter h expu ls)). Qed.
End Parse.
Print Assumptions C14_parse_split_mcp.
Print Assumptions C14_parse_split_shell.
Print Assumptions C14_parse_filter.

(* ---------------------------------------------------------------- 2. matching *)
Theorem C14_mcp_last : forall rs tool,
  Rules.match_mcp rs tool = Rules.last_such (Rules.mcp_rule_matches tool) rs.
Proof. exact RulesP.mcp_last. Qed.
Print Assumptions C14_mcp_last.
Theorem C14_mcp_inert : forall rs1 r rs2 tool, Rules.mcp_rule_matches tool r = false ->
  Rules.match_mcp (rs1 ++ r :: rs2) tool = Rules.match_mcp (rs1 ++ rs2) tool.
Proof. exact RulesP.mcp_inert. Qed.
Print Assumptions C14_mcp_inert.

(* ---------------------------------------------------------------- 3. routing *)

(* which call goes where is a function of the input alone: an MCP route is exactly a str tool_name
   with the mcp__ prefix (Claude / Gemini modes) ... *)
Theorem C14_route_mcp : forall cursor inp tn,
  route_of cursor inp = Ok (RMcp tn) ->
  py_get inp $"tool_name" (JStr []) = Ok (JStr tn) /\ prefixb $"mcp__" tn = true.
Proof. exact route_mcp_inv. Qed.
Print Assumptions C14_route_mcp.

(* ... and a shell route through tool_name exactly a tool_name of SHELL_TOOL_NAMES, none of which has that prefix *)
Theorem C14_route_shell : forall inp c,
  tool_route inp = Ok (RShell c) ->
  exists tn ti, py_get inp $"tool_name" (JStr []) = Ok (JStr tn) /\ In tn SHELL_TOOL_NAMES /\
                prefixb $"mcp__" tn = false /\
                py_get inp $"tool_input" (JObj []) = Ok ti /\ py_get ti $"command" (JStr []) = Ok c.
Proof. exact tool_route_shell_inv. Qed.
Print Assumptions C14_route_shell.

(* every shell route is that, or the top-level command of an input without tool_name (Cursor's shape) *)
Theorem C14_route_shell_cases : forall cursor inp c,
  route_of cursor inp = Ok (RShell c) ->
  (py_in $"tool_name" inp = Ok false /\ py_get inp $"command" (JStr []) = Ok c) \/
  (py_in $"tool_name" inp = Ok true /\ tool_route inp = Ok (RShell c)) \/
  (cursor = false /\ py_in $"tool_name" inp = Ok false /\ py_in $"command" inp = Ok false /\ tool_route inp = Ok (RShell c)).
Proof. exact route_shell_inv. Qed.
Print Assumptions C14_route_shell_cases.

Section Worlds.
  Variables S G : Type.
  Variable o_resolve : str -> res str.
  Variable o_getcwd : res str.
  Variable o_configure_logging : G -> res unit.
  Variable o_log_decision : str -> str -> res unit.
  Variable o_print : str -> res unit.
  Variables lc lc' : str -> res (config S G).
  Variables an an' : str -> S -> str -> res (str * str).
  Variables gm gm' : str -> str -> bool.
  Variables wd wd' : str -> list str.
  Variables pr pr' : S -> str -> list str -> res unit.
  Variables ar ar' : S -> str -> list str -> rule -> res bool.
  Notation mt := (@main_try S G o_resolve o_getcwd).

  (* an MCP call never reaches the shell analysis: replace analyze, tokenize, the after-rule matcher
     by anything, and the command / redirect / after rules and aliases by anything - same output *)
  Theorem C14_routing_mcp : forall m inp tn,
    is_cursor m = false -> rel_load lc lc' (same_mcp_part S G) -> route_of false inp = Ok (RMcp tn) ->
    mt lc o_configure_logging o_log_decision an gm wd pr ar o_print (Some m) inp =
    mt lc' o_configure_logging o_log_decision an' gm wd' pr' ar' o_print (Some m) inp.
  Proof. exact (main_mcp_route_only S G o_resolve o_getcwd o_configure_logging o_log_decision o_print
                                    lc lc' an an' gm wd wd' pr pr' ar ar'). Qed.

  (* a shell command never reaches the MCP matcher: replace fnmatch-on-tool-names by anything and the
     mcp / after-mcp rules by anything - same output (all three modes) *)
  Theorem C14_routing_shell : forall m inp c,
    rel_load lc lc' (same_shell_part S G) -> route_of (is_cursor m) inp = Ok (RShell c) ->
    mt lc o_configure_logging o_log_decision an gm wd pr ar o_print (Some m) inp =
    mt lc' o_configure_logging o_log_decision an gm' wd pr ar o_print (Some m) inp.
  Proof. exact (main_shell_route_only S G o_resolve o_getcwd o_configure_logging o_log_decision o_print
                                      lc lc' an gm gm' wd pr ar). Qed.
End Worlds.
Print Assumptions C14_routing_mcp.
Print Assumptions C14_routing_shell.

Section Oracles.
  Variables S G : Type.
  Variable o_resolve : str -> res str.
  Variable o_getcwd : res str.
  Variable o_load_config : str -> res (config S G).
  Variable o_configure_logging : G -> res unit.
  Variable o_log_decision : str -> str -> res unit.
  Variable o_analyze : str -> S -> str -> res (str * str).
  Variable o_gmatch : str -> str -> bool.
  Variable o_words : str -> list str.
  Variable o_after_prep : S -> str -> list str -> res unit.
  Variable o_after_rule : S -> str -> list str -> rule -> res bool.
  Variable o_print : str -> res unit.
  Notation main_try := (@main_try S G o_resolve o_getcwd o_load_config o_configure_logging o_log_decision
                          o_analyze o_gmatch o_words o_after_prep o_after_rule o_print).
  Notation find_cwd := (find_cwd o_resolve o_getcwd).
  Notation load_stage := (@load_stage S G o_load_config o_configure_logging).

  (* no *-mcp rule matches => {} : the host's own permission flow applies *)
  Theorem C14_routing_no_match : forall m inp tn cwd cfg he,
    find_cwd inp = Ok cwd -> load_stage cwd = Ok cfg -> event_of inp = Ok he -> is_post he = false ->
    route_of false inp = Ok (RMcp tn) -> is_cursor m = false -> bypass_of inp = Ok None ->
    (forall r, In r (c_mcp cfg) -> o_gmatch tn (r_pattern r) = false) ->
    main_try (Some m) inp = Ok [J (JObj [])].
  Proof. exact (mcp_no_match_empty S G o_resolve o_getcwd o_load_config o_configure_logging o_log_decision
                                   o_analyze o_gmatch o_words o_after_prep o_after_rule o_print). Qed.

  (* some rule matches => the last such rule decides (allow / deny / anything else = ask) *)
  Theorem C14_routing_last : forall m inp tn cwd cfg he rule,
    find_cwd inp = Ok cwd -> load_stage cwd = Ok cfg -> event_of inp = Ok he -> is_post he = false ->
    route_of false inp = Ok (RMcp tn) -> is_cursor m = false -> bypass_of inp = Ok None ->
    last_such (mcp_hit o_gmatch tn) (c_mcp cfg) = Some rule ->
    (exists u, o_log_decision (r_decision rule) (mcp_reason rule) = Ok u) ->
    main_try (Some m) inp = Ok [J (envelope m (verdict_of_action (r_decision rule)) (mcp_reason rule))].
  Proof. exact (mcp_match_last S G o_resolve o_getcwd o_load_config o_configure_logging o_log_decision
                                o_analyze o_gmatch o_words o_after_prep o_after_rule o_print). Qed.
End Oracles.
Print Assumptions C14_routing_no_match.
Print Assumptions C14_routing_last.

(* non-vacuity: one config with an allow rule for ls and a deny-mcp rule; the MCP call ignores the
   former, the shell call the latter *)
Definition mk (d p : string) : rule := {| r_decision := s2l d; r_pattern := s2l p; r_message := None; r_exact := false |}.
Definition demo (inp : json) :=
  @main_try unit unit (fun s => Ok s) (Ok $"/w")
     (fun _ => Ok {| c_shell := tt; c_mcp := [mk "deny" "mcp__x"]; c_after := []; c_after_mcp := []; c_log := tt |})
     (fun _ => Ok tt) (fun _ _ => Ok tt) (fun _ _ _ => Ok ($"allow", $"ls")) str_eqb (fun _ => [])
     (fun _ _ _ => Ok tt) (fun _ _ _ _ => Ok false) (fun _ => Ok tt) None inp.
Example C14_example :
  demo (JObj [($"tool_name", JStr $"mcp__x"); ($"tool_input", JObj [])]) = Ok [J (envelope Claude Deny $"[mcp__x]")] /\
  demo (JObj [($"tool_name", JStr $"mcp__y"); ($"tool_input", JObj [])]) = Ok [J (JObj [])] /\
  demo (tool_input_shape $"Bash" (JStr $"ls") (JStr $"/w") []) = Ok [J (envelope Claude Allow $"ls")] /\
  demo (JObj [($"tool_name", JStr $"Read"); ($"tool_input", JObj [])]) = Ok [J (JObj [])].
Proof. vm_compute. auto. Qed.
