(* C17, environment dimension - "the file analysed is the file that would run", over an explicit file
   system (Model/PyEnv.v): which path is analysed when the script is reached through `..`, file symlinks,
   directory symlinks or a symlinked cwd, and WHERE the "a local module shadows an import" test looks:
   in the directory CPython puts first on sys.path (the directory of the script's real path), not in
   the directory of the name typed on the command line.  Proofs in Proofs/PyEnvP.v.
   What is NOT proved (and is false of /repo, see known_findings.json, ids C17-env-...): that nothing else on
   sys.path[0] can be imported - only the roots the script itself imports are tested, only as M.py / M/. *)
From DippyV Require Import Base.Str Base.Sx Base.Tree Gen.Tables Model.PyArgs Model.PyEnv Proofs.PyArgsP Proofs.C17P Proofs.PyEnvP.

(* Python's realpath never leaves a symlink in its result, whatever the file system (loops included:
   then there is no result), and its components are proper path components *)
Theorem C17_env_realpath_link_free : forall f p q, realpath f p = Some q -> link_free f q /\ all_good q.
Proof. exact (fun f p q H => conj (realpath_link_free f p q H) (realpath_good f p q H)). Qed.
Print Assumptions C17_env_realpath_link_free.

Theorem C17_env_stat_follows_links : forall f p n, stat f p = Some n -> is_link_node (Some n) = false.
Proof. exact stat_not_link. Qed.
Print Assumptions C17_env_stat_follows_links.

(* on a resolved path the kernel's walk (os.stat: exists / is_file / is_dir) sees the node itself *)
Theorem C17_env_stat_of_resolved : forall f p q n, realpath f p = Some q -> stat f q = Some n -> lstat f q = Some n.
Proof. exact (fun f p q n H => stat_resolved f q n (realpath_link_free f p q H) (realpath_plain f p q H)). Qed.
Print Assumptions C17_env_stat_of_resolved.

(* str(Path) and back: the resolved path handed to analyze_python_file is the path that was resolved *)
Theorem C17_env_path_roundtrip : forall q, all_good q -> path_comps (render q) = q.
Proof. exact path_comps_render. Qed.
Print Assumptions C17_env_path_roundtrip.

(* For EVERY file system, token list and cwd: an approved command that CPython reads as "run the file
   tokens[i]" analysed the real path q of exactly that token (symlink-free), q is a regular .py/.pyw file
   of at most 100000 bytes whose tree passes the visitor, it runs from its first line with no REPL
   afterwards, and no root the script imports exists as <root>.py or <root>/ in removelast q - which is
   what CPython puts first on sys.path for this command (py_syspath0), unless -P / -I keep it off the path. *)
Theorem C17_env_sound_file : forall f cc pc tokens i fl,
  classify_fs f cc pc tokens = PAllow -> py_cmdline tokens = RFile i fl ->
  fl_inspect fl = false /\ fl_skip1 fl = false /\
  exists tok q sz t,
    nth_error tokens i = Some tok /\ realpath f (pjoin (cwd_of cc pc) tok) = Some q /\ link_free f q /\ all_good q /\
    lstat f q = Some (NFile sz (Some t)) /\ suffix_ok (last q []) = true /\ (sz <= 100000)%N /\ visit true false t = [] /\
    py_syspath0 f (cwd_of cc pc) tokens = (if safe_path tokens i then SP_none else SP_dir (removelast q)) /\
    (forall r, In r (roots t) -> shadowed f (removelast q) r = false) /\
    local_shadow f (removelast q) = false.
Proof. exact env_sound_file. Qed.
Print Assumptions C17_env_sound_file.

Theorem C17_env_sound_module : forall f cc pc tokens i m fl,
  classify_fs f cc pc tokens = PAllow -> py_cmdline tokens = RModule i m fl ->
  m = $"calendar" /\ fl_inspect fl = false /\ shadowed f (path_comps (cwd_of cc pc)) $"calendar" = false /\
  local_shadow f (path_comps (cwd_of cc pc)) = false.
Proof. exact env_sound_module. Qed.
Print Assumptions C17_env_sound_module.

(* what "local_shadow = false" says (repair 7bd370f): in the directory the path resolves to, NO entry named like a
   standard-library module (sys.stdlib_module_names) or a safe-listed root is importable - neither by an ending
   import accepts (.py .pyc .so .pyd) nor as a directory.  With the two theorems above: nothing in py_syspath0
   can take the place of a module the interpreter loads for the script, whichever modules those are. *)
Theorem C17_env_no_importable_entry : forall f base q, local_shadow f base = false ->
  walk true FUEL f [] base = Some q -> lstat f q = Some NDir ->
  forall n, In n (dir_names f q) -> module_named n = true ->
    (forall e, In e PY_IMPORTABLE_ENDINGS -> suffixb e n = false) /\ (mem_ch 46 n = false -> p_is_dir f (q ++ [n]) = false).
Proof. exact local_shadow_false. Qed.
Print Assumptions C17_env_no_importable_entry.

(* The statement the code satisfied before 7bd370f - only the roots the script imports are tested, only as
   <root>.py / <root>/ - approves while an importable standard-module name lies in sys.path[0]: re.py for
   `import json` (transitive), json.pyc, json.<abi>.so, datetime.py for -m calendar (former findings
   C17-env-shadow-transitive / -other-forms / -mcal-shadow; -implicit is the same with no import at all). *)
Theorem C17_env_roots_only_legacy_refuted :
  (classify_legacy (ex_fs_nb $"re.py") (Some $"/w") [] [$"python3"; $"x.py"] = PAllow /\
   local_shadow (ex_fs_nb $"re.py") [$"w"] = true /\ (forall r, In r (roots ex_script) -> shadowed (ex_fs_nb $"re.py") [$"w"] r = false)) /\
  (classify_legacy (ex_fs_nb $"json.pyc") (Some $"/w") [] [$"python3"; $"x.py"] = PAllow /\
   local_shadow (ex_fs_nb $"json.pyc") [$"w"] = true) /\
  (classify_legacy (ex_fs_nb $"json.cpython-312-x86_64-linux-gnu.so") (Some $"/w") [] [$"python3"; $"x.py"] = PAllow /\
   local_shadow (ex_fs_nb $"json.cpython-312-x86_64-linux-gnu.so") [$"w"] = true) /\
  (classify_legacy (ex_fs_nb $"datetime.py") (Some $"/w") [] [$"python3"; $"-m"; $"calendar"] = PAllow /\
   local_shadow (ex_fs_nb $"datetime.py") [$"w"] = true).
Proof. exact roots_only_is_not_enough. Qed.
Print Assumptions C17_env_roots_only_legacy_refuted.

Theorem C17_env_never_inline_code : forall f cc pc tokens,
  classify_fs f cc pc tokens = PAllow ->
  match py_cmdline tokens with RCommand _ _ _ | RStdin _ => False | _ => True end.
Proof. exact env_never_command_or_stdin. Qed.
Print Assumptions C17_env_never_inline_code.

(* `python WORD`: the verdict is a function of the real path of WORD alone ... *)
Theorem C17_env_script_word : forall f cc pc py s, is_dash s = false -> shell_rewrites s = false ->
  classify_fs f cc pc [py; s] =
  match realpath f (pjoin (cwd_of cc pc) s) with
  | None => PExn
  | Some q => if analyze_path f q then PAllow else PAsk
  end.
Proof. exact classify_two. Qed.
Print Assumptions C17_env_script_word.

(* ... so two spellings of the same real file (relative, ./, absolute, through `..`, through a file
   symlink, through a directory symlink) always get the same verdict *)
Theorem C17_env_spelling_invariance : forall f cc pc py1 py2 s1 s2, is_dash s1 = false -> is_dash s2 = false ->
  shell_rewrites s1 = false -> shell_rewrites s2 = false ->
  realpath f (pjoin (cwd_of cc pc) s1) = realpath f (pjoin (cwd_of cc pc) s2) ->
  classify_fs f cc pc [py1; s1] = classify_fs f cc pc [py2; s2].
Proof. exact spelling_invariance. Qed.
Print Assumptions C17_env_spelling_invariance.

(* Resolving is necessary: a handler that analyses cwd/WORD as typed (following the link only to read the
   file) approves a script whose REAL directory holds a json.py that CPython would import. *)
Theorem C17_env_link_directory_refuted :
  exists f cwd tokens,
    classify_unresolved f (Some cwd) [] tokens = PAllow /\
    exists q t r, realpath f (pjoin cwd (nth 1 tokens [])) = Some q /\ stat f q = Some (NFile 30 (Some t)) /\
                  In r (roots t) /\ shadowed f (removelast q) r = true.
Proof. exact link_dir_is_not_enough. Qed.
Print Assumptions C17_env_link_directory_refuted.

(* ------------------------------------------------------------------ non-vacuity *)
Example ex_env_allow :
  classify_fs (ex_fs false) (Some $"/w") [] [$"python3"; $"x.py"] = PAllow /\
  classify_fs (ex_fs false) (Some $"/w") [] [$"python3"; $"d/x.py"] = PAllow /\
  classify_fs (ex_fs false) (Some $"/w") [] [$"python3"; $"/w/d/../lib/x.py"] = PAllow /\
  realpath (ex_fs false) $"/w/d/../lib/x.py" = Some [$"lib"; $"x.py"] /\
  py_syspath0 (ex_fs false) $"/w" [$"python3"; $"x.py"] = SP_dir [$"lib"] /\
  py_syspath0 (ex_fs false) $"/w" [$"python3"; $"-m"; $"calendar"] = SP_dir [$"w"] /\
  py_syspath0 (ex_fs false) $"/w" [$"python3"; $"-BI"; $"x.py"] = SP_none /\
  py_syspath0 (ex_fs false) $"/w" [$"python3"; $"-W"; $"-P"; $"x.py"] = SP_dir [$"lib"] /\
  py_syspath0 (ex_fs false) $"/w" [$"python3"; $"-WI"; $"x.py"] = SP_dir [$"lib"].
Proof. vm_compute. repeat split. Qed.
Example ex_env_shadow_at_real_dir :
  classify_fs (ex_fs true) (Some $"/w") [] [$"python3"; $"x.py"] = PAsk /\
  classify_fs (ex_fs true) (Some $"/w") [] [$"python3"; $"d/x.py"] = PAsk /\
  classify_fs (ex_fs true) (Some $"/lib") [] [$"python3"; $"x.py"] = PAsk /\
  classify_unresolved (ex_fs true) (Some $"/w") [] [$"python3"; $"x.py"] = PAllow.
Proof. vm_compute. repeat split. Qed.
Example ex_env_repaired :
  classify_fs (ex_fs_nb $"re.py") (Some $"/w") [] [$"python3"; $"x.py"] = PAsk /\
  classify_fs (ex_fs_nb $"json.pyc") (Some $"/w") [] [$"python3"; $"x.py"] = PAsk /\
  classify_fs (ex_fs_nb $"datetime.py") (Some $"/w") [] [$"python3"; $"-m"; $"calendar"] = PAsk /\
  classify_fs (ex_fs_nb $"notes.py") (Some $"/w") [] [$"python3"; $"x.py"] = PAllow /\
  classify_fs (ex_fs_nb $"re.py.bak") (Some $"/w") [] [$"python3"; $"x.py"] = PAllow /\
  classify_fs (ex_fs_nb $"notes.py") (Some $"/w") [] [$"python3"; $"~/x.py"] = PAsk /\
  classify_fs (ex_fs_nb $"notes.py") (Some $"/w") [] [$"python3"; $"-X"; $"pycache_prefix=/c"; $"x.py"] = PAsk.
Proof. vm_compute. repeat split. Qed.
(* what the repaired test still cannot name (known finding C17-env-shadow-sysconfigdata): a loaded module whose
   name is neither an identifier nor in sys.stdlib_module_names *)
Example ex_env_residual :
  classify_fs (ex_fs_nb $"_sysconfigdata__linux_x86_64-linux-gnu.py") (Some $"/w") [] [$"python3"; $"x.py"] = PAllow /\
  module_named $"_sysconfigdata__linux_x86_64-linux-gnu.py" = false.
Proof. vm_compute. split; reflexivity. Qed.
Example ex_env_loop_and_missing :
  classify_fs (ex_fs false) (Some $"/w") [] [$"python3"; $"loop.py"] = PExn /\
  realpath (ex_fs false) $"/w/loop.py" = None /\
  classify_fs (ex_fs false) (Some $"/w") [] [$"python3"; $"nothing.py"] = PAsk /\
  stat (ex_fs false) [$"w"; $"x.py"; $".."] = None /\
  realpath (ex_fs false) $"/w/x.py/../x.py" = Some [$"lib"; $"x.py"].
Proof. vm_compute. repeat split. Qed.
