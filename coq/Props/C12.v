(* C12 - Same verdict for Claude Code, Gemini CLI and Cursor; envelopes conform.
   Property theorems only; proofs are in Proofs/HookP.v. *)
From Coq Require Import List Bool NArith String.
From DippyV Require Import Base.Str Base.Verdict Gen.Tables Model.Hook Model.HookView Proofs.HookP Proofs.HookViewP.
Import ListNotations.

(* each host reads back exactly the verdict and reason that were put in, for all verdicts and all reasons *)
Theorem C12_decode : forall m v r, decode m (envelope m v r) = Some (v, r).
Proof. exact decode_envelope. Qed.
Print Assumptions C12_decode.

(* the answering mode is read off the host-written level of the payload only (Model/HookView.v): a tool_name or
   command key below the top level - inside tool_input, tool_response, anywhere - cannot change which host is answered *)
Theorem C12_mode_host_level : forall e inp, mode_of e (host_view inp) = mode_of e inp.
Proof. exact mode_of_view. Qed.
Print Assumptions C12_mode_host_level.

(* each envelope has exactly the host's key set, value types and vocabulary; so has {} *)
Theorem C12_conform : forall m v r, conforms m (envelope m v r) = true /\ conforms m (JObj []) = true.
Proof. exact (fun m v r => conj (conforms_envelope m v r) (conforms_empty m)). Qed.
Print Assumptions C12_conform.

(* the three response helpers of the source (three copies of the same switch) are that envelope *)
Theorem C12_helpers : forall m r,
  approve m r = envelope m Allow r /\ ask m r = envelope m Ask r /\ deny m r = envelope m Deny r.
Proof. exact (fun m r => conj (approve_envelope m r) (conj (ask_envelope m r) (deny_envelope m r))). Qed.
Print Assumptions C12_helpers.

(* mode selection: explicit flag or environment variable first, claude > gemini > cursor ... *)
Theorem C12_mode_flags : forall e,
  detect_mode_from_flags e =
    if wants "--claude" (e_claude e) e then Some Claude
    else if wants "--gemini" (e_gemini e) e then Some Gemini
    else if wants "--cursor" (e_cursor e) e then Some Cursor
    else None.
Proof. exact flags_spec. Qed.
Print Assumptions C12_mode_flags.

(* ... a variable counts iff its lower-cased value is one of ENV_TRUTHY (so 0, junk, empty do not) ... *)
Theorem C12_mode_env : forall v, env_flag v = true <-> exists s, v = Some s /\ In (lower s) ENV_TRUTHY.
Proof. exact env_flag_spec. Qed.
Print Assumptions C12_mode_env.

(* ... otherwise the shape of the input: command without tool_name => cursor, a Gemini alias => gemini,
   else claude (or an AttributeError - answered {} - when tool_name is a truthy non-str) *)
Theorem C12_mode_shape : forall kv,
  detect_mode_from_input (JObj kv) = Ok (shape_mode kv) \/
  (detect_mode_from_input (JObj kv) = Raise AttributeError /\
   exists v, assoc $"tool_name" kv = Some v /\ truthy v = true /\ forall s, v <> JStr s).
Proof. exact detect_obj. Qed.
Print Assumptions C12_mode_shape.

Section Oracles.
  Variables S G : Type.
  Variable o_resolve : str -> res str.
  Variable o_getcwd : res str.
  Variable o_load_config : str -> res (config S G).
  Variable o_configure_logging : G -> res unit.
  Variable o_log_decision : str -> str -> res unit.
  Variable o_analyze : str -> S -> str -> res (str * str).
  Variable o_gmatch : str -> str -> bool.
  Variable o_words : str -> list str.
  Variable o_after_prep : S -> str -> list str -> res unit.
  Variable o_after_rule : S -> str -> list str -> rule -> res bool.
  Variable o_print : str -> res unit.
  Notation main_try := (@main_try S G o_resolve o_getcwd o_load_config o_configure_logging o_log_decision
                          o_analyze o_gmatch o_words o_after_prep o_after_rule o_print).
  Notation core := (@core S G o_resolve o_getcwd o_load_config o_configure_logging o_log_decision
                          o_analyze o_gmatch o_words o_after_prep o_after_rule o_print).

  (* main() = envelope of the mode around a computation that is not given the mode: [core] takes one
     bit (is the input read the Cursor way) and for Claude and Gemini it is the same term *)
  Theorem C12_factor : forall explicit inp,
    main_try explicit inp =
      (m <- (match explicit with Some m => Ok m | None => detect_mode_from_input inp end) ;;
       o <- core (is_cursor m) inp ;; Ok (render m o)).
  Proof. exact (main_try_factor S G o_resolve o_getcwd o_load_config o_configure_logging o_log_decision
                                o_analyze o_gmatch o_words o_after_prep o_after_rule o_print). Qed.

  (* the three hosts' own input shapes carrying the same command (a JSON value of any type), the same
     cwd (any type) and the same other fields: what the three hosts read back is identical -
     verdict and reason - under any behaviour of the oracles *)
  Theorem C12_same : forall tn_c tn_g c cwd extra,
    extra_ok extra = true -> In tn_c SHELL_TOOL_NAMES -> In tn_g SHELL_TOOL_NAMES ->
    read_res Cursor (main_try (Some Cursor) (cursor_input c cwd extra))
      = read_res Claude (main_try (Some Claude) (tool_input_shape tn_c c cwd extra)) /\
    read_res Cursor (main_try (Some Cursor) (cursor_input c cwd extra))
      = read_res Gemini (main_try (Some Gemini) (tool_input_shape tn_g c cwd extra)).
  Proof. exact (same_three S G o_resolve o_getcwd o_load_config o_configure_logging o_log_decision
                           o_analyze o_gmatch o_words o_after_prep o_after_rule o_print). Qed.

  (* and without flags the shape selects that same mode *)
  Theorem C12_same_auto : forall tn_g c cwd extra,
    extra_ok extra = true -> In tn_g GEMINI_TOOL_NAMES ->
    main_try None (cursor_input c cwd extra) = main_try (Some Cursor) (cursor_input c cwd extra) /\
    main_try None (tool_input_shape $"Bash" c cwd extra) = main_try (Some Claude) (tool_input_shape $"Bash" c cwd extra) /\
    main_try None (tool_input_shape tn_g c cwd extra) = main_try (Some Gemini) (tool_input_shape tn_g c cwd extra).
  Proof. exact (same_three_auto S G o_resolve o_getcwd o_load_config o_configure_logging o_log_decision
                                o_analyze o_gmatch o_words o_after_prep o_after_rule o_print). Qed.
  (* C12_mode, last clause: the forced mode never influences the verdict.  For every input that carries
     tool_name or command (every host's shape does), and for every input that is not an object at all,
     any two modes give answers that their hosts read as the same verdict and reason. *)
  Theorem C12_mode_independent : forall m1 m2 inp,
    keyed inp \/ (forall kv, inp <> JObj kv) ->
    read_res m1 (main_try (Some m1) inp) = read_res m2 (main_try (Some m2) inp).
  Proof. exact (main_mode_independent S G o_resolve o_getcwd o_load_config o_configure_logging o_log_decision
                                      o_analyze o_gmatch o_words o_after_prep o_after_rule o_print). Qed.
  (* the working directory the command is judged in: the payload's top-level cwd if truthy, else
     tool_input.cwd if truthy, else the process's own - a function of the input alone (cwd_spec has no mode
     argument), and main() under ANY mode is "that directory, then load_config and the rest on it".
     (Together with C12_mode_independent, which holds for all load_config / analyze oracles - in particular for
     ones that answer differently per directory - no mode can make the verdict come from another directory.) *)
  Theorem C12_cwd_mode_independent : forall m kv,
    find_cwd o_resolve o_getcwd (JObj kv) = cwd_spec o_resolve o_getcwd kv /\
    main_try (Some m) (JObj kv) =
      (cwd <- cwd_spec o_resolve o_getcwd kv ;;
       match load_stage o_load_config o_configure_logging cwd with
       | Raise (ConfigError msg) => lift m (config_error_outcome (JObj kv) msg)
       | Raise e => Raise e
       | Ok cfg => after_config o_log_decision o_analyze o_gmatch o_words o_after_prep o_after_rule o_print m (JObj kv) cfg cwd
       end).
  Proof. exact (fun m kv => conj
      (find_cwd_spec o_resolve o_getcwd kv)
      (main_try_cwd S G o_resolve o_getcwd o_load_config o_configure_logging o_log_decision o_analyze o_gmatch o_words
                    o_after_prep o_after_rule o_print m kv)). Qed.
End Oracles.
Print Assumptions C12_cwd_mode_independent.
Print Assumptions C12_mode_independent.
Print Assumptions C12_factor.
Print Assumptions C12_same.
Print Assumptions C12_same_auto.

(* History: before /repo commit 21206e4 a forced mode also decided WHERE the command was looked for, and
   the statement above was false (witness: --cursor on {"tool_name":"Bash","tool_input":{"command":"ls"}}
   gave ask "empty command").  What remains mode-dependent is only an object with NEITHER key, which
   no host sends: Cursor mode analyses the empty command, the others answer {}. *)
Definition cfg0 : config unit unit :=
  {| c_shell := tt; c_mcp := []; c_after := []; c_after_mcp := []; c_log := tt |}.
Definition demo_try :=
  @main_try unit unit (fun s => Ok s) (Ok $"/w") (fun _ => Ok cfg0) (fun _ => Ok tt) (fun _ _ => Ok tt)
     (fun c _ _ => if str_eqb c $"ls" then Ok ($"allow", $"ls") else Ok ($"ask", $"empty command"))
     (fun _ _ => false) (fun _ => []) (fun _ _ _ => Ok tt) (fun _ _ _ _ => Ok false) (fun _ => Ok tt).

Example C12_formerly_refuted_witness :
  let inp := tool_input_shape $"Bash" (JStr $"ls") (JStr $"/w") [] in
  read_res Claude (demo_try (Some Claude) inp) = Ok [Some (Allow, $"ls")] /\
  read_res Cursor (demo_try (Some Cursor) inp) = Ok [Some (Allow, $"ls")].
Proof. vm_compute. auto. Qed.
Example C12_mode_degenerate :
  let inp := JObj [($"cwd", JStr $"/w")] in
  read_res Claude (demo_try (Some Claude) inp) = Ok [None] /\
  read_res Cursor (demo_try (Some Cursor) inp) = Ok [Some (Ask, $"empty command")].
Proof. vm_compute. auto. Qed.

(* non-vacuity for the cwd clause: load_config / analyze that answer per directory; the payload carries its
   cwd only inside tool_input; every mode judges in /pay (allow), none in the process's /proc (deny) *)
Definition demo_dir :=
  @main_try unit unit (fun s => Ok s) (Ok $"/proc") (fun _ => Ok cfg0) (fun _ => Ok tt) (fun _ _ => Ok tt)
     (fun _ _ cwd => if str_eqb cwd $"/pay" then Ok ($"allow", $"pay") else Ok ($"deny", $"proc"))
     (fun _ _ => false) (fun _ => []) (fun _ _ _ => Ok tt) (fun _ _ _ _ => Ok false) (fun _ => Ok tt).
Example C12_cwd_example :
  let inp := JObj [($"tool_name", JStr $"Bash"); ($"tool_input", JObj [($"command", JStr $"probe"); ($"cwd", JStr $"/pay")])] in
  read_res Claude (demo_dir (Some Claude) inp) = Ok [Some (Allow, $"pay")] /\
  read_res Gemini (demo_dir (Some Gemini) inp) = Ok [Some (Allow, $"pay")] /\
  read_res Cursor (demo_dir (Some Cursor) inp) = Ok [Some (Allow, $"pay")] /\
  read_res Claude (demo_dir None inp) = Ok [Some (Allow, $"pay")].
Proof. vm_compute. auto. Qed.

(* non-vacuity: a command of each verdict class through the three shapes *)
Example C12_example :
  read_res Cursor (demo_try None (cursor_input (JStr $"ls") (JStr $"/w") [])) = Ok [Some (Allow, $"ls")] /\
  read_res Claude (demo_try None (tool_input_shape $"Bash" (JStr $"ls") (JStr $"/w") [])) = Ok [Some (Allow, $"ls")] /\
  read_res Gemini (demo_try None (tool_input_shape $"run_shell_command" (JStr $"ls") (JStr $"/w") [])) = Ok [Some (Allow, $"ls")].
Proof. vm_compute. auto. Qed.
