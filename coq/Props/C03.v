(* C03 - Verdicts compose exactly as most-restrictive-wins (deny > ask > allow).
   Property theorems only; proofs are in Proofs/. All statements hold for every choice of the
   oracles (decision ladder, recursive string analysis, redirect rules, path resolution). *)
From Coq Require Import Permutation.
From DippyV Require Import Base.Str Base.Verdict Base.Tree Model.Walker Model.Cover Proofs.VerdictP Proofs.WalkerP Proofs.C03P.

(* the verdicts form a bounded join-semilattice and _combine is its iterated join *)
Theorem C03_lattice :
  (forall a b c, vmax a (vmax b c) = vmax (vmax a b) c) /\ (forall a b, vmax a b = vmax b a) /\
  (forall a, vmax a a = a) /\ (forall a, vmax Allow a = a) /\ (forall a, vmax Deny a = Deny) /\
  (forall l, combine l = fold_right vmax Allow l).
Proof. exact (conj vmax_assoc (conj vmax_comm (conj vmax_idem (conj vmax_allow_l (conj vmax_deny_l combine_fold))))). Qed.
Print Assumptions C03_lattice.

(* order, repetition and grouping of the parts are irrelevant *)
Theorem C03_order : forall l m, Permutation l m -> combine l = combine m.
Proof. exact combine_perm. Qed.
Print Assumptions C03_order.
Theorem C03_repetition : forall a l, combine (a :: a :: l) = combine (a :: l).
Proof. exact combine_dup. Qed.
Print Assumptions C03_repetition.
Theorem C03_grouping : forall ls, combine (map combine ls) = combine (concat ls).
Proof. exact combine_concat. Qed.
Print Assumptions C03_grouping.

(* exactness: allow iff all parts allow, deny iff some part denies, the result is the verdict
   of some part and an upper bound of all parts *)
Theorem C03_exact : forall l : list verdict,
  (combine l = Allow <-> Forall (fun v => v = Allow) l) /\
  (combine l = Deny <-> Exists (fun v => v = Deny) l) /\
  (l <> [] -> In (combine l) l) /\
  (forall v, In v l -> vle v (combine l) = true).
Proof. exact join_exact. Qed.
Print Assumptions C03_exact.

Section Oracles.
  Variable simple : ctx -> list str -> verdict.
  Variable astr : ctx -> str -> verdict.
  Variable mredir : str -> str -> option verdict.
  Variable cdres : str -> str -> str.
  Variable injrisk : ctx -> list str -> bool.
  Variable rulematch : ctx -> list str -> bool.
  Notation walk := (walk simple astr mredir cdres injrisk rulematch).
  Notation ev := (ev simple astr mredir cdres injrisk rulematch).

  (* pipelines *)
  Theorem C03_pipeline : forall c stages, walk c (pipeline stages) = combine (map (walk c) stages).
  Proof. exact (pipeline_join simple astr mredir cdres injrisk rulematch). Qed.
  Theorem C03_pipeline_order : forall c s1 s2, Permutation s1 s2 -> walk c (pipeline s1) = walk c (pipeline s2).
  Proof. exact (pipeline_order simple astr mredir cdres injrisk rulematch). Qed.
  Theorem C03_pipeline_flatten : forall c s1 s2 s3,
    walk c (pipeline (s1 ++ pipeline s2 :: s3)) = walk c (pipeline (s1 ++ s2 ++ s3)).
  Proof. exact (pipeline_flatten simple astr mredir cdres injrisk rulematch). Qed.

  (* lists joined by ; && || & newline *)
  Theorem C03_list : forall c parts, Forall plain_part parts -> walk c (oplist parts) = combine (map (walk c) parts).
  Proof. exact (list_join simple astr mredir cdres injrisk rulematch). Qed.
  Theorem C03_list_order : forall c p1 p2, Forall plain_part p1 -> Permutation p1 p2 ->
    walk c (oplist p1) = walk c (oplist p2).
  Proof. exact (list_order simple astr mredir cdres injrisk rulematch). Qed.
  (* any list node at all, cd included: each part judged in the directory it runs in *)
  Theorem C03_list_cd : forall c ss fs ks, let t := T $"list" ss fs ks in
    walk c t = combine (map (fun p => walk (fst p) (snd p)) (seq_ctxs cdres (init_state c) (list_items t))).
  Proof. exact (list_join_cd simple astr mredir cdres injrisk rulematch). Qed.

  (* ! time function coproc subshell brace-group, nested to any depth *)
  Theorem C03_depth : forall c ws t, walk c (nest ws t) = walk c t.
  Proof. exact (nest_transparent simple astr mredir cdres injrisk rulematch). Qed.

  (* if / while / until *)
  Theorem C03_if : forall c cond thn els, changes_directory cond = false ->
    walk c (mk_if cond thn els) = combine (walk c cond :: walk c thn :: match els with Some e => [walk c e] | None => [] end).
  Proof. exact (if_join simple astr mredir cdres injrisk rulematch). Qed.
  Theorem C03_while : forall c cond body, changes_directory (mk_loop "while" cond body) = false ->
    walk c (mk_loop "while" cond body) = combine [walk c cond; walk c body].
  Proof. exact (while_join simple astr mredir cdres injrisk rulematch). Qed.
  Theorem C03_until : forall c cond body, changes_directory (mk_loop "until" cond body) = false ->
    walk c (mk_loop "until" cond body) = combine [walk c cond; walk c body].
  Proof. exact (until_join simple astr mredir cdres injrisk rulematch). Qed.

  (* every compound node kind, whatever other attributes it carries: its verdict is the join of
     its constituents' verdicts and of its own redirects and header words *)
  Theorem C03_for : forall c ss fs ks, let t := T $"for" ss fs ks in
    let cb := body_ctx c (match child "body" t with Some x => changes_directory x | None => false end) in
    walk c t = combine (need simple astr mredir cdres injrisk rulematch cb (child "body" t) ::
                        wpartsb simple astr mredir cdres injrisk rulematch true c (children "words" t) ++
                        redirs_of simple astr mredir cdres injrisk rulematch c t).
  Proof. exact (walk_for simple astr mredir cdres injrisk rulematch). Qed.
  Theorem C03_case : forall c ss fs ks, let t := T $"case" ss fs ks in
    walk c t = combine (wparts simple astr mredir cdres injrisk rulematch c (children "word" t) ++
                        pats simple astr mredir cdres injrisk rulematch c (children "patterns" t) ++
                        redirs_of simple astr mredir cdres injrisk rulematch c t).
  Proof. exact (walk_case simple astr mredir cdres injrisk rulematch). Qed.
  (* ... where the items are all judged in the directory of the case itself unless an earlier item both falls
     through (";&", ";;&") and changes directory *)
  Theorem C03_case_items : forall c l, (snd c = true \/ Forall (fun p => item_moves p = false) l) ->
    pats simple astr mredir cdres injrisk rulematch c l = flat_map (fun p => r_pat (ev p) c) l.
  Proof. exact (pats_plain simple astr mredir cdres injrisk rulematch). Qed.
  Theorem C03_subshell : forall c ss fs ks, let t := T $"subshell" ss fs ks in
    walk c t = combine (need simple astr mredir cdres injrisk rulematch c (child "body" t) :: redirs_of simple astr mredir cdres injrisk rulematch c t).
  Proof. exact (walk_subshell simple astr mredir cdres injrisk rulematch). Qed.

  (* inside one simple command: the command proper, every redirect, every substitution in its
     words (and the injection-risk rule), joined - no early exit *)
  Theorem C03_simple : forall c ss fs ks, let t := T $"command" ss fs ks in
    walk c t = combine (wparts simple astr mredir cdres injrisk rulematch c (children "words" t) ++
                        cmd_env t ++ cmd_names astr c t ++ cmd_inj injrisk c t ++
                        redirs_of simple astr mredir cdres injrisk rulematch c t ++
                        cmd_proper simple rulematch c t).
  Proof. exact (walk_command simple astr mredir cdres injrisk rulematch). Qed.
End Oracles.
Print Assumptions C03_pipeline.
Print Assumptions C03_pipeline_order.
Print Assumptions C03_pipeline_flatten.
Print Assumptions C03_list.
Print Assumptions C03_list_order.
Print Assumptions C03_list_cd.
Print Assumptions C03_depth.
Print Assumptions C03_if.
Print Assumptions C03_while.
Print Assumptions C03_until.
Print Assumptions C03_for.
Print Assumptions C03_case.
Print Assumptions C03_case_items.
Print Assumptions C03_subshell.
Print Assumptions C03_simple.

(* non-vacuity: a concrete composition with all three verdicts present *)
Example C03_example :
  let simple := fun (_ : ctx) ws => match ws with [[108;115]] => Allow | [[114;109]] => Ask | _ => Deny end in
  let w s := T $"word" [($"value", s)] [] [] in
  let cmd s := T $"command" [] [] [($"words", w s)] in
  walk simple (fun _ _ => Ask) (fun _ _ => None) (fun _ t => t) (fun _ _ => false) (fun _ _ => false) ([47], false)
       (nest [WSub; WNeg] (pipeline [cmd [108;115]; cmd [114;109]; cmd [122]])) = Deny.
Proof. vm_compute. reflexivity. Qed.
