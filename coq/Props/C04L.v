(* C04 (ladder half) - wrappers unwrapped by the decision ladder itself, and the
   environment-assignment prefix.  Property theorems only; the handler half is Props/C04.v. *)
From DippyV Require Import Base.Str Base.Verdict Base.Tree Gen.Tables Model.Walker Model.Ladder Proofs.LadderP Proofs.C04LP.

Section Oracles.
  Variable mcmd : ctx -> list str -> option verdict.
  Variable handler : ctx -> list str -> option hres.
  Variable mredir : str -> str -> option verdict.
  Variable astr : ctx -> str -> verdict.
  Notation ladder := (ladder mcmd handler mredir astr).

  (* time c | timeout [opts] N c | nice [-n N] c | nohup c | command [--] c | builtin c | strace/ltrace [opts] c:
     when no rule matches the wrapper's own words, the verdict IS the wrapped command's verdict
     (no prompt added, none removed), whatever options of the wrapper's grammar precede it *)
  Theorem C04_exact_plain : forall c w rest inner,
    is_assignment w = false -> mem_str w WRAPPER_COMMANDS = true -> mcmd c (w :: rest) = None ->
    (str_eqb w $"command" && mem_str (nth 0 rest []) COMMAND_V_FLAGS) = false ->
    skip_wrapper_args w rest = inner -> inner <> [] ->
    (negb (str_eqb w $"time") && is_assignment (hd [] inner)) = false ->
    ladder c (w :: rest) = ladder c inner.
  Proof. exact (wrapper_transparent mcmd handler mredir astr). Qed.

  (* which words the unwrapping skips: options without argument, then (with "--" or not) the command *)
  Theorem C04_wrapper_options : forall wa opts inner, forallb (plain_opt wa) opts = true ->
    match inner with t :: _ => operand_word t = true /\ mem_str t wa = false | [] => True end ->
    skip_wrapper_opts wa (opts ++ inner) = inner.
  Proof. exact skip_opts_plain. Qed.
  Theorem C04_wrapper_dashdash : forall wa opts inner, forallb (plain_opt wa) opts = true ->
    skip_wrapper_opts wa (opts ++ [45;45] :: inner) = inner.
  Proof. exact skip_opts_dashdash. Qed.

  (* round 2 (seeded change C04b read a word BEHIND the command name): the words after the wrapped command's name
     are never consulted by the unwrapping - `w [options] [operands] CMD ARGS` has the verdict of `CMD ARGS` for
     EVERY list ARGS (ARGS may contain -v, -V, --, -h, the wrapper's own options, another wrapper ...).  The lookup
     shortcut of `command` is decided by the first word after it alone. *)
  Theorem C04_inner_arguments_never_consulted : forall c w opts ops cmd args,
    is_assignment w = false -> mem_str w WRAPPER_COMMANDS = true ->
    mcmd c (w :: opts ++ ops ++ cmd :: args) = None ->
    (str_eqb w $"command" && mem_str (hd [] (opts ++ ops ++ [cmd])) COMMAND_V_FLAGS) = false ->
    forallb (plain_opt (assoc_flags w WRAPPER_FLAGS_WITH_ARG)) opts = true ->
    length ops = assoc_nat w WRAPPER_OPERANDS ->
    operand_word (hd cmd ops) = true -> mem_str (hd cmd ops) (assoc_flags w WRAPPER_FLAGS_WITH_ARG) = false ->
    (negb (str_eqb w $"time") && is_assignment cmd) = false ->
    ladder c (w :: opts ++ ops ++ cmd :: args) = ladder c (cmd :: args).
  Proof. exact (wrapper_args_irrelevant mcmd handler mredir astr). Qed.
  (* time / nice / nohup / command / builtin / strace / ltrace directly followed by the command: exact *)
  Theorem C04_plain_wrapper_exact : forall c w cmd args,
    is_assignment w = false -> mem_str w WRAPPER_COMMANDS = true -> assoc_nat w WRAPPER_OPERANDS = 0%nat ->
    mcmd c (w :: cmd :: args) = None ->
    operand_word cmd = true -> mem_str cmd (assoc_flags w WRAPPER_FLAGS_WITH_ARG) = false ->
    (negb (str_eqb w $"time") && is_assignment cmd) = false ->
    ladder c (w :: cmd :: args) = ladder c (cmd :: args).
  Proof. exact (plain_wrapper_exact mcmd handler mredir astr). Qed.
  (* repair of `nice A=1 ls` (approved as ls; nice runs a program called A=1): behind a wrapper PROGRAM - every wrapper
     but the keyword time - a NAME=value word is the command's name, an unknown program: asked about, whatever follows *)
  Theorem C04_wrapper_runs_assignment_word : forall c w rest a inner,
    is_assignment w = false -> mem_str w WRAPPER_COMMANDS = true -> mcmd c (w :: rest) = None ->
    (str_eqb w $"command" && mem_str (nth 0 rest []) COMMAND_V_FLAGS) = false ->
    skip_wrapper_args w rest = a :: inner -> str_eqb w $"time" = false -> is_assignment a = true ->
    ladder c (w :: rest) = Ask.
  Proof. exact (wrapper_assignment_word_asks mcmd handler mredir astr). Qed.
  Theorem C04_unwrapping_stops_at_command : forall w opts ops cmd args,
    forallb (plain_opt (assoc_flags w WRAPPER_FLAGS_WITH_ARG)) opts = true ->
    length ops = assoc_nat w WRAPPER_OPERANDS ->
    operand_word (hd cmd ops) = true -> mem_str (hd cmd ops) (assoc_flags w WRAPPER_FLAGS_WITH_ARG) = false ->
    skip_wrapper_args w (opts ++ ops ++ cmd :: args) = cmd :: args.
  Proof. exact skip_args_stop_at_command. Qed.

  (* environment-assignment prefixes neither change the verdict nor hide the command from the rules *)
  Theorem C04_env_prefix : forall c pre ws, forallb is_assignment pre = true -> ladder c (pre ++ ws) = ladder c ws.
  Proof. exact (env_prefix mcmd handler mredir astr). Qed.

  (* a handler that launches an inner command is judged by that command - never by the help shortcut *)
  Theorem C04_delegate_decides : forall c words t tk r,
    skip_assignments words = t :: tk -> reaches_handler mcmd handler c (t :: tk) r ->
    h_action r = HDelegate -> h_targets r = [] -> nonempty (h_inner r) = true ->
    ladder c words = astr (fst c, h_remote r) (h_inner r).
  Proof. exact (delegate_decides mcmd handler mredir astr). Qed.
End Oracles.
Print Assumptions C04_exact_plain.
Print Assumptions C04_wrapper_options.
Print Assumptions C04_wrapper_dashdash.
Print Assumptions C04_inner_arguments_never_consulted.
Print Assumptions C04_plain_wrapper_exact.
Print Assumptions C04_wrapper_runs_assignment_word.
Print Assumptions C04_unwrapping_stops_at_command.
Print Assumptions C04_env_prefix.
Print Assumptions C04_delegate_decides.

(* non-vacuity on the shipped tables: timeout -k 3 -s KILL 5 CMD, nice -n 3 CMD, strace -o f CMD *)
Example C04L_example :
  skip_wrapper_args $"timeout" [$"-k"; $"3"; $"-s"; $"KILL"; $"5"; $"rm"; $"x"] = [$"rm"; $"x"] /\
  skip_wrapper_args $"nice" [$"-n"; $"3"; $"ls"] = [$"ls"] /\
  skip_wrapper_args $"strace" [$"-o"; $"ls"; $"rm"; $"x"] = [$"rm"; $"x"] /\
  skip_wrapper_args $"nohup" [$"5"; $"ls"] = [$"5"; $"ls"] /\
  skip_wrapper_args $"command" [$"--"; $"ls"] = [$"ls"].
Proof. vm_compute. repeat split; reflexivity. Qed.
(* the hypotheses of C04_inner_arguments_never_consulted hold for `command rm -v build`, `timeout -v 5 rm -k x`,
   `nice -n 5 rm -n x` is NOT an instance (-n takes an argument: not a plain option) but `nice rm -n x` is *)
Example C04L_example_args :
  (str_eqb $"command" $"command" && mem_str (hd [] ([] ++ [] ++ [$"rm"])) COMMAND_V_FLAGS) = false /\
  operand_word $"rm" = true /\ operand_word $"-v" = false /\
  forallb (plain_opt (assoc_flags $"timeout" WRAPPER_FLAGS_WITH_ARG)) [$"-v"] = true /\
  length [$"5"] = assoc_nat $"timeout" WRAPPER_OPERANDS /\
  skip_wrapper_args $"timeout" ([$"-v"] ++ [$"5"] ++ $"rm" :: [$"-k"; $"x"]) = [$"rm"; $"-k"; $"x"] /\
  skip_wrapper_args $"command" [$"rm"; $"-v"; $"build"] = [$"rm"; $"-v"; $"build"] /\
  skip_wrapper_args $"nice" [$"rm"; $"-n"; $"x"] = [$"rm"; $"-n"; $"x"].
Proof. vm_compute. repeat split; reflexivity. Qed.

(* the unwrapping follows the wrapper's option grammar also for abbreviated long options and for a short option with
   its argument attached: the command that is analysed is the command the wrapper runs *)
Example C04_wrapper_abbreviations :
  skip_wrapper_args $"timeout" [$"--k"; $"1"; $"5"; $"bash"; $"x"; $"-h"] = [$"bash"; $"x"; $"-h"] /\
  skip_wrapper_args $"timeout" [$"--sig"; $"KILL"; $"5"; $"ls"] = [$"ls"] /\
  skip_wrapper_args $"timeout" [$"--kill-after=1"; $"5"; $"ls"] = [$"ls"] /\
  skip_wrapper_args $"timeout" [$"-vk"; $"1"; $"5"; $"ls"] = [$"ls"] /\
  skip_wrapper_args $"timeout" [$"-k1"; $"5"; $"ls"] = [$"ls"] /\
  skip_wrapper_args $"timeout" [$"--foreground"; $"5"; $"ls"] = [$"ls"] /\
  skip_wrapper_args $"nice" [$"--a"; $"5"; $"bash"; $"x"; $"-h"] = [$"bash"; $"x"; $"-h"].
Proof. vm_compute. repeat split; reflexivity. Qed.
