(* C04 (ladder half) - wrappers unwrapped by the decision ladder itself, and the
   environment-assignment prefix.  Property theorems only; the handler half is Props/C04.v. *)
From DippyV Require Import Base.Str Base.Verdict Base.Tree Gen.Tables Model.Walker Model.Ladder Proofs.LadderP.

Section Oracles.
  Variable mcmd : ctx -> list str -> option verdict.
  Variable handler : ctx -> list str -> option hres.
  Variable mredir : str -> str -> option verdict.
  Variable astr : ctx -> str -> verdict.
  Notation ladder := (ladder mcmd handler mredir astr).

  (* time c | timeout [opts] N c | nice [-n N] c | nohup c | command [--] c | builtin c | strace/ltrace [opts] c:
     when no rule matches the wrapper's own words, the verdict IS the wrapped command's verdict
     (no prompt added, none removed), whatever options of the wrapper's grammar precede it *)
  Theorem C04_exact_plain : forall c w rest inner,
    is_assignment w = false -> mem_str w WRAPPER_COMMANDS = true -> mcmd c (w :: rest) = None ->
    (str_eqb w $"command" && mem_str (nth 0 rest []) COMMAND_V_FLAGS) = false ->
    skip_wrapper_args w rest = inner -> inner <> [] ->
    ladder c (w :: rest) = ladder c inner.
  Proof. exact (wrapper_transparent mcmd handler mredir astr). Qed.

  (* which words the unwrapping skips: options without argument, then (with "--" or not) the command *)
  Theorem C04_wrapper_options : forall wa opts inner, forallb (plain_opt wa) opts = true ->
    match inner with t :: _ => operand_word t = true /\ mem_str t wa = false | [] => True end ->
    skip_wrapper_opts wa (opts ++ inner) = inner.
  Proof. exact skip_opts_plain. Qed.
  Theorem C04_wrapper_dashdash : forall wa opts inner, forallb (plain_opt wa) opts = true ->
    skip_wrapper_opts wa (opts ++ [45;45] :: inner) = inner.
  Proof. exact skip_opts_dashdash. Qed.

  (* environment-assignment prefixes neither change the verdict nor hide the command from the rules *)
  Theorem C04_env_prefix : forall c pre ws, forallb is_assignment pre = true -> ladder c (pre ++ ws) = ladder c ws.
  Proof. exact (env_prefix mcmd handler mredir astr). Qed.

  (* a handler that launches an inner command is judged by that command - never by the help shortcut *)
  Theorem C04_delegate_decides : forall c words t tk r,
    skip_assignments words = t :: tk -> reaches_handler mcmd handler c (t :: tk) r ->
    h_action r = HDelegate -> h_targets r = [] -> nonempty (h_inner r) = true ->
    ladder c words = astr (fst c, h_remote r) (h_inner r).
  Proof. exact (delegate_decides mcmd handler mredir astr). Qed.
End Oracles.
Print Assumptions C04_exact_plain.
Print Assumptions C04_wrapper_options.
Print Assumptions C04_wrapper_dashdash.
Print Assumptions C04_env_prefix.
Print Assumptions C04_delegate_decides.

(* non-vacuity on the shipped tables: timeout -k 3 -s KILL 5 CMD, nice -n 3 CMD, strace -o f CMD *)
Example C04L_example :
  skip_wrapper_args $"timeout" [$"-k"; $"3"; $"-s"; $"KILL"; $"5"; $"rm"; $"x"] = [$"rm"; $"x"] /\
  skip_wrapper_args $"nice" [$"-n"; $"3"; $"ls"] = [$"ls"] /\
  skip_wrapper_args $"strace" [$"-o"; $"ls"; $"rm"; $"x"] = [$"rm"; $"x"] /\
  skip_wrapper_args $"nohup" [$"5"; $"ls"] = [$"5"; $"ls"] /\
  skip_wrapper_args $"command" [$"--"; $"ls"] = [$"ls"].
Proof. vm_compute. repeat split; reflexivity. Qed.

(* the unwrapping follows the wrapper's option grammar also for abbreviated long options and for a short option with
   its argument attached: the command that is analysed is the command the wrapper runs *)
Example C04_wrapper_abbreviations :
  skip_wrapper_args $"timeout" [$"--k"; $"1"; $"5"; $"bash"; $"x"; $"-h"] = [$"bash"; $"x"; $"-h"] /\
  skip_wrapper_args $"timeout" [$"--sig"; $"KILL"; $"5"; $"ls"] = [$"ls"] /\
  skip_wrapper_args $"timeout" [$"--kill-after=1"; $"5"; $"ls"] = [$"ls"] /\
  skip_wrapper_args $"timeout" [$"-vk"; $"1"; $"5"; $"ls"] = [$"ls"] /\
  skip_wrapper_args $"timeout" [$"-k1"; $"5"; $"ls"] = [$"ls"] /\
  skip_wrapper_args $"timeout" [$"--foreground"; $"5"; $"ls"] = [$"ls"] /\
  skip_wrapper_args $"nice" [$"--a"; $"5"; $"bash"; $"x"; $"-h"] = [$"bash"; $"x"; $"-h"].
Proof. vm_compute. repeat split; reflexivity. Qed.
