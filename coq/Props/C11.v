(* C11 - Config text: line-local, never fatal, round-trips; a broken config never allows.
   (Also the parse half of C14: the two rule families are parsed into separate lists.)

   Property theorems only; proofs are in Proofs/.  Model: Model/ConfigText.v (parse_config and its
   helpers, statement by statement).  All theorems hold for every home directory string h, for every
   behaviour expu of Path.expanduser (a path, RuntimeError or ValueError), for all texts over all
   code points.  Path.home() failing is the single excluded case (see C11_total_home_refuted). *)
From DippyV Require Import Base.Str Gen.Tables Model.ConfigText
  Proofs.ConfigTextP Proofs.ConfigRoundP Proofs.C11P Proofs.CfgFnP.

(* the model's directive table, setting names, line separator and escapable characters are the ones
   the translator reads out of config.py on every run *)
Theorem C11_tie :
  CFG_RULE_DIRECTIVES = sort_by row_name (map dspec_row rule_dirs) /\
  CFG_DIRECTIVES = sort_by (fun s => s) (map d_name rule_dirs ++ [$"alias"; $"set"]) /\
  CFG_LINE_SEP = [NL] /\
  (CFG_BOOL_SETTINGS = [$"log_full"] /\ CFG_DEFAULT_VALUES = [$"allow"; $"ask"]) /\
  CFG_ESCAPABLE = [[DQ]; [BS]].
Proof. exact (conj tie_rule_directives (conj tie_directives (conj tie_line_sep (conj tie_settings tie_escapable)))). Qed.
Print Assumptions C11_tie.

(* ---------------------------------------------------------------- never fatal *)
Theorem C11_total : forall (h : str) (expu : str -> eu_result) (text : str),
  exists cfg, parse_config (Some h) expu text = Ok cfg.
Proof. exact total. Qed.
Print Assumptions C11_total.

(* every raising operation of one loop iteration, enumerated: parts[0] before the try block and in
   _apply_setting (IndexError), `raise ValueError` (x14), Path.home() and expanduser (RuntimeError),
   expanduser on NUL / unencodable names (ValueError).  Whatever the oracles do, and even for the code
   before the repair (g = false), nothing but a RuntimeError can leave an iteration - IndexError is
   unreachable - and at HEAD (g = true) it needs Path.home() itself to fail. *)
Theorem C11_caught : forall (home : option str) (expu : str -> eu_result) (g : bool) (raw : str) (e : exn),
  step home expu g raw = Exn e -> e = RuntimeError /\ (home = None \/ g = false).
Proof. exact step_exn. Qed.
Print Assumptions C11_caught.

(* full statement "for every home oracle, parse_config text = Ok _" is false of the faithful model:
   Path.home() inside _expand_home_only is not covered by `except ValueError`.  Unreachable in the
   running hook only because `_HOME = Path.home()` at import time fails first. *)
Theorem C11_total_home_refuted : exists expu text, parse_config None expu text = Exn RuntimeError.
Proof. exact (ex_intro _ eu_nosuchuser (ex_intro _ _ total_needs_home)). Qed.
Print Assumptions C11_total_home_refuted.

(* the code before `fix: an unexpandable log path is an invalid config line`: one bad line lost the file *)
Theorem C11_total_legacy_refuted : exists h expu text,
  legacy_parse_config (Some h) expu text = Exn RuntimeError /\
  exists c, parse_config (Some h) expu text = Ok c /\ length (c_rules c) = 1%nat.
Proof. exact (ex_intro _ _ (ex_intro _ eu_nosuchuser (ex_intro _ _ (conj legacy_total_refuted head_total_witness)))). Qed.
Print Assumptions C11_total_legacy_refuted.

(* ---------------------------------------------------------------- line-local *)
(* the mutable-state loop is the left fold of a function of the line alone *)
Theorem C11_local_fold : forall h expu ls,
  parse_of_lines (Some h) expu ls
  = Ok (config_of (fold_left (fun st l => match line_effect h expu l with Some e => apply_effect e st | None => st end) ls init)).
Proof. exact local_fold. Qed.
Print Assumptions C11_local_fold.

(* blank lines, comments and rejected lines are the identity: delete or insert them anywhere *)
Theorem C11_local_skip : forall h expu ls1 l ls2,
  step (Some h) expu true l = Ok None ->
  parse_of_lines (Some h) expu (ls1 ++ l :: ls2) = parse_of_lines (Some h) expu (ls1 ++ ls2).
Proof. exact local_skip. Qed.
Print Assumptions C11_local_skip.

(* rule lists: neighbours cannot matter at all - each list is the concatenation of the per-line contributions *)
Theorem C11_local_rules : forall h expu i ls c,
  parse_of_lines (Some h) expu ls = Ok c -> list_of i c = flat_map (contrib (Some h) expu i) ls.
Proof. exact local_rules. Qed.
Print Assumptions C11_local_rules.

(* aliases and settings are keyed overwrites: what "independent" means there is that the value of a key
   is decided by the last line that writes that key, each line's (key, value) being a function of the line alone *)
Theorem C11_local_alias : forall h expu k ls c,
  parse_of_lines (Some h) expu ls = Ok c ->
  dict_get k (c_aliases c) = fold_left (alias_step (Some h) expu k) ls None.
Proof. exact local_alias. Qed.
Print Assumptions C11_local_alias.

Theorem C11_local_settings : forall h expu ls c,
  parse_of_lines (Some h) expu ls = Ok c ->
  c_default c = match fold_left (default_step (Some h) expu) ls None with Some v => v | None => $"ask" end /\
  c_log c = fold_left (log_step (Some h) expu) ls None /\
  c_log_full c = existsb (sets_log_full (Some h) expu) ls.
Proof. exact local_settings. Qed.
Print Assumptions C11_local_settings.

(* two texts joined by a newline: the second is parsed in the state the first leaves behind *)
Theorem C11_concat : forall h expu a b,
  parse_config (Some h) expu (a ++ [NL] ++ b)
  = Ok (config_of (run (Some h) expu (lines_of b) (run (Some h) expu (lines_of a) init))).
Proof. exact (fun h expu a b => parse_config_app (Some h) expu h a b eq_refl). Qed.
Print Assumptions C11_concat.

(* ---------------------------------------------------------------- round trips *)
Theorem C11_unescape : forall m : str, unescape (escape m) = m.
Proof. exact unescape_escape. Qed.
Print Assumptions C11_unescape.

(* the backwards scan of _extract_message finds exactly the written message, whatever it contains *)
Theorem C11_extract : forall pre m : str,
  last_ns pre = true -> extract_message (pre ++ [SP; DQ] ++ escape m ++ [DQ]) = Ok (pre, Some m).
Proof. exact extract_written. Qed.
Print Assumptions C11_extract.

(* all eleven rule directives, with and without | and message; messages over every code point *)
Theorem C11_roundtrip : forall h expu sp p ex m,
  In sp rule_dirs -> wf_rule (Some h) sp p ex m = true ->
  step (Some h) expu true (write_rule sp p ex m) = Ok (Some (rule_effect sp p ex m)).
Proof. exact roundtrip_line. Qed.
Print Assumptions C11_roundtrip.

Theorem C11_roundtrip_alias : forall h expu src tgt,
  wf_alias (Some h) src tgt = true ->
  step (Some h) expu true (write_alias src tgt) = Ok (Some (EAlias src tgt)).
Proof. exact roundtrip_alias. Qed.
Print Assumptions C11_roundtrip_alias.

(* a whole file of rules (patterns and messages over all characters except "\n") *)
Theorem C11_roundtrip_file : forall h expu vs,
  vs <> [] -> Forall (fun v => wf_value (Some h) v = true) vs -> Forall (fun v => one_line v = true) vs ->
  parse_config (Some h) expu (write_config vs)
  = Ok (config_of (fold_left (fun st v => apply_opt (value_effect v) st) vs init)).
Proof. exact roundtrip_file. Qed.
Print Assumptions C11_roundtrip_file.

(* the two computed conjuncts of wf_rule in explicit form: words joined by single blanks none of which is
   ~ or ~/x; a message-less pattern not ending in a double quote *)
Theorem C11_wf_explicit : forall h,
  (forall ts, Forall (fun t => word t = true) ts -> Forall (fun t => is_home_kind t = false) ts ->
              tilde_fixed (Some h) (join [SP] ts) = true) /\
  (forall p, last_ns p = true -> last_ch p <> Some DQ -> no_message p = true).
Proof. exact wf_explicit. Qed.
Print Assumptions C11_wf_explicit.

(* before `fix: config lines are separated by newlines only` a message containing U+2028 did not survive *)
Theorem C11_roundtrip_legacy_refuted : exists h expu v,
  wf_value (Some h) v = true /\ one_line v = true /\
  exists c, legacy_parse_config (Some h) expu (write_config [v]) = Ok c
            /\ c_rules c = [mkrule $"deny" ($"rm " ++ [DQ; 97]) None false].
Proof. exact (ex_intro _ _ (ex_intro _ eu_nosuchuser (ex_intro _ v_ls legacy_roundtrip_refuted))). Qed.
Print Assumptions C11_roundtrip_legacy_refuted.

(* ---- the helpers tied function by function (entry cfg_fn, harness/cfgfuncs.py) ------------------------------------
   _strip_exact_anchor, complete: the anchor is the last character; what precedes it loses its trailing white space *)
Theorem C11_anchor : forall p,
  (ends_with_bar p = true -> exists q, p = q ++ [BAR] /\ strip_exact_anchor p = (rstrip_ws q, true)) /\
  (ends_with_bar p = false -> strip_exact_anchor p = (p, false)).
Proof. exact anchor_spec. Qed.
Print Assumptions C11_anchor.
(* the grammar of `set`: exactly three forms are accepted (key compared lower-cased with - read as _) ... *)
Theorem C11_setting_grammar : forall expu g rest e, apply_setting expu g rest = Ok e ->
  exists k more, split1 rest = k :: more /\
    ((e = ESet SLogFull /\ norm_key k = $"log_full" /\ more = []) \/
     (exists v, e = ESet (SDefault v) /\ norm_key k = $"default" /\ first_value more = Some v /\ (v = $"allow" \/ v = $"ask")) \/
     (exists v p, e = ESet (SLog p) /\ norm_key k = $"log" /\ first_value more = Some v /\ expu v = EUOk p)).
Proof. exact setting_sound. Qed.
Print Assumptions C11_setting_grammar.
(* ... and the two forms that need no oracle are always accepted *)
Theorem C11_setting_complete : forall expu g rest k,
  (split1 rest = [k] -> norm_key k = $"log_full" -> apply_setting expu g rest = Ok (ESet SLogFull)) /\
  (forall v more, split1 rest = k :: v :: more -> norm_key k = $"default" -> (v = $"allow" \/ v = $"ask") ->
     apply_setting expu g rest = Ok (ESet (SDefault v))).
Proof. exact setting_complete. Qed.
Print Assumptions C11_setting_complete.
(* the only token kind parse_config acts on: `~` or `~/...` without `://` *)
Theorem C11_classify_home : forall t,
  classify_token t = KHome <-> infixb $"://" t = false /\ (str_eqb t $"~" || prefixb $"~/" t) = true.
Proof. exact classify_home. Qed.
Print Assumptions C11_classify_home.

(* ---------------------------------------------------------------- a broken config never allows *)
(* whichever layer is unusable (permission, other OSError, undecodable bytes, anything else) and
   whatever the other layers hold, the hook answers ask or defers - the analysis is not reached *)
Theorem C11_unreadable : forall home expu rs,
  existsb unusable rs = true ->
  config_stage home expu rs = AnswerAsk \/ config_stage home expu rs = AnswerDefer.
Proof. exact config_stage_unusable. Qed.
Print Assumptions C11_unreadable.

(* ---------------------------------------------------------------- C14, parse half *)
(* the *-mcp lists depend on the *-mcp lines only: any insertion, deletion or reordering of other
   lines (same subsequence of mcp lines) leaves them unchanged; symmetrically for the shell family
   (command, redirect and after rules, aliases) *)
Theorem C14_parse_split_mcp : forall h expu ls ls',
  filter (line_is (Some h) expu mcp_effect) ls = filter (line_is (Some h) expu mcp_effect) ls' ->
  exists c c', parse_of_lines (Some h) expu ls = Ok c /\ parse_of_lines (Some h) expu ls' = Ok c' /\ mcp_view c = mcp_view c'.
Proof. exact mcp_family. Qed.
Print Assumptions C14_parse_split_mcp.

Theorem C14_parse_split_shell : forall h expu ls ls',
  filter (line_is (Some h) expu shell_effect) ls = filter (line_is (Some h) expu shell_effect) ls' ->
  exists c c', parse_of_lines (Some h) expu ls = Ok c /\ parse_of_lines (Some h) expu ls' = Ok c' /\ shell_view c = shell_view c'.
Proof. exact shell_family. Qed.
Print Assumptions C14_parse_split_shell.

Theorem C14_parse_filter : forall h expu ls,
  (exists c c', parse_of_lines (Some h) expu ls = Ok c /\
                parse_of_lines (Some h) expu (filter (line_is (Some h) expu mcp_effect) ls) = Ok c' /\ mcp_view c = mcp_view c') /\
  (exists c c', parse_of_lines (Some h) expu ls = Ok c /\
                parse_of_lines (Some h) expu (filter (line_is (Some h) expu shell_effect) ls) = Ok c' /\ shell_view c = shell_view c').
Proof. exact (fun h expu ls => conj (mcp_family_filter h expu ls) (shell_family_filter h expu ls)). Qed.
Print Assumptions C14_parse_filter.

(* ---------------------------------------------------------------- non-vacuity and sharpness *)
Definition ex_expu (v : str) : eu_result := EUOk v.
Definition sp_of (n : string) : dspec := match find_dir (s2l n) rule_dirs with Some sp => sp | None => mkd [] LRules [] false false false end.

(* well-formed values exist for every directive, with every optional part *)
Example wf_all :
  forallb (fun sp => wf_rule (Some $"/h") sp $"git status" (d_anchor sp) (if d_msg sp then Some ($"say " ++ [DQ; BS; 8232; 0]) else None)) rule_dirs = true.
Proof. vm_compute. reflexivity. Qed.
Example roundtrip_instance :
  step (Some $"/h") ex_expu true (write_rule (sp_of "deny") $"rm -rf *" true (Some [DQ; BS; BS; DQ; SP; 9]))
  = Ok (Some (rule_effect (sp_of "deny") $"rm -rf *" true (Some [DQ; BS; BS; DQ; SP; 9]))).
Proof. vm_compute. reflexivity. Qed.

(* each conjunct of wf_rule is needed: dropping it gives a value that does not come back *)
Definition comes_back sp p ex m : bool :=
  match step (Some $"/h") ex_expu true (write_rule sp p ex m) with
  | Ok (Some (ERule _ r)) => str_eqb (r_pattern r) p && Bool.eqb (r_exact r) ex
                             && match r_message r, m with Some a, Some b => str_eqb a b | None, None => true | _, _ => false end
  | _ => false
  end.
Example need_edges : comes_back (sp_of "after") $"x " false None = false. Proof. vm_compute. reflexivity. Qed.
Example need_single_blanks : comes_back (sp_of "allow") $"a  b" false None = false. Proof. vm_compute. reflexivity. Qed.
Example need_no_tilde : comes_back (sp_of "allow") $"~/bin/x" false None = false. Proof. vm_compute. reflexivity. Qed.
Example need_anchor_dir : comes_back (sp_of "after") $"x" true None = false. Proof. vm_compute. reflexivity. Qed.
Example need_msg_dir : comes_back (sp_of "allow") $"x" false (Some $"m") = false. Proof. vm_compute. reflexivity. Qed.
Example need_no_bar : comes_back (sp_of "allow") $"x |" false None = false. Proof. vm_compute. reflexivity. Qed.
Example need_no_message : comes_back (sp_of "ask") ($"echo " ++ [DQ] ++ $"hi" ++ [DQ]) false None = false. Proof. vm_compute. reflexivity. Qed.
(* ... while raw-pattern directives keep inner blanks and a trailing bar *)
Example raw_keeps : comes_back (sp_of "after") $"a  b |" false (Some $"m") = true. Proof. vm_compute. reflexivity. Qed.

(* a rejected line between two rules changes nothing; the two families do not see each other *)
Example skip_instance :
  parse_config (Some $"/h") ex_expu ($"deny rm" ++ [NL] ++ $"bogus line" ++ [NL] ++ $"allow-mcp mcp__x")
  = parse_config (Some $"/h") ex_expu ($"deny rm" ++ [NL] ++ $"allow-mcp mcp__x").
Proof. vm_compute. reflexivity. Qed.
Example unusable_instance :
  config_stage (Some $"/h") ex_expu [RText $"allow *"; RDecode; RAbsent] = AnswerDefer /\
  config_stage (Some $"/h") ex_expu [RAbsent; RText $"allow *"; RPermission] = AnswerAsk.
Proof. split; vm_compute; reflexivity. Qed.
