(* C16 - SQL classified read-only really is read-only.

   Model/Sql.v     : core/sql.py (_strip_quoted as the leftmost-match, ordered-alternatives substitution with the
                     backtracking of the doubled-quote group; _has_multiple_statements; _skip_cte;
                     _check_select_into; is_readonly_sql) and the argument loop + all/any combination of
                     cli/sqlite3.py, keyword sets and option tuples generated from the source.
   Model/SqlSpec.v : reference tokenizer after SQLite's sqlite3GetToken, statement splitter.

   Vocabulary of the statements below
     sim stripped tokens   the stripped text is the token sequence with every live token copied, every comment /
                           string / quoted identifier replaced by one or more blanks, and arbitrary text after a
                           token at which SQLite stops (unterminated quote: "unrecognized token"; unterminated
                           block comment: comment to the end)
     live_statements       statements (pieces between semicolon tokens) that contain a word, variable or operator
     nonblank_statements   statements that contain anything but white space and comments
     first_live            the first token that is not white space, a comment, a string or a quoted identifier
     leading P tokens      first_live is a word whose \w-prefix (what _KEYWORD_PATTERN matches) satisfies P - or there
                           is no live token / SQLite rejects the text before one
     plain_ws sql          every character Python's \s accepts is one that starts an SQLite white-space token
                           (TAB LF FF CR SPACE): excludes VT, FS GS RS US, NEL, NBSP and the Unicode spaces
     has_tcl_paren         the token sequence contains a variable token of the form $name(...)

   The simulation is proved for ALL texts, terminated or not (no `terminated` hypothesis was needed), but only
   for texts without a $name(...) variable token: with one, core/sql.py's is_readonly_sql still mis-delimits the
   text (C16_single_refuted - true of /repo HEAD).  Since d0eb2f8 the sqlite3 handler refuses such arguments
   (_TCL_VARIABLE guard), so the handler-level theorems (C16_single_sqlite3, C16_args) need no such hypothesis:
   C16_guard_sound proves that the guard over-approximates SQLite's token. *)
From DippyV Require Import Base.Str Base.Verdict Gen.Tables Model.Sql Model.SqlSpec
  Proofs.SqlP Proofs.SqlSpecP Proofs.C16P.

(* ---------------------------------------------------------------- the reference tokenizer is lossless *)
Theorem C16_lex_lossless : forall sql, flat_map tok_text (sql_lex sql) = sql.
Proof. exact sql_lex_lossless. Qed.
Print Assumptions C16_lex_lossless.

(* ---------------------------------------------------------------- the simulation (the hard proof) *)
Theorem C16_strip_simulation : forall sql, has_tcl_paren (sql_lex sql) = false -> sim (strip_quoted sql) (sql_lex sql).
Proof. exact strip_simulates. Qed.
Print Assumptions C16_strip_simulation.

(* the substitution loop needs no fuel: re.sub as an equation *)
Theorem C16_strip_unfold : forall s, strip_quoted s =
  match s with
  | [] => []
  | c :: r => match match_quoted s with Some rest => 32 :: strip_quoted rest | None => c :: strip_quoted r end
  end.
Proof. exact strip_quoted_eq. Qed.
Print Assumptions C16_strip_unfold.

(* ---------------------------------------------------------------- (1) at most one statement
   Full statement (false of the code, see the three refutations):
     forall sql, is_readonly_sql ero ewr sql = Some true -> nonblank_statements (sql_lex sql) <= 1 *)
Theorem C16_single_partial : forall ero ewr sql,
  plain_ws sql -> has_tcl_paren (sql_lex sql) = false ->
  is_readonly_sql ero ewr sql = Some true -> (live_statements (sql_lex sql) <= 1)%nat.
Proof. exact single_statement. Qed.
Print Assumptions C16_single_partial.

(* Still true of core/sql.py at /repo HEAD (the other SQL handlers use it unguarded; for SQLite the sqlite3
   handler's guard catches it - C16_single_sqlite3): SQLite reads $a(') as one variable token, the stripper reads
   the quote as the start of a string that hides "; DELETE FROM t;". *)
Theorem C16_single_refuted : exists sql,
  plain_ws sql /\ is_readonly_sql [] SQLITE_WRITE sql = Some true /\ live_statements (sql_lex sql) = 2%nat.
Proof. exact single_refuted_witness. Qed.
Print Assumptions C16_single_refuted.

(* the guard of the repaired handler: no match of _TCL_VARIABLE anywhere => no $name(...) token for SQLite *)
Theorem C16_guard_sound : forall s, tcl_search s = false -> has_tcl_paren (sql_lex s) = false.
Proof. exact guard_no_paren. Qed.
Print Assumptions C16_guard_sound.

(* (1)+(2) for what the sqlite3 handler takes for read-only (_classify_sql): no hypothesis on variable tokens *)
Theorem C16_single_sqlite3 : forall part, classify_sql part = Some true ->
  sqlite3_sql part = Some true /\ has_tcl_paren (sql_lex part) = false /\
  (plain_ws part -> (live_statements (sql_lex part) <= 1)%nat /\ leading (fun k => ro_word [] (py_upper k)) (sql_lex part)).
Proof. exact classify_sql_readonly. Qed.
Print Assumptions C16_single_sqlite3.

(* harmless: a second "statement" made of a character that only Python takes for white space (here NBSP, an
   identifier character for SQLite) - SQLite reports a syntax error for it and nothing is executed *)
Theorem C16_single_ws_refuted : exists sql,
  has_tcl_paren (sql_lex sql) = false /\ is_readonly_sql [] SQLITE_WRITE sql = Some true /\ live_statements (sql_lex sql) = 2%nat.
Proof. exact single_ws_refuted_witness. Qed.
Print Assumptions C16_single_ws_refuted.

(* harmless: a second statement that consists of a string literal only (syntax error in SQLite) is not seen,
   so "non-blank" has to be weakened to "live" *)
Theorem C16_nonblank_refuted : exists sql,
  plain_ws sql /\ has_tcl_paren (sql_lex sql) = false /\ is_readonly_sql [] SQLITE_WRITE sql = Some true /\
  nonblank_statements (sql_lex sql) = 2%nat /\ live_statements (sql_lex sql) = 1%nat.
Proof. exact nonblank_refuted_witness. Qed.
Print Assumptions C16_nonblank_refuted.

(* ---------------------------------------------------------------- (2) the leading keyword
   Full statement: ... -> the leading keyword, after the WITH prefix as _skip_cte skips it, is read-only and no INTO
   precedes FROM.  Proved: against the reference tokenizer for the FIRST keyword (C16_keyword_partial, and in
   SQLite's own ASCII terms C16_keyword_ascii_partial); the WITH-skipping and the INTO test only on the stripped text
   (C16_keyword_chain) - the model's _skip_cte can resume in the middle of what SQLite reads as one token
   ("1SELECT"), so a token-level statement of that part would be false. *)
Theorem C16_keyword_partial : forall ero ewr sql,
  plain_ws sql -> has_tcl_paren (sql_lex sql) = false ->
  is_readonly_sql ero ewr sql = Some true -> leading (fun k => ro_word ero (py_upper k)) (sql_lex sql).
Proof. exact leading_keyword. Qed.
Print Assumptions C16_keyword_partial.

Theorem C16_keyword_ascii_partial : forall ero ewr sql w,
  plain_ws sql -> has_tcl_paren (sql_lex sql) = false ->
  is_readonly_sql ero ewr sql = Some true ->
  first_live (sql_lex sql) = Some (TWord w) -> ascii_word w = true -> ro_word ero (ascii_upper w).
Proof. exact leading_keyword_ascii. Qed.
Print Assumptions C16_keyword_ascii_partial.

Theorem C16_keyword_chain : forall ero ewr sql,
  is_readonly_sql ero ewr sql = Some true -> ro_chain ero (strip_quoted sql).
Proof. exact is_readonly_chain. Qed.
Print Assumptions C16_keyword_chain.

(* ---------------------------------------------------------------- (3) multi-statement or unrecognised input is never read-only *)
Theorem C16_unknown_multi_partial : forall ero ewr sql,
  plain_ws sql -> has_tcl_paren (sql_lex sql) = false ->
  (2 <= live_statements (sql_lex sql))%nat -> is_readonly_sql ero ewr sql <> Some true.
Proof. exact several_statements_not_readonly. Qed.
Print Assumptions C16_unknown_multi_partial.

Theorem C16_unknown_first_partial : forall ero ewr sql t,
  plain_ws sql -> has_tcl_paren (sql_lex sql) = false ->
  first_live (sql_lex sql) = Some t -> unrecognised_first ero t -> is_readonly_sql ero ewr sql <> Some true.
Proof. exact unrecognised_first_not_readonly. Qed.
Print Assumptions C16_unknown_first_partial.

(* on the stripped text, for every input: several statements -> None; no keyword at the start -> None; a keyword
   in none of the sets -> None; a write keyword -> write *)
Theorem C16_unknown : forall ero ewr sql,
  (has_multiple_statements sql = true -> is_readonly_sql ero ewr sql = None) /\
  (match_kw (skip_ws (strip_quoted sql)) = None -> is_readonly_sql ero ewr sql = None) /\
  (forall kw rest, match_kw (skip_ws (strip_quoted sql)) = Some (kw, rest) ->
     py_upper kw <> $"WITH" -> py_upper kw <> $"SELECT" -> ~ In (py_upper kw) (readonly_keywords ero) ->
     (~ In (py_upper kw) (write_keywords ewr) -> is_readonly_sql ero ewr sql = None) /\
     (In (py_upper kw) (write_keywords ewr) -> has_multiple_statements sql = false -> is_readonly_sql ero ewr sql = Some false)).
Proof.
  exact (fun ero ewr sql => conj (multi_none ero ewr sql) (conj (no_keyword_none ero ewr sql)
    (fun kw rest Hm H1 H2 H3 => conj (fun H4 => unknown_keyword_none ero ewr sql kw rest Hm H1 H2 H3 H4)
                                     (fun H4 Hs => write_keyword_false ero ewr sql kw rest Hs Hm H1 H2 H3 H4)))).
Qed.
Print Assumptions C16_unknown.

(* the shape behind _has_multiple_statements = False: after the first semicolon only semicolons and white space *)
Theorem C16_multi_shape : forall stripped, multi_of_stripped stripped = false -> shape stripped.
Proof. exact multi_false_shape. Qed.
Print Assumptions C16_multi_shape.

(* ---------------------------------------------------------------- (4) the sqlite3 handler (as repaired by d0eb2f8)
   Every way the handler allows: -init nowhere among the tokens, and
     - -help / -version / --help in option position and no -cmd (the shell exits there before any SQL runs), or
     - -readonly / -safe in option position and no argument that is a dot-command, calls a writing shell function
       or is a VACUUM, or
     - there are SQL arguments and EACH of them separately is read-only, has no $name(...) token, and satisfies
       (1) and (2).
   Full statement without the second case's -safe half is FALSE of /repo HEAD: C16_args_refuted (pinned by
   tests/cli/test_sqlite3.py - known finding C16-shortcut-safe). *)
Theorem C16_args : forall tokens,
  sqlite3_classify tokens = Allow ->
  let '(parts, help_flag, readonly_flag, cmd_seen) := sqlite3_scan (tl tokens) false in
  mem_str $"-init" tokens = false /\
  ((help_flag = true /\ cmd_seen = false) \/
   (readonly_flag = true /\ forall part, In part parts -> acts_anyway part = false) \/
   (parts <> [] /\ forall part, In part parts ->
      sqlite3_sql part = Some true /\ has_tcl_paren (sql_lex part) = false /\
      (plain_ws part -> (live_statements (sql_lex part) <= 1)%nat /\ leading (fun k => ro_word [] (py_upper k)) (sql_lex part)))).
Proof. exact sqlite3_allow_each. Qed.
Print Assumptions C16_args.

(* -safe in option position still allows a write: -safe does not make the database read-only (executed with the
   real shell: the rows are deleted) *)
Theorem C16_args_refuted : exists tokens part,
  sqlite3_classify tokens = Allow /\ In part (sqlite3_parts (tl tokens) false) /\ sqlite3_sql part = Some false.
Proof. exact args_refuted_witness. Qed.
Print Assumptions C16_args_refuted.

Theorem C16_args_init : forall tokens, mem_str $"-init" tokens = true -> sqlite3_classify tokens = Ask.
Proof. exact sqlite3_init_ask. Qed.
Print Assumptions C16_args_init.

(* all / any *)
Theorem C16_args_combine : forall results,
  (combine_results results = Some true <-> Forall (fun r => r = Some true) results) /\
  (combine_results results = Some false <-> (exists r, In r results /\ r <> Some true) /\ In (Some false) results).
Proof. exact (fun l => conj (combine_results_true l) (combine_results_false l)). Qed.
Print Assumptions C16_args_combine.

Theorem C16_args_one_write : forall tokens part,
  sqlite3_shortcut tokens = None -> In part (sqlite3_parts (tl tokens) false) -> classify_sql part <> Some true ->
  sqlite3_classify tokens = Ask.
Proof. exact sqlite3_one_unknown. Qed.
Print Assumptions C16_args_one_write.

(* without options every token after the database name is an SQL argument *)
Theorem C16_args_plain : forall ts, forallb (fun t => negb (is_dash t)) ts = true -> sqlite3_parts ts true = ts.
Proof. exact sqlite3_parts_plain. Qed.
Print Assumptions C16_args_plain.

(* ---------------------------------------------------------------- non-vacuity *)
Example C16_example_readonly :
  let sql := $"/* c */ select * FROM t WHERE b = 'it''s; DELETE FROM t' ; -- done" in
  plain_wsb sql = true /\ has_tcl_paren (sql_lex sql) = false /\
  is_readonly_sql [] SQLITE_WRITE sql = Some true /\ live_statements (sql_lex sql) = 1%nat /\
  first_live (sql_lex sql) = Some (TWord $"select").
Proof. vm_compute. repeat split. Qed.

Example C16_example_unterminated :        (* the simulation covers unterminated quotes and comments *)
  let sql := $"SELECT 'a''b ; DELETE FROM t /* x" in
  has_tcl_paren (sql_lex sql) = false /\ is_readonly_sql [] SQLITE_WRITE sql = None /\
  strip_quoted sql = $"SELECT  'b ; DELETE FROM t /* x".
Proof. vm_compute. repeat split. Qed.

Example C16_example_args :                 (* the repaired handler on the former witnesses *)
  sqlite3_classify [$"sqlite3"; $"main.db"; $"SELECT 1"; $"DELETE FROM t"] = Ask /\
  sqlite3_classify [$"sqlite3"; $"-header"; $"main.db"; $"SELECT 1"; $"select 2;"] = Allow /\
  sqlite3_classify [$"sqlite3"; $"main.db"; $"WITH c AS (SELECT 1) DELETE FROM t"] = Ask /\
  sqlite3_classify [$"sqlite3"; $"main.db"; $"SELECT $a('), 1; DELETE FROM t; --')"] = Ask /\
  sqlite3_classify [$"sqlite3"; $"main.db"; $"-cmd"; $"DELETE FROM t"; $"-version"] = Ask /\
  sqlite3_classify [$"sqlite3"; $"-cmd"; $"-readonly"; $"main.db"; $"DELETE FROM t"] = Ask /\
  sqlite3_classify [$"sqlite3"; $"-readonly"; $"main.db"; $".shell touch pwned"] = Ask /\
  sqlite3_classify [$"sqlite3"; $"-readonly"; $"main.db"; $"VACUUM INTO 'copy.db'"] = Ask /\
  sqlite3_classify [$"sqlite3"; $"main.db"; $"SELECT WriteFile('aux.db', 'x')"] = Ask /\
  sqlite3_classify [$"sqlite3"; $"-readonly"; $"main.db"; $"DROP TABLE users"] = Allow /\
  sqlite3_classify [$"sqlite3"; $"main.db"; $"DELETE FROM t"; $"-version"] = Allow.
Proof. vm_compute. repeat split. Qed.
