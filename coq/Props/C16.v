(* C16 - SQL classified read-only really is read-only (stub, filled in below) *)
From DippyV Require Import Base.Str Base.Verdict Gen.Tables Model.Sql Proofs.SqlP.

Theorem C16_combine : forall l, combine_results l = Some true <-> Forall (fun r => r = Some true) l.
Proof. exact combine_results_true. Qed.
Print Assumptions C16_combine.
