(* C10 - Config layers: user (~/.dippy/config), nearest project file (.dippy walking up from the cwd),
   then $DIPPY_CONFIG, in that order; absent layers are skipped; any layout behaves like one file holding
   the three texts concatenated in that order.
   Property theorems only; proofs are in Proofs/.  A layout is: what ~/.dippy/config names, what <level>/.dippy
   names for every level of the resolved ancestor chain of the cwd (any length; nearest first), and what
   $DIPPY_CONFIG names - each a regular file (with any read_text outcome), a directory, a special file,
   nothing, a symlink (to any of these, to any depth), a dangling link, or something stat() is denied on. *)
From DippyV Require Import Base.Str Model.Layers Proofs.DictP Proofs.LayersP Proofs.C10P Proofs.AliasP.

(* ---- nearest project file: the first level of the chain whose .dippy is a regular file --------------------- *)
(* exact characterisation of _find_project_config for every chain: a hit is preceded only by levels that are
   not files; no hit iff no level is a file; the only other outcome is a PermissionError, raised by
   the first level that is not "not a file" *)
Theorem C10_nearest_raw : forall chain,
  (forall p r, find_project chain = Ok (Some (p, r)) <->
     exists pre post, chain = pre ++ p :: post /\ Forall notfile pre /\ is_file (pl_entry p) = IsYes r) /\
  (find_project chain = Ok None <-> Forall notfile chain) /\
  (find_project chain = Crash <->
     exists pre p post, chain = pre ++ p :: post /\ Forall notfile pre /\ is_file (pl_entry p) = IsErr) /\
  find_project chain <> ConfigErr.
Proof. exact find_project_spec. Qed.
Print Assumptions C10_nearest_raw.
(* as load_config uses it (the PermissionError is turned into a ConfigError): a level that cannot be examined
   is a config error, never an escaping exception *)
Theorem C10_nearest : forall chain,
  (forall p r, find_project_checked chain = Ok (Some (p, r)) <->
     exists pre post, chain = pre ++ p :: post /\ Forall notfile pre /\ is_file (pl_entry p) = IsYes r) /\
  (find_project_checked chain = Ok None <-> Forall notfile chain) /\
  (find_project_checked chain = ConfigErr <->
     exists pre p post, chain = pre ++ p :: post /\ Forall notfile pre /\ is_file (pl_entry p) = IsErr) /\
  find_project_checked chain <> Crash.
Proof. exact find_project_checked_spec. Qed.
Print Assumptions C10_nearest.

(* cwd depth: any number of levels without a regular .dippy below the chain changes nothing *)
Theorem C10_nearest_depth : forall pre chain, Forall notfile pre ->
  find_project_checked (pre ++ chain) = find_project_checked chain.
Proof. exact find_project_checked_skip. Qed.
Print Assumptions C10_nearest_depth.

(* directories, special files, absent entries, dangling links - reached through any number of symlinks -
   are skipped; a chain of symlinks to X is X *)
Theorem C10_nearest_kinds :
  (forall n e, is_file (links n e) = is_file e) /\
  (forall n path, notfile (mkPlace path (links n EDir)) /\ notfile (mkPlace path (links n ESpecial)) /\
                  notfile (mkPlace path (links n EAbsent)) /\ notfile (mkPlace path (links n EDangling))).
Proof. exact (conj is_file_links skipped_kinds). Qed.
Print Assumptions C10_nearest_kinds.

(* ---- load_config = merge-fold over the three effective layers (exact: tags and default included) ------------ *)
Theorem C10_layers : forall (parse : str -> config) lay,
  load_config parse lay = res_map (cfold parse) (effective lay).
Proof. exact load_config_spec. Qed.
Print Assumptions C10_layers.

(* ---- order: for each of the five rule families, user rules ++ project rules ++ env rules -------------------- *)
Theorem C10_order : forall (parse : str -> config) lay c, load_config parse lay = Ok c ->
  exists u p e, effective lay = Ok (u, p, e) /\
    forall f, fam f c = layer_rules parse f u s_user ++ layer_rules parse f p s_project ++ layer_rules parse f e s_env.
Proof. exact load_order. Qed.
Print Assumptions C10_order.

(* ---- later layers override earlier ones under last-match-wins: for every family and every matcher, the deciding
   rule of the loaded config is the env layer's last match if it has one, else the project layer's, else the user's *)
Theorem C10_override : forall (parse : str -> config) lay c, load_config parse lay = Ok c ->
  exists u p e, effective lay = Ok (u, p, e) /\
    forall f m, last_match m (fam f c) =
      or_else (last_match m (layer_rules parse f e s_env))
        (or_else (last_match m (layer_rules parse f p s_project)) (last_match m (layer_rules parse f u s_user))).
Proof. exact load_override. Qed.
Print Assumptions C10_override.

(* ---- one concatenated file ----------------------------------------------------------------------------------- *)
(* (a) no assumption on parse_config: observable(load_config) = merge-fold of the parsed texts of the present layers *)
Theorem C10_concat_fold : forall (parse : str -> config) lay,
  res_map observable (load_config parse lay) = res_map (ofold parse) (effective lay).
Proof. exact load_observable. Qed.
Print Assumptions C10_concat_fold.

(* (b) for every parse_config that is a homomorphism (C10_parse_hom: the obligation handed to the config-text
   package), parses the empty text to nothing and builds a dict: the same observable config as ONE file
   holding user ++ "\n" ++ project ++ "\n" ++ env; errors (ConfigError / other exception) coincide too *)
Theorem C10_concat : forall (parse : str -> config),
  (forall a b, observable (parse (a ++ nl :: b)) = omerge (observable (parse a)) (observable (parse b))) ->
  observable (parse []) = oempty ->
  (forall s, NoDup (keys (aliases (parse s)))) ->
  forall lay, res_map observable (load_config parse lay) = res_map (fun t => observable (parse (cat3 t))) (effective lay).
Proof. exact load_concat. Qed.
Print Assumptions C10_concat.

(* (c) the three assumptions hold for every parser that works line by line over text.split("\n"), whatever a
   single line does (line_item is arbitrary): parse_config's own structure *)
Theorem C10_parse_hom_lines : forall (line_item : str -> option item),
  (forall a b, observable (parse_lines line_item (a ++ nl :: b)) =
               omerge (observable (parse_lines line_item a)) (observable (parse_lines line_item b))) /\
  observable (parse_lines line_item []) = oempty /\
  (forall s, NoDup (keys (aliases (parse_lines line_item s)))).
Proof. exact (fun li => conj (lines_hom li) (conj (lines_nil li) (lines_dict li))). Qed.
Print Assumptions C10_parse_hom_lines.
Theorem C10_concat_lines : forall (line_item : str -> option item) lay,
  res_map observable (load_config (parse_lines line_item) lay) =
  res_map (fun t => observable (parse_lines line_item (cat3 t))) (effective lay).
Proof. exact lines_concat. Qed.
Print Assumptions C10_concat_lines.

(* ---- absent layers contribute nothing: absent = present with the empty text ---------------------------------- *)
Theorem C10_absent : forall (parse : str -> config), observable (parse []) = oempty ->
  (forall lay path, notfile (l_user lay) ->
     res_map observable (load_config parse (with_user lay (empty_file path))) = res_map observable (load_config parse lay)) /\
  (forall lay path, Forall notfile (l_chain lay) ->
     res_map observable (load_config parse (with_chain lay (l_chain lay ++ [empty_file path]))) =
     res_map observable (load_config parse lay)) /\
  (forall lay path, env_skipped (l_env lay) ->
     res_map observable (load_config parse (with_env lay (EnvAt (empty_file path)))) =
     res_map observable (load_config parse lay)).
Proof. exact (fun parse H => conj (absent_user parse H) (conj (absent_project parse H) (absent_env parse H))). Qed.
Print Assumptions C10_absent.

(* ---- aliases: {**base, **overlay} = the later definition wins per key, as in one file (order of keys too) ---- *)
Theorem C10_aliases :
  (forall a b, dict_merge (aliases (cfg_of_items a)) (aliases (cfg_of_items b)) = aliases (cfg_of_items (a ++ b))) /\
  (forall k a b, NoDup (keys b) ->
     dict_get k (dict_merge a b) = match dict_get k b with Some v => Some v | None => dict_get k a end).
Proof. exact (conj items_aliases_hom dict_get_merge). Qed.
Print Assumptions C10_aliases.

(* ---- log-full: there is no directive that switches it off, so a later layer cannot - and neither can later
   lines of one file: merge and concatenation agree *)
Theorem C10_log_full :
  (forall x y, log_full x = true -> log_full (merge_configs x y) = true) /\
  (forall a b, log_full (cfg_of_items a) = true -> log_full (cfg_of_items (a ++ b)) = true).
Proof. exact (conj merge_log_full_monotone log_full_monotone). Qed.
Print Assumptions C10_log_full.

(* ---- `default` is NOT like concatenation ---------------------------------------------------------------------
   full statement (false):  forall lay t c, effective lay = Ok t -> load_config parse lay = Ok c ->
                            default c = default (parse (cat3 t))
   witness: user `set default allow`, project `set default ask`: the layers give allow, one file gives ask.
   Pinned by /repo/tests/test_config.py (test_default_only_overrides_if_changed); `default` is read nowhere. *)
Theorem C10_default_refuted :
  exists lay t c, effective lay = Ok t /\ load_config mini_parse lay = Ok c /\
                  default c = s_allow /\ default (mini_parse (cat3 t)) = s_ask.
Proof. exact default_refuted. Qed.
Print Assumptions C10_default_refuted.
Theorem C10_default_items_refuted :
  exists a b, default (merge_configs (cfg_of_items a) (cfg_of_items b)) <> default (cfg_of_items (a ++ b)).
Proof. exact default_items_refuted. Qed.
Print Assumptions C10_default_items_refuted.
(* strongest true statement: it agrees unless the later text's last word on the matter is `set default ask` *)
Theorem C10_default_partial : forall a b, ~ sets_default_ask b ->
  default (merge_configs (cfg_of_items a) (cfg_of_items b)) = default (cfg_of_items (a ++ b)).
Proof. exact default_partial. Qed.
Print Assumptions C10_default_partial.

(* ---- identity and aliasing of the layer files --------------------------------------------------------------------
   The three layer locations may name the SAME file (directly, through a symlink, a hard link, `..`, `~`, a symlinked
   directory).  load_config keeps no state between the layers, so a file named by two layers contributes its text
   twice, once at each position.  `oequiv` = what the hook can tell apart: for every matcher the same last match in
   each rule family, the same target for every alias key, the same log / log_full. *)
(* a layer named twice counts where it is named LAST; an adjacent repeat is inert *)
Theorem C10_repeat_last_counts : forall a b, odict a -> odict b -> oequiv (omerge (omerge a b) a) (omerge b a).
Proof. exact omerge_repeat_last. Qed.
Print Assumptions C10_repeat_last_counts.
Theorem C10_repeat_adjacent_inert : forall a b, odict a -> odict b ->
  oequiv (omerge (omerge a b) b) (omerge a b) /\ oequiv (omerge (omerge a a) b) (omerge a b).
Proof. exact omerge_repeat_adjacent. Qed.
Print Assumptions C10_repeat_adjacent_inert.
(* ... so "do not read the same file twice" is NOT neutral: the first layer named again at the end decides.
   full statement (false): forall a b, oequiv (omerge (omerge a b) a) (omerge a b) *)
Theorem C10_repeat_first_refuted : exists a b, odict a /\ odict b /\ ~ oequiv (omerge (omerge a b) a) (omerge a b).
Proof. exact repeat_first_not_inert. Qed.
Print Assumptions C10_repeat_first_refuted.
(* names with one inode are one file: same entry, same text contributed under each name *)
Theorem C10_same_file : forall fs a b, same_file fs a b ->
  entry_of fs a = entry_of fs b /\
  forall s, eff_at (place_of fs a) ConfigErr = Ok (Some (a, s)) -> eff_at (place_of fs b) ConfigErr = Ok (Some (b, s)).
Proof. exact (fun fs a b H => conj (same_file_entry fs a b H) (fun s => eff_at_same_file fs a b s H)). Qed.
Print Assumptions C10_same_file.
(* $DIPPY_CONFIG names the user config: the layers are user;project;user - the user's text again AFTER the project's -
   which the hook cannot tell from project;user; for every filesystem, every chain, every project layer *)
Theorem C10_env_names_user : forall (parse : str -> config), (forall s, NoDup (keys (aliases (parse s)))) ->
  forall fs n e s, n_env n = NAt e -> same_file fs (n_user n) e ->
  eff_at (place_of fs (n_user n)) ConfigErr = Ok (Some (n_user n, s)) ->
  forall p, eff_project (map (place_of fs) (n_chain n)) = Ok p ->
    effective_fs fs n = Ok (Some (n_user n, s), p, Some (e, s)) /\
    res_map observable (load_config_fs parse fs n) = Ok (ofold parse (Some (n_user n, s), p, Some (e, s))) /\
    oequiv (ofold parse (Some (n_user n, s), p, Some (e, s))) (ofold parse (None, p, Some (e, s))).
Proof. exact env_names_user. Qed.
Print Assumptions C10_env_names_user.
(* $DIPPY_CONFIG names the nearest project file: user;project;project, which the hook cannot tell from user;project *)
Theorem C10_env_names_project : forall (parse : str -> config), (forall s, NoDup (keys (aliases (parse s)))) ->
  forall fs n e u pp s, n_env n = NAt e ->
  eff_at (place_of fs (n_user n)) ConfigErr = Ok u ->
  eff_project (map (place_of fs) (n_chain n)) = Ok (Some (pp, s)) ->
  eff_at (place_of fs e) ConfigErr = Ok (Some (e, s)) ->
    effective_fs fs n = Ok (u, Some (pp, s), Some (e, s)) /\
    oequiv (ofold parse (u, Some (pp, s), Some (e, s))) (ofold parse (u, Some (pp, s), None)).
Proof. exact env_names_project. Qed.
Print Assumptions C10_env_names_project.

(* ---- non-vacuity ----------------------------------------------------------------------------------------------- *)
(* the assumptions of C10_concat are satisfiable (by the miniature parser) *)
Example C10_hyps_inhabited :
  (forall a b, observable (mini_parse (a ++ nl :: b)) = omerge (observable (mini_parse a)) (observable (mini_parse b))) /\
  observable (mini_parse []) = oempty /\ (forall s, NoDup (keys (aliases (mini_parse s)))).
Proof. exact (C10_parse_hom_lines mini_line). Qed.

(* cwd four levels deep, .dippy a directory at the cwd, a dangling link above it, a symlink-to-symlink-to-file
   above that, a regular file further up (shadowed), $HOME/.dippy-like directory at the root; all three layers
   present and fighting over `zap`, aliases redefined, log set twice, log-full only in the first layer *)
Definition ex_layout : layout :=
  mkLayout (file "/h/.dippy/config" "allow zap
alias g one
set log /l/u
set log-full")
    [mkPlace $"/w/a/b/c/.dippy" EDir; mkPlace $"/w/a/b/.dippy" EDangling;
     mkPlace $"/w/a/.dippy" (ELink (ELink (EFile (RText $"deny zap
alias g two
alias h three"))));
     file "/w/.dippy" "allow shadowed"; mkPlace $"/.dippy" EDir]
    (EnvAt (file "/e/cfg" "ask zap
set log /l/e")).
Example C10_example :
  res_map observable (load_config mini_parse ex_layout) =
  Ok (mkObs [($"allow", $"zap", None, false); ($"deny", $"zap", None, false); ($"ask", $"zap", None, false)]
            [] [] [] [] [($"g", $"two"); ($"h", $"three")] (Some $"/l/e") true)
  /\ res_map (map r_scope) (res_map rules (load_config mini_parse ex_layout)) = Ok [Some s_user; Some s_project; Some s_env]
  /\ res_map (option_map (fun x => pl_path (fst x))) (find_project (l_chain ex_layout)) = Ok (Some $"/w/a/.dippy").
Proof. vm_compute. auto. Qed.
(* an unexpandable $DIPPY_CONFIG is an absent layer; an unreadable user file is a ConfigError; a .dippy that
   stat() is denied on is a ConfigError too (all three layers alike); an undecodable file still escapes *)
Example C10_example_errors :
  load_config mini_parse (with_env ex_layout EnvNoUser) = load_config mini_parse (with_env ex_layout EnvUnset) /\
  (exists c, load_config mini_parse (with_env ex_layout EnvNoUser) = Ok c) /\
  load_config mini_parse (with_user ex_layout (mkPlace $"/h/.dippy/config" (EFile RPerm))) = ConfigErr /\
  load_config mini_parse (with_chain ex_layout [mkPlace $"/w/.dippy" (ELink EDenied)]) = ConfigErr /\
  load_config mini_parse (with_env ex_layout (EnvAt (mkPlace $"/e" EDenied))) = ConfigErr /\
  load_config mini_parse (with_env ex_layout (EnvAt (mkPlace $"/e" (EFile RDecode)))) = Crash.
Proof. vm_compute. repeat split; eauto. Qed.
(* one inode behind ~/.dippy/config and a symlink named by $DIPPY_CONFIG; the project allows what the user denies:
   deny, allow, deny - the user's rule is the last match; without the env layer, or with the env layer naming the
   project file, the project's allow is *)
Example C10_alias_example :
  decisions (load_config_fs mini_parse alias_fs (alias_names (NAt $"/links/cfg"))) = Ok [$"deny"; $"allow"; $"deny"] /\
  decisions (load_config_fs mini_parse alias_fs (alias_names NUnset)) = Ok [$"deny"; $"allow"] /\
  decisions (load_config_fs mini_parse alias_fs (alias_names (NAt $"/w/p/.dippy"))) = Ok [$"deny"; $"allow"; $"allow"] /\
  same_file alias_fs $"/h/.dippy/config" $"/links/cfg".
Proof. exact alias_example. Qed.
