(* Entry points of the statusline model (C20).
   Wire encodings
     json       : (n) | (b 0/1) | (f 0/1 txt) | (s str) | (a (items...)) | (o ((key value)...))
     res X      : () = raises, (x) = value
     Z          : atom of decimal digits with an optional leading "-"
     oracle queries carry the invocation tag as first argument. *)
From Coq Require Import ZArith.
From DippyV Require Import Base.Str Base.Sx Model.Statusline Entry.Common.

Fixpoint json_of_sx (x : sx) : json :=
  match x with
  | L [A [98]; b] => JBool (sx_bool b)                                  (* b *)
  | L [A [102]; z; A t] => JNum (sx_bool z) t                           (* f *)
  | L [A [115]; A s] => JStr s                                          (* s *)
  | L [A [97]; L items] => JArr (map json_of_sx items)                  (* a *)
  | L [A [111]; L items] =>                                             (* o *)
      JObj ((fix go (l : list sx) : list (str * json) :=
               match l with
               | [] => []
               | L [A k; v] :: r => (k, json_of_sx v) :: go r
               | _ :: r => go r
               end) items)
  | _ => JNull
  end.

Fixpoint sx_of_json (j : json) : sx :=
  match j with
  | JNull => L [A $"n"]
  | JBool b => L [A $"b"; sx_of_bool b]
  | JNum z t => L [A $"f"; sx_of_bool z; A t]
  | JStr s => L [A $"s"; A s]
  | JArr l => L [A $"a"; L (map sx_of_json l)]
  | JObj kv =>
      L [A $"o"; L ((fix go (l : list (str * json)) : list sx :=
                       match l with
                       | [] => []
                       | (k, v) :: r => L [A k; sx_of_json v] :: go r
                       end) kv)]
  end.

Definition n_of_str (s : str) : N := fold_left (fun acc c => 10 * acc + (c - 48)) s 0.
Definition z_of_str (s : str) : Z :=
  match s with
  | 45 :: r => Z.opp (Z.of_N (n_of_str r))
  | _ => Z.of_N (n_of_str s)
  end.
Definition nat_of_sx (x : sx) : nat := N.to_nat (n_of_str (sx_str x)).

Definition res_of_sx {T} (f : sx -> T) (x : sx) : res T :=
  match x with L [y] => Ok (f y) | _ => Raise end.

Definition fixes_of_sx (x : sx) : fixes :=
  {| fx_guard := sx_bool (sx_nth 0 x); fx_tpstr := sx_bool (sx_nth 1 x); fx_oneline := sx_bool (sx_nth 2 x) |}.

Definition wres_of_sx (x : sx) : wres :=
  let s := sx_str x in
  if str_eqb s $"ok" then WOk else if str_eqb s $"nodir" then WNoDir else if str_eqb s $"noopen" then WNoOpen
  else if str_eqb s $"nowrite" then WNoWrite else WNoRename.

Definition changes_of_sx (x : sx) : changes :=
  match x with
  | L [A k; A a; A r] => if str_eqb k $"dirty" then CDirty a r else CNotRepo
  | L [A k] => if str_eqb k $"clean" then CClean else CNotRepo
  | _ => CNotRepo
  end.

Definition sx_of_stored (s : stored) : sx :=
  match s with
  | SNothing => L [A $"nothing"]
  | STmpLeft t c => L [A $"tmpleft"; A t; A c]
  | SStored p t c => L [A $"stored"; A p; A t; A c]
  end.

Definition sx_of_outcome (o : outcome) : sx :=
  L [sx_of_bool (exit_ok o); A (out o); sx_of_bool (traceback o); sx_of_bool (served o);
     sx_of_stored (store o); sx_of_bool (refresh o)].

Section Orc.
  Variable orc : oracle.

  Definition mk_invocation (x : sx) : invocation :=
    (* (tag pid inp age fs sesc) *)
    let tag := sx_nth 0 x in
    {| i_pid := sx_str (sx_nth 1 x);
       i_sesc := sx_bool (sx_nth 5 x);
       i_inp := opt_of_sx json_of_sx (sx_nth 2 x);
       i_repr := fun j => sx_str (orc (q "repr" [tag; sx_of_json j]));
       i_configured := res_of_sx sx_bool (orc (q "configured" [tag]));
       i_branch := fun cwd => res_of_sx (fun y => (sx_bool (sx_nth 0 y), sx_str (sx_nth 1 y))) (orc (q "branch" [tag; A cwd]));
       i_changes := fun cwd => res_of_sx changes_of_sx (orc (q "changes" [tag; A cwd]));
       i_transcript := fun j => opt_of_sx sx_str (orc (q "transcript" [tag; sx_of_json j]));
       i_pct := fun u size => res_of_sx sx_str (orc (q "pct" [tag; A u; sx_of_json size]));
       i_mcp_local := sx_strs (orc (q "mcp_local" [tag]));
       i_mcp_cache := res_of_sx (fun y => (z_of_str (sx_str (sx_nth 0 y)), sx_str (sx_nth 1 y))) (orc (q "mcp_cache" [tag]));
       i_age := z_of_str (sx_str (sx_nth 3 x));
       i_fs := wres_of_sx (sx_nth 4 x) |}.

  Definition sx_of_rpc (r : rpc) : sx :=
    match r with
    | RIdle => L [A $"idle"]
    | ROpen _ got => L [A $"open"; A got]
    | RDone got => L [A $"done"; A got]
    | RMiss => L [A $"miss"]
    | RDead => L [A $"dead"]
    end.

  Definition ev_of_sx (x : sx) : ev :=
    let k := sx_str (sx_nth 0 x) in
    let a := nat_of_sx (sx_nth 1 x) in
    if str_eqb k $"spawn" then ESpawn a (sx_str (sx_nth 2 x))
    else if str_eqb k $"openw" then EOpenW a
    else if str_eqb k $"write" then EWrite a (nat_of_sx (sx_nth 2 x))
    else if str_eqb k $"closew" then ECloseW a
    else if str_eqb k $"rename" then ERename a
    else if str_eqb k $"killw" then EKillW a
    else if str_eqb k $"openr" then EOpenR a
    else if str_eqb k $"read" then ERead a (nat_of_sx (sx_nth 2 x))
    else if str_eqb k $"closer" then ECloseR a
    else EKillR a.

  Definition variant_of_sx (x : sx) : variant :=
    let s := sx_str x in
    if str_eqb s $"inplace" then InPlace else if str_eqb s $"sharedtmp" then SharedTmp else Protocol.

  Definition entry (cmd : str) (args : list sx) : option sx :=
    let a := arg args in
    if is_cmd cmd "sl_path" then
      (* base pid sid -> (cache_dir (path?) (tmp?)) *)
      let base := sx_str (a 0%nat) in
      let p := get_cache_path base (json_of_sx (a 2%nat)) in
      Some (L [A (cache_dir base); sx_opt A p; sx_opt A (option_map (tmp_of (sx_str (a 1%nat))) p)])
    else if is_cmd cmd "sl_history" then
      (* base files invocations (each: tag pid inp? age fs sesc) fixes=(guard tpstr oneline) *)
      let base := sx_str (a 0%nat) in
      let f0 : files := fun p => (fix look (l : list sx) : option str :=
                                    match l with
                                    | [] => None
                                    | L [A k; A v] :: r => if str_eqb k p then Some v else look r
                                    | _ :: r => look r
                                    end) (sx_list (a 1%nat)) in
      Some (L (map sx_of_outcome (history (fixes_of_sx (a 3%nat)) base f0 (map mk_invocation (sx_list (a 2%nat))))))
    else if is_cmd cmd "sl_run" then
      (* base fixes=(guard tpstr oneline) invocation: a single run against explicit file oracles (age/read/fs queries) *)
      let base := sx_str (a 0%nat) in
      let i := mk_invocation (a 2%nat) in
      let tag := sx_nth 0 (a 2%nat) in
      Some (sx_of_outcome
              (sl_main base (i_pid i) (i_sesc i) (fixes_of_sx (a 1%nat)) (i_repr i) (i_configured i) (i_branch i) (i_changes i) (i_transcript i) (i_pct i)
                   (i_mcp_local i) (i_mcp_cache i)
                   (fun p => res_of_sx (fun y => z_of_str (sx_str y)) (orc (q "age" [tag; A p])))
                   (fun p => res_of_sx sx_str (orc (q "read" [tag; A p])))
                   (fun t p => wres_of_sx (orc (q "fs" [tag; A t; A p])))
                   (i_inp i)))
    else if is_cmd cmd "sl_exec" then
      (* variant c0? events nreaders -> () if some event is not enabled, else ((final?) (reader states) (produced)) *)
      match exec (variant_of_sx (a 0%nat)) (init (opt_of_sx sx_str (a 1%nat))) (map ev_of_sx (sx_list (a 2%nat))) with
      | None => Some (L [])
      | Some s =>
          Some (L [L [sx_opt A (option_map (ino s) (dir s Final));
                      L (map (fun r => sx_of_rpc (rd s r)) (seq 0 (nat_of_sx (a 3%nat))));
                      sx_of_strs (produced s)]])
      end
    else None.
End Orc.
