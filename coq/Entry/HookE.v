(* Entry points of the hook model (dippy.py main): wire adapters only. *)
From Coq Require Import List Bool NArith String.
From DippyV Require Import Base.Str Base.Verdict Base.Sx Base.Tree Model.Hook Model.HookView Model.Tokens Entry.Common.
Import ListNotations.
Open Scope N_scope.

(* json on the wire: (null) (bool b) (num nz) (str s) (arr v...) (obj (k v)...) *)
Fixpoint json_of_sx (x : sx) : json :=
  match x with
  | L (A tag :: rest) =>
      if str_eqb tag $"null" then JNull
      else if str_eqb tag $"bool" then JBool (sx_bool (nth 0%nat rest (L [])))
      else if str_eqb tag $"num" then JNum (sx_bool (nth 0%nat rest (L [])))
      else if str_eqb tag $"str" then JStr (sx_str (nth 0%nat rest (L [])))
      else if str_eqb tag $"arr" then
        JArr ((fix go (l : list sx) : list json :=
                 match l with [] => [] | y :: r => json_of_sx y :: go r end) rest)
      else if str_eqb tag $"obj" then
        JObj ((fix go (l : list sx) : list (str * json) :=
                 match l with
                 | [] => []
                 | L [A k; v] :: r => (k, json_of_sx v) :: go r
                 | _ :: r => go r
                 end) rest)
      else JNull
  | _ => JNull
  end.

Fixpoint sx_of_json (j : json) : sx :=
  match j with
  | JNull => L [A $"null"]
  | JBool b => L [A $"bool"; sx_of_bool b]
  | JNum nz => L [A $"num"; sx_of_bool nz]
  | JStr s => L [A $"str"; A s]
  | JArr l => L (A $"arr" :: (fix go (l : list json) : list sx :=
                                match l with [] => [] | y :: r => sx_of_json y :: go r end) l)
  | JObj kv => L (A $"obj" :: (fix go (l : list (str * json)) : list sx :=
                                 match l with [] => [] | (k, v) :: r => L [A k; sx_of_json v] :: go r end) kv)
  end.

Definition exn_of (name msg : str) : exn :=
  if str_eqb name $"AttributeError" then AttributeError
  else if str_eqb name $"TypeError" then TypeError
  else if str_eqb name $"ValueError" then ValueError
  else if str_eqb name $"KeyError" then KeyError
  else if str_eqb name $"RecursionError" then RecursionError
  else if str_eqb name $"MemoryError" then MemoryError
  else if str_eqb name $"OSError" then OSError
  else if str_eqb name $"RuntimeError" then RuntimeError
  else if str_eqb name $"UnicodeError" then UnicodeError
  else if str_eqb name $"JSONDecodeError" then JSONDecodeError
  else if str_eqb name $"ConfigError" then ConfigError msg
  else if str_eqb name $"KeyboardInterrupt" || str_eqb name $"SystemExit" || str_eqb name $"GeneratorExit"
       then BaseOnly name
  else OtherException name.

(* (ok x) / (raise name msg) *)
Definition res_of_sx {T} (f : sx -> T) (x : sx) : res T :=
  match x with
  | L [A tag; v] => if str_eqb tag $"ok" then Ok (f v) else Raise (OtherException $"?wire")
  | L [A tag; A name; A msg] => if str_eqb tag $"raise" then Raise (exn_of name msg) else Raise (OtherException $"?wire")
  | _ => Raise (OtherException $"?wire")
  end.

Definition rule_of_sx (x : sx) : rule :=
  {| r_decision := sx_str (sx_nth 0 x); r_pattern := sx_str (sx_nth 1 x);
     r_message := opt_of_sx sx_str (sx_nth 2 x); r_exact := sx_bool (sx_nth 3 x) |}.
Definition sx_of_rule (r : rule) : sx :=
  L [A (r_decision r); A (r_pattern r); sx_opt A (r_message r); sx_of_bool (r_exact r)].
Definition config_of_sx (x : sx) : config sx sx :=
  {| c_shell := sx_nth 0 x;
     c_mcp := map rule_of_sx (sx_list (sx_nth 1 x));
     c_after := map rule_of_sx (sx_list (sx_nth 2 x));
     c_after_mcp := map rule_of_sx (sx_list (sx_nth 3 x));
     c_log := sx_nth 4 x |}.

Definition mode_of_sx (x : sx) : option mode :=
  let s := sx_str x in
  if str_eqb s $"claude" then Some Claude else if str_eqb s $"gemini" then Some Gemini
  else if str_eqb s $"cursor" then Some Cursor else None.
Definition sx_of_mode (m : mode) : sx :=
  A (match m with Claude => $"claude" | Gemini => $"gemini" | Cursor => $"cursor" end).

Definition sx_of_exn (e : exn) : sx :=
  match e with
  | AttributeError => A $"AttributeError" | TypeError => A $"TypeError" | ValueError => A $"ValueError"
  | KeyError => A $"KeyError" | RecursionError => A $"RecursionError" | MemoryError => A $"MemoryError"
  | OSError => A $"OSError" | RuntimeError => A $"RuntimeError" | UnicodeError => A $"UnicodeError"
  | JSONDecodeError => A $"JSONDecodeError" | ConfigError _ => A $"ConfigError"
  | OtherException n => A n | BaseOnly n => A n
  end.
Definition sx_of_res {T} (f : T -> sx) (r : res T) : sx :=
  match r with Ok a => L [A $"ok"; f a] | Raise e => L [A $"raise"; sx_of_exn e] end.

Definition sx_of_item (i : item) : sx :=
  match i with J j => L [A $"J"; sx_of_json j] | Text s => L [A $"T"; A s] end.
Definition sx_of_output (o : output) : sx :=
  L [L (map sx_of_item (stdout o));
     A (match exit_code o with O => $"0" | _ => $"1" end);
     sx_of_bool (traceback o)].

Definition environ_of (args : list sx) : environ :=
  {| argv := sx_strs (arg args 0%nat);
     e_claude := opt_of_sx sx_str (arg args 1%nat);
     e_gemini := opt_of_sx sx_str (arg args 2%nat);
     e_cursor := opt_of_sx sx_str (arg args 3%nat) |}.

Section Orc.
  Variable orc : oracle.
  Definition unit_of (_ : sx) : unit := tt.
  Definition o_resolve (s : str) : res str := res_of_sx sx_str (orc (q "resolve" [A s])).
  Definition o_getcwd : res str := res_of_sx sx_str (orc (q "getcwd" [])).
  Definition o_load_config (cwd : str) : res (config sx sx) := res_of_sx config_of_sx (orc (q "load_config" [A cwd])).
  Definition o_configure_logging (g : sx) : res unit := res_of_sx unit_of (orc (q "configure_logging" [g])).
  Definition o_log_decision (d c : str) : res unit := res_of_sx unit_of (orc (q "log_decision" [A d; A c])).
  Definition o_analyze (c : str) (sh : sx) (cwd : str) : res (str * str) :=
    res_of_sx (fun x => (sx_str (sx_nth 0 x), sx_str (sx_nth 1 x))) (orc (q "analyze" [A c; sh; A cwd])).
  Definition o_gmatch (n p : str) : bool := sx_bool (orc (q "gmatch" [A n; A p])).
  Definition o_words (s : str) : list str := sx_strs (orc (q "words" [A s])).
  Definition o_after_prep (sh : sx) (cwd : str) (ws : list str) : res unit :=
    res_of_sx unit_of (orc (q "after_prep" [sh; A cwd; sx_of_strs ws])).
  Definition o_after_rule (sh : sx) (cwd : str) (ws : list str) (r : rule) : res bool :=
    res_of_sx sx_bool (orc (q "after_rule" [sh; A cwd; sx_of_strs ws; sx_of_rule r])).
  Definition o_print (s : str) : res unit := res_of_sx unit_of (orc (q "print" [A s])).

  Definition the_main :=
    main o_resolve o_getcwd o_load_config o_configure_logging o_log_decision o_analyze o_gmatch
         o_words o_after_prep o_after_rule o_print.

  Definition entry (cmd : str) (args : list sx) : option sx :=
    let a := arg args in
    if is_cmd cmd "hook_main" then
      (* setup argv (claude?) (gemini?) (cursor?) stdin *)
      Some (sx_of_output (the_main (res_of_sx unit_of (a 0%nat)) (environ_of (tl args))
                                   (res_of_sx json_of_sx (a 5%nat))))
    else if is_cmd cmd "hook_flags" then
      Some (sx_opt sx_of_mode (detect_mode_from_flags (environ_of args)))
    else if is_cmd cmd "hook_detect" then
      Some (sx_of_res sx_of_mode (detect_mode_from_input (json_of_sx (a 0%nat))))
    else if is_cmd cmd "hook_decode" then
      Some (match mode_of_sx (a 0%nat) with
            | Some m => sx_opt (fun vr => L [sx_of_verdict (fst vr); A (snd vr)]) (decode m (json_of_sx (a 1%nat)))
            | None => A $"?mode"
            end)
    else if is_cmd cmd "hook_conforms" then
      Some (match mode_of_sx (a 0%nat) with
            | Some m => sx_of_bool (conforms m (json_of_sx (a 1%nat)))
            | None => A $"?mode"
            end)
    else if is_cmd cmd "hook_view" then
      (* what main() can observe of a payload (C06_host_view) *)
      Some (sx_of_json (host_view (json_of_sx (a 0%nat))))
    else if is_cmd cmd "hook_tokens" then
      (* _extract_tokens on the serialised AST nodes that parse() returned *)
      Some (sx_of_strs (extract_tokens (map tree_of_sx (sx_list (a 0%nat)))))
    else if is_cmd cmd "hook_strip_quotes" then
      Some (A (strip_quotes (sx_str (a 0%nat))))
    else None.
End Orc.
