(* Entry points of the SQL classifier model and of the reference SQL tokenizer. *)
From DippyV Require Import Base.Str Base.Verdict Base.Sx Gen.Tables Model.Sql Model.SqlSpec Entry.Common.

Definition sx_of_optbool (o : option bool) : sx := sx_opt sx_of_bool o.
Definition sx_of_nat (n : nat) : sx := A (repeat 49 n).      (* unary: n times "1" *)

Definition sx_of_tok (t : tok) : sx :=
  match t with
  | TSpace w => L [A $"space"; A w]
  | TComment w closed => L [A $"comment"; A w; sx_of_bool closed]
  | TStr q w => L [A $"str"; A [q]; A w]
  | TBr w => L [A $"bracket"; A w]
  | TSemi => L [A $"semi"]
  | TWord w => L [A $"word"; A w]
  | TVar w p => L [A $"var"; A w; sx_of_bool p]
  | TOther c => L [A $"other"; A [c]]
  | TIllegal w => L [A $"illegal"; A w]
  end.

(* no oracle is consulted: the model is closed *)
Section Orc.
  Definition entry (_ : oracle) (cmd : str) (args : list sx) : option sx :=
    let a := arg args in
    if is_cmd cmd "sql_strip" then Some (A (strip_quoted (sx_str (a 0%nat))))
    else if is_cmd cmd "sql_multi" then Some (sx_of_bool (has_multiple_statements (sx_str (a 0%nat))))
    else if is_cmd cmd "sql_readonly" then
      Some (sx_of_optbool (is_readonly_sql (sx_strs (a 1%nat)) (sx_strs (a 2%nat)) (sx_str (a 0%nat))))
    else if is_cmd cmd "sql_dialect" then
      let d := sx_str (a 1%nat) in
      let wr := if str_eqb d $"sqlite3" then SQLITE_WRITE else if str_eqb d $"duckdb" then DUCKDB_WRITE
                else if str_eqb d $"psql" then POSTGRES_WRITE else if str_eqb d $"mysql" then MYSQL_WRITE
                else if str_eqb d $"athena" then ATHENA_WRITE else [] in
      Some (sx_of_optbool (is_readonly_sql [] wr (sx_str (a 0%nat))))
    else if is_cmd cmd "sqlite3_classify" then Some (sx_of_verdict (sqlite3_classify (sx_strs (a 0%nat))))
    else if is_cmd cmd "sqlite3_classify_sql" then Some (sx_of_optbool (classify_sql (sx_str (a 0%nat))))
    else if is_cmd cmd "sqlite3_guards" then
      let p := sx_str (a 0%nat) in Some (L [sx_of_bool (tcl_search p); sx_of_bool (shell_fn_search p); sx_of_bool (vacuum_search p)])
    else if is_cmd cmd "sqlite3_parts" then Some (sx_of_strs (sqlite3_parts (tl (sx_strs (a 0%nat))) false))
    else if is_cmd cmd "sql_lex" then Some (L (map sx_of_tok (sql_lex (sx_str (a 0%nat)))))
    else if is_cmd cmd "sql_spec" then
      let ts := sql_lex (sx_str (a 0%nat)) in
      Some (L [sx_of_nat (live_statements ts); sx_of_nat (nonblank_statements ts);
               sx_opt sx_of_tok (first_live ts); sx_of_bool (has_tcl_paren ts)])
    else None.
End Orc.
