(* Entry points of the file-system part of the python-handler model (C17, environment dimension).
   Wire format of a file system: a list of entries
     (path "f" size-in-decimal (tree)?)  regular file, with the dump of ast.parse when it parses
     (path "d")                           directory
     (path "l" target)                    symbolic link
     (path "o")                           anything else (fifo, socket)
   paths are absolute and symlink-free (the harness walks the jail without following links). *)
From DippyV Require Import Base.Str Base.Sx Base.Tree Model.PyArgs Model.PyEnv Entry.Common Entry.PyArgsE.

Definition N_of_dec (s : str) : N := fold_left (fun acc c => acc * 10 + (c - 48)) s 0.

Definition node_of_sx (x : sx) : node :=
  let k := sx_str (sx_nth 1 x) in
  if str_eqb k $"f" then NFile (N_of_dec (sx_str (sx_nth 2 x))) (opt_of_sx tree_of_sx (sx_nth 3 x))
  else if str_eqb k $"d" then NDir
  else if str_eqb k $"l" then NLink (sx_str (sx_nth 2 x))
  else NOther.
Definition fs_of_sx (x : sx) : fsys :=
  map (fun e => (path_comps (sx_str (sx_nth 0 e)), node_of_sx e)) (sx_list x).

Definition sx_of_comps_opt (o : option comps) : sx := sx_opt (fun p => A (render p)) o.
Definition sx_of_stat (o : option node) : sx :=
  A (match o with
     | None => $"none" | Some (NFile _ _) => $"file" | Some NDir => $"dir" | Some (NLink _) => $"link" | Some NOther => $"other"
     end).
Definition sx_of_syspath0 (s : syspath0) : sx :=
  match s with SP_none => L [A $"none"] | SP_dir d => L [A $"dir"; A (render d)] | SP_unresolvable => L [A $"unresolvable"] end.

Definition entry (orc : oracle) (cmd : str) (args : list sx) : option sx :=
  let a := arg args in
  if is_cmd cmd "py_fs_classify" then
    Some (sx_of_pyres (classify_fs (fs_of_sx (a 0%nat)) (opt_of_sx sx_str (a 1%nat)) (sx_str (a 2%nat)) (sx_strs (a 3%nat))))
  else if is_cmd cmd "py_fs_realpath" then Some (sx_of_comps_opt (realpath (fs_of_sx (a 0%nat)) (sx_str (a 1%nat))))
  else if is_cmd cmd "py_fs_stat" then Some (sx_of_stat (stat (fs_of_sx (a 0%nat)) (path_comps (sx_str (a 1%nat)))))
  else if is_cmd cmd "py_fs_analyze" then Some (sx_of_bool (fs_analyze (fs_of_sx (a 0%nat)) (sx_str (a 1%nat))))
  else if is_cmd cmd "py_fs_shadowed" then
    Some (sx_of_bool (shadowed (fs_of_sx (a 0%nat)) (path_comps (sx_str (a 1%nat))) (sx_str (a 2%nat))))
  else if is_cmd cmd "py_fs_local_shadow" then
    Some (sx_of_bool (local_shadow (fs_of_sx (a 0%nat)) (path_comps (sx_str (a 1%nat)))))
  else if is_cmd cmd "py_fs_syspath0" then
    Some (sx_of_syspath0 (py_syspath0 (fs_of_sx (a 0%nat)) (sx_str (a 1%nat)) (sx_strs (a 2%nat))))
  else if is_cmd cmd "py_suffix_ok" then Some (sx_of_bool (suffix_ok (sx_str (a 0%nat))))
  else None.
