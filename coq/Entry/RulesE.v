(* Entry points of the rule-matching models (Fnmatch, Glob2, Paths, Rules). *)
From DippyV Require Import Base.Str Base.Verdict Base.Sx Model.Fnmatch Model.Glob2 Model.Paths Model.Rules Entry.Common.

Definition rule_of_sx (x : sx) : rule :=
  mkRule (verdict_of_sx (sx_nth 0 x)) (sx_str (sx_nth 1 x)) (opt_of_sx sx_str (sx_nth 2 x))
         (sx_bool (sx_nth 3 x)) (sx_str (sx_nth 4 x)).
Definition rules_of_sx (x : sx) : list rule := map rule_of_sx (sx_list x).
Definition sx_of_rule (r : rule) : sx :=
  L [sx_of_verdict (r_dec r); A (r_pat r); sx_opt A (r_msg r); A (r_tag r)].
Definition aliases_of_sx (x : sx) : list (str * str) :=
  map (fun p => (sx_str (sx_nth 0 p), sx_str (sx_nth 1 p))) (sx_list x).

Definition sx_of_kind (k : kind) : sx :=
  A (match k with
     | KUrl => $"url" | KVar => $"variable" | KAbs => $"absolute" | KHome => $"home"
     | KUserHome => $"user_home" | KRel => $"relative" | KBare => $"bare"
     end).

Definition sx_of_g2 (r : g2res) : sx :=
  match r with G2 b => sx_of_bool b | G2Unsupported => A $"unsupported" end.

Section Orc.
  Variable orc : oracle.
  Definition o_resolve1 (p : str) : str := sx_str (orc (q "resolve1" [A p])).
  Definition o_resolve2 (cwd t : str) : str := sx_str (orc (q "resolve2" [A cwd; A t])).
  Definition o_home (u : unit) : str := sx_str (orc (q "home" [])).

  Definition entry (cmd : str) (args : list sx) : option sx :=
    let a := arg args in
    let s n := sx_str (a n) in
    if is_cmd cmd "fnmatch" then
      Some (if fn_error (s 1%nat) then A $"error" else sx_of_bool (fnmatch (s 0%nat) (s 1%nat)))
    else if is_cmd cmd "glob_match" then Some (sx_of_g2 (glob_match (s 0%nat) (s 1%nat)))
    else if is_cmd cmd "glob_matrix" then
      (* (glob_matrix (text ...) (pattern ...)): one row per pattern, one answer per text *)
      let texts := map sx_str (sx_list (a 0%nat)) in
      Some (L (map (fun p => L (map (fun t => sx_of_g2 (glob_match t p)) texts)) (map sx_str (sx_list (a 1%nat)))))
    else if is_cmd cmd "classify_token" then Some (sx_of_kind (classify_gen (sx_bool (a 1%nat)) (s 0%nat)))
    else if is_cmd cmd "norm" then Some (A (norm (s 0%nat)))
    else if is_cmd cmd "has_glob" then Some (sx_of_bool (has_glob (s 0%nat)))
    else if is_cmd cmd "normalize_path" then
      Some (A (normalize_path o_resolve1 o_resolve2 (o_home tt) (s 0%nat) (s 1%nat)))
    else if is_cmd cmd "normalize_redirect_pattern" then
      Some (A (normalize_redirect_pattern o_resolve1 o_resolve2 (o_home tt) (s 0%nat) (s 1%nat)))
    else if is_cmd cmd "expand_token" then
      (* cwd token force_path *)
      Some (A (expand_token o_resolve1 o_resolve2 (o_home tt) (s 0%nat) (sx_bool (a 2%nat)) (s 1%nat)))
    else if is_cmd cmd "normalize_words" then
      Some (A (normalize_words o_resolve1 o_resolve2 (o_home tt) (s 0%nat) (sx_strs (a 1%nat))))
    else if is_cmd cmd "normalize_pattern" then
      Some (A (normalize_pattern o_resolve1 o_resolve2 (o_home tt) (s 0%nat) (s 1%nat)))
    else if is_cmd cmd "resolve_alias" then
      (* cwd word aliases *)
      Some (A (resolve_alias o_resolve1 o_resolve2 (o_home tt) (aliases_of_sx (a 2%nat)) (s 0%nat) (s 1%nat)))
    else if is_cmd cmd "pat_matches" then
      (* normalised-pattern exact normalised-command *)
      Some (if fn_error (s 0%nat) then A $"error" else sx_of_bool (pat_matches (s 0%nat) (sx_bool (a 1%nat)) (s 2%nat)))
    else if is_cmd cmd "expand_home_only" then Some (A (expand_home_only (o_home tt) (s 0%nat)))
    else if is_cmd cmd "split_py" then Some (L (map A (split_py (s 0%nat))))
    else if is_cmd cmd "nf" then
      (* home cwd spelling: the specification side of C09 (no oracle) *)
      Some (A (nf (s 0%nat) (s 1%nat) (s 2%nat)))
    else if is_cmd cmd "match_words" then
      (* cwd remote words rules aliases *)
      Some (sx_opt sx_of_rule
              (match_words o_resolve1 o_resolve2 (o_home tt) (aliases_of_sx (a 4%nat)) (rules_of_sx (a 3%nat))
                           (s 0%nat) (sx_bool (a 1%nat)) (sx_strs (a 2%nat))))
    else if is_cmd cmd "match_redirect" then
      (* cwd target rrules *)
      let rr := rules_of_sx (a 2%nat) in
      if redirect_supported o_resolve1 o_resolve2 (o_home tt) rr (s 0%nat) (s 1%nat) then
        Some (sx_opt sx_of_rule (match_redirect o_resolve1 o_resolve2 (o_home tt) rr (s 0%nat) (s 1%nat)))
      else Some (A $"unsupported")
    else if is_cmd cmd "match_command" then
      (* cwd remote words redirects rules rrules aliases *)
      let rr := rules_of_sx (a 5%nat) in
      if sx_bool (a 1%nat)
         || forallb (redirect_supported o_resolve1 o_resolve2 (o_home tt) rr (s 0%nat)) (sx_strs (a 3%nat)) then
        Some (sx_opt sx_of_rule
                (match_command o_resolve1 o_resolve2 (o_home tt) (aliases_of_sx (a 6%nat)) (rules_of_sx (a 4%nat)) rr
                               (s 0%nat) (sx_bool (a 1%nat)) (sx_strs (a 2%nat)) (sx_strs (a 3%nat))))
      else Some (A $"unsupported")
    else if is_cmd cmd "match_after" then
      (* cwd words arules aliases *)
      Some (sx_opt A (match_after o_resolve1 o_resolve2 (o_home tt) (aliases_of_sx (a 3%nat)) (rules_of_sx (a 2%nat))
                                  (s 0%nat) (sx_strs (a 1%nat))))
    else if is_cmd cmd "match_mcp" then Some (sx_opt sx_of_rule (match_mcp (rules_of_sx (a 1%nat)) (s 0%nat)))
    else if is_cmd cmd "match_after_mcp" then Some (sx_opt A (match_after_mcp (rules_of_sx (a 1%nat)) (s 0%nat)))
    else None.
End Orc.
