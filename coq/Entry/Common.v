(* Helpers shared by the per-model entry points (wire format adapters). *)
From DippyV Require Import Base.Str Base.Verdict Base.Sx.

Definition q (name : string) (args : list sx) : sx := L (A (s2l name) :: args).
Definition arg (args : list sx) (n : nat) : sx := nth n args (L []).
Definition is_cmd (cmd : str) (name : string) : bool := str_eqb cmd (s2l name).

(* try the entry points of the models in turn *)
Fixpoint first_some (l : list (option sx)) : sx :=
  match l with
  | [] => A $"?unknown-entry"
  | Some x :: _ => x
  | None :: r => first_some r
  end.
