(* Entry points of the process-state model (C18): handler modules are their own names (load = id),
   an analysis is the list of modules it consults plus its result. *)
From DippyV Require Import Base.Str Base.Verdict Base.Sx Model.Cache Model.PairWalk Entry.Common.

Definition is (x : sx) (name : string) : bool := str_eqb (sx_str x) (s2l name).
Definition hmode_of_sx (x : sx) : hmode := if is x "gemini" then HGemini else if is x "cursor" then HCursor else HClaude.
Definition sx_of_hmode (m : hmode) : sx := A (match m with HClaude => $"claude" | HGemini => $"gemini" | HCursor => $"cursor" end).

Definition input := (list str * (verdict * str))%type.
Fixpoint prog_of (ms : list str) (a : verdict * str) : prog str :=
  match ms with [] => Done a | m :: r => Get m (fun _ => prog_of r a) end.
Definition analysis (x : input) : prog str := prog_of (fst x) (snd x).
Definition load (m : str) : str := m.

Definition input_of (names v reason : sx) : input := (sx_strs names, (verdict_of_sx v, sx_str reason)).
Definition log_of (x : sx) : option (str * bool) :=
  match x with L [L [A p; b]] => Some (p, sx_bool b) | _ => None end.
Definition query_of (x : sx) : query input :=
  match x with
  | L (t :: args) =>
      let a := arg args in
      if is t "analyze" then QAnalyze (input_of (a 0%nat) (a 1%nat) (a 2%nat))
      else if is t "main" then
        QMain (hmode_of_sx (a 0%nat)) (input_of (a 1%nat) (a 2%nat) (a 3%nat)) (log_of (a 4%nat))
              (sx_bool (a 5%nat)) (sx_bool (a 6%nat))
      else if is t "check" then QCheck (input_of (a 0%nat) (a 1%nat) (a 2%nat))
      else if is t "setmode" then QSetMode (hmode_of_sx (a 0%nat))
      else if is t "configure" then QConfigure (log_of (a 0%nat)) (sx_bool (a 1%nat))
      else QLogDecision (sx_bool (a 0%nat))
  | _ => QLogDecision false
  end.
Definition sx_of_answer (a : answer) : sx :=
  match a with
  | AVerdict (v, r) => L [A $"verdict"; sx_of_verdict v; A r]
  | AEnvelope m (v, r) => L [A $"envelope"; sx_of_hmode m; sx_of_verdict v; A r]
  | AUnit => L [A $"unit"]
  end.

Definition sx_of_comp (c : comp) : sx :=
  A (match c with CLru => $"lru" | CMode => $"mode" | CLogCfg => $"logcfg" | CLogDis => $"logdis" end).

Fixpoint run_hist (explicit : option hmode) (s : state str) (h : list (query input)) : list answer * state str :=
  match h with
  | [] => ([], s)
  | q :: r =>
      let (s1, a) := step str load input analysis explicit s q in
      let (as_, s2) := run_hist explicit s1 r in (a :: as_, s2)
  end.

Definition entry (orc : oracle) (cmd : str) (args : list sx) : option sx :=
  let a := arg args in
  if is_cmd cmd "lru_trace" then
    let (hits, c) := trace str load [] (sx_strs (a 0%nat)) in
    Some (L [L (map sx_of_bool hits); sx_of_strs (map fst c)])
  else if is_cmd cmd "cache_hist" then
    let explicit := opt_of_sx hmode_of_sx (a 0%nat) in
    let (answers, s) := run_hist explicit (init str explicit) (map query_of (sx_list (a 1%nat))) in
    Some (L [L (map sx_of_answer answers); sx_of_strs (map fst (lru str s)); sx_of_hmode (mode str s);
             sx_of_bool (match logcfg str s with Some _ => true | None => false end); sx_of_bool (logdis str s)])
  else if is_cmd cmd "cache_residue" then
    (* per call of the history: the components of the process state the model says it changes *)
    let explicit := opt_of_sx hmode_of_sx (a 0%nat) in
    Some (L (map (fun cs => L (map sx_of_comp cs))
                 (residues str load input analysis explicit (init str explicit) (map query_of (sx_list (a 1%nat))))))
  else if is_cmd cmd "cache_effects" then
    (* per call of the history: where it appends a decision-log line, and the log-full flag of that line *)
    let explicit := opt_of_sx hmode_of_sx (a 0%nat) in
    Some (L (map (fun e => match e with Some (p, f) => L [A p; sx_of_bool f] | None => L [] end)
                 (effects str load input analysis explicit (init str explicit) (map query_of (sx_list (a 1%nat))))))
  else if is_cmd cmd "pair_walk" then
    (* the walk over a pool of n queries; n and the indices travel as one code point each *)
    Some (L (map (fun k => A [N.of_nat k]) (pair_walk (match sx_str (a 0%nat) with c :: _ => N.to_nat c | [] => 0%nat end))))
  else if is_cmd cmd "pair_block" then
    (* one block of the walk (pair_walk n = the blocks 0 .. n-1 one after the other, by definition): for big pools *)
    let num x := match sx_str x with c :: _ => N.to_nat c | [] => 0%nat end in
    Some (L (map (fun k => A [N.of_nat k]) (block (num (a 0%nat)) (num (a 1%nat)))))
  else None.
