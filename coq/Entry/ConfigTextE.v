(* Entry points of the config-text model (C11, C14 parse half). *)
From DippyV Require Import Base.Str Base.Verdict Base.Sx Model.ConfigText Entry.Common.

Section Orc.
  Variable orc : oracle.

  (* oracle "expanduser" v  ->  (ok path) | (runtime) | (value) *)
  Definition o_expu (v : str) : eu_result :=
    match orc (q "expanduser" [A v]) with
    | L [A t; A p] => if str_eqb t $"ok" then EUOk p else EURuntime
    | L [A t] => if str_eqb t $"value" then EUValue else EURuntime
    | _ => EURuntime
    end.

  Definition sx_rule (r : rule) : sx :=
    L [A (r_decision r); A (r_pattern r); sx_opt A (r_message r); sx_of_bool (r_exact r)].
  Definition sx_rules (l : list rule) : sx := L (map sx_rule l).
  Definition sx_exn (e : exn) : sx :=
    L [A $"exn"; A (match e with ValueError => $"ValueError" | IndexError => $"IndexError" | RuntimeError => $"RuntimeError" end)].
  Definition sx_config (c : config) : sx :=
    L [A $"ok"; sx_rules (c_rules c); sx_rules (c_redirect c); sx_rules (c_after c); sx_rules (c_mcp c);
       sx_rules (c_after_mcp c); L (map (fun kv => L [A (fst kv); A (snd kv)]) (c_aliases c));
       A (c_default c); sx_opt A (c_log c); sx_of_bool (c_log_full c)].
  Definition sx_res_config (r : res config) : sx := match r with Ok c => sx_config c | Exn e => sx_exn e end.

  Definition sx_listid (l : listid) : sx :=
    A (match l with LRules => $"rules" | LRedirect => $"redirect_rules" | LAfter => $"after_rules"
               | LMcp => $"mcp_rules" | LAfterMcp => $"after_mcp_rules" end).
  Definition sx_effect (e : effect) : sx :=
    match e with
    | ERule l r => L [A $"rule"; sx_listid l; sx_rule r]
    | EAlias k v => L [A $"alias"; A k; A v]
    | ESet SLogFull => L [A $"set"; A $"log_full"]
    | ESet (SDefault v) => L [A $"set"; A $"default"; A v]
    | ESet (SLog p) => L [A $"set"; A $"log"; A p]
    end.

  Definition home_of (x : sx) : option str := opt_of_sx sx_str x.
  Definition msg_of (x : sx) : option str := opt_of_sx sx_str x.

  (* a layer on the wire: (kind text) with kind in text/absent/permission/oserror/decode/other *)
  Definition layer_of (x : sx) : read_result :=
    let k := sx_str (sx_nth 0 x) in
    if str_eqb k $"text" then RText (sx_str (sx_nth 1 x))
    else if str_eqb k $"permission" then RPermission
    else if str_eqb k $"oserror" then ROSError
    else if str_eqb k $"decode" then RDecode
    else if str_eqb k $"other" then ROther
    else RAbsent.
  Definition sx_stage (a : stage_answer) : sx :=
    match a with
    | AnswerAsk => L [A $"ask"]
    | AnswerDefer => L [A $"defer"]
    | Analyse cs => L [A $"analyse"; L (map sx_config cs)]
    end.

  Definition entry (cmd : str) (args : list sx) : option sx :=
    let a := arg args in
    if is_cmd cmd "cfg_parse" then
      Some (sx_res_config (parse_config (home_of (a 0%nat)) o_expu (sx_str (a 1%nat))))
    else if is_cmd cmd "cfg_legacy_parse" then
      Some (sx_res_config (legacy_parse_config (home_of (a 0%nat)) o_expu (sx_str (a 1%nat))))
    else if is_cmd cmd "cfg_step" then
      Some (match step (home_of (a 0%nat)) o_expu true (sx_str (a 1%nat)) with
            | Ok None => L [A $"skip"]
            | Ok (Some e) => sx_effect e
            | Exn e => sx_exn e
            end)
    else if is_cmd cmd "cfg_write" then
      Some (match find_dir (sx_str (a 0%nat)) rule_dirs with
            | Some sp => L [A (write_rule sp (sx_str (a 1%nat)) (sx_bool (a 2%nat)) (msg_of (a 3%nat)));
                            sx_of_bool (wf_rule (home_of (a 4%nat)) sp (sx_str (a 1%nat)) (sx_bool (a 2%nat)) (msg_of (a 3%nat)))]
            | None => L []
            end)
    else if is_cmd cmd "cfg_stage" then
      Some (sx_stage (config_stage (home_of (a 0%nat)) o_expu (map layer_of (sx_list (a 1%nat)))))
    else if is_cmd cmd "cfg_unescape" then Some (A (unescape (sx_str (a 0%nat))))
    else if is_cmd cmd "cfg_escape" then Some (A (escape (sx_str (a 0%nat))))
    else if is_cmd cmd "cfg_extract" then
      Some (match extract_message (sx_str (a 0%nat)) with
            | Ok (p, m) => L [A $"ok"; A p; sx_opt A m]
            | Exn e => sx_exn e
            end)
    else if is_cmd cmd "cfg_fn" then
      (* function-level ties: (cfg_fn NAME optHOME (s1 s2 ...)) applies one helper of the model to every string *)
      let name := sx_str (a 0%nat) in
      let home := home_of (a 1%nat) in
      let strs := map sx_str (sx_list (a 2%nat)) in
      let sx_res {T} (f : T -> sx) (r : res T) : sx := match r with Ok x => L [A $"ok"; f x] | Exn e => sx_exn e end in
      if str_eqb name $"unescape" then Some (L (map (fun s => A (unescape s)) strs))
      else if str_eqb name $"extract" then
        Some (L (map (fun s => sx_res (fun pm => L [A (fst pm); sx_opt A (snd pm)]) (extract_message s)) strs))
      else if str_eqb name $"anchor" then
        Some (L (map (fun s => let pe := strip_exact_anchor s in L [A (fst pe); sx_of_bool (snd pe)]) strs))
      else if str_eqb name $"classify" then
        Some (L (map (fun s => A (match classify_token s with
                                  | KUrl => $"url" | KVariable => $"variable" | KAbsolute => $"absolute" | KHome => $"home"
                                  | KUserHome => $"user_home" | KRelative => $"relative" | KBare => $"bare" end)) strs))
      else if str_eqb name $"tildes" then Some (L (map (fun s => sx_res A (expand_tildes home s)) strs))
      else if str_eqb name $"setting" then Some (L (map (fun s => sx_res sx_effect (apply_setting o_expu true s)) strs))
      else if str_eqb name $"line" then
        Some (L (map (fun s => sx_res (sx_opt sx_effect) (step home o_expu true s)) strs))
      else None
    else None.
End Orc.
