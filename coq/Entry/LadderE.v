(* Entry point of the decision-ladder model. *)
From DippyV Require Import Base.Str Base.Verdict Base.Sx Base.Tree Model.Walker Model.Ladder Entry.Common Entry.WalkerE.

Section Orc.
  Variable orc : oracle.
  Definition o_mcmd (c : ctx) (ws : list str) : option verdict :=
    opt_of_sx verdict_of_sx (orc (q "mcmd" (sx_ctx c ++ [sx_of_strs ws]))).
  (* answer: () = no handler, or ((action inner (targets...) remote handles_help)) *)
  Definition hres_of_sx (x : sx) : hres :=
    let a := sx_nth in
    {| h_action := if str_eqb (sx_str (a 0%nat x)) $"allow" then HAllow
                   else if str_eqb (sx_str (a 0%nat x)) $"delegate" then HDelegate else HAsk;
       h_inner := sx_str (a 1%nat x);
       h_targets := sx_strs (a 2%nat x);
       h_remote := sx_bool (a 3%nat x);
       h_handles_help := sx_bool (a 4%nat x) |}.
  Definition o_handler (c : ctx) (ws : list str) : option hres :=
    opt_of_sx hres_of_sx (orc (q "handler" (sx_ctx c ++ [sx_of_strs ws]))).

  Definition the_ladder := ladder o_mcmd o_handler (o_mredir orc) (o_astr orc).

  Definition entry (cmd : str) (args : list sx) : option sx :=
    let a := arg args in
    if is_cmd cmd "ladder" then
      Some (sx_of_verdict (the_ladder (sx_str (a 0%nat), sx_bool (a 1%nat)) (sx_strs (a 2%nat))))
    else if is_cmd cmd "is_help" then Some (sx_of_bool (is_help (sx_strs (a 0%nat))))
    else None.
End Orc.
