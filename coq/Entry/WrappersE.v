(* Entry points of the quoting, getopt and wrapper models (C04, C13). *)
From DippyV Require Import Base.Str Base.Verdict Base.Sx Model.BashQuote Model.Getopt Model.Wrappers Model.WrapSpec Entry.Common.

Definition sx_of_cls (c : cls) : sx :=
  match c with
  | CAllow => L [A $"allow"]
  | CAsk => L [A $"ask"]
  | CDelegate s r => L [A $"delegate"; A s; sx_of_bool r]
  end.
Definition cls_of_sx (x : sx) : cls :=
  match x with
  | L [A k] => if str_eqb k $"allow" then CAllow else CAsk
  | L [A k; A s; b] => if str_eqb k $"delegate" then CDelegate s (sx_bool b) else CAsk
  | _ => CAsk
  end.
Definition sx_of_hres (h : hres) : sx :=
  match h with
  | HAllow => L [A $"allow"]
  | HAsk => L [A $"ask"]
  | HWords cs r => L [A $"words"; L (map sx_of_strs cs); sx_of_bool r]
  | HString s => L [A $"string"; A s]
  end.

Definition sx_of_shell (o : option shell_act) : sx :=
  match o with
  | None => L []
  | Some (SString s) => L [A $"string"; A s]
  | Some (SFile f) => L [A $"file"; A f]
  | Some SStdin => L [A $"stdin"]
  | Some SNothing => L [A $"nothing"]
  end.

Section Orc.
  Variable orc : oracle.
  Definition o_astr (remote : bool) (s : str) : verdict :=
    verdict_of_sx (orc (q "astr" [sx_of_bool remote; A s])).

  Definition sx_of_execs (o : option (list (list str))) : sx :=
    sx_opt (fun l => L (map sx_of_strs l)) o.

  Definition entry (cmd : str) (args : list sx) : option sx :=
    let a := arg args in
    if is_cmd cmd "bash_quote" then Some (A (bash_quote (sx_str (a 0%nat))))
    else if is_cmd cmd "bash_join" then Some (A (bash_join (sx_strs (a 0%nat))))
    else if is_cmd cmd "bash_words" then Some (sx_opt sx_of_strs (bash_words (sx_str (a 0%nat))))
    else if is_cmd cmd "reread" then Some (A (reread (sx_str (a 0%nat))))
    else if is_cmd cmd "classify" then
      Some (sx_opt (fun h => L [sx_of_hres h; sx_of_cls (render h)]) (modelled (sx_strs (a 0%nat))))
    else if is_cmd cmd "hverdict" then
      Some (sx_opt (fun h => sx_of_verdict (hverdict o_astr h)) (modelled (sx_strs (a 0%nat))))
    else if is_cmd cmd "wexec" then Some (sx_of_execs (wrapper_exec (sx_strs (a 0%nat))))
    else if is_cmd cmd "shell_exec" then Some (sx_of_shell (shell_exec (sx_strs (a 0%nat))))
    else None.
End Orc.
