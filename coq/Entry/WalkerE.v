(* Entry points of the walker and raw-scanner models. *)
From DippyV Require Import Base.Str Base.Verdict Base.Sx Base.Tree Model.RawScan Model.Walker Model.Cover Entry.Common.

Definition sx_ctx (c : ctx) : list sx := [A (fst c); sx_of_bool (snd c)].

Section Orc.
  Variable orc : oracle.
  Definition o_simple (c : ctx) (ws : list str) : verdict := verdict_of_sx (orc (q "simple" (sx_ctx c ++ [sx_of_strs ws]))).
  Definition o_astr (c : ctx) (s : str) : verdict := verdict_of_sx (orc (q "astr" (sx_ctx c ++ [A s]))).
  Definition o_mredir (cwd tgt : str) : option verdict := opt_of_sx verdict_of_sx (orc (q "mredir" [A cwd; A tgt])).
  Definition o_cdres (cwd tgt : str) : str := sx_str (orc (q "cdres" [A cwd; A tgt])).
  Definition o_injrisk (c : ctx) (ws : list str) : bool := sx_bool (orc (q "injrisk" (sx_ctx c ++ [sx_of_strs ws]))).

  Definition o_rulematch (c : ctx) (ws : list str) : bool := sx_bool (orc (q "rulematch" (sx_ctx c ++ [sx_of_strs ws]))).

  Definition the_walk := walk o_simple o_astr o_mredir o_cdres o_injrisk o_rulematch.
  Definition the_analyze_nodes := analyze_nodes o_simple o_astr o_mredir o_cdres o_injrisk o_rulematch.

  Definition sx_of_raw (r : raw_result) : sx :=
    match r with
    | RNone => L [A $"none"]
    | RComplex => L [A $"complex"]
    | RSubs l => L [A $"subs"; sx_of_strs l]
    end.

  Definition entry (cmd : str) (args : list sx) : option sx :=
    let a := arg args in
    if is_cmd cmd "walk" then
      Some (sx_of_verdict (the_walk (sx_str (a 0%nat), sx_bool (a 1%nat)) (tree_of_sx (a 2%nat))))
    else if is_cmd cmd "analyze_nodes" then
      Some (sx_of_verdict (the_analyze_nodes (sx_str (a 0%nat), sx_bool (a 1%nat))
                             (opt_of_sx (fun x => map tree_of_sx (sx_list x)) (a 2%nat))))
    else if is_cmd cmd "analyze_text" then
      (* the whole of analyze(): prelude in the model, the parser an oracle *)
      let o_parse (text : str) : option (list tree) := opt_of_sx (fun x => map tree_of_sx (sx_list x)) (orc (q "parse" [A text])) in
      Some (sx_of_verdict (analyze_text o_simple o_astr o_mredir o_cdres o_injrisk o_rulematch o_parse
                             (sx_str (a 0%nat), sx_bool (a 1%nat)) (sx_str (a 2%nat))))
    else if is_cmd cmd "scan_raw" then Some (sx_of_raw (scan_raw (sx_str (a 0%nat))))
    else if is_cmd cmd "fn" then
      (* function-level ties: (fn <name> (s1 s2 ...)) applies one pure helper of the model to every string *)
      let name := sx_str (a 0%nat) in
      let strs := map sx_str (sx_list (a 1%nat)) in
      let unary (n : nat) : str := repeat 49 n in
      if str_eqb name $"unclosed_arith" then Some (L (map (fun s => sx_of_bool (unclosed_arith s)) strs))
      else if str_eqb name $"count_openers" then Some (L (map (fun s => A (unary (count_openers s))) strs))
      else if str_eqb name $"strip_quotes" then Some (L (map (fun s => A (strip_quotes s)) strs))
      else if str_eqb name $"is_assignment" then Some (L (map (fun s => sx_of_bool (is_assignment s)) strs))
      else if str_eqb name $"strip_fd_prefix" then Some (L (map (fun s => A (strip_fd_prefix s)) strs))
      else if str_eqb name $"sets_execution_var" then Some (L (map (fun s => sx_of_bool (sets_execution_var s)) strs))
      else if str_eqb name $"analyze_prelude" then Some (L (map (fun s => match analyze_prelude s with Some t => L [A t] | None => L [] end) strs))
      else if str_eqb name $"has_inert_opener" then Some (L (map (fun s => sx_of_bool (has_inert_opener s)) strs))
      else if str_eqb name $"plain_raw" then Some (L (map (fun s => sx_of_bool (plain_raw s)) strs))
      else if str_eqb name $"scan_raw" then Some (L (map (fun s => sx_of_raw (scan_raw s)) strs))
      else if str_eqb name $"written_rule" then
        (* first character: match_redirect's answer (A allow, K ask, D deny, anything else: no rule) *)
        let dec (c : N) : option verdict := if N.eqb c 65 then Some Allow else if N.eqb c 75 then Some Ask else if N.eqb c 68 then Some Deny else None in
        let enc (v : option verdict) : str := match v with Some Allow => [65] | Some Ask => [75] | Some Deny => [68] | None => [78] end in
        Some (L (map (fun s => match s with c :: t => A (enc (written_rule (dec c) t)) | [] => A [78] end) strs))
      else None
    else if is_cmd cmd "coverage" then
      (* unary counts: (executable nodes in the tree, executable nodes reached by the specification) *)
      let p := coverage (tree_of_sx (a 0%nat)) in
      Some (L [A (repeat 49 (fst p)); A (repeat 49 (snd p))])
    else None.
End Orc.
