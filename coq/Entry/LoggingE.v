(* Entry points of the logging model (C15). *)
From DippyV Require Import Base.Str Base.Verdict Base.Sx Model.Logging Entry.Common.

Definition sx_nat (x : sx) : nat := match x with A [k] => N.to_nat k | _ => O end.
Definition sx_of_nat (k : nat) : sx := A [N.of_nat k].
Definition is (x : sx) (name : string) : bool := str_eqb (sx_str x) (s2l name).

Definition exn_of_sx (x : sx) : exn :=
  if is x "os" then EOS else if is x "value" then EValue else if is x "runtime" then ERuntime else EOther.
Definition site_eqb (a b : site) : bool :=
  match a, b with
  | SetupMkdir, SetupMkdir | SetupOpen, SetupOpen | Emit, Emit | Expand, Expand
  | CfgMkdir, CfgMkdir | DecOpen, DecOpen | DecWrite, DecWrite => true
  | _, _ => false
  end.
Definition site_of_sx (x : sx) : option site :=
  if is x "setup_mkdir" then Some SetupMkdir else if is x "setup_open" then Some SetupOpen
  else if is x "emit" then Some Emit else if is x "expand" then Some Expand
  else if is x "cfg_mkdir" then Some CfgMkdir else if is x "dec_open" then Some DecOpen
  else if is x "dec_write" then Some DecWrite else None.
(* a fault table: (site k exn); k = "*" means every operation at that site *)
Fixpoint faults_of (l : list sx) : faults :=
  fun s k =>
    match l with
    | [] => None
    | L [xs; xk; xe] :: r =>
        match site_of_sx xs with
        | Some s' =>
            if site_eqb s s' && (is xk "*" || Nat.eqb (sx_nat xk) k) then Some (exn_of_sx xe) else faults_of r s k
        | None => faults_of r s k
        end
    | _ :: r => faults_of r s k
    end.

Definition sx_of_site (x : site) : sx :=
  A (match x with
     | SetupMkdir => $"setup_mkdir" | SetupOpen => $"setup_open" | Emit => $"emit" | Expand => $"expand"
     | CfgMkdir => $"cfg_mkdir" | DecOpen => $"dec_open" | DecWrite => $"dec_write" end).
Definition mode_of_sx (x : sx) : mode := if is x "gemini" then Gemini else if is x "cursor" then Cursor else Claude.
Definition sx_of_mode (m : mode) : sx := A (match m with Claude => $"claude" | Gemini => $"gemini" | Cursor => $"cursor" end).
Definition cfg_ev_of (x : sx) : cfg_ev :=
  match x with
  | L [t; A p] => if is t "setlog" then CSetLog p else CWarn
  | L [t] => if is t "setlogfull" then CSetLogFull else CWarn
  | _ => CWarn
  end.
Definition opt_str (x : sx) : option str := opt_of_sx sx_str x.
Definition route_of (x : sx) : route :=
  match x with
  | L (t :: args) =>
      let a := arg args in
      if is t "mcp_bypass" then RMcpBypass (sx_str (a 0%nat))
      else if is t "mcp_post" then RMcpPost (opt_str (a 0%nat))
      else if is t "mcp_none" then RMcpNone
      else if is t "mcp" then RMcp (verdict_of_sx (a 0%nat)) (sx_str (a 1%nat)) (sx_str (a 2%nat))
      else if is t "not_shell" then RNotShell
      else if is t "bypass" then RBypass (sx_str (a 0%nat)) (sx_str (a 1%nat))
      else if is t "post" then RPost (opt_str (a 0%nat))
      else if is t "check" then RCheck (sx_str (a 0%nat)) (verdict_of_sx (a 1%nat)) (sx_str (a 2%nat))
      else RRaise
  | _ => RRaise
  end.
Definition hin_of (x : sx) : hin :=
  let a := arg (sx_list x) in
  {| h_json_ok := sx_bool (a 0%nat); h_explicit := sx_bool (a 1%nat); h_mode := mode_of_sx (a 2%nat);
     h_unknown_tool := sx_bool (a 3%nat); h_cfg := map cfg_ev_of (sx_list (a 4%nat));
     h_cfg_error := sx_bool (a 5%nat); h_route := route_of (a 6%nat) |}.

Definition sx_of_level (l : level) : sx := A (match l with Info => $"INFO" | Warning => $"WARNING" | Error => $"ERROR" end).
Definition sx_of_outv (o : outv) : sx :=
  match o with
  | OEmpty => L [A $"empty"]
  | OEnv m v r => L [A $"env"; sx_of_mode m; sx_of_verdict v; A r]
  | OMsg s => L [A $"msg"; A s]
  end.
Definition sx_of_result (r : result) : sx :=
  L [L (map sx_of_outv (r_stdout r)); sx_of_nat (r_exit r); sx_of_strs (r_declog r);
     L (map sx_of_level (r_applog r)); L (map sx_of_level (r_stderr r)); sx_of_nat (r_tracebacks r);
     L (map sx_of_site (r_ops r))].

Definition pair_of (x : sx) : str * str := (sx_str (sx_nth 0 x), sx_str (sx_nth 1 x)).

Definition entry (orc : oracle) (cmd : str) (args : list sx) : option sx :=
  let a := arg args in
  if is_cmd cmd "hook_run" then
    let C := if is (a 0%nat) "legacy" then legacy else if is (a 0%nat) "loud" then loud else if is (a 0%nat) "current" then current else head in
    Some (sx_of_result (hook_run C (faults_of (sx_list (a 1%nat))) (sx_str (a 2%nat)) (hin_of (a 3%nat))))
  else if is_cmd cmd "hook_nolog" then Some (sx_of_result (run_nolog (hin_of (a 0%nat))))
  else if is_cmd cmd "log_entry" then
    (* config.log_decision as a function: the line for (log-full, decision, cmd, rule?, message?, command?, ts) *)
    let o x := opt_of_sx sx_str x in
    Some (A (jline (entry (sx_bool (a 0%nat)) (sx_str (a 1%nat)) (sx_str (a 2%nat)) (o (a 3%nat)) (o (a 4%nat)) (o (a 5%nat)) (sx_str (a 6%nat)))))
  else if is_cmd cmd "json_line" then Some (A (jline (map pair_of (sx_list (a 0%nat)))))
  else if is_cmd cmd "read_line" then
    Some (sx_opt (fun ps => L (map (fun kv => L [A (fst kv); A (snd kv)]) ps)) (read_line (sx_str (a 0%nat))))
  else if is_cmd cmd "lines_of" then
    let (ls, t) := lines_of (sx_str (a 0%nat)) in Some (L [sx_of_strs ls; A t])
  else if is_cmd cmd "append_exec" then
    let progs := map sx_strs (sx_list (a 0%nat)) in
    Some (A (bytes (exec (fun p => nth p progs []) (map sx_nat (sx_list (a 1%nat))))))
  else None.
