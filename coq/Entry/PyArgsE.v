(* Entry points of the python-handler model (C17). *)
From DippyV Require Import Base.Str Base.Sx Base.Tree Model.PyArgs Entry.Common.

Definition vk_name (k : vk) : str :=
  match k with
  | KImportDangerous => $"import-dangerous" | KImportUnknown => $"import-unknown"
  | KImportRelative => $"import-relative" | KImportName => $"import-name" | KShadow => $"import-shadow"
  | KBuiltin => $"builtin" | KMethod => $"method"
  | KReflAttr => $"reflection-attr" | KEscapeAttr => $"reflection-escape" | KReflName => $"reflection-name"
  | KAsyncDef => $"async-def" | KAwait => $"await" | KWithOpen => $"io" | KRaise => $"raise"
  end.
Definition sx_of_viol (v : viol) : sx := L [A (vk_name (fst v)); A (snd v)].

(* naturals in unary: "111" = 3 *)
Definition sx_of_nat (n : nat) : sx := A (repeat 49 n).
Definition sx_of_fl (fl : pyflags) : list sx :=
  [sx_of_bool (fl_version fl); sx_of_bool (fl_inspect fl); sx_of_bool (fl_skip1 fl)].
Definition sx_of_pyrun (r : pyrun) : sx :=
  match r with
  | RUsageError => L [A $"error"]
  | RInfo => L [A $"info"]
  | RCommand i c fl => L (A $"command" :: sx_of_nat i :: A c :: sx_of_fl fl)
  | RModule i m fl => L (A $"module" :: sx_of_nat i :: A m :: sx_of_fl fl)
  | RFile i fl => L (A $"file" :: sx_of_nat i :: sx_of_fl fl)
  | RStdin fl => L (A $"stdin" :: sx_of_fl fl)
  end.
Definition sx_of_pyres (r : pyres) : sx :=
  A (match r with PAllow => $"allow" | PAsk => $"ask" | PExn => $"exn" end).

Section Orc.
  Variable orc : oracle.
  Definition o_resolve (p : str) : option str := opt_of_sx sx_str (orc (q "py_resolve" [A p])).
  Definition o_analyze (p : str) : bool := sx_bool (orc (q "py_analyze" [A p])).
  Definition o_shadow (cwd : str) : bool := sx_bool (orc (q "py_shadow" [A cwd])).
  Definition o_sibling (r : str) : bool := sx_bool (orc (q "py_sibling" [A r])).
  Definition o_local : bool := sx_bool (orc (q "py_local_shadow" [])).
  Definition sx_of_scan (r : scanres) : sx :=
    L [sx_of_strs (sc_seen r); sx_of_nat (sc_idx r); sx_opt (fun c => A [45; c]) (sc_mode r); sx_opt A (sc_arg r)].

  Definition entry (cmd : str) (args : list sx) : option sx :=
    let a := arg args in
    if is_cmd cmd "py_visit" then
      Some (L (map sx_of_viol (visit (sx_bool (a 0%nat)) false (tree_of_sx (a 1%nat)))))
    else if is_cmd cmd "py_source" then
      Some (L (map sx_of_viol (source_viols o_sibling o_local (sx_bool (a 0%nat)) (tree_of_sx (a 1%nat)))))
    else if is_cmd cmd "py_classify" then
      Some (sx_of_pyres (classify o_resolve o_analyze o_shadow (opt_of_sx sx_str (a 0%nat)) (sx_str (a 1%nat)) (sx_strs (a 2%nat))))
    else if is_cmd cmd "py_scan" then Some (sx_of_scan (scan 1 (sx_strs (a 0%nat))))
    else if is_cmd cmd "py_wfx" then Some (sx_of_bool (wfx (length (sx_str (a 0%nat))) (sx_strs (a 1%nat))))
    else if is_cmd cmd "py_shell_rewrites" then Some (sx_of_bool (shell_rewrites (sx_str (a 0%nat))))
    else if is_cmd cmd "py_cmdline" then Some (sx_of_pyrun (py_cmdline (sx_strs (a 0%nat))))
    else None.
End Orc.
