(* Entry points of the config-layers model (C10).
   wire:  readres = (text S) | (perm) | (oserr) | (decode)
          entry   = (file readres) | (dir) | (special) | (absent) | (link entry) | (dangling) | (denied)
          place   = (PATH entry)
          env     = (unset) | (empty) | (nouser) | (at place)
          names   = USERPATH (CHAINPATH ...) envname        envname = (unset) | (empty) | (nouser) | (at PATH)
          fsys    = ((PATH statres) ...) ((INO inode) ...)   statres = (ino INO) | (none) | (denied)
                                                             inode   = (reg readres) | (dir) | (special)
          item    = (rule FAMILY DECISION PATTERN optMESSAGE EXACT) | (alias K V) | (default V) | (log P) | (log_full)
   oracle: (line_item LINE) -> () | (item)      answered by the real parse_config on that one line *)
From DippyV Require Import Base.Str Base.Verdict Base.Sx Model.Layers Entry.Common.

Definition tag_is (x : sx) (name : string) : bool := str_eqb (sx_str (sx_nth 0 x)) (s2l name).

Definition readres_of_sx (x : sx) : readres :=
  if tag_is x "text" then RText (sx_str (sx_nth 1 x))
  else if tag_is x "perm" then RPerm
  else if tag_is x "decode" then RDecode
  else ROsErr.

(* links nest; the wire value is finite, fuel = its depth *)
Fixpoint entry_of_sx (fuel : nat) (x : sx) : entry :=
  match fuel with
  | O => EAbsent
  | S k =>
      if tag_is x "file" then EFile (readres_of_sx (sx_nth 1 x))
      else if tag_is x "dir" then EDir
      else if tag_is x "special" then ESpecial
      else if tag_is x "link" then ELink (entry_of_sx k (sx_nth 1 x))
      else if tag_is x "dangling" then EDangling
      else if tag_is x "denied" then EDenied
      else EAbsent
  end.
Definition place_of_sx (x : sx) : place := mkPlace (sx_str (sx_nth 0 x)) (entry_of_sx 64 (sx_nth 1 x)).
Definition env_of_sx (x : sx) : envl :=
  if tag_is x "at" then EnvAt (place_of_sx (sx_nth 1 x))
  else if tag_is x "nouser" then EnvNoUser
  else if tag_is x "empty" then EnvEmpty
  else EnvUnset.

(* filesystem with identity: names -> inode, inode -> content *)
Definition statres_of_sx (x : sx) : statres :=
  if tag_is x "ino" then SIno (sx_str (sx_nth 1 x)) else if tag_is x "denied" then SDenied else SNone.
Definition inode_of_sx (x : sx) : inode :=
  if tag_is x "reg" then IReg (readres_of_sx (sx_nth 1 x)) else if tag_is x "dir" then IDirN else ISpecialN.
Definition fsys_of_sx (stats inodes : sx) : fsys :=
  mkFs (map (fun x => (sx_str (sx_nth 0 x), statres_of_sx (sx_nth 1 x))) (sx_list stats))
       (map (fun x => (sx_str (sx_nth 0 x), inode_of_sx (sx_nth 1 x))) (sx_list inodes)).
Definition envname_of_sx (x : sx) : envname :=
  if tag_is x "at" then NAt (sx_str (sx_nth 1 x))
  else if tag_is x "nouser" then NNoUser
  else if tag_is x "empty" then NEmpty
  else NUnset.
Definition names_of_sx (u c e : sx) : names := mkNames (sx_str u) (sx_strs c) (envname_of_sx e).

Definition family_of_sx (x : sx) : family :=
  let s := sx_str x in
  if str_eqb s $"redirect" then FRedirect else if str_eqb s $"after" then FAfter
  else if str_eqb s $"mcp" then FMcp else if str_eqb s $"after_mcp" then FAfterMcp else FCmd.
Definition item_of_sx (x : sx) : item :=
  if tag_is x "rule" then
    IRule (family_of_sx (sx_nth 1 x))
          (mkRule (sx_str (sx_nth 2 x)) (sx_str (sx_nth 3 x)) (opt_of_sx sx_str (sx_nth 4 x)) None None (sx_bool (sx_nth 5 x)))
  else if tag_is x "alias" then IAlias (sx_str (sx_nth 1 x)) (sx_str (sx_nth 2 x))
  else if tag_is x "default" then ISetDefault (sx_str (sx_nth 1 x))
  else if tag_is x "log" then ISetLog (sx_str (sx_nth 1 x))
  else ISetLogFull.

Definition sx_of_rule (r : rule) : sx :=
  L [A (r_decision r); A (r_pattern r); sx_opt A (r_message r); sx_opt A (r_source r); sx_opt A (r_scope r);
     sx_of_bool (r_exact r)].
Definition sx_of_config (c : config) : sx :=
  L [L (map sx_of_rule (rules c)); L (map sx_of_rule (redirect_rules c)); L (map sx_of_rule (after_rules c));
     L (map sx_of_rule (mcp_rules c)); L (map sx_of_rule (after_mcp_rules c));
     L (map (fun kv => L [A (fst kv); A (snd kv)]) (aliases c));
     A (default c); sx_opt A (log c); sx_of_bool (log_full c)].
Definition sx_of_res {T} (f : T -> sx) (r : res T) : sx :=
  match r with Ok x => L [A $"ok"; f x] | ConfigErr => L [A $"configerr"] | Crash => L [A $"crash"] end.

Section Orc.
  Variable orc : oracle.
  Definition o_line_item (l : str) : option item := opt_of_sx item_of_sx (orc (q "line_item" [A l])).
  Definition the_parse : str -> config := parse_lines o_line_item.

  Definition layout_of_args (args : list sx) : layout :=
    mkLayout (place_of_sx (arg args 0%nat)) (map place_of_sx (sx_list (arg args 1%nat))) (env_of_sx (arg args 2%nat)).

  Definition entry (cmd : str) (args : list sx) : option sx :=
    let a := arg args in
    if is_cmd cmd "load_config" then
      Some (sx_of_res sx_of_config (load_config the_parse (layout_of_args args)))
    else if is_cmd cmd "find_project" then
      Some (sx_of_res (sx_opt (fun pr => A (pl_path (fst pr)))) (find_project (map place_of_sx (sx_list (a 0%nat)))))
    else if is_cmd cmd "effective" then
      Some (sx_of_res (fun t => A (cat3 t)) (effective (layout_of_args args)))
    else if is_cmd cmd "load_config_fs" then      (* USER CHAIN ENV STATS INODES *)
      Some (sx_of_res sx_of_config
              (load_config_fs the_parse (fsys_of_sx (a 3%nat) (a 4%nat)) (names_of_sx (a 0%nat) (a 1%nat) (a 2%nat))))
    else if is_cmd cmd "effective_fs" then
      Some (sx_of_res (fun t => A (cat3 t))
              (effective_fs (fsys_of_sx (a 3%nat) (a 4%nat)) (names_of_sx (a 0%nat) (a 1%nat) (a 2%nat))))
    else if is_cmd cmd "parse_lines" then
      Some (sx_of_config (the_parse (sx_str (a 0%nat))))
    else if is_cmd cmd "merge_parsed" then      (* _merge_configs(parse_config(a), parse_config(b)) *)
      Some (sx_of_config (merge_configs (the_parse (sx_str (a 0%nat))) (the_parse (sx_str (a 1%nat)))))
    else None.
End Orc.
