(* C18 - the process-level state of a Dippy process as an explicit state machine.

   What survives from one analysis to the next inside one Python process:
     - cli/__init__.py  _load_handler: functools.lru_cache(maxsize=32) keyed by module name
       (KNOWN_HANDLERS is built once at import and never written afterwards),
     - dippy.py         MODE (rebound by main() unless a flag/env fixed it: _EXPLICIT_MODE),
     - core/config.py   _log_config, _log_disabled (rebound by configure_logging / log_decision).
   analyzer.analyze takes command, config, cwd and remote as explicit arguments; the only way it
   touches process state is get_handler.  An analysis is therefore modelled as a program that may
   ask for handler modules, adaptively (which module it asks for next may depend on what the
   previous handlers answered: wrappers delegate), and finally returns (action, reason). *)
From DippyV Require Import Base.Str Base.Verdict Gen.Tables.

Inductive hmode := HClaude | HGemini | HCursor.
(* regenerated from the decorator of _load_handler on every run (32 today) *)
Definition maxsize : nat := LRU_MAXSIZE.

(* the components of the process state (the four places of the header comment) *)
Inductive comp := CLru | CMode | CLogCfg | CLogDis.

(* The static inventory of the places where the code can keep something from one call to the next
   (tools/tables/t18_cache.py reads it off the working tree on every run: functools caches, `global` statements,
   class-level containers, mutable default arguments, in-function writes to module-level tables, writes to other
   modules' state, functions that change an object they were handed) against what this model accounts for:
     - the one functools cache is `lru`;  the `global` statements are those of `mode`, `logcfg`, `logdis`;
     - the three class-level sets of the vendored parser are constant tables (nothing writes a module-level or
       class-level table: STATE_TABLE_WRITES is empty, and the residue oracle watches their content);
     - setup_logging configures the logging module (a write-only sink; C15);
     - _apply_setting fills the dict parse_config has just created for it.
   Anything else appearing in the source makes `state_inventory_ok` false: the model is missing process state. *)
Fixpoint strs_eqb (a b : list str) : bool :=
  match a, b with
  | [], [] => true
  | x :: a', y :: b' => str_eqb x y && strs_eqb a' b'
  | _, _ => false
  end.
Definition expected_caches : list str := [$"cli/__init__.py:_load_handler"].
Definition expected_globals : list str :=
  [$"core/config.py:configure_logging:_log_config"; $"core/config.py:configure_logging:_log_disabled";
   $"core/config.py:log_decision:_log_disabled"; $"dippy.py:main:MODE"].
Definition expected_class_tables : list str :=
  [$"vendor/parable.py:Lexer.RESERVED_WORDS"; $"vendor/parable.py:Parser.COND_BINARY_OPS"; $"vendor/parable.py:Parser.COND_UNARY_OPS"].
Definition expected_foreign_writes : list str :=
  [$"dippy.py:setup_logging:logging.basicConfig()"; $"dippy.py:setup_logging:logging.raiseExceptions="].
Definition expected_argument_writes : list str := [$"core/config.py:_apply_setting:settings"].
Definition state_inventory_ok : bool :=
  strs_eqb STATE_FUNCTOOLS_CACHES expected_caches && strs_eqb STATE_GLOBAL_STATEMENTS expected_globals &&
  strs_eqb STATE_CLASS_MUTABLES expected_class_tables && strs_eqb STATE_MUTABLE_DEFAULTS [] &&
  strs_eqb STATE_TABLE_WRITES [] && strs_eqb STATE_FOREIGN_WRITES expected_foreign_writes &&
  strs_eqb STATE_ARGUMENT_WRITES expected_argument_writes.

Section Cache.
  Variable value : Type.                 (* an imported handler module (or None after ImportError) *)
  Variable load : str -> value.          (* importlib.import_module(".<name>", "dippy.cli"): deterministic *)
  Variable input : Type.                 (* the explicit arguments: command, config, cwd, remote *)

  (* an analysis, as far as process state is concerned *)
  Inductive prog :=
  | Done (a : verdict * str)
  | Get (m : str) (k : value -> prog).   (* get_handler(cmd) -> _load_handler(m), then continue *)
  Variable analysis : input -> prog.
  Variable explicit : option hmode.      (* dippy._EXPLICIT_MODE: fixed when the module is imported *)

  (* functools.lru_cache: most recently used first *)
  Definition cache := list (str * value).
  Fixpoint find (m : str) (c : cache) : option value :=
    match c with
    | [] => None
    | (k, v) :: r => if str_eqb k m then Some v else find m r
    end.
  Definition remove (m : str) (c : cache) : cache := filter (fun kv => negb (str_eqb (fst kv) m)) c.
  (* one call of _load_handler: new cache, result, was it a hit *)
  Definition get (c : cache) (m : str) : cache * value * bool :=
    match find m c with
    | Some v => ((m, v) :: remove m c, v, true)
    | None => let v := load m in (firstn maxsize ((m, v) :: c), v, false)
    end.

  Fixpoint runp (c : cache) (p : prog) : cache * (verdict * str) :=
    match p with
    | Done a => (c, a)
    | Get m k => let '(c1, v, _) := get c m in runp c1 (k v)
    end.
  (* the same analysis with no cache at all: every module freshly loaded *)
  Fixpoint pure (p : prog) : verdict * str :=
    match p with
    | Done a => a
    | Get m k => pure (k (load m))
    end.

  Record state := {
    lru : cache;
    mode : hmode;                      (* dippy.MODE *)
    logcfg : option (str * bool);      (* config._log_config *)
    logdis : bool                      (* config._log_disabled *)
  }.
  Definition init : state :=
    {| lru := []; mode := match explicit with Some m => m | None => HClaude end; logcfg := None; logdis := false |}.

  Inductive query :=
  | QAnalyze (x : input)                         (* analyzer.analyze(...) *)
  | QMain (detected : hmode) (x : input) (log : option (str * bool)) (cfg_fault dec_fault : bool)
                                                 (* dippy.main() on a shell command; the two flags say
                                                    whether configure_logging / log_decision hit a failing sink *)
  | QCheck (x : input)                           (* dippy.check_command(...) called directly *)
  | QSetMode (m : hmode)                         (* dippy.MODE = m *)
  | QConfigure (log : option (str * bool)) (fault : bool)   (* config.configure_logging *)
  | QLogDecision (fault : bool).                 (* config.log_decision *)

  Inductive answer :=
  | AVerdict (a : verdict * str)
  | AEnvelope (m : hmode) (a : verdict * str)    (* the host envelope for a verdict *)
  | AUnit.
  Definition verdict_of (a : answer) : option (verdict * str) :=
    match a with AVerdict x | AEnvelope _ x => Some x | AUnit => None end.

  Definition configure (log : option (str * bool)) (fault : bool) (s : state) : state :=
    match log with
    | None => {| lru := lru s; mode := mode s; logcfg := None; logdis := false |}
    | Some l =>
        if fault then {| lru := lru s; mode := mode s; logcfg := None; logdis := true |}
        else {| lru := lru s; mode := mode s; logcfg := Some l; logdis := false |}
    end.
  Definition log_decision (fault : bool) (s : state) : state :=
    match logcfg s with
    | None => s
    | Some _ =>
        if logdis s then s
        else if fault then {| lru := lru s; mode := mode s; logcfg := logcfg s; logdis := true |} else s
    end.
  Definition analyze (x : input) (s : state) : state * (verdict * str) :=
    let (c, a) := runp (lru s) (analysis x) in
    ({| lru := c; mode := mode s; logcfg := logcfg s; logdis := logdis s |}, a).
  Definition set_mode (m : hmode) (s : state) : state :=
    {| lru := lru s; mode := m; logcfg := logcfg s; logdis := logdis s |}.

  Definition step (s : state) (q : query) : state * answer :=
    match q with
    | QAnalyze x => let (s1, a) := analyze x s in (s1, AVerdict a)
    | QMain det x log cf df =>
        let s1 := match explicit with Some _ => s | None => set_mode det s end in
        let s2 := configure log cf s1 in
        let (s3, a) := analyze x s2 in
        let s4 := log_decision df s3 in
        (s4, AEnvelope (mode s4) a)
    | QCheck x =>
        let (s1, a) := analyze x s in
        let s2 := log_decision false s1 in
        (s2, AEnvelope (mode s2) a)
    | QSetMode m => (set_mode m s, AUnit)
    | QConfigure log fl => (configure log fl s, AUnit)
    | QLogDecision fl => (log_decision fl s, AUnit)
    end.

  Definition after (h : list query) (s : state) : state := fold_left (fun s q => fst (step s q)) h s.

  (* What one call leaves behind (the residue oracle of harness/c18.py measures exactly this on the real
     process: it snapshots every object reachable from the dippy modules before and after each call).
     The handler cache is compared by its keys in order (under Inv the values are a function of the keys). *)
  Definition hmode_eqb (a b : hmode) : bool :=
    match a, b with HClaude, HClaude | HGemini, HGemini | HCursor, HCursor => true | _, _ => false end.
  Definition logcfg_eqb (a b : option (str * bool)) : bool :=
    match a, b with
    | None, None => true
    | Some (p, f), Some (p', f') => str_eqb p p' && Bool.eqb f f'
    | _, _ => false
    end.
  Definition changed (s s' : state) : list comp :=
    (if strs_eqb (map fst (lru s)) (map fst (lru s')) then [] else [CLru]) ++
    (if hmode_eqb (mode s) (mode s') then [] else [CMode]) ++
    (if logcfg_eqb (logcfg s) (logcfg s') then [] else [CLogCfg]) ++
    (if Bool.eqb (logdis s) (logdis s') then [] else [CLogDis]).
  Definition residue (s : state) (q : query) : list comp := changed s (fst (step s q)).
  (* per call of a history: what it changed *)
  Fixpoint residues (s : state) (h : list query) : list (list comp) :=
    match h with
    | [] => []
    | q :: r => residue s q :: residues (fst (step s q)) r
    end.

  (* Where a call appends a line to the decision log, and whether that line may carry the full command
     (C15 in a process that decides more than once): log_decision writes to the configured destination
     unless logging is off, was switched off by an earlier failure, or the write fails. *)
  Definition writes (s : state) (fault : bool) : option (str * bool) :=
    match logcfg s with
    | None => None
    | Some l => if logdis s then None else if fault then None else Some l
    end.
  Definition effect (s : state) (q : query) : option (str * bool) :=
    match q with
    | QMain det x log cf df =>
        let s1 := match explicit with Some _ => s | None => set_mode det s end in
        writes (fst (analyze x (configure log cf s1))) df
    | QCheck x => writes (fst (analyze x s)) false
    | QLogDecision fl => writes s fl
    | _ => None
    end.
  Fixpoint effects (s : state) (h : list query) : list (option (str * bool)) :=
    match h with
    | [] => []
    | q :: r => effect s q :: effects (fst (step s q)) r
    end.
  (* what the same main() run appends in a process that has done nothing before: read off its own arguments *)
  Definition main_effect_spec (log : option (str * bool)) (cfg_fault dec_fault : bool) : option (str * bool) :=
    match log with
    | None => None
    | Some l => if cfg_fault then None else if dec_fault then None else Some l
    end.

  (* the hit/miss sequence of a trace of _load_handler calls (what cache_info() counts) *)
  Fixpoint trace (c : cache) (ms : list str) : list bool * cache :=
    match ms with
    | [] => ([], c)
    | m :: r => let '(c1, _, hit) := get c m in let (hs, c2) := trace c1 r in (hit :: hs, c2)
    end.
End Cache.
Arguments Done {value}.
Arguments Get {value}.
Arguments QAnalyze {input}.
Arguments QMain {input}.
Arguments QCheck {input}.
Arguments QSetMode {input}.
Arguments QConfigure {input}.
Arguments QLogDecision {input}.
