(* Model of analyzer._analyze_simple_command: the decision ladder for the words of one simple
   command (user rules -> wrapper unwrapping -> safe list -> help shortcut -> handler -> ask).
   Rule lookup, handlers, redirect rules and the recursive analysis of a delegated inner command
   are oracles.  Verdicts only. *)
From DippyV Require Import Base.Str Base.Verdict Base.Sx Base.Tree Gen.Tables Model.Walker.

Inductive haction := HAllow | HAsk | HDelegate.

(* what a handler module answers: Classification + the module's HANDLES_HELP attribute *)
Record hres := {
  h_action : haction;
  h_inner : str;               (* inner_command or "" (None and "" are both falsy) *)
  h_targets : list str;        (* redirect_targets *)
  h_remote : bool;
  h_handles_help : bool
}.

Fixpoint assoc_flags (k : str) (l : list (str * list str)) : list str :=
  match l with [] => [] | (a, b) :: r => if str_eqb a k then b else assoc_flags k r end.
Fixpoint assoc_nat (k : str) (l : list (str * nat)) : nat :=
  match l with [] => O | (a, b) :: r => if str_eqb a k then b else assoc_nat k r end.

(* "-" + token[-1] *)
Definition last_flag (t : str) : str := match rev t with c :: _ => [45; c] | [] => [45] end.

(* the loop that skips a wrapper's own options: "--" ends them; an option of [with_arg] takes the next word; a word
   "--xyz" without "=" that is a prefix of a long option of [with_arg] (an abbreviation) takes the next word too; in a
   short cluster the first letter that is an option with an argument takes the rest of the word, or - as the last
   letter - the next word; any other word starting with "-" (longer than "-") is an option without argument *)
Fixpoint first_arg_letter (with_arg : list str) (cs : str) (k : nat) : nat :=      (* index of the first such letter, or the length *)
  match cs with
  | [] => k
  | c :: r => if mem_str [45; c] with_arg then k else first_arg_letter with_arg r (S k)
  end.
Fixpoint skip_wrapper_opts (with_arg : list str) (ts : list str) : list str :=
  match ts with
  | [] => []
  | t :: r =>
      if str_eqb t [45;45] then r
      else if mem_str t with_arg then match r with [] => [] | _ :: r' => skip_wrapper_opts with_arg r' end
      else if prefixb [45;45] t && negb (mem_ch 61 t) then
        if existsb (fun f => prefixb [45;45] f && prefixb t f) with_arg
        then match r with [] => [] | _ :: r' => skip_wrapper_opts with_arg r' end
        else skip_wrapper_opts with_arg r
      else if prefixb [45] t && Nat.ltb 1 (length t) then
        if negb (prefixb [45;45] t) && Nat.eqb (first_arg_letter with_arg (tl t) 1) (length t - 1)
        then match r with [] => [] | _ :: r' => skip_wrapper_opts with_arg r' end
        else skip_wrapper_opts with_arg r
      else ts
  end.

(* ... then the wrapper's own operands (timeout DURATION) *)
Definition skip_wrapper_args (base : str) (ts : list str) : list str :=
  skipn (assoc_nat base WRAPPER_OPERANDS) (skip_wrapper_opts (assoc_flags base WRAPPER_FLAGS_WITH_ARG) ts).

(* _is_version_or_help *)
(* _SUBCOMMAND_WORD: [A-Za-z][A-Za-z0-9_:-]* - the words allowed between the command and a trailing help flag *)
Definition sub_start (c : N) : bool := in_ranges c [(65, 90); (97, 122)].
Definition sub_char (c : N) : bool := sub_start c || in_ranges c [(48, 57)] || N.eqb c 95 || N.eqb c 58 || N.eqb c 45.
Definition subcommand_word (t : str) : bool := match t with c :: r => sub_start c && forallb sub_char r | [] => false end.
Definition is_help (tokens : list str) : bool :=
  match tokens with
  | [] | [_] => false
  | [_; t1] => mem_str t1 HELP_WORDS || mem_str t1 HELP_FLAGS2 || mem_str t1 HELP_TRAILING
  | _ :: _ :: _ =>
      (Nat.leb (length tokens) 4) &&
      match rev tokens with l :: _ => mem_str l HELP_TRAILING | [] => false end &&
      forallb subcommand_word (removelast (tl tokens))
  end.

Section Ladder.
  (* match_command(SimpleCommand(tokens), config, cwd, remote): decision of the deciding rule *)
  Variable mcmd : ctx -> list str -> option verdict.
  (* get_handler(base) and handler.classify(HandlerContext(tokens, cwd)) *)
  Variable handler : ctx -> list str -> option hres.
  Variable mredir : str -> str -> option verdict.
  Variable astr : ctx -> str -> verdict.

  (* handler-reported write targets against the redirect rules: None = all granted *)
  Fixpoint targets_verdict (cwd : str) (ts : list str) : option verdict :=
    match ts with
    | [] => None
    | t :: r =>
        if mem_str t SAFE_REDIRECT_TARGETS then targets_verdict cwd r
        else match written_rule (mredir cwd t) t with
             | Some Deny => Some Deny
             | Some Ask => Some Ask
             | Some Allow => targets_verdict cwd r
             | None => Some Ask
             end
    end.

  Definition after_rules (c : ctx) (tokens : list str) (recurse : list str -> verdict) : verdict :=
    let base := match tokens with b :: _ => b | [] => [] end in
    if mem_str base WRAPPER_COMMANDS && Nat.ltb 1 (length tokens) then
      if str_eqb base $"command" && mem_str (nth 1 tokens []) COMMAND_V_FLAGS then Allow
      else match skip_wrapper_args base (tl tokens) with
           | [] => Ask
           | inner =>
               (* only bash reads NAME=value words as assignments (so they may follow the keyword time); a wrapper
                  program runs such a word as a command: an unknown program *)
               if negb (str_eqb base $"time") && is_assignment (hd [] inner) then Ask else recurse inner
           end
    else if mem_str base SIMPLE_SAFE then Allow
    else
      let h := handler c tokens in
      (* "delegates": the handler launches an inner command, or found a file the command writes - `CMD ... -h` is then
         not a help query (sh -c 'cmd' -h, sort -o f -h) *)
      let delegates := match h with Some r => match h_action r with HDelegate => true | _ => nonempty (h_targets r) end | None => false end in
      let own_help := match h with Some r => h_handles_help r | None => false end in
      if is_help tokens && negb delegates && negb own_help then Allow
      else match h with
           | None => Ask
           | Some r =>
               match (if snd c then None else targets_verdict (fst c) (h_targets r)) with
               | Some v => v
               | None =>
                   match h_action r with
                   | HAllow => Allow
                   | HDelegate => if nonempty (h_inner r) then astr (fst c, h_remote r) (h_inner r) else Ask
                   | HAsk => Ask
                   end
               end
           end.

  Fixpoint ladder_fuel (fuel : nat) (c : ctx) (words : list str) : verdict :=
    match fuel with
    | O => Ask
    | S f =>
        match skip_assignments words with
        | [] => Allow                                  (* no words, or only assignments *)
        | tokens =>
            match mcmd c tokens with
            | Some v => v
            | None => after_rules c tokens (ladder_fuel f c)
            end
        end
    end.

  (* every recursive call is on a strictly shorter list, so this much fuel is never exhausted *)
  Definition ladder (c : ctx) (words : list str) : verdict := ladder_fuel (S (length words)) c words.
End Ladder.
