(* Model of analyzer._analyze_simple_command: the decision ladder for the words of one simple
   command (user rules -> wrapper unwrapping -> safe list -> help shortcut -> handler -> ask).
   Rule lookup, handlers, redirect rules and the recursive analysis of a delegated inner command
   are oracles.  Verdicts only. *)
From DippyV Require Import Base.Str Base.Verdict Base.Sx Base.Tree Gen.Tables Model.Walker.

Inductive haction := HAllow | HAsk | HDelegate.

(* what a handler module answers: Classification + the module's HANDLES_HELP attribute *)
Record hres := {
  h_action : haction;
  h_inner : str;               (* inner_command or "" (None and "" are both falsy) *)
  h_targets : list str;        (* redirect_targets *)
  h_remote : bool;
  h_handles_help : bool
}.

(* token.isdigit() or token.replace(".", "").isdigit() *)
Definition py_isdigit (s : str) : bool :=
  match s with [] => false | _ => forallb (fun c => in_ranges c PY_DIGIT) s end.
Definition numeric_arg (s : str) : bool := py_isdigit s || py_isdigit (remove_ch 46 s).

(* the loop that skips a wrapper's numeric arguments and flags *)
Fixpoint skip_wrapper_args (ts : list str) : list str :=
  match ts with
  | [] => []
  | t :: r =>
      if numeric_arg t then skip_wrapper_args r
      else if prefixb [45] t && negb (str_eqb t [45;45]) then skip_wrapper_args r
      else if str_eqb t [45;45] then r
      else ts
  end.

(* _is_version_or_help *)
Definition is_help (tokens : list str) : bool :=
  match tokens with
  | [] | [_] => false
  | [_; t1] => mem_str t1 HELP_WORDS || mem_str t1 HELP_FLAGS2 || mem_str t1 HELP_TRAILING
  | _ :: _ :: _ =>
      (Nat.leb (length tokens) 4) &&
      match rev tokens with l :: _ => mem_str l HELP_TRAILING | [] => false end
  end.

Section Ladder.
  (* match_command(SimpleCommand(tokens), config, cwd, remote): decision of the deciding rule *)
  Variable mcmd : ctx -> list str -> option verdict.
  (* get_handler(base) and handler.classify(HandlerContext(tokens, cwd)) *)
  Variable handler : ctx -> list str -> option hres.
  Variable mredir : str -> str -> option verdict.
  Variable astr : ctx -> str -> verdict.

  (* handler-reported write targets against the redirect rules: None = all granted *)
  Fixpoint targets_verdict (cwd : str) (ts : list str) : option verdict :=
    match ts with
    | [] => None
    | t :: r =>
        if mem_str t SAFE_REDIRECT_TARGETS then targets_verdict cwd r
        else match mredir cwd t with
             | Some Deny => Some Deny
             | Some Ask => Some Ask
             | Some Allow => targets_verdict cwd r
             | None => Some Ask
             end
    end.

  Definition after_rules (c : ctx) (tokens : list str) (recurse : list str -> verdict) : verdict :=
    let base := match tokens with b :: _ => b | [] => [] end in
    if mem_str base WRAPPER_COMMANDS && Nat.ltb 1 (length tokens) then
      if str_eqb base $"command" && mem_str (nth 1 tokens []) COMMAND_V_FLAGS then Allow
      else match skip_wrapper_args (tl tokens) with
           | [] => Ask
           | inner => recurse inner
           end
    else if mem_str base SIMPLE_SAFE then Allow
    else
      let h := handler c tokens in
      let delegates := match h with Some r => match h_action r with HDelegate => true | _ => false end | None => false end in
      let own_help := match h with Some r => h_handles_help r | None => false end in
      if is_help tokens && negb delegates && negb own_help then Allow
      else match h with
           | None => Ask
           | Some r =>
               match (if snd c then None else targets_verdict (fst c) (h_targets r)) with
               | Some v => v
               | None =>
                   match h_action r with
                   | HAllow => Allow
                   | HDelegate => if nonempty (h_inner r) then astr (fst c, h_remote r) (h_inner r) else Ask
                   | HAsk => Ask
                   end
               end
           end.

  Fixpoint ladder_fuel (fuel : nat) (c : ctx) (words : list str) : verdict :=
    match fuel with
    | O => Ask
    | S f =>
        match skip_assignments words with
        | [] => Allow                                  (* no words, or only assignments *)
        | tokens =>
            match mcmd c tokens with
            | Some v => v
            | None => after_rules c tokens (ladder_fuel f c)
            end
        end
    end.

  (* every recursive call is on a strictly shorter list, so this much fuel is never exhausted *)
  Definition ladder (c : ctx) (words : list str) : verdict := ladder_fuel (S (length words)) c words.
End Ladder.
