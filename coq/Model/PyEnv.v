(* Model of the ENVIRONMENT of an analysed Python script (property C17): the part of
   src/dippy/cli/python.py that looks at the file system - classify's
       script_path = (cwd / tokens[idx]).resolve()
   analyze_python_file (exists / is_file / suffix / st_size / ast.parse / sibling-module check in
   path.parent) and the `-m calendar` shadow test - over an explicit, finite file system instead of
   oracles, together with the specification of what CPython 3.12 puts first on sys.path
   (Modules/main.c, pymain_run_python -> _PyPathConfig_ComputeSysPath0: the directory of the
   realpath of the script; the current directory for -m).

   File system = association list from ABSOLUTE, SYMLINK-FREE component paths to nodes.  Path
   resolution is Python's own posixpath._joinrealpath ([walk false], non-strict: a missing component is
   kept, `..` pops lexically) and the kernel's path walk ([walk true]: what os.stat does for
   Path.exists / is_file / is_dir: every intermediate component must be a directory, the last must
   exist).  One fuel unit per component step; running out of fuel stands for the symlink-loop
   RuntimeError of Path.resolve (and ELOOP -> False for exists()). *)
From DippyV Require Import Base.Str Base.Sx Base.Tree Gen.Tables Model.PyArgs.

Definition comps := list str.

Inductive node :=
| NFile (size : N) (ast : option tree)   (* regular file: st_size, and ast.parse(bytes) (None: SyntaxError / ValueError) *)
| NDir
| NLink (target : str)                   (* os.readlink *)
| NOther.                                (* fifo, socket, device: exists, is neither file nor directory *)

Definition fsys := list (comps * node).

Fixpoint comps_eqb (a b : comps) : bool :=
  match a, b with
  | [], [] => true
  | x :: a', y :: b' => str_eqb x y && comps_eqb a' b'
  | _, _ => false
  end.

Fixpoint assoc (p : comps) (f : fsys) : option node :=
  match f with
  | [] => None
  | (k, n) :: r => if comps_eqb k p then Some n else assoc p r
  end.

(* os.lstat of a path whose directory part has no symlink; "/" is a directory *)
Definition lstat (f : fsys) (p : comps) : option node :=
  match p with [] => Some NDir | _ => assoc p f end.

Definition is_dir_node (o : option node) : bool := match o with Some NDir => true | _ => false end.
Definition is_link_node (o : option node) : bool := match o with Some (NLink _) => true | _ => false end.

Definition dot : str := [46].
Definition dotdot : str := [46; 46].

(* the components of a path string: "a//b/" -> [a; b]; "." and ".." are kept (the walk reads them) *)
Definition path_comps (s : str) : comps := filter (fun c => negb (is_empty c)) (split_ch 47 s).
(* str(PurePosixPath) of an absolute component path *)
Definition render (p : comps) : str := [47] ++ join [47] p.

Definition FUEL : nat := 50 * 60.

(* pre: resolved so far (no symlink in it); rest: still to read *)
Fixpoint walk (strict : bool) (fuel : nat) (f : fsys) (pre rest : comps) : option comps :=
  match rest with
  | [] => if strict then (match lstat f pre with Some _ => Some pre | None => None end) else Some pre
  | c :: rest' =>
      match fuel with
      | O => None
      | S fuel' =>
          if strict && negb (is_dir_node (lstat f pre)) then None          (* ENOTDIR / ENOENT *)
          else if is_empty c || str_eqb c dot then walk strict fuel' f pre rest'
          else if str_eqb c dotdot then walk strict fuel' f (removelast pre) rest'
          else
            match lstat f (pre ++ [c]) with
            | Some (NLink t) => walk strict fuel' f (if is_abs t then [] else pre) (split_ch 47 t ++ rest')
            | Some _ => walk strict fuel' f (pre ++ [c]) rest'
            | None => if strict then None else walk strict fuel' f (pre ++ [c]) rest'
            end
      end
  end.

(* Path(p).resolve() for an absolute p: None = RuntimeError("Symlink loop") *)
Definition realpath (f : fsys) (p : str) : option comps := walk false FUEL f [] (path_comps p).

(* os.stat(p): the node reached after following every symlink, None = OSError *)
Definition stat (f : fsys) (p : comps) : option node :=
  match walk true FUEL f [] p with
  | Some q => lstat f q
  | None => None
  end.
Definition p_exists (f : fsys) (p : comps) : bool := match stat f p with Some _ => true | None => false end.
Definition p_is_dir (f : fsys) (p : comps) : bool := is_dir_node (stat f p).
Definition p_is_file (f : fsys) (p : comps) : option (N * option tree) :=
  match stat f p with Some (NFile sz a) => Some (sz, a) | _ => None end.

(* PurePosixPath.suffix of the final component in (".py", ".pyw"):
   i = name.rfind("."); the suffix is name[i:] when 0 < i < len(name) - 1 *)
Definition suffix_ok (name : str) : bool :=
  (suffixb $".py" name && Nat.ltb 3 (length name)) || (suffixb $".pyw" name && Nat.ltb 4 (length name)).

(* (base / f"{root}.py").exists() or (base / root).is_dir() *)
Definition shadowed (f : fsys) (base : comps) (root : str) : bool :=
  p_exists f (base ++ [root ++ $".py"]) || p_is_dir f (base ++ [root]).

(* ---- local_shadow(base) is not None (repair 7bd370f).
   base.iterdir(): the names below the directory base resolves to (OSError - missing, not a directory, loop -
   is "no shadow"); name = entry.name.split(".")[0]; known = sys.stdlib_module_names (generated table; the
   name.isidentifier() test is implied: the tables plugin checks that every listed name passes it);
   entry.name.endswith(_IMPORTABLE_ENDINGS) or ("." not in entry.name and entry.is_dir()) *)
Definition dir_names (f : fsys) (d : comps) : list str :=
  flat_map (fun e => match fst e with
                     | [] => []
                     | k => if comps_eqb (removelast k) d then [last k []] else []
                     end) f.
Definition safe_roots : list str := map root_of PY_SAFE_MODULES.
Definition module_named (n : str) : bool :=
  mem_str (root_of n) PY_STDLIB_MODULE_NAMES || mem_str (root_of n) safe_roots.
Definition importable_entry (f : fsys) (d : comps) (n : str) : bool :=
  module_named n &&
  (existsb (fun e => suffixb e n) PY_IMPORTABLE_ENDINGS || (negb (mem_ch 46 n) && p_is_dir f (d ++ [n]))).
Definition local_shadow (f : fsys) (base : comps) : bool :=
  match walk true FUEL f [] base with
  | Some q => is_dir_node (lstat f q) && existsb (importable_entry f q) (dir_names f q)
  | None => false
  end.

(* analyze_python_file(path)[0]; path.parent is removelast *)
Definition analyze_path (f : fsys) (p : comps) : bool :=
  match p_is_file f p with                                   (* exists() and is_file() *)
  | None => false
  | Some (sz, a) =>
      suffix_ok (last p []) && N.leb sz 100000 &&
      match a with
      | None => false                                          (* "syntax" violation *)
      | Some t =>
          match source_viols (shadowed f (removelast p)) (local_shadow f (removelast p)) true t with
          | [] => true
          | _ => false
          end
      end
  end.

(* the three oracles of PyArgs.classify, computed *)
Definition fs_resolve (f : fsys) (p : str) : option str := option_map render (realpath f p).
Definition fs_analyze (f : fsys) (p : str) : bool := analyze_path f (path_comps p).
Definition fs_shadow (f : fsys) (cwd : str) : bool :=
  shadowed f (path_comps cwd) $"calendar" || local_shadow f (path_comps cwd).

Definition classify_fs (f : fsys) (ctx_cwd : option str) (proc_cwd : str) (tokens : list str) : pyres :=
  classify (fs_resolve f) (fs_analyze f) (fs_shadow f) ctx_cwd proc_cwd tokens.

(* ---- specification: sys.path[0] of CPython 3.12 for the program py_cmdline selects.
   script: dirname(realpath(script)) (the link is read, then the whole path is canonicalised);
   -m: the current directory; -c / stdin: "" (the cwd at import time); nothing runs: none *)
Inductive syspath0 := SP_none | SP_dir (d : comps) | SP_unresolvable.

(* -P, or -I (which implies it), among the flags of one option cluster - before an option that takes the
   rest of the word as its argument (-c -m -W -X) and not in a long option *)
Fixpoint cl_safe (cs : str) : bool :=
  match cs with
  | [] => false
  | c :: r =>
      if N.eqb c 80 || N.eqb c 73 then true
      else if N.eqb c 99 || N.eqb c 109 || N.eqb c 87 || N.eqb c 88 || N.eqb c 45 then false
      else cl_safe r
  end.
(* over the n words that are python's own options (l = tokens[1:]); option arguments are skipped as CPython skips them *)
Fixpoint safe_path_scan (n : nat) (l : list str) : bool :=
  match n, l with
  | S n', t :: r =>
      cl_safe (tl t) ||
      match cluster fl0 (tl t) (hd_error r) with
      | CNext _ true => match n', r with S n'', _ :: r' => safe_path_scan n'' r' | _, _ => false end
      | _ => safe_path_scan n' r
      end
  | _, _ => false
  end.
(* sys.flags.safe_path for a program found at tokens[i] *)
Definition safe_path (tokens : list str) (i : nat) : bool := safe_path_scan (i - 1) (tl tokens).

Definition py_syspath0 (f : fsys) (cwd : str) (tokens : list str) : syspath0 :=
  match py_cmdline tokens with
  | RFile i _ =>
      if safe_path tokens i then SP_none else
      match nth_error tokens i with
      | Some tok =>
          match realpath f (pjoin cwd tok) with
          | Some q => SP_dir (if p_is_dir f q then q else removelast q)   (* a directory (or zip) script is itself the entry *)
          | None => SP_unresolvable
          end
      | None => SP_none
      end
  | RModule i _ _ | RCommand i _ _ =>
      if safe_path tokens i then SP_none else
      match realpath f cwd with Some q => SP_dir q | None => SP_unresolvable end
  | RStdin _ =>
      match realpath f cwd with Some q => SP_dir q | None => SP_unresolvable end
  | RUsageError | RInfo => SP_none
  end.
