(* C15 - audit logging as an observer.

   A run of the hook (dippy.py main) as a function of
     - what main decides (the routing and the analysis are given data: they are other
       properties' business), and
     - a fault oracle that every operation on one of the two log sinks consults:
         sink 1, the host approvals log under HOME  (dippy.py setup_logging + every logging.* call)
         sink 2, the configured decision log        (config.py `set log`, configure_logging, log_decision)
   The result has the hook's stdout, exit status, what was appended to either log, and what went
   to stderr (plain lines of the fallback handler, and "--- Logging error ---" tracebacks).

   Python exceptions are explicit: each sink operation may fail with an exception class, each
   call site catches a set of classes ([catches]); an exception that is not caught at the site
   propagates to main's `except Exception` (logging.error + print("{}")) or, from setup_logging,
   out of the process (traceback, exit 1).

   Second part: JSON rendering of one decision-log entry (json.dumps, ensure_ascii) and an
   RFC 8259 reader used as the specification of "well-formed JSON line".
   Third part: N processes appending to one file with O_APPEND, any schedule. *)
From DippyV Require Import Base.Str Base.Verdict Gen.Tables.

(* ------------------------------------------------------------------ exceptions, sites, faults *)
Inductive exn := EOS | EValue | ERuntime | EOther.
Definition exn_eqb (a b : exn) : bool :=
  match a, b with EOS, EOS | EValue, EValue | ERuntime, ERuntime | EOther, EOther => true | _, _ => false end.

Inductive site :=
| SetupMkdir   (* setup_logging: log_file.parent.mkdir(parents=True, exist_ok=True) *)
| SetupOpen    (* setup_logging: logging.basicConfig(filename=...) opens the file *)
| Emit         (* one logging.info/warning/error record written and flushed by the FileHandler *)
| Expand       (* _apply_setting `set log`: Path(value).expanduser() *)
| CfgMkdir     (* configure_logging: config.log.parent.mkdir(parents=True, exist_ok=True) *)
| DecOpen      (* log_decision: open(path, "a") *)
| DecWrite.    (* log_decision: f.write(line) + the flush at close *)

(* the fault oracle: the k-th sink operation of the run, at site s, fails with class e *)
Definition faults := site -> nat -> option exn.
Definition nofault : faults := fun _ _ => None.

(* which classes each call site catches *)
Record catches := {
  c_setup : exn -> bool;    (* dippy.py setup_logging: except (OSError, PermissionError) *)
  c_expand : exn -> bool;   (* _apply_setting: except RuntimeError -> ValueError, caught per line by parse_config *)
  c_cfg : exn -> bool;      (* configure_logging *)
  c_dec : exn -> bool;      (* log_decision *)
  c_tb : bool               (* logging.raiseExceptions: a failing handler prints a traceback on stderr *)
}.
Definition is_os e := exn_eqb e EOS.
Definition is_os_or_value e := exn_eqb e EOS || exn_eqb e EValue.
Definition is_rt_or_value e := exn_eqb e ERuntime || exn_eqb e EValue.
(* the code as it is today (1aa56d9: setup_logging sets logging.raiseExceptions = False) *)
Definition head : catches :=
  {| c_setup := is_os; c_expand := is_rt_or_value; c_cfg := is_os_or_value; c_dec := is_os_or_value; c_tb := false |}.
(* before d0d4edf (ValueError for NUL) and bdbaab3 (RuntimeError of expanduser) *)
Definition legacy : catches :=
  {| c_setup := is_os; c_expand := exn_eqb EValue; c_cfg := is_os; c_dec := is_os; c_tb := true |}.
(* before 1aa56d9: the same except clauses, logging.raiseExceptions at its default *)
Definition loud : catches :=
  {| c_setup := is_os; c_expand := is_rt_or_value; c_cfg := is_os_or_value; c_dec := is_os_or_value; c_tb := true |}.
(* the except clauses as they are in the working tree right now (Gen/Tables.v is regenerated from
   dippy.py / config.py on every run); Props/C15.v checks that this is [head] *)
Definition catches_class (names : list str) (e : exn) : bool :=
  let any := mem_str $"Exception" names || mem_str $"BaseException" names in
  match e with
  | EOS => mem_str $"OSError" names || mem_str $"IOError" names || mem_str $"EnvironmentError" names || any
  | EValue => mem_str $"ValueError" names || any
  | ERuntime => mem_str $"RuntimeError" names || any
  | EOther => any
  end.
Definition current : catches :=
  {| c_setup := catches_class LOG_SETUP_CATCHES;
     (* a RuntimeError caught in _apply_setting is re-raised as ValueError; parse_config must catch that *)
     c_expand := fun e => (catches_class LOG_EXPAND_CATCHES e || exn_eqb e EValue) && catches_class LOG_PARSE_LINE_CATCHES EValue;
     c_cfg := catches_class LOG_CONFIGURE_CATCHES;
     c_dec := catches_class LOG_DECISION_CATCHES;
     c_tb := LOG_RAISE_EXCEPTIONS |}.
Definition all_exn : list exn := [EOS; EValue; ERuntime; EOther].
Definition catches_agree (a b : catches) : bool :=
  forallb (fun e => Bool.eqb (c_setup a e) (c_setup b e) && Bool.eqb (c_expand a e) (c_expand b e)
                    && Bool.eqb (c_cfg a e) (c_cfg b e) && Bool.eqb (c_dec a e) (c_dec b e)) all_exn
  && Bool.eqb (c_tb a) (c_tb b).

(* ------------------------------------------------------------------ the hook's input, abstracted *)
Inductive mode := Claude | Gemini | Cursor.
Inductive level := Info | Warning | Error.
Definition level_geb_warning (l : level) : bool := match l with Info => false | _ => true end.

(* one event while the config files are read, in file order (user, project, env) *)
Inductive cfg_ev :=
| CWarn                (* an invalid line / redefined alias: logging.warning *)
| CSetLog (path : str) (* set log PATH *)
| CSetLogFull.         (* set log-full *)

(* what main does after the config is loaded *)
Inductive route :=
| RMcpBypass (pm : str)                                (* mcp tool, permission_mode bypass/dontAsk *)
| RMcpPost (msg : option str)                          (* PostToolUse of an mcp tool *)
| RMcpNone                                             (* mcp tool, no rule matches: {} *)
| RMcp (v : verdict) (reason pattern : str)            (* mcp tool decided by a rule *)
| RNotShell                                            (* other tool: {} *)
| RBypass (pm command : str)                           (* shell tool, bypass mode *)
| RPost (msg : option str)                             (* PostToolUse of a shell command *)
| RCheck (command : str) (v : verdict) (reason : str)  (* analyze(command) = (v, reason) *)
| RRaise.                                              (* any exception inside main's try (e.g. tool_input is not a dict) *)

Record hin := {
  h_json_ok : bool;             (* stdin is valid JSON *)
  h_explicit : bool;            (* --claude/--gemini/--cursor or DIPPY_* given *)
  h_mode : mode;                (* the explicit or detected mode *)
  h_unknown_tool : bool;        (* _detect_mode_from_input warns about an unknown tool name *)
  h_cfg : list cfg_ev;
  h_cfg_error : bool;           (* load_config raises ConfigError (unreadable file) after those events *)
  h_route : route
}.

(* stdout, one element per print *)
Inductive outv :=
| OEmpty                                   (* {} *)
| OEnv (m : mode) (v : verdict) (r : str)  (* the mode's envelope for a verdict and reason *)
| OMsg (s : str).                          (* PostToolUse feedback line *)

(* the logging module's root logger *)
Inductive appst := AppNone | AppFile | AppStderr.

Record st := {
  n : nat;                       (* sink operations so far *)
  ops : list site;               (* ... and at which sites, in order *)
  app : appst;
  applog : list level;           (* records appended to the approvals log *)
  errs : list level;             (* plain records on stderr (fallback handler) *)
  tbs : nat;                     (* "--- Logging error ---" tracebacks on stderr *)
  lcfg : option (str * bool);    (* config._log_config *)
  disabled : bool;               (* config._log_disabled *)
  declog : list str;             (* lines appended to the decision log *)
  out : list outv
}.
Definition init : st :=
  {| n := 0; ops := []; app := AppNone; applog := []; errs := []; tbs := 0; lcfg := None; disabled := false;
     declog := []; out := [] |}.

Definition tick (x : site) (s : st) : st :=
  {| n := S (n s); ops := ops s ++ [x]; app := app s; applog := applog s; errs := errs s; tbs := tbs s; lcfg := lcfg s;
     disabled := disabled s; declog := declog s; out := out s |}.
Definition set_app (a : appst) (s : st) : st :=
  {| n := n s; ops := ops s; app := a; applog := applog s; errs := errs s; tbs := tbs s; lcfg := lcfg s;
     disabled := disabled s; declog := declog s; out := out s |}.
Definition add_applog (l : level) (s : st) : st :=
  {| n := n s; ops := ops s; app := app s; applog := applog s ++ [l]; errs := errs s; tbs := tbs s; lcfg := lcfg s;
     disabled := disabled s; declog := declog s; out := out s |}.
Definition add_err (l : level) (s : st) : st :=
  {| n := n s; ops := ops s; app := app s; applog := applog s; errs := errs s ++ [l]; tbs := tbs s; lcfg := lcfg s;
     disabled := disabled s; declog := declog s; out := out s |}.
Definition add_tb (s : st) : st :=
  {| n := n s; ops := ops s; app := app s; applog := applog s; errs := errs s; tbs := S (tbs s); lcfg := lcfg s;
     disabled := disabled s; declog := declog s; out := out s |}.
Definition set_log (c : option (str * bool)) (d : bool) (s : st) : st :=
  {| n := n s; ops := ops s; app := app s; applog := applog s; errs := errs s; tbs := tbs s; lcfg := c;
     disabled := d; declog := declog s; out := out s |}.
Definition add_declog (l : str) (s : st) : st :=
  {| n := n s; ops := ops s; app := app s; applog := applog s; errs := errs s; tbs := tbs s; lcfg := lcfg s;
     disabled := disabled s; declog := declog s ++ [l]; out := out s |}.
Definition print (o : outv) (s : st) : st :=
  {| n := n s; ops := ops s; app := app s; applog := applog s; errs := errs s; tbs := tbs s; lcfg := lcfg s;
     disabled := disabled s; declog := declog s; out := out s ++ [o] |}.

(* ------------------------------------------------------------------ JSON rendering (json.dumps) *)
Definition hexd (d : N) : N := nth (N.to_nat d) $"0123456789abcdef" 48.
Definition hex4 (u : N) : str :=
  [hexd (u / 4096); hexd ((u / 256) mod 16); hexd ((u / 16) mod 16); hexd (u mod 16)].
Definition u_escape (u : N) : str := 92 :: 117 :: hex4 u.
Definition hi_surr (c : N) : N := 55296 + (c - 65536) / 1024.
Definition lo_surr (c : N) : N := 56320 + (c - 65536) mod 1024.

(* json.encoder.py_encode_basestring_ascii, one character *)
Definition esc_char (c : N) : str :=
  if c =? 34 then [92; 34]
  else if c =? 92 then [92; 92]
  else if c =? 10 then [92; 110]
  else if c =? 13 then [92; 114]
  else if c =? 9 then [92; 116]
  else if c =? 8 then [92; 98]
  else if c =? 12 then [92; 102]
  else if (32 <=? c) && (c <=? 126) then [c]
  else if c <? 65536 then u_escape c
  else u_escape (hi_surr c) ++ u_escape (lo_surr c).
Definition esc_body (s : str) : str := flat_map esc_char s.
Definition jstr (s : str) : str := 34 :: esc_body s ++ [34].

(* json.dumps of a dict of strings with the default separators ", " and ": " *)
Definition jpair (kv : str * str) : str := jstr (fst kv) ++ [58; 32] ++ jstr (snd kv).
Fixpoint jpairs (e : list (str * str)) : str :=
  match e with
  | [] => []
  | [kv] => jpair kv
  | kv :: r => jpair kv ++ [44; 32] ++ jpairs r
  end.
Definition jobj (e : list (str * str)) : str := 123 :: jpairs e ++ [125].
Definition jline (e : list (str * str)) : str := jobj e ++ [10].

(* ------------------------------------------------------------------ JSON reading (the spec side) *)
(* what a JSON string literal denotes: UTF-16 code units (RFC 8259 section 7) *)
Definition utf16c (c : N) : list N := if c <? 65536 then [c] else [hi_surr c; lo_surr c].
Definition utf16 (s : str) : list N := flat_map utf16c s.

Definition unhexd (c : N) : option N :=
  if (48 <=? c) && (c <=? 57) then Some (c - 48)
  else if (97 <=? c) && (c <=? 102) then Some (c - 87)
  else if (65 <=? c) && (c <=? 70) then Some (c - 55)
  else None.
Definition unhex4 (a b c d : N) : option N :=
  match unhexd a, unhexd b, unhexd c, unhexd d with
  | Some x, Some y, Some z, Some w => Some (((x * 16 + y) * 16 + z) * 16 + w)
  | _, _, _, _ => None
  end.
Definition simple_escape (e : N) : option N :=
  if e =? 34 then Some 34 else if e =? 92 then Some 92 else if e =? 47 then Some 47
  else if e =? 98 then Some 8 else if e =? 102 then Some 12 else if e =? 110 then Some 10
  else if e =? 114 then Some 13 else if e =? 116 then Some 9 else None.
Definition consl (u : list N) (p : option (list N * str)) : option (list N * str) :=
  match p with Some (us, r) => Some (u ++ us, r) | None => None end.

(* after the opening quote: the code units up to the closing quote, and the rest of the input *)
Fixpoint read_body (s : str) : option (list N * str) :=
  match s with
  | [] => None
  | c :: r =>
      if c =? 34 then Some ([], r)
      else if c =? 92 then
        match r with
        | [] => None
        | e :: r1 =>
            if e =? 117 then
              match r1 with
              | a :: b :: c2 :: d :: r2 =>
                  match unhex4 a b c2 d with
                  | Some u => consl [u] (read_body r2)
                  | None => None
                  end
              | _ => None
              end
            else
              match simple_escape e with
              | Some u => consl [u] (read_body r1)
              | None => None
              end
        end
      else if c <? 32 then None
      else consl (utf16c c) (read_body r)
  end.
Definition read_str (s : str) : option (list N * str) :=
  match s with 34 :: r => read_body r | _ => None end.

(* "key": "value" pairs separated by ", " up to the closing brace; fuel bounds the number of pairs *)
Fixpoint read_pairs (fuel : nat) (s : str) : option (list (list N * list N) * str) :=
  match fuel with
  | O => None
  | S fuel' =>
      match read_str s with
      | Some (k, 58 :: 32 :: r) =>
          match read_str r with
          | Some (v, 125 :: r') => Some ([(k, v)], r')
          | Some (v, 44 :: 32 :: r') =>
              match read_pairs fuel' r' with
              | Some (ps, r'') => Some ((k, v) :: ps, r'')
              | None => None
              end
          | _ => None
          end
      | _ => None
      end
  end.
(* a whole log line: one object of string members, then the newline and nothing else *)
Definition read_line (l : str) : option (list (list N * list N)) :=
  match l with
  | 123 :: r =>
      match read_pairs (length l) r with
      | Some (ps, [10]) => Some ps
      | _ => None
      end
  | _ => None
  end.

(* ------------------------------------------------------------------ the decision-log entry *)
Definition verdict_str (v : verdict) : str :=
  match v with Allow => $"allow" | Ask => $"ask" | Deny => $"deny" end.
Definition opt_field (k : string) (o : option str) : list (str * str) :=
  match o with Some v => [(s2l k, v)] | None => [] end.
(* config.log_decision builds the dict in this key order *)
Definition entry (full : bool) (decision cmd : str) (rule message command : option str) (ts : str)
  : list (str * str) :=
  [($"decision", decision); ($"cmd", cmd)] ++ opt_field "rule" rule ++ opt_field "message" message
  ++ (if full then opt_field "command" command else []) ++ [($"ts", ts)].

(* ------------------------------------------------------------------ the run *)
Section Run.
  Variable C : catches.
  Variable f : faults.
  Variable ts : str.   (* datetime.now(timezone.utc).isoformat() *)

  (* an action inside main: new state, and whether an exception is propagating *)
  Definition act := st -> st * bool.
  Definition ret : act := fun s => (s, false).
  Definition bind (a b : act) : act := fun s => let (s1, r) := a s in if r then (s1, true) else b s1.
  Infix ";;" := bind (at level 61, right associativity).
  Definition lift (g : st -> st) : act := fun s => (g s, false).
  Definition raise : act := fun s => (s, true).

  (* consult the oracle for the next sink operation *)
  Definition consult (x : site) (s : st) : option exn * st := (f x (n s), tick x s).

  (* logging.info / warning / error.  The logging module never lets an exception out of emit;
     with logging.raiseExceptions (true by default) it prints a traceback to stderr.  With no
     handler installed the first call runs basicConfig(): a stderr handler, root level WARNING. *)
  Definition emit (l : level) : act := fun s =>
    match app s with
    | AppFile =>
        let (r, s1) := consult Emit s in
        match r with
        | Some _ => ((if c_tb C then add_tb s1 else s1), false)
        | None => (add_applog l s1, false)
        end
    | _ =>
        let s1 := set_app AppStderr s in
        (if level_geb_warning l then add_err l s1 else s1, false)
    end.

  (* dippy.py setup_logging *)
  Definition setup : act := fun s =>
    let (r, s1) := consult SetupMkdir s in
    match r with
    | Some e => (s1, negb (c_setup C e))
    | None =>
        let (r2, s2) := consult SetupOpen s1 in
        match r2 with
        | Some e => (s2, negb (c_setup C e))
        | None => (set_app AppFile s2, false)
        end
    end.

  (* load_config as far as logging is concerned: (log, log_full) settings so far *)
  Fixpoint load (evs : list cfg_ev) (log : option str) (full : bool) : st -> (st * bool) * (option str * bool) :=
    fun s =>
    match evs with
    | [] => ((s, false), (log, full))
    | CWarn :: r => let (s1, _) := emit Warning s in load r log full s1
    | CSetLogFull :: r => load r log true s
    | CSetLog p :: r =>
        let (x, s1) := consult Expand s in
        match x with
        | None => load r (Some p) full s1
        | Some e =>
            if c_expand C e then let (s2, _) := emit Warning s1 in load r log full s2
            else ((s1, true), (log, full))
        end
    end.

  (* config.configure_logging *)
  Definition configure (log : option str) (full : bool) : act := fun s =>
    match log with
    | None => (set_log None false s, false)
    | Some p =>
        let (r, s1) := consult CfgMkdir s in
        match r with
        | Some e => if c_cfg C e then (set_log None true s1, false) else (set_log (lcfg s1) false s1, true)
        | None => (set_log (Some (p, full)) false s1, false)
        end
    end.

  (* config.log_decision *)
  Definition log_decision (decision cmd : str) (rule command : option str) : act := fun s =>
    match lcfg s with
    | None => (s, false)
    | Some (p, full) =>
        if disabled s then (s, false) else
        let line := jline (entry full decision cmd rule None command ts) in
        let (r, s1) := consult DecOpen s in
        match r with
        | Some e => if c_dec C e then (set_log (lcfg s1) true s1, false) else (s1, true)
        | None =>
            let (r2, s2) := consult DecWrite s1 in
            match r2 with
            | Some e => if c_dec C e then (set_log (lcfg s2) true s2, false) else (s2, true)
            | None => (add_declog line s2, false)
            end
        end
    end.

  (* approve / ask / deny: one INFO record, then the envelope *)
  Definition respond (m : mode) (v : verdict) (r : str) : act := emit Info ;; lift (print (OEnv m v r)).
  Definition say (msg : option str) : act :=
    match msg with Some t => (match t with [] => ret | _ => lift (print (OMsg t)) end) | None => ret end.

  Definition dispatch (m : mode) (r : route) : act :=
    match r with
    | RMcpBypass pm => emit Info ;; log_decision $"allow" pm None None ;; respond m Allow pm
    | RMcpPost msg => emit Info ;; say msg
    | RMcpNone => emit Info ;; lift (print OEmpty)
    | RMcp v reason pattern =>
        emit Info ;; log_decision (verdict_str v) reason (Some pattern) None ;; respond m v reason
    | RNotShell => lift (print OEmpty)
    | RBypass pm command => emit Info ;; log_decision $"allow" pm None (Some command) ;; respond m Allow pm
    | RPost msg => emit Info ;; say msg
    | RCheck command v reason =>
        emit Info ;; log_decision (verdict_str v) reason None (Some command) ;; respond m v reason
    | RRaise => raise
    end.

  (* the body of main's try *)
  Definition body (i : hin) : act :=
    if negb (h_json_ok i) then raise else
    (if h_explicit i then ret
     else (if h_unknown_tool i then emit Warning else ret) ;; emit Info) ;;
    (fun s =>
       let '((s1, raised), (log, full)) := load (h_cfg i) None false s in
       if raised then (s1, true)
       else if h_cfg_error i then
         (emit Error ;; respond (h_mode i) Ask $"config error") s1
       else (configure log full ;; dispatch (h_mode i) (h_route i)) s1).

  Record result := {
    r_stdout : list outv; r_exit : nat; r_declog : list str; r_applog : list level;
    r_stderr : list level; r_tracebacks : nat; r_ops : list site
  }.
  Definition finish (s : st) (code tb : nat) : result :=
    {| r_stdout := out s; r_exit := code; r_declog := declog s; r_applog := applog s;
       r_stderr := errs s; r_tracebacks := tbs s + tb; r_ops := ops s |}.

  (* main(): an exception out of setup_logging kills the process (traceback, exit 1); one out of
     the try body is logged and answered with {} *)
  Definition hook_run (i : hin) : result :=
    let (s1, crashed) := setup init in
    if crashed then finish s1 1 1
    else
      let (s2, raised) := body i s1 in
      if raised then finish (fst ((emit Error ;; lift (print OEmpty)) s2)) 0 0
      else finish s2 0 0.
End Run.

(* the run with logging off: no `set log`/`set log-full` line, every sink operation succeeds *)
Definition is_log_ev (e : cfg_ev) : bool := match e with CWarn => false | _ => true end.
Definition strip_log (i : hin) : hin :=
  {| h_json_ok := h_json_ok i; h_explicit := h_explicit i; h_mode := h_mode i;
     h_unknown_tool := h_unknown_tool i; h_cfg := filter (fun e => negb (is_log_ev e)) (h_cfg i);
     h_cfg_error := h_cfg_error i; h_route := h_route i |}.
Definition run_nolog (i : hin) : result := hook_run head nofault [] (strip_log i).

(* what the hook prints, read off main without any logging in it *)
Definition expected_route (m : mode) (r : route) : list outv :=
  match r with
  | RMcpBypass pm => [OEnv m Allow pm]
  | RMcpPost msg | RPost msg => match msg with Some (c :: t) => [OMsg (c :: t)] | _ => [] end
  | RMcpNone | RNotShell => [OEmpty]
  | RMcp v reason _ => [OEnv m v reason]
  | RBypass pm _ => [OEnv m Allow pm]
  | RCheck _ v reason => [OEnv m v reason]
  | RRaise => [OEmpty]
  end.
Definition expected (i : hin) : list outv :=
  if negb (h_json_ok i) then [OEmpty]
  else if h_cfg_error i then [OEnv (h_mode i) Ask $"config error"]
  else expected_route (h_mode i) (h_route i).

(* does this route make a decision that log_decision records? *)
Definition decides (r : route) : bool :=
  match r with RMcpBypass _ | RMcp _ _ _ | RBypass _ _ | RCheck _ _ _ => true | _ => false end.
Definition route_command (r : route) : option str :=
  match r with RBypass _ c | RCheck c _ _ => Some c | _ => None end.
(* the settings load_config ends with when nothing fails: last `set log` wins, log-full is sticky *)
Fixpoint final_log (evs : list cfg_ev) (log : option str) (full : bool) : option str * bool :=
  match evs with
  | [] => (log, full)
  | CWarn :: r => final_log r log full
  | CSetLogFull :: r => final_log r log true
  | CSetLog p :: r => final_log r (Some p) full
  end.
Definition has_key (k : string) (e : list (list N * list N)) : bool := existsb (fun kv => str_eqb (fst kv) (s2l k)) e.

(* ------------------------------------------------------------------ concurrent appends *)
(* Each process p issues the write(2) calls [prog p] in order on an O_APPEND descriptor; the
   kernel performs each call atomically at the current end of file.  A schedule says whose turn
   it is; a process with nothing left to write idles. *)
Section Append.
  Variable prog : nat -> list str.
  Record fs := { file : list (nat * str); pos : nat -> nat }.
  Definition fs0 : fs := {| file := []; pos := fun _ => O |}.
  Definition upd (g : nat -> nat) (p v : nat) : nat -> nat := fun q => if Nat.eqb q p then v else g q.
  Definition wstep (s : fs) (p : nat) : fs :=
    match nth_error (prog p) (pos s p) with
    | Some w => {| file := file s ++ [(p, w)]; pos := upd (pos s) p (S (pos s p)) |}
    | None => s
    end.
  Definition exec (sch : list nat) : fs := fold_left wstep sch fs0.
  Definition bytes (s : fs) : str := concat (map snd (file s)).
  Definition by_proc (p : nat) (s : fs) : list str :=
    map snd (filter (fun r => Nat.eqb (fst r) p) (file s)).
End Append.

(* a complete line: no newline inside, one at the end *)
Definition complete_line (w : str) : Prop := exists b, w = b ++ [10] /\ ~ In 10 b.
(* split a file into its complete lines (newline kept) and the unterminated tail *)
Fixpoint lines_aux (s cur : str) : list str * str :=
  match s with
  | [] => ([], rev cur)
  | c :: r =>
      if c =? 10 then let (ls, t) := lines_aux r [] in (rev (c :: cur) :: ls, t)
      else lines_aux r (c :: cur)
  end.
Definition lines_of (s : str) : list str * str := lines_aux s [].
