(* Model of /repo/src/dippy/core/sql.py (is_readonly_sql and its helpers) and of the argument loop of
   /repo/src/dippy/cli/sqlite3.py.  Definitions only.

   Positions of the Python code are suffixes here: "pos" is the text that is still to be read, "pos >= length"
   is the empty suffix.  Every [while] loop is a Fixpoint on explicit fuel; the fuel given by the wrappers
   (length of the text + 1) always suffices because each iteration consumes at least one character or returns
   (Proofs/SqlP.v proves the fuel-free unfolding equations). *)
From DippyV Require Import Base.Str Base.Verdict Gen.Tables.

(* ---------------------------------------------------------------- interpreter character classes *)
Definition py_space (c : N) : bool := in_ranges c PY_SPACE.         (* re \s, str.isspace, str.strip() *)
Definition re_word (c : N) : bool := in_ranges c PY_RE_WORD.        (* re \w on str *)
Definition kw_start (c : N) : bool :=                               (* [A-Za-z_] *)
  (N.leb 65 c && N.leb c 90) || (N.leb 97 c && N.leb c 122) || N.eqb c 95.

Fixpoint assoc_up (c : N) (tbl : list (N * list N)) : list N :=
  match tbl with
  | [] => [c]
  | (k, v) :: r => if N.eqb k c then v else assoc_up c r
  end.
Definition py_upper_ch (c : N) : list N := assoc_up c PY_UPPER.
Definition py_upper (s : str) : str := flat_map py_upper_ch s.      (* str.upper(): character-wise full mapping *)

(* ---------------------------------------------------------------- _QUOTED_PATTERN
   Each alternative is a function from the text at the match position to the text after the match
   (None = this alternative does not match here).  [first_alt] tries them in the order of the pattern;
   [strip_quoted] is re.sub(" "): leftmost match, resume after it, otherwise copy one character. *)

(* (?:[^q]*qq)*[^q]*q  after the opening quote.  Greedy iteration of the group with backtracking: the
   group consumes a run of non-quotes and a doubled quote; when the final [^q]*q then finds no quote at
   all, the engine gives the last iteration back and closes on the first quote of that pair. *)
Fixpoint quote_groups (q : N) (s : str) : option str :=
  match s with
  | [] => None
  | c :: r =>
      if N.eqb c q then
        match r with
        | c2 :: r2 =>
            if N.eqb c2 q then
              match quote_groups q r2 with
              | Some t => Some t          (* one more iteration of the group, the rest matched *)
              | None => Some r            (* backtrack: this quote closes *)
              end
            else Some r
        | [] => Some r
        end
      else quote_groups q r
  end.
Definition alt_quote (q : N) (s : str) : option str :=
  match s with c :: r => if N.eqb c q then quote_groups q r else None | [] => None end.

(* o[^c]*c *)
Fixpoint until_ch (c : N) (s : str) : option str :=
  match s with
  | [] => None
  | x :: r => if N.eqb x c then Some r else until_ch c r
  end.
Definition alt_delim (o c : N) (s : str) : option str :=
  match s with x :: r => if N.eqb x o then until_ch c r else None | [] => None end.

(* --[^\n]* *)
Fixpoint line_rest (s : str) : str :=
  match s with
  | [] => []
  | x :: r => if N.eqb x 10 then s else line_rest r
  end.
Definition alt_line (s : str) : option str :=
  match s with
  | a :: b :: r => if N.eqb a 45 && N.eqb b 45 then Some (line_rest r) else None
  | _ => None
  end.

(* /\*.*?\*/ with DOTALL: the first "*/" after the opening *)
Fixpoint until_star_slash (s : str) : option str :=
  match s with
  | [] => None
  | x :: r =>
      match r with
      | y :: r' => if N.eqb x 42 && N.eqb y 47 then Some r' else until_star_slash r
      | [] => None
      end
  end.
Definition alt_block (s : str) : option str :=
  match s with
  | a :: b :: r => if N.eqb a 47 && N.eqb b 42 then until_star_slash r else None
  | _ => None
  end.

Definition quoted_alts : list (str -> option str) :=
  [alt_quote 39; alt_quote 34; alt_delim 96 96; alt_delim 91 93; alt_line; alt_block].

Fixpoint first_alt (alts : list (str -> option str)) (s : str) : option str :=
  match alts with
  | [] => None
  | a :: r => match a s with Some t => Some t | None => first_alt r s end
  end.
Definition match_quoted (s : str) : option str := first_alt quoted_alts s.

Fixpoint strip_fuel (fuel : nat) (s : str) : str :=
  match fuel with
  | O => []
  | S f =>
      match s with
      | [] => []
      | c :: r =>
          match match_quoted s with
          | Some rest => 32 :: strip_fuel f rest
          | None => c :: strip_fuel f r
          end
      end
  end.
Definition strip_quoted (s : str) : str := strip_fuel (S (length s)) s.

(* ---------------------------------------------------------------- _has_multiple_statements *)
Fixpoint after_first (c : N) (s : str) : option str :=      (* s[s.find(c)+1:] *)
  match s with
  | [] => None
  | x :: r => if N.eqb x c then Some r else after_first c r
  end.
Fixpoint lstrip_p (p : N -> bool) (s : str) : str :=
  match s with c :: r => if p c then lstrip_p p r else s | [] => [] end.
Definition strip_p (p : N -> bool) (s : str) : str := rev (lstrip_p p (rev (lstrip_p p s))).

(* the for-loop of lines 69-77 *)
Fixpoint scan_after (after : str) : bool :=
  match after with
  | [] => false
  | c :: r =>
      if py_space c then (if mem_ch 59 r then true else scan_after r)
      else if negb (N.eqb c 59) then true
      else scan_after r
  end.

Definition multi_of_stripped (stripped : str) : bool :=
  match after_first 59 stripped with
  | None => false
  | Some after =>
      let after_stripped := strip_p py_space after in
      match after_stripped with
      | [] => false
      | _ => if forallb (N.eqb 59) after_stripped then scan_after after else true
      end
  end.
Definition has_multiple_statements (sql : str) : bool := multi_of_stripped (strip_quoted sql).

(* ---------------------------------------------------------------- scanners on the stripped text *)
Definition skip_ws (s : str) : str := lstrip_p py_space s.            (* _skip_whitespace *)

Fixpoint span_p (p : N -> bool) (s : str) : str * str :=
  match s with
  | c :: r => if p c then let (a, b) := span_p p r in (c :: a, b) else ([], s)
  | [] => ([], [])
  end.
(* _KEYWORD_PATTERN.match(sql, pos): (m.group(), text from m.end()) *)
Definition match_kw (s : str) : option (str * str) :=
  match s with
  | c :: r => if kw_start c then let (a, b) := span_p re_word r in Some (c :: a, b) else None
  | [] => None
  end.

(* lines 100-105: while pos < length and depth > 0 *)
Fixpoint paren_skip (s : str) (depth : nat) : str :=
  match depth with
  | O => s
  | S d =>
      match s with
      | [] => []
      | c :: r =>
          if N.eqb c 40 then paren_skip r (S (S d))
          else if N.eqb c 41 then paren_skip r d
          else paren_skip r (S d)
      end
  end.

Fixpoint skip_cte_fuel (fuel : nat) (s : str) (expect_as : bool) : str :=
  match fuel with
  | O => []
  | S f =>
      match skip_ws s with
      | [] => []
      | (c :: r) as s1 =>
          if N.eqb c 40 then skip_cte_fuel f (paren_skip r 1) false
          else if N.eqb c 44 then skip_cte_fuel f r true
          else
            match match_kw s1 with
            | Some (kw, rest) =>
                if expect_as then skip_cte_fuel f rest (negb (str_eqb (py_upper kw) $"AS"))
                else s1
            | None => skip_cte_fuel f r expect_as
            end
      end
  end.
Definition skip_cte (s : str) : str := skip_cte_fuel (S (length s)) s true.

Fixpoint select_into_fuel (fuel : nat) (s : str) : bool :=
  match fuel with
  | O => false
  | S f =>
      match skip_ws s with
      | [] => false
      | (c :: r) as s1 =>
          match match_kw s1 with
          | Some (kw, rest) =>
              let k := py_upper kw in
              if str_eqb k $"INTO" then true
              else if str_eqb k $"FROM" then false
              else select_into_fuel f rest
          | None => select_into_fuel f r
          end
      end
  end.
Definition check_select_into (s : str) : bool := select_into_fuel (S (length s)) s.

(* ---------------------------------------------------------------- is_readonly_sql *)
Section Dialect.
  Variable extra_readonly extra_write : list str.
  Definition readonly_keywords := SQL_READONLY_KEYWORDS ++ extra_readonly.
  Definition write_keywords := SQL_WRITE_KEYWORDS ++ extra_write.

  Fixpoint classify_fuel (fuel : nat) (s : str) : option bool :=
    match fuel with
    | O => None
    | S f =>
        match skip_ws s with
        | [] => None
        | s1 =>
            match match_kw s1 with
            | None => None
            | Some (kw, rest) =>
                let k := py_upper kw in
                if str_eqb k $"WITH" then classify_fuel f (skip_cte rest)
                else if str_eqb k $"SELECT" then Some (negb (check_select_into rest))
                else if mem_str k readonly_keywords then Some true
                else if mem_str k write_keywords then Some false
                else None
            end
        end
    end.
  Definition classify_stripped (stripped : str) : option bool := classify_fuel (S (length stripped)) stripped.

  Definition is_readonly_sql (sql : str) : option bool :=
    if has_multiple_statements sql then None else classify_stripped (strip_quoted sql).
End Dialect.

(* ---------------------------------------------------------------- cli/sqlite3.py (as repaired by d0eb2f8) *)
Definition is_dash (t : str) : bool := prefixb $"-" t.

(* --- the three guards, each a regular-expression search over the raw argument --- *)

(* _TCL_VARIABLE = [$@:#](?:[A-Za-z0-9_$\x80-\U0010ffff]|::)*\(
   After the first character the two alternatives of the group start with different characters and "(" is in
   neither, so the match is deterministic: no backtracking can succeed where the greedy run fails. *)
Definition tcl_first (c : N) : bool := mem_ch c [36; 64; 58; 35].
Definition tcl_idc (c : N) : bool :=
  (N.leb 65 c && N.leb c 90) || (N.leb 97 c && N.leb c 122) || (N.leb 48 c && N.leb c 57) ||
  N.eqb c 95 || N.eqb c 36 || N.leb 128 c.       (* \x80-\U0010ffff: every code point from 0x80 up *)
Fixpoint tcl_body (s : str) : bool :=
  match s with
  | [] => false
  | c :: r =>
      if N.eqb c 40 then true
      else if tcl_idc c then tcl_body r
      else if N.eqb c 58 then match r with d :: r' => if N.eqb d 58 then tcl_body r' else false | [] => false end
      else false
  end.
Definition tcl_at (s : str) : bool := match s with c :: r => tcl_first c && tcl_body r | [] => false end.
Fixpoint tcl_search (s : str) : bool :=
  match s with [] => false | _ :: r => tcl_at s || tcl_search r end.

(* re.IGNORECASE on the literal letters: the table lists, per letter, the code points it matches *)
Fixpoint icase_set (l : N) (tbl : list (N * list N)) : list N :=
  match tbl with [] => [l] | (k, v) :: r => if N.eqb k l then v else icase_set l r end.
Definition icase_eq (l x : N) : bool := mem_ch x (icase_set l RE_ICASE).
Fixpoint icase_prefix (lit s : str) : option str :=      (* the text after the literal *)
  match lit, s with
  | [], _ => Some s
  | l :: lit', x :: s' => if icase_eq l x then icase_prefix lit' s' else None
  | _ :: _, [] => None
  end.
Fixpoint first_icase (lits : list str) (s : str) : option str :=
  match lits with
  | [] => None
  | l :: r => match icase_prefix l s with Some t => Some t | None => first_icase r s end
  end.
Definition starts_nonword (s : str) : bool := match s with [] => true | c :: _ => negb (re_word c) end.

(* a regular expression that begins with \b and a letter, searched from every position:
   [prev_word] says whether the character before the position is a \w character *)
Fixpoint search_b (at_pos : str -> bool) (s : str) (prev_word : bool) : bool :=
  match s with
  | [] => false
  | c :: r => (negb prev_word && at_pos s) || search_b at_pos r (re_word c)
  end.

(* _SHELL_FUNCTION = \b(?:writefile|edit|load_extension)\s*\(   IGNORECASE *)
Definition shell_fn_at (s : str) : bool :=
  match first_icase SQLITE3_SHELL_FUNCTIONS s with
  | Some t => match lstrip_p py_space t with 40 :: _ => true | _ => false end
  | None => false
  end.
Definition shell_fn_search (s : str) : bool := search_b shell_fn_at s false.

(* _VACUUM = \bvacuum\b   IGNORECASE *)
Definition vacuum_at (s : str) : bool :=
  match icase_prefix $"vacuum" s with Some t => starts_nonword t | None => false end.
Definition vacuum_search (s : str) : bool := search_b vacuum_at s false.

(* _classify_sql *)
Definition classify_sql (part : str) : option bool :=
  if tcl_search part || shell_fn_search part then None else is_readonly_sql [] SQLITE_WRITE part.

(* --- the option loop (lines 50-128) on tokens[1:]: (sql_parts, help_flag, readonly_flag, cmd_seen) --- *)
Definition scan_t := (list str * bool * bool * bool)%type.
Definition scan_nil : scan_t := ([], false, false, false).
Definition scan_add (ps : list str) (h r c : bool) (x : scan_t) : scan_t :=
  let '(ps0, h0, r0, c0) := x in (ps ++ ps0, h || h0, r || r0, c || c0).

Fixpoint sqlite3_scan (ts : list str) (filename_seen : bool) : scan_t :=
  match ts with
  | [] => scan_nil
  | t :: r =>
      if mem_str t SQLITE3_NOARG_FLAGS then
        scan_add [] (mem_str t SQLITE3_HELP_FLAGS) (mem_str t SQLITE3_RO_FLAGS) false (sqlite3_scan r filename_seen)
      else if mem_str t SQLITE3_ONEARG_FLAGS then
        match r with
        | [] => scan_nil
        | x :: r' =>
            if str_eqb t $"-cmd" then scan_add [x] false false true (sqlite3_scan r' filename_seen)
            else sqlite3_scan r' filename_seen
        end
      else if str_eqb t $"-lookaside" then
        match r with
        | _ :: _ :: r' => sqlite3_scan r' filename_seen
        | _ => scan_nil
        end
      else if is_dash t then scan_add [] (str_eqb t $"--help") false false (sqlite3_scan r filename_seen)
      else if negb filename_seen then sqlite3_scan r true
      else scan_add [t] false false false (sqlite3_scan r true)
  end.
Definition sqlite3_parts (ts : list str) (filename_seen : bool) : list str :=
  let '(ps, _, _, _) := sqlite3_scan ts filename_seen in ps.

Definition is_true (o : option bool) : bool := match o with Some true => true | _ => false end.
Definition is_false (o : option bool) : bool := match o with Some false => true | _ => false end.
(* all / any *)
Definition combine_results (results : list (option bool)) : option bool :=
  if forallb is_true results then Some true
  else if existsb is_false results then Some false
  else None.

Definition sqlite3_sql (part : str) : option bool := is_readonly_sql [] SQLITE_WRITE part.

(* what keeps the read-only-mode shortcut from applying *)
Definition acts_anyway (p : str) : bool := prefixb $"." p || shell_fn_search p || vacuum_search p.

(* the early returns: -init anywhere; help/version in option position and no -cmd; -readonly/-safe in option
   position and no argument that acts without writing the database *)
Definition sqlite3_shortcut (tokens : list str) : option verdict :=
  if mem_str $"-init" tokens then Some Ask
  else
    let '(parts, help_flag, readonly_flag, cmd_seen) := sqlite3_scan (tl tokens) false in
    if help_flag && negb cmd_seen then Some Allow
    else if readonly_flag && negb (existsb acts_anyway parts) then Some Allow
    else None.

Definition sqlite3_classify (tokens : list str) : verdict :=
  match sqlite3_shortcut tokens with
  | Some v => v
  | None =>
      match sqlite3_parts (tl tokens) false with
      | [] => Ask
      | parts => if is_true (combine_results (map classify_sql parts)) then Allow else Ask
      end
  end.
