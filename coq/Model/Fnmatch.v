(* Python 3.12 fnmatch.fnmatchcase, as fnmatch.translate builds the regular expression.
   (config.py calls fnmatch.fnmatch, which applies os.path.normcase = identity on POSIX.)

   Three stages, mirroring the library:
     1. translate: pattern -> tokens; a bracket expression is scanned exactly as translate does
        ('!' then ']' skipped, then the first ']'; unclosed '[' is a literal);
     2. the text between the brackets is rewritten as translate rewrites it (hyphen chunks,
        reversed ranges dropped, escaping of \ - & ~ |, leading ^ and [ escaped, '!' -> '^',
        empty -> (?!), "!" -> .) and the resulting text is parsed as the `re` module parses the
        inside of a character set (sre_parse._parse, the `[` branch);
     3. matching: (?s: ... )\Z, i.e. '.' matches every code point including newline and the
        whole name must be consumed.  '*' is modelled by plain backtracking; translate's
        atomic groups (?>.*?fixed) pick the leftmost occurrence of a fixed-width piece, which
        decides the same language (validated by the correspondence, not proved).
   Consecutive stars are not compressed here: under backtracking '**' and '*' are the same. *)
From DippyV Require Import Base.Str.

Definition c_nl : N := 10.
Definition c_sp : N := 32.
Definition c_bang : N := 33.
Definition c_amp : N := 38.
Definition c_star : N := 42.
Definition c_hyph : N := 45.
Definition c_dot : N := 46.
Definition c_slash : N := 47.
Definition c_q : N := 63.
Definition c_lb : N := 91.
Definition c_bs : N := 92.
Definition c_rb : N := 93.
Definition c_caret : N := 94.
Definition c_bar : N := 124.
Definition c_tilde : N := 126.

(* split at the first occurrence of c: s = a ++ c :: b, c not in a *)
Fixpoint break_at (c : N) (s : str) : option (str * str) :=
  match s with
  | [] => None
  | x :: s' =>
      if N.eqb x c then Some ([], s')
      else match break_at c s' with
           | Some (a, b) => Some (x :: a, b)
           | None => None
           end
  end.

(* the bracket scan shared by fnmatch.translate and config._glob_to_regex:
   rest = the pattern after '['; Some (stuff, after) when a closing ']' exists *)
Definition scan_close (rest : str) : option (str * str) :=
  let '(pre1, r1) := match rest with
                     | x :: r => if N.eqb x c_bang then ([c_bang], r) else ([], rest)
                     | [] => ([], rest)
                     end in
  let '(pre2, r2) := match r1 with
                     | x :: r => if N.eqb x c_rb then ([c_rb], r) else ([], r1)
                     | [] => ([], r1)
                     end in
  match break_at c_rb r2 with
  | None => None
  | Some (mid, after) => Some (pre1 ++ pre2 ++ mid, after)
  end.

(* ---- stage 2: translate's rewriting of the text between the brackets ---- *)

(* the hyphen chunks: `skip` positions are not inspected (k = i+1 / i+2 at the start, k+3 after a hit) *)
Fixpoint chunks_go (skip : nat) (cur : str) (s : str) : list str :=
  match s with
  | [] => [rev cur]
  | c :: s' =>
      match skip with
      | S n => chunks_go n (c :: cur) s'
      | O => if N.eqb c c_hyph then rev cur :: chunks_go 2 [] s' else chunks_go 0 (c :: cur) s'
      end
  end.

(* `if chunk: chunks.append(chunk) else: chunks[-1] += '-'` *)
Fixpoint fix_last (l : list str) : list str :=
  match l with
  | [] => []
  | [a] => [a]
  | [a; b] => match b with [] => [a ++ [c_hyph]] | _ => [a; b] end
  | a :: r => a :: fix_last r
  end.

Definition chunks (stuff : str) : list str :=
  let skip := match stuff with x :: _ => if N.eqb x c_bang then 2%nat else 1%nat | [] => 1%nat end in
  fix_last (chunks_go skip [] stuff).

(* "Remove empty ranges": right-to-left pass merging chunks[k-1], chunks[k] when last > first *)
Fixpoint drop_reversed (l : list str) : list str :=
  match l with
  | [] => []
  | a :: rest =>
      match drop_reversed rest with
      | [] => [a]
      | b :: rest' =>
          match last_ch a, first_ch b with
          | Some x, Some y => if N.ltb y x then (removelast a ++ tl b) :: rest' else a :: b :: rest'
          | _, _ => a :: b :: rest'
          end
      end
  end.

Fixpoint escape_chars (cs : list N) (s : str) : str :=
  match s with
  | [] => []
  | c :: s' => if mem_ch c cs then c_bs :: c :: escape_chars cs s' else c :: escape_chars cs s'
  end.

Definition class_text (stuff : str) : str :=
  let t :=
    if negb (mem_ch c_hyph stuff) then escape_chars [c_bs] stuff
    else join [c_hyph] (map (escape_chars [c_bs; c_hyph]) (drop_reversed (chunks stuff))) in
  escape_chars [c_amp; c_tilde; c_bar] t.

(* ---- stage 3 (shared with Glob2): sre_parse's character-set body ----
   t is the text between '[' and the closing ']' (a ']' can only be its first character, or the
   second after '^', where sre takes it literally).  Result: negation flag and the set items as
   inclusive ranges; None = re.error (bad range, dangling escape) or an escape this model does
   not cover (backslash followed by an ASCII letter or digit - never produced by fnmatch). *)
Definition ascii_alnum (c : N) : bool :=
  (N.leb 48 c && N.leb c 57) || (N.leb 65 c && N.leb c 90) || (N.leb 97 c && N.leb c 122).

Definition code1 (t : str) : option (N * str) :=
  match t with
  | [] => None
  | c :: r =>
      if N.eqb c c_bs then
        match r with
        | [] => None
        | e :: r' => if ascii_alnum e then None else Some (e, r')
        end
      else Some (c, r)
  end.

Fixpoint set_items (fuel : nat) (t : str) : option (list (N * N)) :=
  match fuel with
  | O => None
  | S f =>
      match t with
      | [] => Some []
      | _ =>
          match code1 t with
          | None => None
          | Some (lo, r) =>
              match r with
              | h :: r1 =>
                  if N.eqb h c_hyph then
                    match r1 with
                    | [] => Some [(lo, lo); (c_hyph, c_hyph)]          (* "x-]" : x and '-' literal *)
                    | _ =>
                        match code1 r1 with
                        | None => None
                        | Some (hi, r2) =>
                            if N.ltb hi lo then None                       (* bad character range *)
                            else option_map (cons (lo, hi)) (set_items f r2)
                        end
                    end
                  else option_map (cons (lo, lo)) (set_items f r)
              | [] => Some [(lo, lo)]
              end
          end
      end
  end.

Definition sre_set (t : str) : option (bool * list (N * N)) :=
  let '(neg, body) := match t with
                      | x :: r => if N.eqb x c_caret then (true, r) else (false, t)
                      | [] => (false, t)
                      end in
  option_map (pair neg) (set_items (S (length body)) body).

(* ---- tokens ---- *)
Inductive tok :=
| TStar                                  (* .* *)
| TAny                                   (* .  (DOTALL) *)
| TLit (c : N)
| TSet (neg : bool) (items : list (N * N))
| TNever                                 (* (?!) *)
| TErr.                                  (* re.error while compiling: not reachable from fnmatch as far as we know; counted *)

Definition fn_class (stuff : str) : tok :=
  let t := class_text stuff in
  match t with
  | [] => TNever
  | x :: r =>
      if N.eqb x c_bang then
        match r with
        | [] => TAny
        | _ => match sre_set (c_caret :: r) with Some (n, it) => TSet n it | None => TErr end
        end
      else
        let t' := if N.eqb x c_caret || N.eqb x c_lb then c_bs :: t else t in
        match sre_set t' with Some (n, it) => TSet n it | None => TErr end
  end.

Fixpoint translate (fuel : nat) (p : str) : list tok :=
  match fuel with
  | O => []
  | S f =>
      match p with
      | [] => []
      | c :: r =>
          if N.eqb c c_star then TStar :: translate f r
          else if N.eqb c c_q then TAny :: translate f r
          else if N.eqb c c_lb then
            match scan_close r with
            | None => TLit c_lb :: translate f r
            | Some (stuff, after) => fn_class stuff :: translate f after
            end
          else TLit c :: translate f r
      end
  end.

Definition tok1 (t : tok) (c : N) : bool :=
  match t with
  | TAny => true
  | TLit d => N.eqb d c
  | TSet neg items => xorb neg (in_ranges c items)
  | TStar | TNever | TErr => false
  end.

Fixpoint tmatch (ts : list tok) (s : str) {struct ts} : bool :=
  match ts with
  | [] => match s with [] => true | _ => false end
  | TStar :: ts' =>
      (fix star (s : str) : bool :=
         tmatch ts' s || match s with [] => false | _ :: s' => star s' end) s
  | t :: ts' =>
      match s with
      | [] => false
      | c :: s' => tok1 t c && tmatch ts' s'
      end
  end.

Definition is_terr (t : tok) : bool := match t with TErr => true | _ => false end.
Definition fn_tokens (pat : str) : list tok := translate (length pat) pat.
(* would Python raise re.error for this pattern? *)
Definition fn_error (pat : str) : bool := existsb is_terr (fn_tokens pat).
(* fnmatch.fnmatchcase(name, pat) *)
Definition fnmatch (name pat : str) : bool := tmatch (fn_tokens pat) name.
