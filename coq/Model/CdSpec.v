(* What bash does with the working directory while it runs a list  a op b op c ...  and what the analyser
   assumes about it.  The concrete side is a small operational semantics of and-or lists:

     - "&&" and "||" have equal precedence and associate to the left: the next element runs iff the status so
       far is success (&&) / failure (||); a skipped element leaves the status alone;
     - ";" (or a newline) ends the and-or list; "&" ends it and runs the WHOLE and-or list in a subshell, so
       every directory change inside it is lost;
     - a `cd TARGET` that runs either succeeds - the shell is then in resolve(cwd, TARGET) - or fails and
       leaves the directory alone; some elements move the shell to a directory nobody can predict (cd "$v",
       pushd, a group with a cd inside); the others leave it alone.

   Exit statuses, cd failures and the unpredictable directories are run-time data: the soundness theorem
   (Proofs/CdSpecP.v) quantifies over all of them. *)
From DippyV Require Import Base.Str Base.Tree Gen.Tables Model.Walker.

Inductive elem := ECd (tgt : str) | EMove | EStay.

(* how the analyser reads one element of a list *)
Definition classify (t : tree) : elem :=
  match extract_cd_target t with
  | Some tgt => if nonempty tgt then ECd tgt else if changes_directory t then EMove else EStay
  | None => if changes_directory t then EMove else EStay
  end.

Record runtime := { rt_ok : nat -> bool;        (* element i, if it runs, exits with status 0 (a cd: it succeeds) *)
                    rt_moved : nat -> str }.    (* where an unpredictable element i leaves the shell *)

Record cstate := { cs_d : str;      (* directory of the shell running the current and-or list *)
                   cs_d0 : str;     (* directory of the invoking shell when this and-or list began *)
                   cs_run : bool;   (* does the next element run? *)
                   cs_last : bool }.  (* status so far *)

Definition cinit (d : str) : cstate := {| cs_d := d; cs_d0 := d; cs_run := true; cs_last := true |}.

Section Spec.
  Variable resolve : str -> str -> str.       (* the directory a successful `cd tgt` from d leads to *)

  Definition exec_elem (rt : runtime) (i : nat) (e : elem) (d : str) : str :=
    match e with
    | ECd tgt => if rt_ok rt i then resolve d tgt else d
    | EMove => rt_moved rt i
    | EStay => d
    end.

  Definition cstep (rt : runtime) (i : nat) (s : cstate) (e : elem) (op : str) : cstate :=
    let d1 := if cs_run s then exec_elem rt i e (cs_d s) else cs_d s in
    let last1 := if cs_run s then rt_ok rt i else cs_last s in
    if str_eqb op op_and then {| cs_d := d1; cs_d0 := cs_d0 s; cs_run := last1; cs_last := last1 |}
    else if str_eqb op op_or then {| cs_d := d1; cs_d0 := cs_d0 s; cs_run := negb last1; cs_last := last1 |}
    else if str_eqb op op_bg then {| cs_d := cs_d0 s; cs_d0 := cs_d0 s; cs_run := true; cs_last := true |}
    else {| cs_d := d1; cs_d0 := d1; cs_run := true; cs_last := last1 |}.

  (* the analyser's transition on classified elements (local mode): directory, assumed, previous operator *)
  Definition astate := (str * (bool * str))%type.
  Definition abs_next (st : astate) (e : elem) (op : str) : astate :=
    let d := fst st in
    let a := fst (snd st) in
    let prev := snd (snd st) in
    let moved : str * bool :=
      if str_eqb op op_bg then (d, a) else
      match e with
      | ECd tgt => if str_eqb op op_and && negb (str_eqb prev op_or) then (resolve d tgt, true) else (UNKNOWN_CWD, a)
      | EMove => (UNKNOWN_CWD, a)
      | EStay => (d, a)
      end in
    if snd moved && negb (str_eqb op op_and) then (UNKNOWN_CWD, (false, op)) else (fst moved, (snd moved, op)).

  (* "unknown": at or below the root of the placeholder directory (the placeholder itself is deep below it, so
     that a relative path with a few ".." stays there) *)
  Definition is_unknown (d : str) : bool := prefixb UNKNOWN_ROOT d.

  (* every element that runs does so in the directory the analyser used for it, unless that is unknown *)
  Fixpoint sound_run (rt : runtime) (i : nat) (s : cstate) (st : astate) (l : list (elem * str)) : Prop :=
    match l with
    | [] => True
    | (e, op) :: r =>
        (cs_run s = true -> is_unknown (fst st) = true \/ cs_d s = fst st) /\
        sound_run rt (S i) (cstep rt i s e op) (abs_next st e op) r
    end.

  (* the transition of the code before the repairs 5fdaa27 / a4821fe: a literal cd is followed whatever the operator *)
  Definition abs_next_legacy (st : astate) (e : elem) (op : str) : astate :=
    match e with
    | ECd tgt => (resolve (fst st) tgt, (false, op))
    | EMove => (UNKNOWN_CWD, (false, op))
    | EStay => (fst st, (false, op))
    end.
  Fixpoint sound_run_legacy (rt : runtime) (i : nat) (s : cstate) (st : astate) (l : list (elem * str)) : Prop :=
    match l with
    | [] => True
    | (e, op) :: r =>
        (cs_run s = true -> is_unknown (fst st) = true \/ cs_d s = fst st) /\
        sound_run_legacy rt (S i) (cstep rt i s e op) (abs_next_legacy st e op) r
    end.
End Spec.
