(* Reference tokenizer for the lexical classes of SQLite that matter for statement splitting and for
   finding the leading keyword, written after sqlite3GetToken (src/tokenize.c, 3.40 .. 3.51), plus a
   statement splitter.  Independent of the regular expressions of core/sql.py.  Definitions only.

   Every token carries its source text, so that the concatenation of the token texts is the input
   (SqlSpecP.lex_lossless).

   Token classes:
     TSpace    a run of white space started by TAB LF FF CR SPACE (the run also absorbs VT, as
               sqlite3Isspace does), or a U+FEFF byte-order mark at the start of a token
     TComment  "--" to the end of the line; "/*" to the first "*/" - or, when there is none, to the end
               of the input (closed = false; SQLite treats that as a comment too).  "/*" as the last two
               characters of the input is a slash and a star.
     TStr q    '...'  "..."  `...`  with the quote doubled inside (all three, as SQLite does)
     TBr       [...]
     TSemi     ;
     TWord     a maximal run of identifier characters: ASCII letters and digits, "_", "$" and every
               code point >= 0x80 (SQLite: bytes >= 0x80).  Numbers are words followed by other tokens.
     TVar      $name @name :name #name, with "::" inside the name and - only after at least one name
               character - a parenthesised suffix "(...)" that runs to the next ")" and may contain
               anything except white space (the Tcl form).  paren = true records that suffix.
     TOther    any other single character (operators, punctuation, and the characters SQLite rejects
               individually such as control characters or backslash: treating them as live over-approximates)
     TIllegal  an unterminated quote or bracket, a variable without a name or with an unterminated
               "(": SQLite reports "unrecognized token" and stops; the token carries the rest of the input.

   Not modelled: the blob literal x'...' (lexed here as the word x and a string: the same characters are
   covered whenever the literal is well formed, and an ill-formed one is ILLEGAL in SQLite), NUL (ends the
   text in C; a command-line argument cannot contain it). *)
From DippyV Require Import Base.Str.

Inductive tok :=
| TSpace (w : str)
| TComment (w : str) (closed : bool)
| TStr (q : N) (w : str)
| TBr (w : str)
| TSemi
| TWord (w : str)
| TVar (w : str) (paren : bool)
| TOther (c : N)
| TIllegal (w : str).

Definition tok_text (t : tok) : str :=
  match t with
  | TSpace w | TComment w _ | TStr _ w | TBr w | TWord w | TVar w _ | TIllegal w => w
  | TSemi => [59]
  | TOther c => [c]
  end.

(* ---------------------------------------------------------------- character classes of tokenize.c *)
Definition sq_space_start (c : N) : bool := mem_ch c [9; 10; 12; 13; 32].    (* aiClass = CC_SPACE *)
Definition sq_space (c : N) : bool := (N.leb 9 c && N.leb c 13) || N.eqb c 32.   (* sqlite3Isspace *)
Definition ascii_alnum (c : N) : bool :=
  (N.leb 48 c && N.leb c 57) || (N.leb 65 c && N.leb c 90) || (N.leb 97 c && N.leb c 122).
Definition idchar (c : N) : bool := ascii_alnum c || N.eqb c 95 || N.eqb c 36 || N.leb 128 c.   (* IdChar *)
Definition is_quote (c : N) : bool := mem_ch c [39; 34; 96].
Definition var_start (c : N) : bool := mem_ch c [36; 64; 58; 35].            (* $ @ : # *)

Fixpoint span (p : N -> bool) (s : str) : str * str :=
  match s with
  | c :: r => if p c then let (a, b) := span p r in (c :: a, b) else ([], s)
  | [] => ([], [])
  end.

Definition cons1 (c : N) (x : option (str * str)) : option (str * str) :=
  match x with Some (a, b) => Some (c :: a, b) | None => None end.

(* after the opening quote: (text up to and including the closing quote, rest) *)
Fixpoint quoted (q : N) (s : str) : option (str * str) :=
  match s with
  | [] => None
  | c :: r =>
      if N.eqb c q then
        match r with
        | c2 :: r2 => if N.eqb c2 q then cons1 c (cons1 c2 (quoted q r2)) else Some ([c], r)
        | [] => Some ([c], r)
        end
      else cons1 c (quoted q r)
  end.

Fixpoint until (c : N) (s : str) : option (str * str) :=
  match s with
  | [] => None
  | x :: r => if N.eqb x c then Some ([x], r) else cons1 x (until c r)
  end.

Fixpoint to_eol (s : str) : str * str :=
  match s with
  | [] => ([], [])
  | x :: r => if N.eqb x 10 then ([], s) else let (a, b) := to_eol r in (x :: a, b)
  end.

Fixpoint block_end (s : str) : option (str * str) :=     (* up to and including the first "*/" *)
  match s with
  | [] => None
  | x :: r =>
      match r with
      | y :: r' => if N.eqb x 42 && N.eqb y 47 then Some ([x; y], r') else cons1 x (block_end r)
      | [] => None
      end
  end.

(* the body of a variable after its first character: (text, rest, status) *)
Inductive vstat := VName (named : bool) | VParen | VBad.
Definition vcons (c : N) (x : str * str * vstat) : str * str * vstat :=
  let '(a, b, st) := x in (c :: a, b, st).
Definition var_paren (s : str) : str * str * vstat :=      (* s starts after the "(" *)
  let (a, b) := span (fun c => negb (sq_space c) && negb (N.eqb c 41)) s in
  match b with
  | 41 :: b' => (a ++ [41], b', VParen)
  | _ => (a, b, VBad)
  end.
Fixpoint var_body (s : str) (named : bool) : str * str * vstat :=
  match s with
  | [] => ([], [], VName named)
  | c :: r =>
      if idchar c then vcons c (var_body r true)
      else if N.eqb c 40 && named then vcons c (var_paren r)
      else if N.eqb c 58 then
        match r with
        | 58 :: r' => vcons 58 (vcons 58 (var_body r' named))
        | _ => ([], s, VName named)
        end
      else ([], s, VName named)
  end.

(* one token *)
Definition lex1 (s : str) : option (tok * str) :=
  match s with
  | [] => None
  | c :: r =>
      if sq_space_start c then let (a, b) := span sq_space r in Some (TSpace (c :: a), b)
      else if N.eqb c 45 then
        match r with
        | d :: r' =>
            if N.eqb d 45 then let (a, b) := to_eol r' in Some (TComment (c :: d :: a) true, b)
            else Some (TOther c, r)
        | [] => Some (TOther c, r)
        end
      else if N.eqb c 47 then
        match r with
        | d :: ((_ :: _) as r') =>
            if N.eqb d 42 then
              match block_end r' with
              | Some (a, b) => Some (TComment (c :: d :: a) true, b)
              | None => Some (TComment s false, [])
              end
            else Some (TOther c, r)
        | _ => Some (TOther c, r)
        end
      else if is_quote c then
        match quoted c r with
        | Some (a, b) => Some (TStr c (c :: a), b)
        | None => Some (TIllegal s, [])
        end
      else if N.eqb c 91 then
        match until 93 r with
        | Some (a, b) => Some (TBr (c :: a), b)
        | None => Some (TIllegal s, [])
        end
      else if N.eqb c 59 then Some (TSemi, r)
      else if var_start c then
        match var_body r false with
        | (a, b, VName true) => Some (TVar (c :: a) false, b)
        | (a, b, VParen) => Some (TVar (c :: a) true, b)
        | _ => Some (TIllegal s, [])
        end
      else if N.eqb c 65279 then Some (TSpace [c], r)
      else if idchar c then let (a, b) := span idchar r in Some (TWord (c :: a), b)
      else Some (TOther c, r)
  end.

Fixpoint lex_fuel (fuel : nat) (s : str) : list tok :=
  match fuel with
  | O => []
  | S f => match lex1 s with None => [] | Some (t, r) => t :: lex_fuel f r end
  end.
Definition sql_lex (s : str) : list tok := lex_fuel (S (length s)) s.

(* ---------------------------------------------------------------- statements *)
(* split at the semicolon tokens (the pieces do not contain TSemi) *)
Fixpoint statements (ts : list tok) : list (list tok) :=
  match ts with
  | [] => [[]]
  | TSemi :: r => [] :: statements r
  | t :: r => match statements r with st :: more => (t :: st) :: more | [] => [[t]] end
  end.

(* white space and comments *)
Definition blank (t : tok) : bool := match t with TSpace _ | TComment _ _ => true | _ => false end.
(* tokens that can neither start an executable statement nor be a keyword: blanks, quoted literals and
   quoted identifiers, and the error token *)
Definition inert (t : tok) : bool :=
  match t with TSpace _ | TComment _ _ | TStr _ _ | TBr _ | TIllegal _ => true | _ => false end.
Definition significant (t : tok) : bool := negb (inert t).

Definition nonblank_statements (ts : list tok) : nat :=
  length (filter (existsb (fun t => negb (blank t))) (statements ts)).
(* statements that contain a word, a variable or an operator *)
Definition live_statements (ts : list tok) : nat :=
  length (filter (existsb significant) (statements ts)).

(* the first token that is not a blank, a quoted literal or a quoted identifier *)
Definition skippable (t : tok) : bool :=
  match t with TSpace _ | TComment _ _ | TStr _ _ | TBr _ => true | _ => false end.
Fixpoint first_live (ts : list tok) : option tok :=
  match ts with
  | [] => None
  | t :: r => if skippable t then first_live r else Some t
  end.

Definition tcl_paren (t : tok) : bool := match t with TVar _ true => true | _ => false end.
Definition has_tcl_paren (ts : list tok) : bool := existsb tcl_paren ts.

(* SQLite's keyword lookup is ASCII only: a word is a candidate keyword iff it consists of ASCII letters
   and "_"; then it is compared case-insensitively *)
Definition ascii_upper_ch (c : N) : N := if N.leb 97 c && N.leb c 122 then c - 32 else c.
Definition ascii_upper (s : str) : str := map ascii_upper_ch s.
Definition ascii_word (s : str) : bool := forallb (fun c => ascii_alnum c || N.eqb c 95) s.
