(* C10 - config layers.  Model of dippy/core/config.py:
     Rule / Config dataclasses, _merge_configs (113-129), _tag_rules (132-147), _load_config_file (150-158),
     _find_project_config (100-110), load_config (161-199)
   over an abstract filesystem layout: what sits at ~/.dippy/config, at <level>/.dippy for every level of the
   RESOLVED ancestor chain of the cwd (nearest first, root last), and at $DIPPY_CONFIG.
   Python exceptions are explicit: ConfigError (-> the hook answers ask) and any other exception escaping
   load_config (UnicodeDecodeError out of read_text: -> main()'s catch-all prints {}), called Crash here.
   _find_project_config itself lets PermissionError escape (Crash of find_project); load_config turns it into a
   ConfigError (fix d952e10).  An unexpandable $DIPPY_CONFIG (~nosuchuser) is skipped (fix 291c4e0).
   parse_config is a Section variable; a line-fold instance (parse_lines) is defined at the end. *)
From DippyV Require Import Base.Str.

(* ------------------------------------------------------------------ dataclasses *)
Record rule := mkRule {
  r_decision : str; r_pattern : str; r_message : option str;
  r_source : option str; r_scope : option str; r_exact : bool }.

(* a Python dict str -> str: insertion-ordered association list without duplicate keys *)
Definition dict := list (str * str).
(* d[k] = v : an existing key keeps its position, a new key goes last *)
Fixpoint dict_set (k v : str) (d : dict) : dict :=
  match d with
  | [] => [(k, v)]
  | (k', v') :: r => if str_eqb k' k then (k', v) :: r else (k', v') :: dict_set k v r
  end.
Definition dict_setall (l : list (str * str)) (d : dict) : dict :=
  fold_left (fun d kv => dict_set (fst kv) (snd kv) d) l d.
(* {**base, **overlay} *)
Definition dict_merge (base overlay : dict) : dict := dict_setall overlay base.
Fixpoint dict_get (k : str) (d : dict) : option str :=
  match d with
  | [] => None
  | (k', v) :: r => if str_eqb k' k then Some v else dict_get k r
  end.

Record config := mkConfig {
  rules : list rule; redirect_rules : list rule; after_rules : list rule;
  mcp_rules : list rule; after_mcp_rules : list rule;
  aliases : dict; default : str; log : option str; log_full : bool }.

Definition s_ask : str := Eval vm_compute in $"ask".
Definition s_allow : str := Eval vm_compute in $"allow".
Definition s_user : str := Eval vm_compute in $"user".
Definition s_project : str := Eval vm_compute in $"project".
Definition s_env : str := Eval vm_compute in $"env".

(* Config() *)
Definition empty_config : config := mkConfig [] [] [] [] [] [] s_ask None false.

(* _merge_configs(base, overlay) - line by line *)
Definition merge_configs (base overlay : config) : config :=
  mkConfig
    (rules base ++ rules overlay)
    (redirect_rules base ++ redirect_rules overlay)
    (after_rules base ++ after_rules overlay)
    (mcp_rules base ++ mcp_rules overlay)
    (after_mcp_rules base ++ after_mcp_rules overlay)
    (dict_merge (aliases base) (aliases overlay))
    (if negb (str_eqb (default overlay) s_ask) then default overlay else default base)
    (match log overlay with Some p => Some p | None => log base end)
    (if log_full overlay then log_full overlay else log_full base).

(* replace(r, source=source, scope=scope) *)
Definition tag (source scope : str) (r : rule) : rule :=
  mkRule (r_decision r) (r_pattern r) (r_message r) (Some source) (Some scope) (r_exact r).
(* _tag_rules *)
Definition tag_rules (c : config) (source scope : str) : config :=
  mkConfig (map (tag source scope) (rules c)) (map (tag source scope) (redirect_rules c))
           (map (tag source scope) (after_rules c)) (map (tag source scope) (mcp_rules c))
           (map (tag source scope) (after_mcp_rules c))
           (aliases c) (default c) (log c) (log_full c).

(* the five rule families *)
Inductive family := FCmd | FRedirect | FAfter | FMcp | FAfterMcp.
Definition fam (f : family) (c : config) : list rule :=
  match f with
  | FCmd => rules c | FRedirect => redirect_rules c | FAfter => after_rules c
  | FMcp => mcp_rules c | FAfterMcp => after_mcp_rules c
  end.

(* ------------------------------------------------------------------ what the hook can observe *)
(* a rule without its origin tags *)
Definition orule := (str * str * option str * bool)%type.
Definition untag (r : rule) : orule := (r_decision r, r_pattern r, r_message r, r_exact r).
Record obs := mkObs {
  o_rules : list orule; o_redirect : list orule; o_after : list orule; o_mcp : list orule; o_after_mcp : list orule;
  o_aliases : dict; o_log : option str; o_log_full : bool }.
(* everything but `default` (read nowhere in the hook) and the source/scope tags *)
Definition observable (c : config) : obs :=
  mkObs (map untag (rules c)) (map untag (redirect_rules c)) (map untag (after_rules c))
        (map untag (mcp_rules c)) (map untag (after_mcp_rules c)) (aliases c) (log c) (log_full c).
(* _merge_configs seen through observable *)
Definition omerge (a b : obs) : obs :=
  mkObs (o_rules a ++ o_rules b) (o_redirect a ++ o_redirect b) (o_after a ++ o_after b)
        (o_mcp a ++ o_mcp b) (o_after_mcp a ++ o_after_mcp b)
        (dict_merge (o_aliases a) (o_aliases b))
        (match o_log b with Some p => Some p | None => o_log a end)
        (o_log_full b || o_log_full a).
Definition oempty : obs := mkObs [] [] [] [] [] [] None false.

(* ------------------------------------------------------------------ filesystem layout *)
(* path.read_text() *)
Inductive readres :=
| RText (s : str)
| RPerm            (* PermissionError            -> ConfigError *)
| ROsErr           (* any other OSError          -> ConfigError *)
| RDecode.         (* UnicodeDecodeError (a ValueError): not caught by _load_config_file *)

(* what a path names *)
Inductive entry :=
| EFile (r : readres)     (* regular file *)
| EDir                    (* directory *)
| ESpecial                (* fifo, socket, device *)
| EAbsent
| ELink (target : entry)  (* symbolic link to something that exists (stat follows it) *)
| EDangling               (* symbolic link to nothing, or a link loop: stat gives ENOENT / ELOOP *)
| EDenied.                (* stat fails with EACCES (a component is not searchable) *)

(* Path.is_file(): follows links; ENOENT, ENOTDIR, EBADF, ELOOP are False; EACCES propagates *)
Inductive isf := IsYes (r : readres) | IsNo | IsErr.
Fixpoint is_file (e : entry) : isf :=
  match e with
  | EFile r => IsYes r
  | ELink t => is_file t
  | EDenied => IsErr
  | EDir | ESpecial | EAbsent | EDangling => IsNo
  end.

Record place := mkPlace { pl_path : str; pl_entry : entry }.

(* os.environ.get("DIPPY_CONFIG") followed by Path(..).expanduser() *)
Inductive envl :=
| EnvUnset
| EnvEmpty                (* set to "": falsy *)
| EnvNoUser               (* "~nosuchuser/..." : expanduser raises RuntimeError: caught, the layer is skipped *)
| EnvAt (p : place).      (* the expanded path and what it names *)

Record layout := mkLayout {
  l_user : place;          (* USER_CONFIG = Path.home()/.dippy/config *)
  l_chain : list place;    (* <level>/.dippy for cwd.resolve() and each of its parents, nearest first, root last *)
  l_env : envl }.

(* ------------------------------------------------------------------ load_config *)
Inductive res (T : Type) := Ok (x : T) | ConfigErr | Crash.
Arguments Ok {T} x. Arguments ConfigErr {T}. Arguments Crash {T}.
Definition bind {T U} (r : res T) (f : T -> res U) : res U :=
  match r with Ok x => f x | ConfigErr => ConfigErr | Crash => Crash end.
Definition res_map {T U} (f : T -> U) (r : res T) : res U := bind r (fun x => Ok (f x)).

(* _find_project_config: the while loop over current, current.parent, ... *)
Fixpoint find_project (chain : list place) : res (option (place * readres)) :=
  match chain with
  | [] => Ok None
  | p :: up =>
      match is_file (pl_entry p) with
      | IsYes r => Ok (Some (p, r))
      | IsNo => find_project up
      | IsErr => Crash                      (* PermissionError escapes _find_project_config ... *)
      end
  end.

Section Load.
  Variable parse : str -> config.            (* parse_config(text, source=...) *)

  (* _load_config_file *)
  Definition load_file (r : readres) : res config :=
    match r with
    | RText s => Ok (parse s)
    | RPerm | ROsErr => ConfigErr
    | RDecode => Crash
    end.

  (* load, tag, merge *)
  Definition add_layer (c : config) (p : place) (scope : str) (r : readres) : res config :=
    bind (load_file r) (fun f => Ok (merge_configs c (tag_rules f (pl_path p) scope))).

  Definition load_user (lay : layout) (c : config) : res config :=
    match is_file (pl_entry (l_user lay)) with
    | IsYes r => add_layer c (l_user lay) s_user r
    | IsNo => Ok c
    | IsErr => ConfigErr                    (* except PermissionError: raise ConfigError *)
    end.
  (* try: _find_project_config(cwd)  except PermissionError: raise ConfigError *)
  Definition find_project_checked (chain : list place) : res (option (place * readres)) :=
    match find_project chain with Crash => ConfigErr | r => r end.
  Definition load_project (lay : layout) (c : config) : res config :=
    bind (find_project_checked (l_chain lay)) (fun o =>
      match o with
      | Some (p, r) => add_layer c p s_project r
      | None => Ok c
      end).
  Definition load_env (lay : layout) (c : config) : res config :=
    match l_env lay with
    | EnvUnset | EnvEmpty => Ok c
    | EnvNoUser => Ok c                     (* except RuntimeError: return config *)
    | EnvAt p =>
        match is_file (pl_entry p) with
        | IsYes r => add_layer c p s_env r
        | IsNo => Ok c
        | IsErr => ConfigErr
        end
    end.

  Definition load_config (lay : layout) : res config :=
    bind (load_user lay empty_config) (fun c1 =>
    bind (load_project lay c1) (fun c2 =>
    load_env lay c2)).
End Load.

(* ------------------------------------------------------------------ the readable spec *)
(* which text each layer contributes (None = the layer is skipped), with the same error order *)
Definition text_of (r : readres) : res str :=
  match r with RText s => Ok s | RPerm | ROsErr => ConfigErr | RDecode => Crash end.
Definition layer := option (str * str).      (* (path, text) *)
Definition eff_at (p : place) (on_denied : res layer) : res layer :=
  match is_file (pl_entry p) with
  | IsYes r => res_map (fun s => Some (pl_path p, s)) (text_of r)
  | IsNo => Ok None
  | IsErr => on_denied
  end.
(* the nearest level whose .dippy is a regular file *)
Fixpoint nearest (chain : list place) : option place :=
  match chain with
  | [] => None
  | p :: up => match is_file (pl_entry p) with IsNo => nearest up | _ => Some p end
  end.
Definition eff_project (chain : list place) : res layer :=
  match nearest chain with None => Ok None | Some p => eff_at p ConfigErr end.
Definition eff_env (e : envl) : res layer :=
  match e with
  | EnvUnset | EnvEmpty | EnvNoUser => Ok None
  | EnvAt p => eff_at p ConfigErr
  end.
Definition effective (lay : layout) : res (layer * layer * layer) :=
  bind (eff_at (l_user lay) ConfigErr) (fun u =>
  bind (eff_project (l_chain lay)) (fun p =>
  bind (eff_env (l_env lay)) (fun e => Ok (u, p, e)))).

Definition layer_text (l : layer) : str := match l with Some (_, s) => s | None => [] end.
Definition nl : N := 10.
(* the one file holding the three texts in order *)
Definition cat3 (t : layer * layer * layer) : str :=
  match t with (u, p, e) => layer_text u ++ nl :: layer_text p ++ nl :: layer_text e end.

(* ------------------------------------------------------------------ a filesystem with identity *)
(* A layout gives every layer location its own entry.  On a real filesystem the three layer locations (and the
   .dippy of several ancestor levels) may name the SAME file: directly, through symbolic links, hard links,
   `..` components, `~`, a symlinked directory on the way.  load_config keeps no state between the layers: each
   name is examined (Path.is_file -> stat, which follows links) and read on its own.  So a filesystem is
   what stat() answers for each name - an inode (identified by device:number), nothing (ENOENT, ENOTDIR, ELOOP:
   is_file() is False) or EACCES - and what each inode is.  Two names with the same inode ARE the same file. *)
Inductive inode := IReg (r : readres) | IDirN | ISpecialN.
Inductive statres := SIno (i : str) | SNone | SDenied.
Record fsys := mkFs { fs_stat : list (str * statres); fs_inode : list (str * inode) }.

Fixpoint assoc_str {T} (k : str) (l : list (str * T)) : option T :=
  match l with
  | [] => None
  | (k', v) :: r => if str_eqb k' k then Some v else assoc_str k r
  end.
Definition stat_of (fs : fsys) (path : str) : statres :=
  match assoc_str path (fs_stat fs) with Some s => s | None => SNone end.
(* what a name is for load_config (links are already followed by stat) *)
Definition entry_of (fs : fsys) (path : str) : entry :=
  match stat_of fs path with
  | SIno i => match assoc_str i (fs_inode fs) with
              | Some (IReg r) => EFile r | Some IDirN => EDir | Some ISpecialN => ESpecial | None => EAbsent
              end
  | SNone => EAbsent
  | SDenied => EDenied
  end.
Definition place_of (fs : fsys) (path : str) : place := mkPlace path (entry_of fs path).

(* the three layer NAMES: USER_CONFIG, <level>/.dippy for the resolved cwd and its parents, $DIPPY_CONFIG *)
Inductive envname := NUnset | NEmpty | NNoUser | NAt (path : str).
Record names := mkNames { n_user : str; n_chain : list str; n_env : envname }.
Definition env_of (fs : fsys) (e : envname) : envl :=
  match e with NUnset => EnvUnset | NEmpty => EnvEmpty | NNoUser => EnvNoUser | NAt p => EnvAt (place_of fs p) end.
Definition layout_of (fs : fsys) (n : names) : layout :=
  mkLayout (place_of fs (n_user n)) (map (place_of fs) (n_chain n)) (env_of fs (n_env n)).
Definition load_config_fs (parse : str -> config) (fs : fsys) (n : names) : res config :=
  load_config parse (layout_of fs n).
Definition effective_fs (fs : fsys) (n : names) : res (layer * layer * layer) := effective (layout_of fs n).

(* ------------------------------------------------------------------ a line-fold parse_config *)
(* parse_config processes text.split("\n") line by line; a line has at most one effect *)
Inductive item :=
| IRule (f : family) (r : rule)             (* <list>.append(Rule(...)) *)
| IAlias (k v : str)                        (* aliases[k] = v *)
| ISetDefault (v : str)                     (* settings["default"] = v *)
| ISetLog (p : str)                         (* settings["log"] = Path(p).expanduser() *)
| ISetLogFull.                              (* settings["log_full"] = True *)

Definition apply_item (c : config) (i : item) : config :=
  match i with
  | IRule FCmd r => mkConfig (rules c ++ [r]) (redirect_rules c) (after_rules c) (mcp_rules c) (after_mcp_rules c) (aliases c) (default c) (log c) (log_full c)
  | IRule FRedirect r => mkConfig (rules c) (redirect_rules c ++ [r]) (after_rules c) (mcp_rules c) (after_mcp_rules c) (aliases c) (default c) (log c) (log_full c)
  | IRule FAfter r => mkConfig (rules c) (redirect_rules c) (after_rules c ++ [r]) (mcp_rules c) (after_mcp_rules c) (aliases c) (default c) (log c) (log_full c)
  | IRule FMcp r => mkConfig (rules c) (redirect_rules c) (after_rules c) (mcp_rules c ++ [r]) (after_mcp_rules c) (aliases c) (default c) (log c) (log_full c)
  | IRule FAfterMcp r => mkConfig (rules c) (redirect_rules c) (after_rules c) (mcp_rules c) (after_mcp_rules c ++ [r]) (aliases c) (default c) (log c) (log_full c)
  | IAlias k v => mkConfig (rules c) (redirect_rules c) (after_rules c) (mcp_rules c) (after_mcp_rules c) (dict_set k v (aliases c)) (default c) (log c) (log_full c)
  | ISetDefault v => mkConfig (rules c) (redirect_rules c) (after_rules c) (mcp_rules c) (after_mcp_rules c) (aliases c) v (log c) (log_full c)
  | ISetLog p => mkConfig (rules c) (redirect_rules c) (after_rules c) (mcp_rules c) (after_mcp_rules c) (aliases c) (default c) (Some p) (log_full c)
  | ISetLogFull => mkConfig (rules c) (redirect_rules c) (after_rules c) (mcp_rules c) (after_mcp_rules c) (aliases c) (default c) (log c) true
  end.
(* Config(rules=.., aliases=.., default=settings.get("default","ask"), log=settings.get("log"),
   log_full=settings.get("log_full", False)) *)
Definition cfg_of_items (l : list item) : config := fold_left apply_item l empty_config.

Section Lines.
  Variable line_item : str -> option item.   (* the effect of one non-empty line (None: blank, comment, rejected) *)
  Definition items_of_line (l : str) : list item :=
    match l with [] => [] | _ => match line_item l with Some i => [i] | None => [] end end.
  Definition items_of_text (text : str) : list item := flat_map items_of_line (split_ch nl text).
  Definition parse_lines (text : str) : config := cfg_of_items (items_of_text text).
End Lines.

(* a miniature directive reader, enough to write witnesses as config text:
   allow|ask|deny PATTERN..., alias K V, set default V, set log P, set log-full *)
Definition ws : list N := [32; 9].
Definition mini_rule (d : str) (ws_ : list str) : option item :=
  match ws_ with [] => None | _ => Some (IRule FCmd (mkRule d (join [32] ws_) None None None false)) end.
Definition mini_line (l : str) : option item :=
  match split_ws ws l with
  | d :: rest =>
      if str_eqb d $"allow" then mini_rule d rest
      else if str_eqb d $"ask" then mini_rule d rest
      else if str_eqb d $"deny" then mini_rule d rest
      else if str_eqb d $"alias" then match rest with [k; v] => Some (IAlias k v) | _ => None end
      else if str_eqb d $"set" then
        match rest with
        | [k; v] => if str_eqb k $"default" then (if str_eqb v $"allow" || str_eqb v $"ask" then Some (ISetDefault v) else None)
                    else if str_eqb k $"log" then Some (ISetLog v) else None
        | [k] => if str_eqb k $"log-full" then Some ISetLogFull else None
        | _ => None
        end
      else None
  | [] => None
  end.
Definition mini_parse : str -> config := parse_lines mini_line.
