(* MODEL of the delegating handlers of /repo:
     cli/shell.py env.py xargs.py find.py fd.py docker.py(exec) kubectl.py(exec) arch.py
         caffeinate.py script.py uv.py(run) tar.py(--to-command)      classify()
   Faithful to the code as it is, including what looks wrong.  Flag tables come from Gen/Tables.v.
   The recursive analysis of an inner command string is an oracle (Section variable). *)
From DippyV Require Import Base.Str Base.Verdict Gen.Tables Model.BashQuote.

Definition starts (p : string) (t : str) : bool := prefixb (s2l p) t.
Definition is (p : string) (t : str) : bool := str_eqb t (s2l p).
Definition has_eq (t : str) : bool := mem_ch 61 t.
Definition dash (t : str) : bool := starts "-" t.
Definition tl' {A} (l : list A) : list A := match l with [] => [] | _ :: r => r end.

(* what a handler found: the classification before it is rendered to a Classification object *)
Inductive hres :=
| HAllow
| HAsk
| HWords (cmds : list (list str)) (remote : bool)   (* inner command(s) as word lists, re-quoted with bash_join *)
| HString (s : str).                                (* inner command given as a string taken from the command line *)

Inductive cls := CAllow | CAsk | CDelegate (inner : str) (remote : bool).

(* "; ".join(...) *)
Definition render (h : hres) : cls :=
  match h with
  | HAllow => CAllow
  | HAsk => CAsk
  | HWords cmds r => CDelegate (join $"; " (map bash_join cmds)) r
  | HString s => CDelegate s false
  end.

(* ------------------------------------------------------------------ cli/shell.py *)
Definition is_c_flag (t : str) : bool := dash t && negb (starts "--" t) && mem_ch 99 t.
Fixpoint after_c (l : list str) : option (list str) :=
  match l with
  | [] => None
  | t :: r => if is_c_flag t then Some r else after_c r
  end.
Definition shell_h (tokens : list str) : hres :=
  match tokens with
  | [] | [_] => HAsk
  | _ => match after_c tokens with
         | None => HAsk
         | Some [] => HAsk
         | Some (inner :: _) => match inner with [] => HAsk | _ => HString inner end
         end
  end.

(* ------------------------------------------------------------------ cli/env.py *)
Definition SPLIT_EQ : str := $"--split-string=".
Fixpoint env_scan (l : list str) : hres :=        (* l = tokens[i:] *)
  match l with
  | [] => HAllow
  | t :: r =>
      if is "--" t then match r with [] => HAllow | _ => HWords [r] false end
      else if mem_str t ENV_SPLIT_FLAGS && nonempty r then HString (join [32] r)
      else if prefixb SPLIT_EQ t then HString (join [32] (skipn (length SPLIT_EQ) t :: r))
      else if starts "-S" t && Nat.ltb 2 (length t) then HString (join [32] (skipn 2 t :: r))
      else if mem_str t ENV_FLAGS_WITH_ARG then match r with [] => HAllow | _ :: r' => env_scan r' end
      else if dash t then env_scan r
      else if has_eq t then env_scan r
      else HWords [l] false
  end.
Definition env_h (tokens : list str) : hres := env_scan (tl' tokens).

(* ------------------------------------------------------------------ cli/xargs.py *)
Fixpoint xargs_unsafe (l : list str) : bool :=     (* l = tokens[1:] *)
  match l with
  | [] => false
  | t :: r =>
      if is "--" t then false
      else if mem_str t XARGS_UNSAFE_FLAGS then true
      else if starts "--interactive" t then true
      else if starts "--open-tty" t then true
      else xargs_unsafe r
  end.
Fixpoint xargs_skip (l : list str) : list str :=   (* _skip_flags(tokens[1:], FLAGS_WITH_ARG, True): the rest *)
  match l with
  | [] => []
  | t :: r =>
      if is "--" t then r
      else if negb (dash t) then l
      else if mem_str t XARGS_FLAGS_WITH_ARG then match r with [] => [] | _ :: r' => xargs_skip r' end
      else xargs_skip r            (* attached short, =-joined, anything else: one word *)
  end.
Definition xargs_h (tokens : list str) : hres :=
  match tokens with
  | [] | [_] => HAsk
  | _ :: rest =>
      if xargs_unsafe rest then HAsk
      else match xargs_skip rest with [] => HAsk | inner => HWords [inner] false end
  end.

(* ------------------------------------------------------------------ cli/find.py *)
Definition find_blocked (tokens : list str) : bool :=
  existsb (fun t => mem_str t FIND_OK_FLAGS || is "-delete" t) tokens.
(* cur = Some acc : inside an -exec clause (acc reversed) *)
Fixpoint find_clauses (l : list str) (cur : option (list str)) : option (list (list str)) :=
  match l with
  | [] => match cur with
          | None => Some []
          | Some [] => None
          | Some acc => Some [rev acc]
          end
  | t :: r =>
      match cur with
      | None => if mem_str t FIND_EXEC_FLAGS then find_clauses r (Some []) else find_clauses r None
      | Some acc =>
          if mem_str t FIND_TERMINATORS then
            match acc with
            | [] => None
            | _ => match find_clauses r None with Some cs => Some (rev acc :: cs) | None => None end
            end
          else find_clauses r (Some (t :: acc))
      end
  end.
Definition find_h (tokens : list str) : hres :=
  if find_blocked tokens then HAsk
  else match find_clauses tokens None with
       | None => HAsk
       | Some [] => HAllow
       | Some cs => HWords cs false
       end.

(* ------------------------------------------------------------------ cli/fd.py *)
Definition FD_ATTACHED : list str := [$"--exec-batch="; $"--exec="; $"-x"; $"-X"].
Fixpoint fd_strip (t : str) : str :=   (* characters of the cluster after the leading run of argument-less flags *)
  match t with
  | c :: r => if mem_str [c] FD_SHORT_NOARG then fd_strip r else t
  | [] => []
  end.
(* the token as the loop body sees it after the cluster normalisation *)
Definition fd_norm (t : str) : str :=
  if dash t && negb (starts "--" t) then
    match t with
    | _ :: body =>
        let rest := fd_strip body in
        (* 1 < k < len(token) and token[k] in "xX" *)
        if Nat.ltb (length rest) (length body) then
          match rest with
          | c :: _ => if N.eqb c 120 || N.eqb c 88 then 45 :: rest else t
          | [] => t
          end
        else t
    | [] => t
    end
  else t.
Fixpoint fd_attached (t : str) (flags : list str) : option str :=
  match flags with
  | [] => None
  | f :: fs => if prefixb f t && Nat.ltb (length f) (length t) then Some (skipn (length f) t) else fd_attached t fs
  end.
Fixpoint fd_scan (l : list str) : hres :=          (* l = tokens[i:], i >= 1 *)
  match l with
  | [] => HAllow
  | t :: r =>
      if mem_str t FD_EXEC_FLAGS then match r with [] => HAsk | _ => HWords [r] false end
      else
        let t' := fd_norm t in
        if negb (str_eqb t' t) && Nat.eqb (length t') 2 then match r with [] => HAsk | _ => HWords [r] false end
        else match fd_attached t' FD_ATTACHED with
             | Some v => HWords [v :: r] false
             | None => fd_scan r
             end
  end.
Definition fd_h (tokens : list str) : hres :=
  match tokens with [] | [_] => HAllow | _ :: rest => fd_scan rest end.

(* ------------------------------------------------------------------ cli/docker.py (exec path) *)
Fixpoint docker_action (l : list str) : option (str * list str) :=   (* l = tokens[1:] *)
  match l with
  | [] => None
  | t :: r =>
      if dash t then
        if mem_str t DOCKER_GLOBAL_FLAGS_WITH_ARG && nonempty r then match r with [] => None | _ :: r' => docker_action r' end else docker_action r
      else Some (t, r)
  end.
Fixpoint docker_exec_inner (l : list str) : list str :=
  match l with
  | [] => []
  | t :: r =>
      if is "--" t then r
      else if mem_str t DOCKER_EXEC_FLAGS_WITH_ARG then match r with [] => [] | _ :: r' => docker_exec_inner r' end
      else if dash t then docker_exec_inner r
      else r                                           (* the container name *)
  end.
(* None: not the exec path - the rest of the handler is not modelled *)
Definition docker_h (tokens : list str) : option hres :=
  match tokens with
  | base :: rest =>
      match docker_action rest with
      | Some (action, after) =>
          if is "compose" action || mem_str base DOCKER_COMPOSE_NAMES then None
          else if mem_str action DOCKER_SUBCMD_KEYS then None
          else if mem_str action DOCKER_SAFE_ACTIONS then None
          else if is "exec" action then
            Some (match docker_exec_inner after with [] => HAsk | inner => HWords [inner] true end)
          else None
      | None => None
      end
  | [] => None
  end.

(* ------------------------------------------------------------------ cli/kubectl.py (exec path) *)
Fixpoint kubectl_action (l : list str) : option (str * list str) :=
  match l with
  | [] => None
  | t :: r =>
      if dash t then
        if mem_str t KUBECTL_FLAGS_WITH_ARG then match r with [] => None | _ :: r' => kubectl_action r' end else kubectl_action r
      else Some (t, r)
  end.
Fixpoint after_ddash (l : list str) : option (list str) :=
  match l with
  | [] => None
  | t :: r => if is "--" t then Some r else after_ddash r
  end.
Definition kubectl_h (tokens : list str) : option hres :=
  match tokens with
  | _ :: rest =>
      match kubectl_action rest with
      | Some (action, after) =>
          if mem_str action KUBECTL_SUBCMD_KEYS then None
          else if mem_str action KUBECTL_SAFE_ACTIONS then None
          else if is "exec" action then
            Some (match after_ddash after with
                  | Some (c :: cs) => HWords [c :: cs] true
                  | _ => HAsk
                  end)
          else None
      | None => None
      end
  | [] => None
  end.

(* ------------------------------------------------------------------ cli/arch.py, caffeinate.py, script.py, uv.py (run) *)
Fixpoint arch_scan (l : list str) : hres :=
  match l with
  | [] => HAllow
  | t :: r =>
      if mem_str t ARCH_FLAGS_NO_ARG then arch_scan r
      else if mem_str t ARCH_FLAGS_WITH_ARG then match r with [] => HAllow | _ :: r' => arch_scan r' end
      else if dash t then arch_scan r
      else HWords [l] false
  end.
Definition arch_h (tokens : list str) : hres := arch_scan (tl' tokens).

Definition CAFF_CLUSTER : list N := [100; 105; 115; 109; 117].   (* "dismu" *)
Fixpoint caff_scan (l : list str) : hres :=
  match l with
  | [] => HAllow
  | t :: r =>
      if mem_str t CAFF_FLAGS_WITH_ARG then match r with [] => HAllow | _ :: r' => caff_scan r' end
      else if mem_str t CAFF_FLAGS_NO_ARG then caff_scan r
      else if dash t && forallb (fun c => mem_ch c CAFF_CLUSTER) (tl' t) then caff_scan r
      else HWords [l] false
  end.
Definition caff_h (tokens : list str) : hres := caff_scan (tl' tokens).

(* returns (skipped option words, rest starting at the file operand) *)
Fixpoint script_scan (l : list str) (skipped : list str) : list str * list str :=
  match l with
  | [] => (skipped, [])
  | t :: r =>
      if is "--" t then (skipped, r)
      else if dash t then
        if mem_str t SCRIPT_FLAGS_WITH_ARG then
          match r with [] => (skipped ++ [t], []) | a :: r' => script_scan r' (skipped ++ [t; a]) end
        else script_scan r (skipped ++ [t])
      else (skipped, l)
  end.
Definition script_h (tokens : list str) : hres :=
  match tokens with
  | [] | [_] => HAsk
  | _ :: rest =>
      match script_scan rest [] with
      | (_, []) => HAsk
      | (skipped, _file :: []) =>
          if existsb (fun t => is "-p" t || (dash t && mem_ch 112 t && negb (starts "--" t))) skipped then HAllow else HAsk
      | (_, _file :: cmd) => HWords [cmd] false
      end
  end.

Fixpoint uv_run_scan (l : list str) : hres :=      (* l = tokens[2:] *)
  match l with
  | [] => HAsk
  | t :: r =>
      if dash t then
        if mem_str t UV_RUN_FLAGS_WITH_ARG && nonempty r then match r with [] => HAsk | _ :: r' => uv_run_scan r' end else uv_run_scan r
      else HWords [l] false
  end.
Definition uv_h (tokens : list str) : option hres :=
  match tokens with
  | _ :: action :: rest =>
      if mem_str action UV_EARLY_ACTIONS then None
      else if is "run" action then Some (uv_run_scan rest)
      else None
  | _ => None
  end.

(* ------------------------------------------------------------------ cli/tar.py (--to-command path) *)
Fixpoint tar_to_command (l : list str) : option str :=      (* l = tokens[1:] : the FIRST --to-command *)
  match l with
  | [] => None
  | t :: r =>
      if starts "--to-command=" t then Some (skipn 13 t)
      else if is "--to-command" t && nonempty r then Some (hd [] r)
      else tar_to_command r
  end.
(* None: no (non-empty) --to-command - the operation detection is not modelled *)
Definition tar_h (tokens : list str) : option hres :=
  match tar_to_command (tl' tokens) with
  | Some (c :: cs) => Some (HString (c :: cs))
  | _ => None
  end.

(* ------------------------------------------------------------------ dispatch (cli/__init__.py get_handler) *)
(* Some h: the command has one of the handlers modelled above and the input is on a modelled path *)
Definition modelled (tokens : list str) : option hres :=
  match tokens with
  | [] => None
  | base :: _ =>
      if mem_str base SHELL_COMMANDS then Some (shell_h tokens)
      else if mem_str base ENV_COMMANDS then Some (env_h tokens)
      else if mem_str base XARGS_COMMANDS then Some (xargs_h tokens)
      else if mem_str base FIND_COMMANDS then Some (find_h tokens)
      else if mem_str base FD_COMMANDS then Some (fd_h tokens)
      else if mem_str base DOCKER_COMMANDS then docker_h tokens
      else if mem_str base KUBECTL_COMMANDS then kubectl_h tokens
      else if mem_str base ARCH_COMMANDS then Some (arch_h tokens)
      else if mem_str base CAFFEINATE_COMMANDS then Some (caff_h tokens)
      else if mem_str base SCRIPT_COMMANDS then Some (script_h tokens)
      else if mem_str base UV_COMMANDS then uv_h tokens
      else if mem_str base TAR_COMMANDS then tar_h tokens
      else None
  end.

(* ------------------------------------------------------------------ what the ladder does with the result *)
(* The decision ladder itself (core/analyzer.py _analyze_simple_command) is modelled in Model/Ladder.v;
   here it is an oracle.  Step 5 of the ladder turns a classification into a verdict like this
   (a modelled handler returns no redirect targets and does not set HANDLES_HELP; the help
   shortcut never applies to a delegating result). *)
Section Judge.
  (* analyze(text, config, cwd, remote).action : parser + walker + ladder *)
  Variable astr : bool -> str -> verdict.

  Definition cls_verdict (c : cls) : verdict :=
    match c with
    | CAllow => Allow
    | CAsk => Ask
    | CDelegate [] _ => Ask
    | CDelegate s r => astr r s
    end.
  Definition hverdict (h : hres) : verdict := cls_verdict (render h).
End Judge.
