(* MODEL of the delegating handlers of /repo:
     cli/shell.py env.py xargs.py find.py fd.py docker.py(exec) kubectl.py(exec) arch.py
         caffeinate.py script.py uv.py(run) tar.py(--to-command)      classify()
   Faithful to the code as it is, including what looks wrong.  Flag tables come from Gen/Tables.v.
   The recursive analysis of an inner command string is an oracle (Section variable). *)
From DippyV Require Import Base.Str Base.Verdict Gen.Tables Model.BashQuote.
From DippyV Require Model.Walker.

Definition starts (p : string) (t : str) : bool := prefixb (s2l p) t.
Definition is (p : string) (t : str) : bool := str_eqb t (s2l p).
Definition has_eq (t : str) : bool := mem_ch 61 t.
Definition dash (t : str) : bool := starts "-" t.
Definition tl' {A} (l : list A) : list A := match l with [] => [] | _ :: r => r end.

(* what a handler found: the classification before it is rendered to a Classification object *)
Inductive hres :=
| HAllow
| HAsk
| HWords (cmds : list (list str)) (remote : bool)   (* inner command(s) as word lists, re-quoted with bash_join *)
| HString (s : str).                                (* inner command given as a string taken from the command line *)

Inductive cls := CAllow | CAsk | CDelegate (inner : str) (remote : bool).

(* "; ".join(...) *)
Definition render (h : hres) : cls :=
  match h with
  | HAllow => CAllow
  | HAsk => CAsk
  | HWords cmds r => CDelegate (join $"; " (map bash_join cmds)) r
  | HString s => CDelegate s false
  end.

(* ------------------------------------------------------------------ shared helpers *)
(* s.partition("=") : (before, Some after) or (s, None) *)
Fixpoint partition_eq (s : str) : str * option str :=
  match s with
  | [] => ([], None)
  | c :: r => if N.eqb c 61 then ([], Some r)
              else let '(n, v) := partition_eq r in (c :: n, v)
  end.
(* [n for n in TABLE if n == name] or [n for n in TABLE if n.startswith(name)] *)
Definition long_names (tbl : list str) (name : str) : list str :=
  match filter (fun n => str_eqb n name) tbl with
  | [] => filter (prefixb name) tbl
  | l => l
  end.
Definition is_none {A} (o : option A) : bool := match o with None => true | Some _ => false end.
Definition oval (o : option str) : str := match o with Some v => v | None => [] end.
Definition count_ch (c : N) (t : str) : nat := length (filter (N.eqb c) t).

(* ------------------------------------------------------------------ cli/shell.py *)
(* bash's long options first; None = an unknown --long option (ask) *)
Fixpoint shell_long (l : list str) : option (list str) :=
  match l with
  | [] => Some []
  | t :: r =>
      if dash t && negb (is "-" t) && negb (is "--" t) then
        let name := lstrip [45] t in
        if mem_str name SHELL_LONG_WITH_ARG then match r with [] => Some [] | _ :: r' => shell_long r' end
        else if mem_str name SHELL_LONG_NO_ARG then shell_long r
        else if starts "--" t then None
        else Some l
      else Some l
  end.
(* short option words; owed = words still to skip for the o/O letters seen; result: -c seen, rest *)
Fixpoint shell_short (l : list str) (want_c : bool) (owed : nat) : bool * list str :=
  match l with
  | [] => (want_c, [])
  | t :: r =>
      match owed with
      | S k => shell_short r want_c k
      | O =>
          if is "-" t || is "--" t then (want_c, r)
          else match t with
               | sign :: c :: cs =>
                   if N.eqb sign 45 || N.eqb sign 43 then
                     shell_short r (want_c || mem_ch 99 (c :: cs)) (count_ch 111 t + count_ch 79 t)
                   else (want_c, l)
               | _ => (want_c, l)
               end
      end
  end.
Definition shell_h (tokens : list str) : hres :=
  match tokens with
  | [] | [_] => HAsk
  | _ :: rest =>
      if (match rest with [t] => is "--help" t || is "--version" t | _ => false end) then HAllow
      else match shell_long rest with
           | None => HAsk
           | Some l =>
               match shell_short l false O with
               | (true, inner :: _) => match inner with [] => HAsk | _ => HString inner end
               | _ => HAsk
               end
           end
  end.

(* ------------------------------------------------------------------ cli/env.py *)
(* the first letter of a cluster that takes an argument, and what follows it in the word *)
Fixpoint env_cluster (cs : str) : option (N * str) :=
  match cs with
  | [] => None
  | c :: r => if mem_str [c] ENV_SHORT_WITH_ARG then Some (c, r) else env_cluster r
  end.
(* kept: the NAME=value arguments that decide what the inner command runs (allowlists.sets_execution_var: PATH,
   LD_PRELOAD, ...), in order; they stay in front of the delegated command, every other assignment is dropped.
   The -S / --split-string paths delegate the string alone (as the code does). *)
Definition sets_exec (t : str) : bool := Walker.sets_execution_var t.
(* _split_string: env ends the -S string at a "#" comment and the words behind it still run: asked about *)
Definition env_S (value : str) (rest : list str) : hres :=
  if mem_ch 35 value then HAsk else HString (join [32] (value :: rest)).
Fixpoint env_scan (kept : list str) (l : list str) : hres :=        (* l = tokens[i:] *)
  match l with
  | [] => HAllow
  | t :: r =>
      if is "--" t then match r with [] => HAllow | _ => HWords [kept ++ r] false end
      else if starts "--" t then
        let '(name, v) := partition_eq (skipn 2 t) in
        match long_names ENV_LONG_OPTIONS name with
        | [nm] =>
            if mem_str nm ENV_LONG_WITH_ARG && is_none v then
              match r with
              | [] => HAsk
              | value :: r' => if is "split-string" nm then env_S value r' else env_scan kept r'
              end
            else if is "split-string" nm then env_S (oval v) r
            else env_scan kept r
        | _ => HAsk
        end
      else if dash t && Nat.ltb 1 (length t) then
        match env_cluster (tl' t) with
        | None => env_scan kept r
        | Some (c, []) =>
            match r with
            | [] => HAsk
            | value :: r' => if N.eqb c 83 then env_S value r' else env_scan kept r'
            end
        | Some (c, value) => if N.eqb c 83 then env_S value r else env_scan kept r
        end
      else if is "-" t then env_scan kept r
      else if has_eq t then env_scan (if sets_exec t then kept ++ [t] else kept) r
      else HWords [kept ++ l] false
  end.
Definition env_h (tokens : list str) : hres := env_scan [] (tl' tokens).

(* ------------------------------------------------------------------ cli/xargs.py *)
Definition INTERACTIVE : str := s2l "--interactive".
Definition OPEN_TTY : str := s2l "--open-tty".
Fixpoint xargs_unsafe (l : list str) : bool :=     (* l = tokens[1:] *)
  match l with
  | [] => false
  | t :: r =>
      if is "--" t then false
      else if mem_str t XARGS_UNSAFE_FLAGS then true
      else if prefixb INTERACTIVE t then true
      else if prefixb OPEN_TTY t then true
      else if starts "--" t && Nat.ltb 3 (length t) && (prefixb t INTERACTIVE || prefixb t OPEN_TTY) then true
      else xargs_unsafe r
  end.
(* does a short cluster (without its dash) end in an option that takes the NEXT word? *)
Fixpoint xargs_cluster (cs : str) : bool :=
  match cs with
  | [] => false
  | c :: r =>
      if mem_str [45; c] XARGS_FLAGS_WITH_ARG || mem_str [c] XARGS_SHORT_OPTIONAL_ARG then
        match r with [] => negb (mem_str [c] XARGS_SHORT_OPTIONAL_ARG) | _ => false end
      else xargs_cluster r
  end.
Fixpoint xargs_skip (l : list str) : list str :=   (* _skip_flags(tokens[1:], FLAGS_WITH_ARG, True): the rest *)
  match l with
  | [] => []
  | t :: r =>
      if is "--" t then r
      else if negb (dash t) then l
      else if mem_str t XARGS_FLAGS_WITH_ARG then match r with [] => [] | _ :: r' => xargs_skip r' end
      else if starts "--" t then
        let '(name, v) := partition_eq (skipn 2 t) in
        if (match long_names XARGS_LONG_OPTIONS name with [nm] => mem_str nm XARGS_LONG_WITH_ARG | _ => false end) && is_none v
        then match r with [] => [] | _ :: r' => xargs_skip r' end
        else xargs_skip r
      else if xargs_cluster (tl' t) then match r with [] => [] | _ :: r' => xargs_skip r' end
      else xargs_skip r
  end.
(* one of the skipped words asks for replacement (-I -i --replace -J), so nothing is appended *)
Definition xargs_replaces (skipped : list str) : bool :=
  existsb (fun t => starts "-I" t || starts "-i" t || starts "--replace" t || starts "--rep" t || starts "-J" t
                    || (dash t && negb (starts "--" t) && suffixb [73] t)) skipped.
Definition PLACEHOLDER : str := s2l "{}".
Definition xargs_h (tokens : list str) : hres :=
  match tokens with
  | [] | [_] => HAsk
  | _ :: rest =>
      if xargs_unsafe rest then HAsk
      else match xargs_skip rest with
           | [] => HAsk
           | inner =>
               let skipped := firstn (length rest - length inner) rest in
               HWords [if xargs_replaces skipped then inner else inner ++ [PLACEHOLDER]] false
           end
  end.

(* ------------------------------------------------------------------ cli/find.py *)
Definition find_blocked (tokens : list str) : bool :=
  existsb (fun t => mem_str t FIND_OK_FLAGS || is "-delete" t) tokens.
(* ; and \; end a clause; + only right after {} *)
Definition find_ends (t : str) (acc : list str) : bool :=
  mem_str t FIND_TERMINATORS || (is "+" t && match acc with last :: _ => is "{}" last | [] => false end).
(* cur = Some acc : inside an -exec clause (acc reversed) *)
Fixpoint find_clauses (l : list str) (cur : option (list str)) : option (list (list str)) :=
  match l with
  | [] => match cur with
          | None => Some []
          | Some [] => None
          | Some acc => Some [rev acc]
          end
  | t :: r =>
      match cur with
      | None => if mem_str t FIND_EXEC_FLAGS then find_clauses r (Some []) else find_clauses r None
      | Some acc =>
          if find_ends t acc then
            match acc with
            | [] => None
            | _ => match find_clauses r None with Some cs => Some (rev acc :: cs) | None => None end
            end
          else find_clauses r (Some (t :: acc))
      end
  end.
Definition find_h (tokens : list str) : hres :=
  if find_blocked tokens then HAsk
  else match find_clauses tokens None with
       | None => HAsk
       | Some [] => HAllow
       | Some cs => HWords cs false
       end.

(* ------------------------------------------------------------------ cli/fd.py *)
Definition FD_ATTACHED : list str := [$"--exec-batch="; $"--exec="; $"-x"; $"-X"].
Fixpoint fd_strip (t : str) : str :=   (* characters of the cluster after the leading run of argument-less flags *)
  match t with
  | c :: r => if mem_str [c] FD_SHORT_NOARG then fd_strip r else t
  | [] => []
  end.
(* the token as the loop body sees it after the cluster normalisation *)
Definition fd_norm (t : str) : str :=
  if dash t && negb (starts "--" t) then
    match t with
    | _ :: body =>
        let rest := fd_strip body in
        if Nat.ltb (length rest) (length body) then
          match rest with
          | c :: _ => if N.eqb c 120 || N.eqb c 88 then 45 :: rest else t
          | [] => t
          end
        else t
    | [] => t
    end
  else t.
Fixpoint fd_attached (t : str) (flags : list str) : option str :=
  match flags with
  | [] => None
  | f :: fs => if prefixb f t && Nat.ltb (length f) (length t) then Some (skipn (length f) t) else fd_attached t fs
  end.
Definition is_semi (t : str) : bool := is ";" t || str_eqb t [92; 59].
(* _with_path: the command as fd runs it - with no placeholder in any word the found path is appended *)
Definition fd_has_placeholder (ws : list str) : bool :=
  existsb (fun w => existsb (fun p => infixb p w) FD_PLACEHOLDERS) ws.
Definition fd_with_path (ws : list str) : list str :=
  if fd_has_placeholder ws then ws else ws ++ [PLACEHOLDER].
(* split at the first lone ; *)
Fixpoint fd_cut (l : list str) : list str * option (list str) :=
  match l with
  | [] => ([], None)
  | t :: r => if is_semi t then ([], Some r) else let '(a, b) := fd_cut r in (t :: a, b)
  end.
(* the scan of tokens[1:]; a separate -x/-X takes the words up to a lone ; and the rest is classified
   again as fd's own arguments (fuel: the recursion of classify on a strictly shorter list) *)
Fixpoint fd_scan_f (fuel : nat) (l : list str) : hres :=
  match fuel with
  | O => HAsk
  | S f =>
      (fix scan (l : list str) : hres :=
         match l with
         | [] => HAllow
         | t :: r =>
             let after_flag :=
               match r with
               | [] => HAsk
               | _ =>
                   match fd_cut r with
                   | (_, None) => HWords [fd_with_path r] false
                   | (cmd, Some rest) =>
                       (* rest = classify(["fd"] + ...): with fewer than 2 tokens it is allow *)
                       let rr := match rest with [] => HAllow | _ => fd_scan_f f rest end in
                       match cmd, rr with
                       | [], _ => HAsk
                       | _, HAsk => HAsk
                       | _, HWords cs _ => HWords (fd_with_path cmd :: cs) false
                       | _, HString _ => HAsk
                       | _, HAllow => HWords [fd_with_path cmd] false
                       end
                   end
               end in
             if mem_str t FD_EXEC_FLAGS then after_flag
             else
               let t' := fd_norm t in
               if negb (str_eqb t' t) && Nat.eqb (length t') 2 then after_flag
               else match fd_attached t' FD_ATTACHED with
                    | Some v => HWords [fd_with_path (v :: r)] false
                    | None => scan r
                    end
         end) l
  end.
Definition fd_h (tokens : list str) : hres :=
  match tokens with [] | [_] => HAllow | _ :: rest => fd_scan_f (S (length rest)) rest end.

(* ------------------------------------------------------------------ cli/docker.py (exec path) *)
Fixpoint docker_action (l : list str) : option (str * list str) :=   (* l = tokens[1:] *)
  match l with
  | [] => None
  | t :: r =>
      if dash t then
        if mem_str t DOCKER_GLOBAL_FLAGS_WITH_ARG && nonempty r then match r with [] => None | _ :: r' => docker_action r' end else docker_action r
      else Some (t, r)
  end.
(* does a short cluster (without its dash) end in a flag whose value is the NEXT word? *)
Fixpoint docker_cluster (cs : str) : bool :=
  match cs with
  | [] => false
  | c :: r => if mem_str [c] DOCKER_EXEC_SHORT_WITH_ARG then match r with [] => true | _ => false end
              else docker_cluster r
  end.
(* the options; what is left starts with the container name *)
Fixpoint docker_exec_opts (l : list str) : list str :=
  match l with
  | [] => []
  | t :: r =>
      if is "--" t then r
      else if mem_str t DOCKER_EXEC_FLAGS_WITH_ARG then match r with [] => [] | _ :: r' => docker_exec_opts r' end
      else if starts "--" t then docker_exec_opts r
      else if dash t && Nat.ltb 1 (length t) then
        if docker_cluster (tl' t) then match r with [] => [] | _ :: r' => docker_exec_opts r' end
        else docker_exec_opts r
      else l
  end.
Definition docker_exec_inner (l : list str) : list str := tl' (docker_exec_opts l).
(* None: not the exec path - the rest of the handler is not modelled *)
Definition docker_h (tokens : list str) : option hres :=
  match tokens with
  | base :: rest =>
      match docker_action rest with
      | Some (action, after) =>
          if is "compose" action || mem_str base DOCKER_COMPOSE_NAMES then None
          else if mem_str action DOCKER_SUBCMD_KEYS then None
          else if mem_str action DOCKER_SAFE_ACTIONS then None
          else if is "exec" action then
            Some (match docker_exec_inner after with [] => HAsk | inner => HWords [inner] true end)
          else None
      | None => None
      end
  | [] => None
  end.

(* ------------------------------------------------------------------ cli/kubectl.py (exec path) *)
Fixpoint kubectl_action (l : list str) : option (str * list str) :=
  match l with
  | [] => None
  | t :: r =>
      if dash t then
        if mem_str t KUBECTL_FLAGS_WITH_ARG then match r with [] => None | _ :: r' => kubectl_action r' end else kubectl_action r
      else Some (t, r)
  end.
Definition KC_ATTACH : list N := [99; 110; 102; 115; 118].   (* "cnfsv" *)
Definition KC_BOOLS : list N := [105; 116; 113].              (* "itq" *)
Fixpoint kc_bool_run (cs : str) (k : nat) : nat :=     (* index of the first letter after "-" that is not a boolean one, or the length *)
  match cs with c :: r => if mem_ch c KC_BOOLS then kc_bool_run r (S k) else k | [] => k end.
(* the first -- that is not the value of a flag *)
Fixpoint after_ddash (l : list str) : option (list str) :=
  match l with
  | [] => None
  | t :: r =>
      if is "--" t then Some r
      else if dash t && negb (has_eq t) && negb (mem_str t KUBECTL_EXEC_BOOL_FLAGS) then
        (* short cluster: boolean letters, then the first other letter takes the rest of the word or - as the last
           letter - the next word; a long flag takes the next word *)
        if negb (starts "--" t) && negb (Nat.eqb (kc_bool_run (tl' t) 1) (length t - 1)) then after_ddash r
        else match r with [] => None | _ :: r' => after_ddash r' end
      else after_ddash r
  end.
Definition kubectl_h (tokens : list str) : option hres :=
  match tokens with
  | _ :: rest =>
      match kubectl_action rest with
      | Some (action, after) =>
          if mem_str action KUBECTL_SUBCMD_KEYS then None
          else if mem_str action KUBECTL_SAFE_ACTIONS then None
          else if is "exec" action then
            Some (match after_ddash after with
                  | Some (c :: cs) => HWords [c :: cs] true
                  | _ => HAsk
                  end)
          else None
      | None => None
      end
  | [] => None
  end.

(* ------------------------------------------------------------------ cli/arch.py, caffeinate.py, script.py, uv.py (run) *)
Fixpoint arch_scan (l : list str) : hres :=
  match l with
  | [] => HAllow
  | t :: r =>
      if mem_str t ARCH_FLAGS_NO_ARG then arch_scan r
      else if mem_str t ARCH_FLAGS_WITH_ARG then match r with [] => HAllow | _ :: r' => arch_scan r' end
      else if dash t then arch_scan r
      else HWords [l] false
  end.
Definition arch_h (tokens : list str) : hres := arch_scan (tl' tokens).

Definition CAFF_CLUSTER : list N := [100; 105; 115; 109; 117].   (* "dismu" *)
Fixpoint caff_scan (l : list str) : hres :=
  match l with
  | [] => HAllow
  | t :: r =>
      if mem_str t CAFF_FLAGS_WITH_ARG then match r with [] => HAllow | _ :: r' => caff_scan r' end
      else if mem_str t CAFF_FLAGS_NO_ARG then caff_scan r
      else if dash t && forallb (fun c => mem_ch c CAFF_CLUSTER) (tl' t) then caff_scan r
      else HWords [l] false
  end.
Definition caff_h (tokens : list str) : hres := caff_scan (tl' tokens).

(* returns (skipped option words, rest starting at the file operand) *)
Fixpoint script_scan (l : list str) (skipped : list str) : list str * list str :=
  match l with
  | [] => (skipped, [])
  | t :: r =>
      if is "--" t then (skipped, r)
      else if dash t then
        if mem_str t SCRIPT_FLAGS_WITH_ARG then
          match r with [] => (skipped ++ [t], []) | a :: r' => script_scan r' (skipped ++ [t; a]) end
        else script_scan r (skipped ++ [t])
      else (skipped, l)
  end.
Definition script_h (tokens : list str) : hres :=
  match tokens with
  | [] | [_] => HAsk
  | _ :: rest =>
      match script_scan rest [] with
      | (_, []) => HAsk
      | (skipped, _file :: []) =>
          if existsb (fun t => is "-p" t || (dash t && mem_ch 112 t && negb (starts "--" t))) skipped then HAllow else HAsk
      | (_, _file :: cmd) => HWords [cmd] false
      end
  end.

Fixpoint uv_run_scan (l : list str) : hres :=      (* l = tokens[2:] *)
  match l with
  | [] => HAsk
  | t :: r =>
      if dash t then
        if mem_str t UV_RUN_FLAGS_WITH_ARG && nonempty r then match r with [] => HAsk | _ :: r' => uv_run_scan r' end else uv_run_scan r
      else HWords [l] false
  end.
Definition uv_h (tokens : list str) : option hres :=
  match tokens with
  | _ :: action :: rest =>
      if mem_str action UV_EARLY_ACTIONS then None
      else if is "run" action then Some (uv_run_scan rest)
      else None
  | _ => None
  end.

(* ------------------------------------------------------------------ cli/tar.py (--to-command path) *)
Fixpoint tar_to_command (l : list str) : option str :=      (* l = tokens[1:] : the FIRST --to-command *)
  match l with
  | [] => None
  | t :: r =>
      if starts "--to-command=" t then Some (skipn 13 t)
      else if is "--to-command" t && nonempty r then Some (hd [] r)
      else tar_to_command r
  end.
(* None: no (non-empty) --to-command - the operation detection is not modelled *)
Definition tar_h (tokens : list str) : option hres :=
  match tar_to_command (tl' tokens) with
  | Some (c :: cs) => Some (HString (c :: cs))
  | _ => None
  end.

(* ------------------------------------------------------------------ dispatch (cli/__init__.py get_handler) *)
(* Some h: the command has one of the handlers modelled above and the input is on a modelled path *)
Definition modelled (tokens : list str) : option hres :=
  match tokens with
  | [] => None
  | base :: _ =>
      if mem_str base SHELL_COMMANDS then Some (shell_h tokens)
      else if mem_str base ENV_COMMANDS then Some (env_h tokens)
      else if mem_str base XARGS_COMMANDS then Some (xargs_h tokens)
      else if mem_str base FIND_COMMANDS then Some (find_h tokens)
      else if mem_str base FD_COMMANDS then Some (fd_h tokens)
      else if mem_str base DOCKER_COMMANDS then docker_h tokens
      else if mem_str base KUBECTL_COMMANDS then kubectl_h tokens
      else if mem_str base ARCH_COMMANDS then Some (arch_h tokens)
      else if mem_str base CAFFEINATE_COMMANDS then Some (caff_h tokens)
      else if mem_str base SCRIPT_COMMANDS then Some (script_h tokens)
      else if mem_str base UV_COMMANDS then uv_h tokens
      else if mem_str base TAR_COMMANDS then tar_h tokens
      else None
  end.

(* ------------------------------------------------------------------ what the ladder does with the result *)
(* The decision ladder itself (core/analyzer.py _analyze_simple_command) is modelled in Model/Ladder.v;
   here it is an oracle.  Step 5 of the ladder turns a classification into a verdict like this
   (a modelled handler returns no redirect targets and does not set HANDLES_HELP; the help
   shortcut never applies to a delegating result). *)
Section Judge.
  (* analyze(text, config, cwd, remote).action : parser + walker + ladder *)
  Variable astr : bool -> str -> verdict.

  Definition cls_verdict (c : cls) : verdict :=
    match c with
    | CAllow => Allow
    | CAsk => Ask
    | CDelegate [] _ => Ask
    | CDelegate s r => astr r s
    end.
  Definition hverdict (h : hres) : verdict := cls_verdict (render h).
End Judge.
