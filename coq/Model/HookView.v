(* The READ SET of the hook (C06 / C12 / C19): which parts of the payload main() can observe.

   [host_view] keeps of the hook input exactly the places dippy.py looks at - the top-level keys of
   HOOK_TOP_KEYS and, inside a tool_input object, the keys of HOOK_TOOL_INPUT_KEYS (both tables are regenerated
   from dippy.py by tools/tables/t06_hookkeys.py) - and drops everything else: every other top-level key with
   whatever it holds (tool_response, session data, look-alike spellings), every other key of tool_input, every
   deeper level; the members that remain are listed in the tables' order, so that the order of the members in the
   payload, repeated members and an empty tool_input are normalised away too.  A value that is not an object is left alone.

   The decoy constructors describe where a key of the same NAME as a host field can be put without being the
   host's field: inside tool_input, inside any other top-level member, at any depth. *)
From Coq Require Import List Bool NArith String.
From DippyV Require Import Base.Str Gen.Tables Model.Hook.
Import ListNotations.
Open Scope N_scope.

(* the members called k1, k2, ... of an object, in that order, each at most once (a JSON reader sees the value
   [assoc] finds); [norm k v] = None drops the member *)
Definition pick (norm : str -> json -> option json) (keys : list str) (kv : list (str * json)) : list (str * json) :=
  flat_map (fun k => match assoc k kv with
                     | Some v => match norm k v with Some v' => [(k, v')] | None => [] end
                     | None => []
                     end) keys.

Definition ti_view (j : json) : json :=
  match j with JObj kv => JObj (pick (fun _ v => Some v) HOOK_TOOL_INPUT_KEYS kv) | _ => j end.

Definition is_empty_obj (j : json) : bool := match j with JObj [] => true | _ => false end.

(* tool_input is reduced to its own view; an absent tool_input and one whose view is {} are the same thing to the
   hook (`input_data.get("tool_input", {})`), so the latter is dropped: the view is a normal form *)
Definition top_norm (k : str) (v : json) : option json :=
  if str_eqb k $"tool_input" then (if is_empty_obj (ti_view v) then None else Some (ti_view v)) else Some v.

Definition host_view (j : json) : json :=
  match j with JObj kv => JObj (pick top_norm HOOK_TOP_KEYS kv) | _ => j end.

(* ---- where a decoy can live *)
(* insert a member at any position of an object *)
Definition insert_at (n : nat) (p : str * json) (kv : list (str * json)) : list (str * json) :=
  firstn n kv ++ p :: skipn n kv.

(* replace the value of the first member called k (nothing when there is none) *)
Fixpoint update (k : str) (f : json -> json) (kv : list (str * json)) : list (str * json) :=
  match kv with
  | [] => []
  | (k', v) :: r => if str_eqb k' k then (k', f v) :: r else (k', v) :: update k f r
  end.

(* a decoy member (k, v) put INSIDE the tool_input object, at position n *)
Definition decoy_in_tool_input (n : nat) (k : str) (v : json) (kv : list (str * json)) : list (str * json) :=
  update $"tool_input" (fun ti => match ti with JObj tkv => JObj (insert_at n (k, v) tkv) | _ => ti end) kv.
