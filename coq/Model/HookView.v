(* The READ SET of the hook (C06 / C12 / C19): which parts of the payload main() can observe.

   [host_view] keeps of the hook input exactly the places dippy.py looks at - the top-level keys of
   HOOK_TOP_KEYS and, inside a tool_input object, the keys of HOOK_TOOL_INPUT_KEYS (both tables are regenerated
   from dippy.py by tools/tables/t06_hookkeys.py) - and drops everything else: every other top-level key with
   whatever it holds (tool_response, session data, look-alike spellings), every other key of tool_input, every
   deeper level.  A value that is not an object is left alone.

   The decoy constructors describe where a key of the same NAME as a host field can be put without being the
   host's field: inside tool_input, inside any other top-level member, at any depth. *)
From Coq Require Import List Bool NArith String.
From DippyV Require Import Base.Str Gen.Tables Model.Hook.
Import ListNotations.
Open Scope N_scope.

Definition keep (keys : list str) (kv : list (str * json)) : list (str * json) :=
  filter (fun p => mem_str (fst p) keys) kv.

Definition ti_view (j : json) : json :=
  match j with JObj kv => JObj (keep HOOK_TOOL_INPUT_KEYS kv) | _ => j end.

Definition top_entry (p : str * json) : str * json :=
  if str_eqb (fst p) $"tool_input" then (fst p, ti_view (snd p)) else p.

Definition host_view (j : json) : json :=
  match j with JObj kv => JObj (map top_entry (keep HOOK_TOP_KEYS kv)) | _ => j end.

(* ---- where a decoy can live *)
(* insert a member at any position of an object *)
Definition insert_at (n : nat) (p : str * json) (kv : list (str * json)) : list (str * json) :=
  firstn n kv ++ p :: skipn n kv.

(* replace the value of the first member called k (nothing when there is none) *)
Fixpoint update (k : str) (f : json -> json) (kv : list (str * json)) : list (str * json) :=
  match kv with
  | [] => []
  | (k', v) :: r => if str_eqb k' k then (k', f v) :: r else (k', v) :: update k f r
  end.

(* a decoy member (k, v) put INSIDE the tool_input object, at position n *)
Definition decoy_in_tool_input (n : nat) (k : str) (v : json) (kv : list (str * json)) : list (str * json) :=
  update $"tool_input" (fun ti => match ti with JObj tkv => JObj (insert_at n (k, v) tkv) | _ => ti end) kv.
