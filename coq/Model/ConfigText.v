(* Model of dippy/core/config.py: parse_config and its helpers (_strip_exact_anchor, _unescape,
   _extract_message, _apply_setting, _classify_token, _expand_home_only, _expand_pattern_tildes),
   plus the reference writer used by the round-trip theorems.

   Strings are code-point lists.  Python exceptions are explicit: every operation of the loop body
   that can raise is modelled with an [Exn] result, *including the ones that are not ValueError*
   (parts[0] -> IndexError, Path.home()/expanduser -> RuntimeError), so that "the per-line handler
   catches everything" is a theorem and not a modelling choice.

   External behaviour (Section variables):
     home : option str              str(Path.home()); None = RuntimeError (home cannot be determined)
     expu : str -> eu_result        str(Path(v).expanduser()); RuntimeError (~nosuchuser),
                                    ValueError (NUL or an unencodable surrogate reaches pwd.getpwnam) *)
From DippyV Require Import Base.Str Gen.Tables.

Inductive exn := ValueError | IndexError | RuntimeError.
Inductive res (A : Type) := Ok (a : A) | Exn (e : exn).
Arguments Ok {A} a.
Arguments Exn {A} e.
Definition bind {A B} (x : res A) (f : A -> res B) : res B :=
  match x with Ok a => f a | Exn e => Exn e end.

(* ---------------------------------------------------------------- str methods *)
(* Py_UNICODE_ISSPACE: the one predicate behind str.strip(), str.split(None) and str.isspace() *)
Definition is_space (c : N) : bool := in_ranges c PY_SPACE.

Fixpoint lstrip_ws (s : str) : str :=
  match s with
  | c :: s' => if is_space c then lstrip_ws s' else s
  | [] => []
  end.
Definition rstrip_ws (s : str) : str := rev (lstrip_ws (rev s)).
Definition strip_ws (s : str) : str := rstrip_ws (lstrip_ws s).

(* the maximal leading run of non-space characters, and what follows it *)
Fixpoint span_ns (s : str) : str * str :=
  match s with
  | c :: s' => if is_space c then ([], s) else let (a, b) := span_ns s' in (c :: a, b)
  | [] => ([], [])
  end.

(* s.split(None, 1): at most two fields; the second keeps its inner and trailing white space *)
Definition split1 (s : str) : list str :=
  match lstrip_ws s with
  | [] => []
  | s1 => let (tok, r) := span_ns s1 in
          match lstrip_ws r with [] => [tok] | r' => [tok; r'] end
  end.

(* s.split() *)
Fixpoint split_all_aux (s cur : str) : list str :=
  match s with
  | [] => match cur with [] => [] | _ => [rev cur] end
  | c :: s' =>
      if is_space c then
        match cur with [] => split_all_aux s' [] | _ => rev cur :: split_all_aux s' [] end
      else split_all_aux s' (c :: cur)
  end.
Definition split_all (s : str) : list str := split_all_aux s [].

(* str.lower(): ASCII directly, the rest from the interpreter's table (context-free part) *)
Fixpoint assoc_n (c : N) (l : list (N * list N)) : option (list N) :=
  match l with
  | [] => None
  | (k, v) :: r => if N.eqb k c then Some v else assoc_n c r
  end.
Definition lower_ch (c : N) : list N :=
  if N.ltb c 128 then (if N.leb 65 c && N.leb c 90 then [c + 32] else [c])
  else match assoc_n c PY_LOWER_NONASCII with Some l => l | None => [c] end.
Definition lower (s : str) : str := flat_map lower_ch s.

(* s.replace(a, b) for single characters *)
Definition replace_ch (a b : N) (s : str) : str := map (fun c => if N.eqb c a then b else c) s.

Definition BS : N := 92.    (* backslash *)
Definition DQ : N := 34.    (* double quote *)
Definition BAR : N := 124.  (* | *)
Definition SP : N := 32.
Definition NL : N := 10.
Definition HASH : N := 35.

(* ---------------------------------------------------------------- _unescape *)
Fixpoint unescape (s : str) : str :=
  match s with
  | [] => []
  | c :: t =>
      if N.eqb c BS then
        match t with
        | [] => [c]
        | n :: t' => if N.eqb n DQ || N.eqb n BS then n :: unescape t' else c :: unescape t
        end
      else c :: unescape t
  end.

(* ---------------------------------------------------------------- _strip_exact_anchor *)
Definition strip_exact_anchor (p : str) : str * bool :=
  match rev p with
  | c :: r => if N.eqb c BAR then (rstrip_ws (rev r), true) else (p, false)
  | [] => (p, false)
  end.

(* ---------------------------------------------------------------- _extract_message *)
(* The two backwards scans run over the reversed string (without its final quote). *)
Fixpoint count_bs (r : str) : nat :=
  match r with
  | c :: r' => if N.eqb c BS then S (count_bs r') else O
  | [] => O
  end.

(* position i holds c, r2 is s[:i] reversed, acc is s[i+1:-1] *)
Fixpoint find_open (r acc : str) : option (str * str) :=
  match r with
  | [] => None
  | c :: r2 =>
      if N.eqb c DQ && (match r2 with [] => true | p :: _ => is_space p end)
      then Some (r2, acc)
      else find_open r2 (c :: acc)
  end.

Definition extract_message (s0 : str) : res (str * option str) :=
  let s := rstrip_ws s0 in
  match rev s with
  | c :: r1 =>
      if N.eqb c DQ then
        if Nat.odd (count_bs r1) then Ok (s, None)
        else match find_open r1 [] with
             | Some (r2, inner) =>
                 let message := unescape inner in
                 let pattern := rstrip_ws (rev r2) in
                 if nonempty pattern then Ok (pattern, Some message) else Exn ValueError
             | None => Ok (s, None)
             end
      else Ok (s, None)
  | [] => Ok (s, None)
  end.

(* ---------------------------------------------------------------- token kinds *)
Inductive kind := KUrl | KVariable | KAbsolute | KHome | KUserHome | KRelative | KBare.

Definition classify_token (t : str) : kind :=
  if infixb $"://" t then KUrl
  else if prefixb $"$" t then KVariable
  else if prefixb $"/" t then KAbsolute
  else if str_eqb t $"~" || prefixb $"~/" t then KHome
  else if prefixb $"~" t then KUserHome
  else if str_eqb t $"." || str_eqb t $".." || prefixb $"./" t || prefixb $"../" t || infixb $"/" t then KRelative
  else KBare.

Definition is_home_kind (t : str) : bool := match classify_token t with KHome => true | _ => false end.

Inductive eu_result := EUOk (p : str) | EURuntime | EUValue.

Fixpoint mapM {A B} (f : A -> res B) (l : list A) : res (list B) :=
  match l with
  | [] => Ok []
  | x :: r => bind (f x) (fun y => bind (mapM f r) (fun ys => Ok (y :: ys)))
  end.

Section Oracles.
  Variable home : option str.
  Variable expu : str -> eu_result.

  (* _expand_home_only: Path.home() is called only for a HOME-kind token *)
  Definition expand_home_only (t : str) : res str :=
    match classify_token t with
    | KHome =>
        match home with
        | Some h => Ok (if Nat.ltb 1 (length t) then h ++ tl t else h)
        | None => Exn RuntimeError
        end
    | _ => Ok t
    end.

  (* _expand_pattern_tildes *)
  Definition expand_tildes (p : str) : res str :=
    bind (mapM expand_home_only (split_all p)) (fun ts => Ok (join [SP] ts)).

  (* ---------------------------------------------------------------- the config being built *)
  Record rule := mkrule { r_decision : str; r_pattern : str; r_message : option str; r_exact : bool }.

  Inductive listid := LRules | LRedirect | LAfter | LMcp | LAfterMcp.
  Inductive setting := SLogFull | SDefault (v : str) | SLog (p : str).
  Inductive effect := ERule (l : listid) (r : rule) | EAlias (k v : str) | ESet (s : setting).

  (* one row per rule directive: the eleven branches differ only in these columns *)
  Record dspec := mkd { d_name : str; d_list : listid; d_dec : str; d_msg : bool; d_anchor : bool; d_tilde : bool }.

  Definition rule_dirs : list dspec :=
    [ mkd $"allow" LRules $"allow" false true true;
      mkd $"ask" LRules $"ask" true true true;
      mkd $"deny" LRules $"deny" true true true;
      mkd $"allow-redirect" LRedirect $"allow" false false true;
      mkd $"ask-redirect" LRedirect $"ask" true false true;
      mkd $"deny-redirect" LRedirect $"deny" true false true;
      mkd $"after" LAfter $"after" true false false;
      mkd $"allow-mcp" LMcp $"allow" false false false;
      mkd $"ask-mcp" LMcp $"ask" true false false;
      mkd $"deny-mcp" LMcp $"deny" true false false;
      mkd $"after-mcp" LAfterMcp $"after" true false false ].

  Fixpoint find_dir (d : str) (l : list dspec) : option dspec :=
    match l with
    | [] => None
    | sp :: r => if str_eqb d (d_name sp) then Some sp else find_dir d r
    end.

  (* body of a rule branch:  if not rest: raise;  [_extract_message];  [_strip_exact_anchor];
     [_expand_pattern_tildes];  <list>.append(Rule(...)) *)
  Definition do_rule (sp : dspec) (rest : str) : res effect :=
    if nonempty rest then
      bind (if d_msg sp then extract_message rest else Ok (rest, None)) (fun pm =>
      let pe := if d_anchor sp then strip_exact_anchor (fst pm) else (fst pm, false) in
      bind (if d_tilde sp then expand_tildes (fst pe) else Ok (fst pe)) (fun pat =>
      Ok (ERule (d_list sp) (mkrule (d_dec sp) pat (snd pm) (snd pe)))))
    else Exn ValueError.

  (* alias branch *)
  Definition do_alias (rest : str) : res effect :=
    match split_all rest with
    | [src; tgt] => bind (expand_tildes src) (fun k => Ok (EAlias k tgt))
    | _ => Exn ValueError
    end.

  (* Path(value).expanduser() as written at HEAD: RuntimeError is turned into ValueError *)
  Definition expanduser_raw (v : str) : res str :=
    match expu v with EUOk p => Ok p | EURuntime => Exn RuntimeError | EUValue => Exn ValueError end.
  Definition expanduser_guarded (v : str) : res str :=
    match expanduser_raw v with Exn RuntimeError => Exn ValueError | x => x end.

  (* _apply_setting; [guard] selects HEAD (true) or the code before the repair (false) *)
  Definition apply_setting (guard : bool) (rest : str) : res effect :=
    if nonempty rest then
      match split1 rest with
      | [] => Exn IndexError                     (* parts[0] *)
      | k :: more =>
          let key := lower k in
          let value := match more with v :: _ => Some v | [] => None end in
          let kn := replace_ch 45 95 key in
          if str_eqb kn $"log_full" then
            match value with Some _ => Exn ValueError | None => Ok (ESet SLogFull) end
          else if str_eqb kn $"default" then
            match value with
            | Some v => if str_eqb v $"allow" || str_eqb v $"ask" then Ok (ESet (SDefault v)) else Exn ValueError
            | None => Exn ValueError
            end
          else if str_eqb kn $"log" then
            match value with
            | None => Exn ValueError
            | Some v => bind (if guard then expanduser_guarded v else expanduser_raw v) (fun p => Ok (ESet (SLog p)))
            end
          else Exn ValueError
      end
    else Exn ValueError.

  (* the if/elif chain inside the try block *)
  Definition body (guard : bool) (directive rest : str) : res effect :=
    match find_dir directive rule_dirs with
    | Some sp => do_rule sp rest
    | None =>
        if str_eqb directive $"alias" then do_alias rest
        else if str_eqb directive $"set" then apply_setting guard rest
        else Exn ValueError
    end.

  (* the statements before the try block: strip, skip blanks and comments, split, lower *)
  Definition pre_line (raw : str) : res (option (str * str)) :=
    let line := strip_ws raw in
    if negb (nonempty line) || prefixb [HASH] line then Ok None
    else match split1 line with
         | [] => Exn IndexError                  (* parts[0], outside the try block *)
         | d :: more => Ok (Some (lower d, match more with r :: _ => strip_ws r | [] => [] end))
         end.

  (* one iteration of the loop: an exception before the try block, or one the handler does not
     name, leaves the loop; a ValueError inside the try block is logged and the line skipped *)
  Definition step (guard : bool) (raw : str) : res (option effect) :=
    match pre_line raw with
    | Exn e => Exn e
    | Ok None => Ok None
    | Ok (Some (d, rest)) =>
        match body guard d rest with
        | Ok e => Ok (Some e)
        | Exn ValueError => Ok None
        | Exn e => Exn e
        end
    end.

  (* ---------------------------------------------------------------- state and loop *)
  Record state := mkst {
    s_rules : list rule; s_redirect : list rule; s_after : list rule; s_mcp : list rule; s_after_mcp : list rule;
    s_aliases : list (str * str);          (* a Python dict: insertion ordered, assignment keeps the position *)
    s_default : option str; s_log : option str; s_log_full : bool }.

  Definition init : state := mkst [] [] [] [] [] [] None None false.

  Fixpoint dict_set (k v : str) (d : list (str * str)) : list (str * str) :=
    match d with
    | [] => [(k, v)]
    | (k', v') :: r => if str_eqb k' k then (k', v) :: r else (k', v') :: dict_set k v r
    end.
  Fixpoint dict_get (k : str) (d : list (str * str)) : option str :=
    match d with
    | [] => None
    | (k', v') :: r => if str_eqb k' k then Some v' else dict_get k r
    end.

  Definition apply_effect (e : effect) (st : state) : state :=
    match e with
    | ERule LRules r => mkst (s_rules st ++ [r]) (s_redirect st) (s_after st) (s_mcp st) (s_after_mcp st) (s_aliases st) (s_default st) (s_log st) (s_log_full st)
    | ERule LRedirect r => mkst (s_rules st) (s_redirect st ++ [r]) (s_after st) (s_mcp st) (s_after_mcp st) (s_aliases st) (s_default st) (s_log st) (s_log_full st)
    | ERule LAfter r => mkst (s_rules st) (s_redirect st) (s_after st ++ [r]) (s_mcp st) (s_after_mcp st) (s_aliases st) (s_default st) (s_log st) (s_log_full st)
    | ERule LMcp r => mkst (s_rules st) (s_redirect st) (s_after st) (s_mcp st ++ [r]) (s_after_mcp st) (s_aliases st) (s_default st) (s_log st) (s_log_full st)
    | ERule LAfterMcp r => mkst (s_rules st) (s_redirect st) (s_after st) (s_mcp st) (s_after_mcp st ++ [r]) (s_aliases st) (s_default st) (s_log st) (s_log_full st)
    | EAlias k v => mkst (s_rules st) (s_redirect st) (s_after st) (s_mcp st) (s_after_mcp st) (dict_set k v (s_aliases st)) (s_default st) (s_log st) (s_log_full st)
    | ESet SLogFull => mkst (s_rules st) (s_redirect st) (s_after st) (s_mcp st) (s_after_mcp st) (s_aliases st) (s_default st) (s_log st) true
    | ESet (SDefault v) => mkst (s_rules st) (s_redirect st) (s_after st) (s_mcp st) (s_after_mcp st) (s_aliases st) (Some v) (s_log st) (s_log_full st)
    | ESet (SLog p) => mkst (s_rules st) (s_redirect st) (s_after st) (s_mcp st) (s_after_mcp st) (s_aliases st) (s_default st) (Some p) (s_log_full st)
    end.

  Fixpoint parse_lines (guard : bool) (ls : list str) (st : state) : res state :=
    match ls with
    | [] => Ok st
    | l :: ls' =>
        match step guard l with
        | Exn e => Exn e
        | Ok None => parse_lines guard ls' st
        | Ok (Some e) => parse_lines guard ls' (apply_effect e st)
        end
    end.

  (* Config(...): settings.get("default", "ask"), settings.get("log"), settings.get("log_full", False) *)
  Record config := mkcfg {
    c_rules : list rule; c_redirect : list rule; c_after : list rule; c_mcp : list rule; c_after_mcp : list rule;
    c_aliases : list (str * str); c_default : str; c_log : option str; c_log_full : bool }.

  Definition config_of (st : state) : config :=
    mkcfg (s_rules st) (s_redirect st) (s_after st) (s_mcp st) (s_after_mcp st) (s_aliases st)
          (match s_default st with Some v => v | None => $"ask" end) (s_log st) (s_log_full st).

  (* text.split("\n") *)
  Definition lines_of (text : str) : list str := split_ch NL text.

  Definition parse_of_lines (ls : list str) : res config :=
    bind (parse_lines true ls init) (fun st => Ok (config_of st)).
  Definition parse_config (text : str) : res config := parse_of_lines (lines_of text).

  (* ---------------------------------------------------------------- the code before the repairs *)
  (* text.splitlines(): also breaks at VT FF FS GS RS CR NEL LS PS (an extra empty line between CR and
     LF, or no final empty line, makes no difference to the loop: empty lines are skipped) *)
  Definition LINE_BREAKS : list N := [10; 11; 12; 13; 28; 29; 30; 133; 8232; 8233].
  Fixpoint splitlines_aux (s cur : str) : list str :=
    match s with
    | [] => [rev cur]
    | c :: s' => if mem_ch c LINE_BREAKS then rev cur :: splitlines_aux s' [] else splitlines_aux s' (c :: cur)
    end.
  Definition legacy_parse_config (text : str) : res config :=
    bind (parse_lines false (splitlines_aux text []) init) (fun st => Ok (config_of st)).

  (* ---------------------------------------------------------------- reference writer *)
  Definition esc_ch (c : N) : str := if N.eqb c BS then [BS; BS] else if N.eqb c DQ then [BS; DQ] else [c].
  Definition escape (m : str) : str := flat_map esc_ch m.

  (*  directive pattern[ |][ "escaped message"]  *)
  Definition write_rule (sp : dspec) (p : str) (ex : bool) (m : option str) : str :=
    d_name sp ++ [SP] ++ p ++ (if ex then [SP; BAR] else [])
      ++ match m with Some m => [SP; DQ] ++ escape m ++ [DQ] | None => [] end.
  Definition write_alias (src tgt : str) : str := $"alias" ++ [SP] ++ src ++ [SP] ++ tgt.

  (* what the rule line must parse to *)
  Definition rule_effect (sp : dspec) (p : str) (ex : bool) (m : option str) : effect :=
    ERule (d_list sp) (mkrule (d_dec sp) p m ex).

  (* well-formed rule values: exactly what the parser needs to give the value back *)
  Definition edges_ok (p : str) : bool :=
    match p with c :: _ => negb (is_space c) | [] => false end
    && match rev p with c :: _ => negb (is_space c) | [] => false end.
  Definition tilde_fixed (p : str) : bool :=
    match expand_tildes p with Ok p' => str_eqb p' p | Exn _ => false end.
  Definition no_message (p : str) : bool :=
    match extract_message p with Ok (p', None) => str_eqb p' p | _ => false end.
  Definition ends_with_bar (p : str) : bool := match rev p with c :: _ => N.eqb c BAR | [] => false end.

  Definition wf_rule (sp : dspec) (p : str) (ex : bool) (m : option str) : bool :=
    edges_ok p                                                        (* non-empty, no outer white space *)
    && (if d_tilde sp then tilde_fixed p else true)                   (* single blanks, no ~ or ~/x word *)
    && implb ex (d_anchor sp)                                         (* | only where the directive knows it *)
    && (match m with Some _ => d_msg sp | None => true end)           (* message only where the directive knows it *)
    && (if d_anchor sp && negb ex then negb (ends_with_bar p) else true)
    && (match m with None => if d_msg sp && negb ex then no_message p else true | Some _ => true end).

  Definition no_space (s : str) : bool := forallb (fun c => negb (is_space c)) s.
  Definition wf_alias (src tgt : str) : bool :=
    nonempty src && nonempty tgt && no_space src && no_space tgt
    && match expand_home_only src with Ok s' => str_eqb s' src | Exn _ => false end.

  (* ---------------------------------------------------------------- whole files of rules *)
  Record rule_value := mkrv { v_dir : str; v_pat : str; v_exact : bool; v_msg : option str }.
  Definition spec_of (v : rule_value) : option dspec := find_dir (v_dir v) rule_dirs.
  Definition write_value (v : rule_value) : str :=
    v_dir v ++ [SP] ++ v_pat v ++ (if v_exact v then [SP; BAR] else [])
      ++ match v_msg v with Some m => [SP; DQ] ++ escape m ++ [DQ] | None => [] end.
  Definition value_effect (v : rule_value) : option effect :=
    match spec_of v with Some sp => Some (rule_effect sp (v_pat v) (v_exact v) (v_msg v)) | None => None end.
  Definition wf_value (v : rule_value) : bool :=
    match spec_of v with Some sp => wf_rule sp (v_pat v) (v_exact v) (v_msg v) | None => false end.
  Definition no_nl (s : str) : bool := negb (mem_ch NL s).
  Definition one_line (v : rule_value) : bool :=
    no_nl (v_pat v) && match v_msg v with Some m => no_nl m | None => true end.
  Definition write_config (vs : list rule_value) : str := join [NL] (map write_value vs).

  (* ---------------------------------------------------------------- loading (config.py 150-199, dippy.py 297-304, 366-371) *)
  (* what Path.read_text() of one layer does *)
  Inductive read_result :=
  | RText (t : str)            (* read and decoded *)
  | RAbsent                    (* is_file() false: missing, a directory, a dangling link; DIPPY_CONFIG unset,
                                  empty, or naming an unknown user's home (expanduser RuntimeError => skipped) *)
  | RPermission                (* PermissionError from read_text(), from is_file() of the user/env path, or from
                                  the walk of _find_project_config (all three are turned into ConfigError) *)
  | ROSError                   (* any other OSError (EIO, EISDIR after a race, ...) *)
  | RDecode                    (* UnicodeDecodeError - a ValueError, not an OSError *)
  | ROther.                    (* any other Exception subclass *)
  Inductive load_result := Loaded (cfgs : list config) | ConfigError | Propagated.

  (* _load_config_file: PermissionError and OSError become ConfigError, the rest propagates;
     an exception escaping parse_config propagates too *)
  Definition load_file (r : read_result) : res (option config) * bool :=
    (* (result, is_config_error) *)
    match r with
    | RText t => match parse_config t with Ok c => (Ok (Some c), false) | Exn e => (Exn e, false) end
    | RAbsent => (Ok None, false)
    | RPermission | ROSError => (Exn ValueError, true)
    | RDecode | ROther => (Exn ValueError, false)
    end.
  (* load_config: user, project, env in order; the first failure ends it *)
  Fixpoint load_layers (rs : list read_result) (acc : list config) : load_result :=
    match rs with
    | [] => Loaded acc
    | r :: rs' =>
        match load_file r with
        | (Ok (Some c), _) => load_layers rs' (acc ++ [c])
        | (Ok None, _) => load_layers rs' acc
        | (Exn _, true) => ConfigError
        | (Exn _, false) => Propagated
        end
    end.
  (* main(): ConfigError => ask envelope; any other Exception => {} ; otherwise the analysis runs *)
  Inductive stage_answer := AnswerAsk | AnswerDefer | Analyse (cfgs : list config).
  Definition config_stage (rs : list read_result) : stage_answer :=
    match load_layers rs [] with
    | Loaded cs => Analyse cs
    | ConfigError => AnswerAsk
    | Propagated => AnswerDefer
    end.
  Definition unusable (r : read_result) : bool :=
    match r with RPermission | ROSError | RDecode | ROther => true | _ => false end.

  (* ---------------------------------------------------------------- rule families (C14) *)
  Definition mcp_effect (e : effect) : bool :=
    match e with ERule LMcp _ | ERule LAfterMcp _ => true | _ => false end.
  Definition shell_effect (e : effect) : bool :=
    match e with ERule LRules _ | ERule LRedirect _ | ERule LAfter _ | EAlias _ _ => true | _ => false end.
  Definition line_is (fam : effect -> bool) (l : str) : bool :=
    match step true l with Ok (Some e) => fam e | _ => false end.
  Definition mcp_view (c : config) : list rule * list rule := (c_mcp c, c_after_mcp c).
  Definition shell_view (c : config) : list rule * list rule * list rule * list (str * str) :=
    (c_rules c, c_redirect c, c_after c, c_aliases c).
End Oracles.

