(* config._classify_token, _expand_token, _normalize_*; the lexical normal form of a path.

   External behaviour is a Section variable:
     resolve1 p      = str(Path(p).resolve())
     resolve2 cwd t  = str((cwd / t).resolve())
     home            = str(Path.home())
   (RuntimeError for a symlink loop / undeterminable home and ValueError for an embedded NUL are
   outside this model.)  `norm` is what resolve() does to an absolute path on a filesystem
   without symbolic links: collapse "//", drop ".", let "dir/.." cancel, drop a trailing "/". *)
From DippyV Require Import Base.Str Model.Fnmatch.
From DippyV Require Gen.Tables.

Inductive kind := KUrl | KVar | KAbs | KHome | KUserHome | KRel | KBare.

Definition c_dollar : N := 36.
Definition s_dot : str := [c_dot].
Definition s_dotdot : str := [c_dot; c_dot].
Definition s_url : str := [58; c_slash; c_slash].       (* "://" *)
Definition s_home_slash : str := [c_tilde; c_slash].    (* "~/" *)

(* _classify_token(token, allow_url=...): a redirect target is always a file name *)
Definition classify_gen (allow_url : bool) (t : str) : kind :=
  if allow_url && infixb s_url t then KUrl
  else if prefixb [c_dollar] t then KVar
  else if prefixb [c_slash] t then KAbs
  else if str_eqb t [c_tilde] || prefixb s_home_slash t then KHome
  else if prefixb [c_tilde] t then KUserHome
  else if str_eqb t s_dot || str_eqb t s_dotdot || prefixb [c_dot; c_slash] t
          || prefixb [c_dot; c_dot; c_slash] t || mem_ch c_slash t then KRel
  else KBare.
Definition classify (t : str) : kind := classify_gen true t.

(* ---- lexical normal form ---- *)
Definition seg_step (stack : list str) (seg : str) : list str :=
  if str_eqb seg [] || str_eqb seg s_dot then stack
  else if str_eqb seg s_dotdot then tl stack
  else seg :: stack.

(* s.split(c), written without an accumulator *)
Fixpoint splitc (c : N) (s : str) : list str :=
  match s with
  | [] => [[]]
  | x :: s' =>
      if N.eqb x c then [] :: splitc c s'
      else match splitc c s' with
           | h :: t => (x :: h) :: t
           | [] => [[x]]
           end
  end.

Definition segs_of (p : str) : list str := rev (fold_left seg_step (splitc c_slash p) []).
Definition of_segs (l : list str) : str := c_slash :: join [c_slash] l.
(* normal form of an absolute path *)
Definition norm (p : str) : str := of_segs (segs_of p).

(* pathlib's cwd / t as a string (up to what resolve() normalises anyway) *)
Definition pjoin (cwd t : str) : str := if prefixb [c_slash] t then t else cwd ++ c_slash :: t.

Section Paths.
  Variable resolve1 : str -> str.
  Variable resolve2 : str -> str -> str.
  Variable home : str.

  Definition expand_token (cwd : str) (force : bool) (t : str) : str :=
    match classify_gen (negb force) t with
    | KUrl | KVar | KUserHome => t
    | KAbs => resolve1 t
    | KHome => resolve1 (home ++ tl t)
    | KRel => resolve2 cwd t
    | KBare => if force then resolve2 cwd t else t
    end.

  Definition normalize_token (cwd t : str) : str := expand_token cwd false t.
  (* _expand_home_only: ~ and ~/x get the home directory in front, nothing is resolved; every other
     token (also ~user, $VAR, a token with "://") is returned as written *)
  Definition expand_home_only (t : str) : str :=
    match classify t with KHome => home ++ tl t | _ => t end.
  Definition normalize_words (cwd : str) (ws : list str) : str :=
    join [c_sp] (map (normalize_token cwd) ws).
End Paths.

(* str.split(): runs of code points with str.isspace() (table regenerated from the interpreter) *)
Definition py_space (c : N) : bool := in_ranges c Gen.Tables.PY_SPACE.
Fixpoint split_py_aux (s : str) (cur : str) : list str :=
  match s with
  | [] => match cur with [] => [] | _ => [rev cur] end
  | x :: s' =>
      if py_space x then
        match cur with [] => split_py_aux s' [] | _ => rev cur :: split_py_aux s' [] end
      else split_py_aux s' (x :: cur)
  end.
Definition split_py (s : str) : list str := split_py_aux s [].

Section Paths2.
  Variable resolve1 : str -> str.
  Variable resolve2 : str -> str -> str.
  Variable home : str.

  Definition normalize_pattern (cwd p : str) : str :=
    join [c_sp] (map (normalize_token resolve1 resolve2 home cwd) (split_py p)).

  (* _normalize_path: path.rstrip("/") - but "/", "//", ... stay the root - then force_path=True *)
  Definition strip_target (p : str) : str :=
    let t := rstrip [c_slash] p in
    if nonempty p && negb (nonempty t) then [c_slash] else t.
  Definition normalize_path (cwd p : str) : str :=
    expand_token resolve1 resolve2 home cwd true (strip_target p).

  (* the absolute path a target denotes, read lexically (the specification side of C09) *)
  Definition is_home (p : str) : bool := str_eqb p [c_tilde] || prefixb s_home_slash p.
  Definition full (cwd p : str) : str := if is_home p then home ++ tl p else pjoin cwd p.
  Definition nf (cwd p : str) : str := norm (full cwd p).
End Paths2.

(* Legacy: _normalize_path before the repair 67c5613 ("a redirect target is always a file name,
   and '/' is the root directory"): URL classification also for targets, "/" stripped to "". *)
Section Legacy.
  Variable resolve1 : str -> str.
  Variable resolve2 : str -> str -> str.
  Variable home : str.
  Definition legacy_normalize_path (cwd p : str) : str :=
    let t := rstrip [c_slash] p in
    match classify t with
    | KUrl | KVar | KUserHome => t
    | KAbs => resolve1 t
    | KHome => resolve1 (home ++ tl t)
    | KRel | KBare => resolve2 cwd t
    end.
End Legacy.

(* the symlink-free hypothesis under which C09 is stated *)
Definition lexical (resolve1 : str -> str) (resolve2 : str -> str -> str) : Prop :=
  (forall p, resolve1 p = norm p) /\ (forall cwd t, resolve2 cwd t = norm (pjoin cwd t)).
