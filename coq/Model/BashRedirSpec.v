(* SPEC (trusted, validated against real bash by harness/c02.py): which redirections make bash open
   a file for writing, in terms of the operator text and target word the parser reports.
   The operator text is an optional fd prefix (digits, or {varname}) followed by the bare operator;
   "N>&word" is reported as operator "N>" with the target word "&word": it duplicates/closes/moves a
   descriptor when word is a number, "-" or "N-", and otherwise writes the file named word. *)
From DippyV Require Import Base.Str.

(* bare operators after which bash opens the target for writing (creating/truncating/appending) *)
Definition bash_write_ops : list str := [$">"; $">>"; $">|"; $"&>"; $"&>>"; $"<>"].
(* ">&word" / "<&word": duplication when word is a number or "-", otherwise (for >&) a file *)
Definition bash_dup_op : str := $">&".

Definition is_fd_digit (c : N) : bool := mem_ch c ascii_digits.

(* does the redirection (fd-less operator [bare], file word [t] - see Walker.redirect_file for how the
   parser's "&word" targets are decomposed - ) open the file t for writing? *)
Definition bash_writes_bare (bare t : str) : bool :=
  if mem_str bare bash_write_ops then true
  else if str_eqb bare bash_dup_op then negb (is_ascii_digits t || str_eqb t [45])
  else false.

(* an fd prefix as the parser reports it in front of the operator *)
Inductive fd_prefix := FdNone | FdNum (ds : str) | FdVar (name : str).
Definition fd_text (p : fd_prefix) : str :=
  match p with FdNone => [] | FdNum ds => ds | FdVar n => [123] ++ n ++ [125] end.
Definition fd_wf (p : fd_prefix) : bool :=
  match p with
  | FdNone => true
  | FdNum ds => forallb is_fd_digit ds
  | FdVar n => negb (mem_ch 125 n)          (* a variable name contains no "}" *)
  end.

(* targets that are not files: bash duplicates/closes a descriptor, or the kernel discards *)
Definition nonfile_sinks : list str := [$"/dev/null"; $"/dev/stdout"; $"/dev/stdin"].
