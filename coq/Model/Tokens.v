(* Model of dippy/core/parser.py: _strip_quotes and _extract_tokens (what tokenize() returns once Parable has
   parsed the command; the parser itself and tokenize's `try/except -> []` stay outside: C19).
   The AST is the generic rose tree of Base/Tree.v (kind, str attributes, labelled children). *)
From Coq Require Import List Bool NArith String.
From DippyV Require Import Base.Str Base.Sx Base.Tree.
Import ListNotations.
Open Scope N_scope.

Definition dquote : N := 34.
Definition squote : N := 39.

(* _strip_quotes: len >= 2 and the same quote character first and last -> value[1:-1] *)
Definition strip_quotes (v : str) : str :=
  match v with
  | a :: b :: r =>
      let z := last (b :: r) 0 in
      if ((a =? dquote) && (z =? dquote)) || ((a =? squote) && (z =? squote)) then removelast (b :: r) else v
  | _ => v
  end.

Definition word_value (w : tree) : str := strip_quotes (attr_d "value" w).

(* the first part of a list that is not an operator *)
Fixpoint first_part (l : list (str * bool * list str)) : list str :=
  match l with
  | [] => []
  | (lbl, is_op, toks) :: r => if str_eqb lbl $"parts" && negb is_op then toks else first_part r
  end.
Fixpoint first_labelled (lbl : str) (l : list (str * bool * list str)) : list str :=
  match l with
  | [] => []
  | (lb, _, toks) :: r => if str_eqb lb lbl then toks else first_labelled lbl r
  end.

(* one iteration of the loop of _extract_tokens, i.e. _extract_tokens([node]) *)
Fixpoint node_tokens (t : tree) : list str :=
  match t with
  | T k ss fs ks =>
      let sub := (fix go (l : list (str * tree)) : list (str * bool * list str) :=
                    match l with
                    | [] => []
                    | (lbl, c) :: r => (lbl, is_kind "operator" c, node_tokens c) :: go r
                    end) ks in
      if str_eqb k $"word" then [word_value t]
      else if str_eqb k $"command" then map word_value (children "words" t)
      else if str_eqb k $"pipeline" then first_labelled $"commands" sub      (* node.commands[0], if any *)
      else if str_eqb k $"list" then first_part sub                          (* first part that is no operator; break *)
      else []
  end.

(* _extract_tokens(nodes): the loop EXTENDS the result for every top-level node *)
Definition extract_tokens (nodes : list tree) : list str := flat_map node_tokens nodes.

(* ---- specification: the first simple command of a node, found by descent *)
Fixpoint first_simple_fuel (fuel : nat) (t : tree) : option tree :=
  match fuel with
  | O => None
  | S f =>
      if is_kind "word" t || is_kind "command" t then Some t
      else if is_kind "pipeline" t then
        match children "commands" t with c :: _ => first_simple_fuel f c | [] => None end
      else if is_kind "list" t then
        match filter (fun p => negb (is_kind "operator" p)) (children "parts" t) with
        | p :: _ => first_simple_fuel f p
        | [] => None
        end
      else None
  end.

Definition simple_words (c : tree) : list str :=
  if is_kind "word" c then [word_value c] else map word_value (children "words" c).

Fixpoint depth (t : tree) : nat :=
  match t with
  | T _ _ _ ks => S ((fix go (l : list (str * tree)) : nat :=
                        match l with [] => O | (_, c) :: r => Nat.max (depth c) (go r) end) ks)
  end.
Definition first_simple (t : tree) : option tree := first_simple_fuel (depth t) t.
