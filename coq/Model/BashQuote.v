(* core/bash.py: bash_quote / bash_join  (MODEL)
   and a SPEC of how bash reads back the text they produce: word splitting and quote removal on
   the fragment of the shell language that uses only literal characters, single-quoted and
   double-quoted segments without expansions.  Outside that fragment the spec answers None (it never guesses). *)
From DippyV Require Import Base.Str Gen.Tables.

(* ------------------------------------------------------------------ model *)
(* c.isalnum() for one code point (table generated from this interpreter) *)
Definition py_isalnum (c : N) : bool := in_ranges c PY_ALNUM.

(* the literal safe punctuation of bash_quote:  - _ . / = @ :  *)
Definition quote_safe_punct : list N := [45; 95; 46; 47; 61; 64; 58].
Definition quote_safe (c : N) : bool := py_isalnum c || mem_ch c quote_safe_punct.

Definition SQ : N := 39.  (* single quote *)
Definition DQ : N := 34.  (* double quote *)

(* s.replace(SQ, SQ DQ SQ DQ SQ) *)
Definition esc_sq (s : str) : str :=
  flat_map (fun c => if N.eqb c SQ then [SQ; DQ; SQ; DQ; SQ] else [c]) s.

Definition bash_quote (s : str) : str :=
  match s with
  | [] => [SQ; SQ]
  | _ => if forallb quote_safe s then s else SQ :: esc_sq s ++ [SQ]
  end.

Definition bash_join (ts : list str) : str := join [32] (map bash_quote ts).

(* analyzer._strip_quotes (quote removal, mirrored here because the walker is another model):
   words without quote or backslash, and words with a dollar sign right before a quote, are returned
   unchanged; otherwise literal text, single-quoted segments, double-quoted segments (backslash only
   before dollar, backquote, double quote, backslash, newline) and backslash escapes are undone; an
   unterminated quote gives the word back unchanged. *)
Definition BS : N := 92.
Definition DOLLAR : N := 36.
Inductive ustate := UOut | USq | UDq | UOutBs | UDqBs.
Definition dq_escapable : list N := [36; 96; 34; 92].      (* dollar backquote dquote backslash *)
Fixpoint unq (s : str) (st : ustate) : option str :=
  match s with
  | [] => match st with UOut => Some [] | UOutBs => Some [BS] | _ => None end
  | c :: r =>
      let keep (k : option str) := match k with Some x => Some (c :: x) | None => None end in
      match st with
      | UOut => if N.eqb c SQ then unq r USq
                else if N.eqb c DQ then unq r UDq
                else if N.eqb c BS then unq r UOutBs
                else keep (unq r UOut)
      | UOutBs => if N.eqb c 10 then unq r UOut else keep (unq r UOut)
      | USq => if N.eqb c SQ then unq r UOut else keep (unq r USq)
      | UDq => if N.eqb c DQ then unq r UOut
               else if N.eqb c BS then unq r UDqBs
               else keep (unq r UDq)
      | UDqBs => if mem_ch c dq_escapable then keep (unq r UDq)
                 else if N.eqb c 10 then unq r UDq
                 else match unq r UDq with Some x => Some (BS :: c :: x) | None => None end
      end
  end.
Definition has_dollar_quote (v : str) : bool := infixb [DOLLAR; SQ] v || infixb [DOLLAR; DQ] v.
Definition strip_quotes (v : str) : str :=
  if negb (mem_ch SQ v) && negb (mem_ch DQ v) && negb (mem_ch BS v) then v
  else if has_dollar_quote v then v
  else match unq v UOut with Some x => x | None => v end.

(* the string the ladder receives for a word that bash_quote wrote and the parser read back as
   one word *)
Definition reread (w : str) : str := strip_quotes (bash_quote w).

(* ------------------------------------------------------------------ spec *)
(* bash's lexer on bytes/characters: blanks separate words (sh_syntaxtab CBLANK: space and tab);
   every code point >= 128 is an ordinary word character (the lexer's tables are indexed by
   unsigned char and built in the C locale; validated against real bash for every code point
   Python calls alphanumeric - harness/c04.py);  among ASCII, only the characters listed in
   [plain_ascii] are claimed to be literal when unquoted: every other ASCII character (control
   characters, newline, quotes and the punctuation  ! # $ & ( ) * ; < > ? [ \ ] ^ ` { | } ~ ) is
   outside the fragment when unquoted. *)
Definition is_blank (c : N) : bool := N.eqb c 32 || N.eqb c 9.

Definition ascii_alnum (c : N) : bool :=
  (N.leb 48 c && N.leb c 57) || (N.leb 65 c && N.leb c 90) || (N.leb 97 c && N.leb c 122).
(* % + , - . / : = @ _ *)
Definition plain_punct : list N := [37; 43; 44; 45; 46; 47; 58; 61; 64; 95].
Definition unq_literal (c : N) : bool :=
  if N.ltb c 128 then ascii_alnum c || mem_ch c plain_punct else true.

(* inside double quotes everything is literal except the closing quote and $ ` \ ! (outside the fragment) *)
Definition dq_special : list N := [36; 96; 92; 33].
Definition dq_literal (c : N) : bool := negb (mem_ch c dq_special).

Inductive qstate := QU | QS | QD.

(* cur = the word in progress (None: between words; Some []: an empty quoted word so far) *)
Definition emit (cur : option str) (k : option (list str)) : option (list str) :=
  match cur with
  | None => k
  | Some w => match k with Some l => Some (w :: l) | None => None end
  end.
Definition grow (cur : option str) (c : N) : option str :=
  match cur with None => Some [c] | Some w => Some (w ++ [c]) end.
Definition open_q (cur : option str) : option str :=
  match cur with None => Some [] | Some w => Some w end.

Fixpoint bw (s : str) (st : qstate) (cur : option str) : option (list str) :=
  match s with
  | [] => match st with QU => emit cur (Some []) | _ => None end      (* unterminated quote *)
  | c :: r =>
      match st with
      | QU =>
          if is_blank c then emit cur (bw r QU None)
          else if N.eqb c SQ then bw r QS (open_q cur)
          else if N.eqb c DQ then bw r QD (open_q cur)
          else if unq_literal c then bw r QU (grow cur c)
          else None
      | QS => if N.eqb c SQ then bw r QU cur else bw r QS (grow cur c)
      | QD =>
          if N.eqb c DQ then bw r QU cur
          else if dq_literal c then bw r QD (grow cur c)
          else None
      end
  end.

(* the argument words bash obtains from a command text in the fragment *)
Definition bash_words (s : str) : option (list str) := bw s QU None.
