(* C18 - the walk of the history oracle over a pool of n queries (harness/c18.py takes the walk from
   here, Entry/CacheE.v `pair_walk`): one sequence of pool indices in which EVERY ordered pair
   (leaker, victim) - the pair (i, i) included - occurs as two consecutive elements, so that one
   process that analyses the pool in this order has asked every victim directly after every leaker.

     block i  =  i i  i i+1  i i+2 ... i n-1  i          (pairs (i,j) and (j,i) for every j >= i)
     walk  n  =  block 0 ++ block 1 ++ ... ++ block (n-1)

   Proofs/PairWalkP.v: completeness, range and length (n*n + 2*n). *)
From Coq Require Import List.
Import ListNotations.

Fixpoint zig (i : nat) (js : list nat) : list nat :=
  match js with
  | [] => []
  | j :: r => i :: j :: zig i r
  end.
Definition block (n i : nat) : list nat := zig i (seq i (n - i)) ++ [i].
Definition pair_walk (n : nat) : list nat := flat_map (block n) (seq 0 n).

(* a then b, consecutively *)
Definition adjacent (a b : nat) (l : list nat) : Prop := exists l1 l2, l = l1 ++ a :: b :: l2.
